(* C02 -- flat indices: label <-> position bijection.  MODELS ONLY (no proofs).

   S_*  specification: an index over the label sequence l IS the list l; lookup = first position,
        membership = list membership, construction accepted iff the labels are pairwise distinct.
   M_*  implementation model of static_frame/core/index.py:
          amap            = automap.FrozenAutoMap / AutoMap  (oracle model: insertion-ordered hash map
                            label -> position that raises ValueError on a duplicate key)
          M_index_init    = Index.__init__                      index.py:457-478
          M_index_auto    = IndexAutoFactory (loc_is_iloc=True) index_auto.py:20-41  (no map at all)
          M_loc_to_iloc   = Index.loc_to_iloc / LocMap.loc_to_iloc element, list and slice keys
                                                                index.py:193-265, 981-1022
          M_contains      = Index.__contains__                  index.py:1162-1169
          go / M_go_*     = _IndexGOMixin: _labels_mutable, _positions_mutable_count, _recache,
                            append / extend / _update_array_cache   index.py:1418-1477
   Labels are drawn from a type C with decidable equality `ceqb`; a KEY presented by the caller is a
   pair (c, int_typed): the label it is equal to (Python ==/hash) and whether its Python class is an
   integer type (int, bool, numpy integer) -- the only thing besides equality the code looks at
   (`isinstance(value, INT_TYPES)` on the map-less fast paths). *)
Require Import SF.Prelude SF.PySlice Gen.Gen_c02.
Require Export SF.IndexBijSpec.

Section Flat.
  Variable C : Type.
  Variable ceqb : C -> C -> bool.
  Variable of_Z : Z -> C.            (* the label that is the integer z *)
  Variable to_Z : C -> option Z.     (* Some z iff the label equals the integer z *)

  Notation key := (key C).
  Notation obs := (obs C).
  Notation op := (op C).
  Notation memb := (memb ceqb).

  (* isinstance(value, INT_TYPES): bool is a subclass of int *)

  (* ------------------------------------------------------------------ specification *)

  (* first position of x *)

  (* what can be observed of an index (probed with a list of keys) *)

  (* construction: accepted iff pairwise distinct *)

  (* ------------------------------------------------------------------ AutoMap oracle *)
  Definition amap := list (C * Z).

  Fixpoint am_get (m : amap) (x : C) : option Z :=
    match m with
    | [] => None
    | (y, i) :: m' => if ceqb x y then Some i else am_get m' x
    end.

  Definition am_add (m : amap) (x : C) : res amap :=
    match am_get m x with
    | Some _ => Err "ValueError"
    | None => Ok (m ++ [(x, zlen m)])
    end.

  Fixpoint am_extend (m : amap) (l : list C) : res amap :=
    match l with
    | [] => Ok m
    | x :: xs => match am_add m x with Ok m' => am_extend m' xs | Err e => Err e end
    end.

  Definition am_build (l : list C) : res amap := am_extend [] l.

  (* ------------------------------------------------------------------ static Index *)
  Record index := mk_index {
    ix_labels : list C;          (* _labels *)
    ix_map : option amap         (* _map; None = loc_is_iloc *)
  }.

  (* Index(labels): index.py:457-466 *)
  Definition M_index_init (l : list C) : res index :=
    match am_build l with
    | Ok m => Ok (mk_index l (Some m))
    | Err _ => Err gen_init_dup_error        (* regenerated from Index.__init__: "ErrorInitIndex" *)
    end.

  (* Index(labels, dtype=...) with non-array labels: the map is built from the labels AS GIVEN
     (index.py:460) and only afterwards _extract_labels casts them to the dtype (index.py:477, 353):
     `cast` = the labels after NumPy's conversion *)
  Definition M_index_init_dtype (raw cast : list C) : res index :=
    match am_build (if gen_init_dtype_casts_first then cast else raw) with
    | Ok m => Ok (mk_index cast (Some m))
    | Err _ => Err gen_init_dup_error
    end.

  (* IndexAutoFactory: labels = positions = arange(n), no map *)
  Definition M_index_auto (n : nat) : index := mk_index (map of_Z (iota n)) None.

  (* the integer a key denotes on the map-less paths: numpy accepts int/bool/np.integer only *)
  Definition key_int (k : key) : option Z := if int_typed k then to_Z (fst k) else None.

  (* `self._positions[key]` followed by `return key` (index.py:995-1020) on an arange(n):
     an int is bounds-checked by NumPy with negative wrap-around (and the KEY, not the element, is
     returned); a bool is a NumPy mask scalar and never raises; None is np.newaxis and never raises
     (the key None is returned: not a position at all); anything else is an IndexError -> KeyError *)
  Definition positions_getitem_raw (n : Z) (k : key) : res Z :=
    match snd k with
    | KInt => match to_Z (fst k) with
              | Some z => if (- n <=? z) && (z <? n) then Ok z else Err "KeyError"
              | None => Err "KeyError"
              end
    | KBool => match to_Z (fst k) with Some z => Ok z | None => Err "KeyError" end
    | KNone => Err "NotAPosition"
    | KOther => Err "KeyError"
    end.

  (* the same with the element key validated against [0, n) before it is returned (the repair proposed
     for finding C02-auto-unvalidated-key); which of the two the code does is re-read from the source *)
  Definition positions_getitem_valid (n : Z) (k : key) : res Z :=
    match key_int k with
    | Some z => if (0 <=? z) && (z <? n) then Ok z else Err "KeyError"
    | None => Err "KeyError"
    end.

  Definition positions_getitem (n : Z) (k : key) : res Z :=
    if gen_auto_lookup_validates then positions_getitem_valid n k else positions_getitem_raw n k.

  (* Index.loc_to_iloc, element key.  index.py:989-1022 (no map: self._positions[key], so a negative
     integer in [-n, 0) is answered) and LocMap.loc_to_iloc index.py:262-265 (map lookup) *)
  Definition M_loc_to_iloc (ix : index) (k : key) : res Z :=
    match ix_map ix with
    | Some m => match am_get m (fst k) with Some i => Ok i | None => Err "KeyError" end
    | None => positions_getitem (zlen (ix_labels ix)) k
    end.

  (* Index.__contains__  index.py:1162-1169 *)
  Definition M_contains (ix : index) (k : key) : bool :=
    match ix_map ix with
    | Some m => match am_get m (fst k) with Some _ => true | None => false end
    | None =>
        match key_int k with
        | Some z => (0 <=? z) && (z <? zlen (ix_labels ix))
        | None => false
        end
    end.

  Definition M_observe (ix : index) (probes : list key) : obs :=
    let l := ix_labels ix in
    mk_obs l l (rev l) (zlen l) (iota (length l)) l
           (map (M_loc_to_iloc ix) probes) (map (M_contains ix) probes).

  Definition M_index (l : list C) (probes : list key) : res obs :=
    match M_index_init l with Ok ix => Ok (M_observe ix probes) | Err e => Err e end.

  Definition M_index_dtype (raw cast : list C) (probes : list key) : res obs :=
    match M_index_init_dtype raw cast with Ok ix => Ok (M_observe ix probes) | Err e => Err e end.

  Definition M_auto (n : nat) (probes : list key) : obs := M_observe (M_index_auto n) probes.

  (* list-of-labels key: LocMap.loc_to_iloc index.py:254-260: [label_to_pos[k] for k in key] *)

  Definition M_loc_to_iloc_list (ix : index) (ks : list key) : res (list Z) :=
    res_list (map (M_loc_to_iloc ix) ks).

  (* slice-of-labels key on an index with a map: LocMap.map_slice_args index.py:176-195:
     start -> pos; stop -> pos + 1 (inclusive) when the step is None or positive, and when walking down
     (fix c6f9ada) pos - 1, or None when that would be negative; step passed through *)

  Definition M_loc_to_iloc_slice (m : amap) :=
    loc_slice (fun k => match am_get m (fst k) with Some i => Ok i | None => Err "KeyError" end).

  (* ------------------------------------------------------------------ derivations (specification)
     every derivation of index.py builds its result through the constructor, so the derived index is
     M_index_init (labels the derivation computes); these are the label computations. *)

  (* Index.roll(shift): label at position i moves to (i + shift) mod n *)

  (* ------------------------------------------------------------------ grow-only Index *)
  Record go := mk_go {
    g_labels : list C;      (* _labels: the cached array (stale while g_recache) *)
    g_mut : list C;         (* _labels_mutable *)
    g_map : option amap;    (* _map (AutoMap), None = loc_is_iloc *)
    g_count : Z;            (* _positions_mutable_count *)
    g_recache : bool;       (* _recache *)
    g_npos : Z              (* len(_positions): the cached positions array (stale while g_recache) *)
  }.

  Definition M_go_init (l : list C) : res go :=
    match am_build l with
    | Ok m => Ok (mk_go l l (Some m) (zlen l) false (zlen l))
    | Err _ => Err gen_init_dup_error
    end.

  Definition M_go_auto (n : nat) : go :=
    let l := map of_Z (iota n) in mk_go l l None (zlen l) false (zlen l).

  (* _update_array_cache  index.py:1418-1431 *)
  Definition M_go_recache (g : go) : go :=
    if g_recache g then mk_go (g_mut g) (g_mut g) (g_map g) (g_count g) false (g_count g) else g.

  (* len(self): recache, then len(self._labels) *)
  Definition M_go_len (g : go) : Z := zlen (g_labels (M_go_recache g)).

  Definition M_go_contains (g : go) (k : key) : bool :=
    match g_map g with
    | Some m => match am_get m (fst k) with Some _ => true | None => false end
    | None => match key_int k with
              | Some z => (0 <=? z) && (z <? M_go_len g)
              | None => false
              end
    end.

  (* __contains__ on a map-less index evaluates len(self) (which refreshes the cache) only for an
     integer-typed value >= 0 *)
  Definition M_go_touch_contains (g : go) (k : key) : go :=
    match g_map g, key_int k with
    | None, Some z => if 0 <=? z then M_go_recache g else g
    | _, _ => g
    end.

  (* append  index.py:1436-1469.  Outcome: Ok tt, or the error class raised.  On the promotion path
     (initialize_map) the map is built from the labels plus the new value; whether that happens before
     or after the value is pushed onto _labels_mutable, and the class a duplicate surfaces as, are
     re-read from the source (gen_go_push_before_map = false, gen_go_promote_error = "KeyError" since
     fix feb832d: a rejected append leaves the state unchanged). *)
  Definition M_go_append (g : go) (k : key) : go * res unit :=
    let g1 := M_go_touch_contains g k in
    if M_go_contains g k then (g1, Err gen_append_dup_error)
    else
      match g_map g1 with
      | Some m =>
          match am_add m (fst k) with
          | Err e => (g1, Err e)
          | Ok m' => (mk_go (g_labels g1) (g_mut g1 ++ [fst k]) (Some m') (g_count g1 + 1) true (g_npos g1), Ok tt)
          end
      | None =>
          let keep_auto := match key_int k with Some z => z =? g_count g1 | None => false end in
          let mut' := g_mut g1 ++ [fst k] in
          if keep_auto then (mk_go (g_labels g1) mut' None (g_count g1 + 1) true (g_npos g1), Ok tt)
          else match am_build mut' with
               | Ok m => (mk_go (g_labels g1) mut' (Some m) (g_count g1 + 1) true (g_npos g1), Ok tt)
               | Err _ => (mk_go (g_labels g1) (if gen_go_push_before_map then mut' else g_mut g1) None
                                 (g_count g1) (g_recache g1) (g_npos g1),
                           Err gen_go_promote_error)
               end
      end.

  (* extend  index.py:1487-1500.  Since fix c675c22 every value is validated first -- refused when it
     is contained (self.__contains__) or repeated within the values (a set of the values seen) -- and
     only then are the values appended one by one.  Whether the validation loop exists is re-read from
     the source (gen_extend_validates_first); without it the appends run directly. *)
  Fixpoint M_go_extend_seq (g : go) (ks : list key) : go * res unit :=
    match ks with
    | [] => (g, Ok tt)
    | k :: ks' => match M_go_append g k with
                  | (g', Ok _) => M_go_extend_seq g' ks'
                  | (g', Err e) => (g', Err e)
                  end
    end.

  Fixpoint M_ext_validate (g : go) (seen : list C) (ks : list key) : bool :=
    match ks with
    | [] => true
    | k :: ks' => if M_go_contains g k || memb (fst k) seen then false
                  else M_ext_validate g (fst k :: seen) ks'
    end.

  Definition M_go_extend (g : go) (ks : list key) : go * res unit :=
    if gen_extend_validates_first then
      let g1 := fold_left M_go_touch_contains ks g in      (* __contains__ may refresh the caches *)
      if M_ext_validate g [] ks then M_go_extend_seq g1 ks else (g1, Err gen_append_dup_error)
    else M_go_extend_seq g ks.

  Definition M_go_step (g : go) (o : op) : go * res unit :=
    match o with
    | OpAppend k => M_go_append g k
    | OpExtend ks => M_go_extend g ks
    | OpTouch => (M_go_recache g, Ok tt)       (* any reader: len / values / iteration *)
    end.

  Fixpoint M_go_run (g : go) (ops : list op) : go * list (res unit) :=
    match ops with
    | [] => (g, [])
    | o :: ops' => let '(g1, r) := M_go_step g o in
                   let '(g2, rs) := M_go_run g1 ops' in (g2, r :: rs)
    end.

  Definition M_go_lookup (g : go) (k : key) : res Z :=
    match g_map g with
    | Some m => match am_get m (fst k) with Some i => Ok i | None => Err "KeyError" end
    | None =>  (* self._positions[key]; whether a stale cache is refreshed first is read from the source
                  (index.py:989-991; gen_loc_to_iloc_recaches = true since fix 41fcfc5) *)
        positions_getitem (if gen_loc_to_iloc_recaches then g_count g else g_npos g) k
    end.

  (* the harness probes loc_to_iloc and `in` FIRST (on the state the history left), then the readers *)
  Definition M_go_observe (g : go) (probes : list key) : obs :=
    let g' := M_go_recache g in
    let l := g_labels g' in
    mk_obs l l (rev l) (zlen l) (iota (Z.to_nat (g_npos g'))) l
           (map (M_go_lookup g) probes) (map (M_go_contains g) probes).

  (* ---- specification of a grow-only index: a list that accepts exactly the new labels *)

  (* extend is all-or-nothing: accepted iff no value is held and no value is repeated; then every
     value is appended in order, otherwise the index is unchanged *)

  (* the guard of the history theorem: the values of an extend must be keys on which the membership
     test of the index is plain list membership -- on a map-less (auto-integer) index a key that EQUALS
     a held position but is not integer-typed (1.0 on [0,1]) is not "contained" (finding
     C02-auto-float-key), passes the validation of extend and is only refused by its own append, after
     the values before it have been appended *)
  Definition go_key_ok (g : go) (k : key) : bool :=
    match g_map g with
    | Some _ => true
    | None => int_typed k || negb (memb (fst k) (g_mut g))
    end.

  Definition go_step_dom (g : go) (o : op) : bool :=
    match o with
    | OpExtend ks => forallb (go_key_ok g) ks
    | _ => true
    end.

  Fixpoint go_dom (g : go) (ops : list op) : bool :=
    match ops with
    | [] => true
    | o :: ops' => go_step_dom g o && go_dom (fst (M_go_step g o)) ops'
    end.

End Flat.

   
   

Arguments mk_index {C}. Arguments ix_labels {C}. Arguments ix_map {C}.
Arguments mk_go {C}. Arguments g_labels {C}. Arguments g_mut {C}. Arguments g_map {C}.
Arguments g_count {C}. Arguments g_recache {C}. Arguments g_npos {C}.
  
   
  
Arguments am_get {C}. Arguments am_add {C}. Arguments am_extend {C}. Arguments am_build {C}.
 Arguments positions_getitem {C}. Arguments positions_getitem_raw {C}. Arguments positions_getitem_valid {C}. Arguments M_index_init {C}. Arguments M_index_init_dtype {C}. Arguments M_index_dtype {C}. Arguments M_index_auto {C}. Arguments key_int {C}.
Arguments M_loc_to_iloc {C}. Arguments M_contains {C}. Arguments M_observe {C}.
Arguments M_index {C}. Arguments M_auto {C}. 
Arguments M_loc_to_iloc_list {C}.  
Arguments M_loc_to_iloc_slice {C}. 
   
Arguments M_go_init {C}. Arguments M_go_auto {C}. Arguments M_go_recache {C}. Arguments M_go_len {C}.
Arguments M_go_contains {C}. Arguments M_go_touch_contains {C}. Arguments M_go_append {C}.
Arguments M_go_extend {C}. Arguments M_go_extend_seq {C}. Arguments M_ext_validate {C}. 
Arguments go_key_ok {C}. Arguments go_step_dom {C}. Arguments go_dom {C}. Arguments M_go_step {C}. Arguments M_go_run {C}. Arguments M_go_lookup {C}.
Arguments M_go_observe {C}.  
  
