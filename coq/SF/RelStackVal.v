(* C20 -- pivot_stack / pivot_unstack models at observed values + comparators.  Labels are tuples
   (list val; a depth-1 label is a 1-tuple). *)
Require Import SF.Prelude SF.Dtype SF.Value SF.RelJoinVal SF.RelStack.

Definition tup := list val.
Definition tup_eqb : tup -> tup -> bool := list_eqb val_eqb.
Definition vsframe := sframe val tup tup.

Definition vsf (rows cols : list tup) (cells : list (list val)) : vsframe := mk_sframe rows cols cells.
Definition vsf_c (rows : list tup) (cols : list (tup * tup)) (cells : list (list val)) : sframe val tup (tup * tup) := mk_sframe rows cols cells.
Definition vsf_r (rows : list (tup * tup)) (cols : list tup) (cells : list (list val)) : sframe val (tup * tup) tup := mk_sframe rows cols cells.
Definition OkS (f : vsframe) : res vsframe := Ok f.
Definition ErrS (e : string) : res vsframe := Err e.

(* the contract axis keeps the group labels; with nothing left of it the axis is the auto index 0..n-1 *)
Definition group_label (i : nat) (g : tup) : tup := match g with [] => [VInt (Z.of_nat i)] | _ => g end.
Definition group_labels (gs : list tup) : list tup := map (fun ig => group_label (fst ig) (snd ig)) (combine (seq 0 (length gs)) gs).

Definition stack_view (f : sframe val (tup * tup) tup) : vsframe :=
  mk_sframe (map (fun rt => fst rt ++ snd rt) (sf_rows f)) (group_labels (sf_cols f)) (sf_cells f).
Definition unstack_view (f : sframe val tup (tup * tup)) : vsframe :=
  mk_sframe (group_labels (sf_rows f)) (map (fun ct => fst ct ++ snd ct) (sf_cols f)) (sf_cells f).

Definition M_stack_v (fill : val) (f : sframe val tup (tup * tup)) : vsframe :=
  stack_view (M_stack tup_eqb tup_eqb fill f).
Definition S_stack_v (fill : val) (f : sframe val tup (tup * tup)) : vsframe :=
  stack_view (S_stack tup_eqb tup_eqb tup_eqb fill f).
(* M_unstack_v / unstack_m_ok: SF/RelStackGenVal.v (they depend on the regenerated flag; this file must not) *)
Definition S_unstack_v (fill : val) (f : sframe val (tup * tup) tup) : vsframe :=
  unstack_view (S_unstack tup_eqb tup_eqb tup_eqb fill f).

Definition sframe_shape_ok (f : vsframe) : bool :=
  (length (sf_cells f) =? length (sf_rows f))%nat &&
  forallb (fun r => (length r =? length (sf_cols f))%nat) (sf_cells f).

(* exact: labels in order, cells *)
Definition vsframe_eqb (a b : vsframe) : bool :=
  sframe_shape_ok a && sframe_shape_ok b &&
  list_eqb tup_eqb (sf_rows a) (sf_rows b) && list_eqb tup_eqb (sf_cols a) (sf_cols b) &&
  list_eqb (list_eqb obs_eqb) (sf_cells a) (sf_cells b).

(* label-keyed: same label sets, same cell at every (row label, column label) *)
Definition vget (f : vsframe) (r c : tup) : val := get_of tup_eqb tup_eqb f VNone r c.
Definition vsframe_keyed_eqb (a b : vsframe) : bool :=
  sframe_shape_ok a && sframe_shape_ok b &&
  perm_eqb tup_eqb (sf_rows a) (sf_rows b) && perm_eqb tup_eqb (sf_cols a) (sf_cols b) &&
  forallb (fun r => forallb (fun c => obs_eqb (vget a r c) (vget b r c)) (sf_cols a)) (sf_rows a).

Definition stack_m_ok (fill : val) (f : sframe val tup (tup * tup)) (obs : res vsframe) : bool :=
  match obs with Ok o => vsframe_eqb (M_stack_v fill f) o | Err _ => false end.
Definition stack_s_ok (fill : val) (f : sframe val tup (tup * tup)) (obs : res vsframe) : bool :=
  match obs with Ok o => vsframe_keyed_eqb (S_stack_v fill f) o | Err _ => false end.

Definition unstack_s_ok (fill : val) (f : sframe val (tup * tup) tup) (obs : res vsframe) : bool :=
  match obs with Ok o => vsframe_keyed_eqb (S_unstack_v fill f) o | Err _ => false end.

(* round trip on observed frames: f (columns split by the depth mask) --stack--> . --unstack(new depth)--> h:
   every original cell is found again at (row, group ++ target); every other cell of h is the fill value *)
Definition stack_roundtrip_ok (fill : val) (f : sframe val tup (tup * tup)) (h : vsframe) : bool :=
  let groups := uniq tup_eqb (map fst (sf_cols f)) in
  let targets := uniq tup_eqb (map snd (sf_cols f)) in
  let fv : sframe val tup (tup * tup) := f in
  sframe_shape_ok h &&
  perm_eqb tup_eqb (sf_rows h) (sf_rows f) &&
  perm_eqb tup_eqb (sf_cols h) (map (fun gt => fst gt ++ snd gt) (product (group_labels groups) targets)) &&
  forallb (fun r =>
    forallb (fun igt =>
      let g := snd (fst igt) in let t := snd igt in
      let lbl := group_label (fst (fst igt)) g ++ t in
      if existsb (gt_eqb tup_eqb tup_eqb (g, t)) (sf_cols f)
      then obs_eqb (vget h r lbl) (get_of tup_eqb (gt_eqb tup_eqb tup_eqb) fv VNone r (g, t))
      else obs_eqb (vget h r lbl) fill)
      (product (combine (seq 0 (length groups)) groups) targets))
    (sf_rows f).

(* ---- kernel level: pivot_index_map (pivot.py:149-216) called directly ----
   observed: the groups (dict order), targets_unique, and group_to_target_map as a table of positions *)
Definition pim_ok (labels : list (tup * tup)) (ogroups otargets : list tup) (otable : list (list (option nat))) : bool :=
  let groups := uniq tup_eqb (map fst labels) in
  let targets := uniq tup_eqb (map snd labels) in
  list_eqb tup_eqb groups ogroups && list_eqb tup_eqb targets otargets &&
  list_eqb (list_eqb (option_eqb Nat.eqb))
    (map (fun g => map (fun t => lookup_last tup_eqb t (target_map tup_eqb labels g)) targets) groups) otable.
