(* C07 -- no lossy coercion.  Executable models only (no proofs here).

   cv          cell values with EXACT numerics (floats are dyadic m*2^e), as the harness observes them
   same        the specification's cell relation: "the stored element compares equal to the supplied one
               and Booleans / numbers / strings / bytes / dates / durations are not cast into one another"
   holds d v   the value domain of a dtype: v can be stored in an array of dtype d without loss
   resolve     typed version of util.resolve_dtype (proved equal to the regenerated Gen.Gen_util.resolve_dtype)
   elem_dtype  util.dtype_from_element
   plan_*      the dtype decision procedures of the merging code paths (util.resolve_dtype_iter with its early exit,
               util.concat_resolved, util.full_for_fill, util.prepare_iter_for_array + NumPy discovery)
   M_check     implementation model: result dtype by the plan; a cell survives iff the result dtype holds it
   S_check     specification: every stored cell is `same` as the supplied cell *)
Require Import SF.Prelude SF.Dtype.
Local Open Scope string_scope.
Local Open Scope Z_scope.

(* ------------------------------------------------------------------ values *)
Inductive fl := FFin (m e : Z) | FInf (neg : bool) | FNaN.      (* finite: m * 2^e *)

Inductive cv :=
| XNone
| XBool (b : bool)
| XInt (z : Z)
| XFlt (f : fl)
| XCplx (re im : fl)
| XStr (s : string)
| XBytes (s : string)
| XDt (u : tunit) (z : Z)        (* datetime64[u] count; datetime.date = (UD, days); datetime.datetime = (Uus, micros) *)
| XTd (u : tunit) (z : Z)        (* timedelta64[u];     datetime.timedelta = (Uus, micros) *)
| XNaT (td : bool)               (* NaT of datetime64 (false) / timedelta64 (true) *)
| XTup (l : list cv).

Definition fzero : fl := FFin 0 0.

(* m1*2^e1 = m2*2^e2, independent of normalisation *)
Definition fin_eqb (m1 e1 m2 e2 : Z) : bool :=
  if e1 <=? e2 then m1 =? m2 * 2 ^ (e2 - e1) else m1 * 2 ^ (e1 - e2) =? m2.

Definition fl_same (a b : fl) : bool :=
  match a, b with
  | FNaN, FNaN => true
  | FInf x, FInf y => Bool.eqb x y
  | FFin m1 e1, FFin m2 e2 => fin_eqb m1 e1 m2 e2
  | _, _ => false
  end.

(* numbers as complex numbers over fl; an int z is z*2^0 *)
Definition num_view (v : cv) : option (fl * fl) :=
  match v with
  | XInt z => Some (FFin z 0, fzero)
  | XFlt f => Some (f, fzero)
  | XCplx re im => Some (re, im)
  | _ => None
  end.

(* ---- calendar (proleptic Gregorian), the arithmetic NumPy uses for Y/M -> D conversions *)
Definition days_from_civil (y m d : Z) : Z :=
  let y' := if m <=? 2 then y - 1 else y in
  let era := y' / 400 in
  let yoe := y' - era * 400 in
  let mp := (m + 9) mod 12 in
  let doy := (153 * mp + 2) / 5 + d - 1 in
  let doe := yoe * 365 + yoe / 4 - yoe / 100 + doy in
  era * 146097 + doe - 719468.

(* days since 1970-01-01 of the first day of month number mo (months since 1970-01) *)
Definition days_of_month_index (mo : Z) : Z :=
  days_from_civil (1970 + mo / 12) (mo mod 12 + 1) 1.

Definition DAY_NS : Z := 86400000000000.

Definition unit_ns (u : tunit) : Z :=
  match u with
  | UW => 604800000000000 | UD => 86400000000000 | Uh => 3600000000000 | Um => 60000000000
  | Us => 1000000000 | Ums => 1000000 | Uus => 1000 | Uns => 1
  | _ => 0
  end.

(* 0 generic, 1 calendar (Y, M), 2 linear (W .. ns) *)
Definition ucls (u : tunit) : Z :=
  match u with UGen => 0 | UY | UM => 1 | _ => 2 end.

Definition months_of (u : tunit) (z : Z) : Z :=
  match u with UY => 12 * z | _ => z end.

Definition exact_div (a b : Z) : option Z :=
  if b =? 0 then None else if a mod b =? 0 then Some (a / b) else None.

(* the instant of a datetime64 in ns since the epoch (unbounded) *)
Definition dt_inst (u : tunit) (z : Z) : option Z :=
  match ucls u with
  | 0 => None
  | 1 => Some (days_of_month_index (months_of u z) * DAY_NS)
  | _ => Some (z * unit_ns u)
  end.

(* a timedelta64 as (calendar?, months | ns); the generic unit only occurs as timedelta64(0) *)
Definition td_key (u : tunit) (z : Z) : bool * Z :=
  match ucls u with
  | 0 => (false, z)
  | 1 => (true, months_of u z)
  | _ => (false, z * unit_ns u)
  end.

(* count of the same instant in unit dst, when the conversion is exact and dst is not coarser *)
Definition dt_conv (src dst : tunit) (z : Z) : option Z :=
  if tunit_rank dst <? tunit_rank src then None else
  match ucls src, ucls dst with
  | 1, 1 => Some (if tunit_eqb dst UY then z else months_of src z)
  | 1, 2 => exact_div (days_of_month_index (months_of src z) * DAY_NS) (unit_ns dst)
  | 2, 2 => exact_div (z * unit_ns src) (unit_ns dst)
  | _, _ => None
  end.

Definition td_conv (src dst : tunit) (z : Z) : option Z :=
  match ucls src, ucls dst with
  | 0, 0 => Some z
  | 0, _ => Some z
  | 1, 1 => if tunit_rank dst <? tunit_rank src then None
            else Some (if tunit_eqb dst UY then z else months_of src z)
  | 2, 2 => if tunit_rank dst <? tunit_rank src then None
            else exact_div (z * unit_ns src) (unit_ns dst)
  | _, _ => None
  end.

(* ------------------------------------------------------------------ the specification's cell relation *)
Fixpoint same (a b : cv) : bool :=
  match num_view a, num_view b with
  | Some (r1, i1), Some (r2, i2) => fl_same r1 r2 && fl_same i1 i2
  | None, None =>
      match a, b with
      | XNone, XNone => true
      | XBool x, XBool y => Bool.eqb x y
      | XStr x, XStr y => String.eqb x y
      | XBytes x, XBytes y => String.eqb x y
      | XDt u1 z1, XDt u2 z2 =>
          match dt_inst u1 z1, dt_inst u2 z2 with Some p, Some q => p =? q | _, _ => false end
      | XTd u1 z1, XTd u2 z2 =>
          let k1 := td_key u1 z1 in let k2 := td_key u2 z2 in
          Bool.eqb (fst k1) (fst k2) && (snd k1 =? snd k2)
      | XNaT t1, XNaT t2 => Bool.eqb t1 t2
      | XTup l1, XTup l2 =>
          (fix go (x y : list cv) : bool :=
             match x, y with
             | [], [] => true
             | u :: us, v :: vs => same u v && go us vs
             | _, _ => false
             end) l1 l2
      | _, _ => false
      end
  | _, _ => false
  end.

Fixpoint all2 {A B} (f : A -> B -> bool) (l1 : list A) (l2 : list B) : bool :=
  match l1, l2 with
  | [], [] => true
  | x :: xs, y :: ys => f x y && all2 f xs ys
  | _, _ => false
  end.

(* S: every stored cell is the supplied cell *)
Definition S_check (supplied stored : list cv) : bool := all2 same supplied stored.

(* ------------------------------------------------------------------ value domains *)
Definition in_i64 (x : Z) : bool := (- 2 ^ 63 <? x) && (x <? 2 ^ 63).   (* -2^63 is NaT *)

Definition int_in (signed : bool) (bytes z : Z) : bool :=
  if signed then (- 2 ^ (8 * bytes - 1) <=? z) && (z <? 2 ^ (8 * bytes - 1))
  else (0 <=? z) && (z <? 2 ^ (8 * bytes)).

(* binary floating-point formats: precision, bound on the exponent of the leading bit + 1, exponent of the
   smallest subnormal *)
Definition fmt_of_bytes (b : Z) : option (Z * Z * Z) :=
  if b =? 2 then Some (11, 16, -24)
  else if b =? 4 then Some (24, 128, -149)
  else if b =? 8 then Some (53, 1024, -1074)
  else if b =? 16 then Some (64, 16384, -16445)
  else None.

(* m*2^e is a member of the format *)
Definition fits (fm : Z * Z * Z) (m e : Z) : bool :=
  let '(p, emax, emin) := fm in
  if m =? 0 then true else
  let E := e + Z.log2 (Z.abs m) + 1 in
  let q := Z.max (E - p) emin in
  (E <=? emax) && (if q <=? e then true else m mod 2 ^ (q - e) =? 0).

Definition fl_fits (bytes : Z) (f : fl) : bool :=
  match fmt_of_bytes bytes with
  | None => false
  | Some fm => match f with FFin m e => fits fm m e | _ => true end
  end.

Definition slen (s : string) : Z := Z.of_nat (String.length s).

Definition holds (d : dtype) (v : cv) : bool :=
  match d, v with
  | DObj, _ => true
  | DBool, XBool _ => true
  | DInt s b, XInt z => int_in s b z
  | DFlt b, XFlt f => fl_fits b f
  | DFlt b, XInt z => fl_fits b (FFin z 0)
  | DCplx b, XCplx re im => fl_fits (b / 2) re && fl_fits (b / 2) im
  | DCplx b, XFlt f => fl_fits (b / 2) f
  | DCplx b, XInt z => fl_fits (b / 2) (FFin z 0)
  | DStr n, XStr s => slen s <=? n
  | DBytes n, XBytes s => slen s <=? n
  | DDt u, XDt u' z => match dt_conv u' u z with Some c => in_i64 c | None => false end
  | DDt _, XNaT false => true
  | DTd u, XTd u' z => match td_conv u' u z with Some c => in_i64 c | None => false end
  | DTd _, XNaT true => true
  | _, _ => false
  end.

(* the observed cell is an inhabitant of the dtype's own representation *)
Definition conforms (d : dtype) (v : cv) : bool :=
  match d, v with
  | DObj, _ => true
  | DBool, XBool _ => true
  | DInt s b, XInt z => int_in s b z
  | DFlt b, XFlt f => fl_fits b f
  | DCplx b, XCplx re im => fl_fits (b / 2) re && fl_fits (b / 2) im
  | DStr n, XStr s => slen s <=? n
  | DBytes n, XBytes s => slen s <=? n
  | DDt u, XDt u' z => tunit_eqb u u' && in_i64 z
  | DDt _, XNaT false => true
  | DTd u, XTd u' z => tunit_eqb u u' && in_i64 z
  | DTd _, XNaT true => true
  | _, _ => false
  end.

(* an ARRAY of dtype src converted to dtype dst (astype / slice assignment).  Conversion to object goes through
   NumPy's item(): NaT becomes None, datetime64[ns] and timedelta64[Y|M|ns] become Python ints -- modelled, bugs
   included. *)
Definition to_object_ok (src : dtype) (v : cv) : bool :=
  match src, v with
  | (DDt _ | DTd _), XNaT _ => false
  | DDt u, _ => negb (tunit_eqb u Uns)
  | DTd u, _ => negb (tunit_eqb u Uns || tunit_eqb u UY || tunit_eqb u UM)
  | _, _ => true
  end.

Definition holds_arr (src dst : dtype) (v : cv) : bool :=
  match dst with
  | DObj => to_object_ok src v
  | _ => holds dst v
  end.

(* ------------------------------------------------------------------ elements and util.dtype_from_element *)
Inductive elem :=
| EPy (v : cv)                 (* a Python object: bool int float complex str bytes None tuple date ... *)
| ENp (d : dtype) (v : cv).    (* a NumPy scalar of dtype d *)

Definition elem_val (e : elem) : cv := match e with EPy v => v | ENp _ v => v end.

Definition elem_dtype (e : elem) : dtype :=
  match e with
  | ENp d _ => d
  | EPy v =>
      match v with
      | XBool _ => DBool
      | XInt z => if int_in true 8 z then DInt true 8 else if int_in false 8 z then DInt false 8 else DObj
      | XFlt _ => DFlt 8
      | XCplx _ _ => DCplx 16
      | XStr s => DStr (Z.max 1 (slen s))
      | XBytes s => DBytes (Z.max 1 (slen s))
      | _ => DObj
      end
  end.

Definition wf_dtype (d : dtype) : bool :=
  match d with
  | DInt _ b => (b =? 1) || (b =? 2) || (b =? 4) || (b =? 8)
  | DFlt b => (b =? 2) || (b =? 4) || (b =? 8) || (b =? 16)
  | DCplx b => (b =? 8) || (b =? 16) || (b =? 32)
  | DStr n | DBytes n => 0 <=? n
  | _ => true
  end.

(* a Python float is a binary64, a Python complex a pair of them; a NumPy scalar is a member of its dtype *)
Definition wf_elem (e : elem) : bool :=
  match e with
  | ENp d v => holds d v && conforms d v && wf_dtype d && negb (dtype_eqb d DObj)
  | EPy (XFlt f) => fl_fits 8 f
  | EPy (XCplx re im) => fl_fits 8 re && fl_fits 8 im
  | EPy (XNaT _) => false
  | EPy _ => true
  end.

(* an ELEMENT stored into an array of dtype dst (np.full / item assignment); object arrays keep the object *)
Definition holds_elem (dst : dtype) (e : elem) : bool :=
  match dst with DObj => true | _ => holds dst (elem_val e) end.

(* ------------------------------------------------------------------ typed util.resolve_dtype *)
Definition unres (r : res dtype) : dtype := match r with Ok d => d | Err _ => DObj end.

Definition resolve (d1 d2 : dtype) : dtype :=
  if dtype_eqb d1 d2 then d1 else
  match d1, d2 with
  | DObj, _ | _, DObj => DObj
  | (DStr _ | DBytes _), (DStr _ | DBytes _) => unres (np_result_type d1 d2)
  | DDt _, DDt _ => unres (np_result_type d1 d2)
  | DTd _, DTd _ => unres (np_result_type d1 d2)
  | (DInt _ _ | DFlt _ | DCplx _), (DInt _ _ | DFlt _ | DCplx _) => unres (np_result_type d1 d2)
  | _, _ => DObj
  end.

(* specification of every n-ary dtype decision: the left fold *)
Definition resolve_all (d : dtype) (ds : list dtype) : dtype := fold_left resolve ds d.

(* util.resolve_dtype_iter (util.py:460): pairwise, returns as soon as object is reached *)
Fixpoint resolve_iter_loop (acc : dtype) (ds : list dtype) : dtype :=
  match ds with
  | [] => acc
  | d :: rest =>
      let acc' := resolve acc d in
      if dtype_eqb acc' DObj then acc' else resolve_iter_loop acc' rest
  end.

(* util.concat_resolved (util.py:496-502): `if dt_resolve != object: dt_resolve = resolve_dtype(array.dtype, dt_resolve)` *)
Fixpoint concat_loop (acc : dtype) (ds : list dtype) : dtype :=
  match ds with
  | [] => acc
  | d :: rest => concat_loop (if dtype_eqb acc DObj then acc else resolve d acc) rest
  end.

(* ------------------------------------------------------------------ util.prepare_iter_for_array *)
Record iflags := mk_iflags { f_obj : bool; f_tuple : bool; f_str : bool; f_non_str : bool; f_inexact : bool; f_big : bool }.
Definition iflags0 := mk_iflags false false false false false false.

Definition INT_MAX_COERCIBLE_TO_FLOAT : Z := 1000000000000000.

(* one iteration of the loop body (util.py:845-868); once resolved is object the loop breaks *)
Definition iter_step (st : iflags) (e : elem) : iflags :=
  if f_obj st then st else
  let v := elem_val e in
  let is_tuple := match v with XTup _ => true | _ => false end in
  let is_str := match v with XStr _ => true | _ => false end in
  let is_py := match e with EPy _ => true | _ => false end in
  let tuple' := f_tuple st || is_tuple in
  let str' := f_str st || (negb is_tuple && is_str) in
  let other := negb is_tuple && negb is_str in
  let non_str' := f_non_str st || other in
  let inexact' := f_inexact st || (other && is_py && match v with XFlt _ | XCplx _ _ => true | _ => false end) in
  let big' := f_big st || (other && is_py && match v with XInt z => INT_MAX_COERCIBLE_TO_FLOAT <? Z.abs z | _ => false end) in
  let obj' := tuple' || (str' && non_str') || (big' && inexact') in
  mk_iflags obj' tuple' str' non_str' inexact' big'.

Definition iter_flags (es : list elem) : iflags := fold_left iter_step es iflags0.

(* what the loop computes, without the loop: object iff a tuple, or a str next to a non-str, or a big Python
   int next to a Python float/complex *)
Definition is_tuple_e (e : elem) := match elem_val e with XTup _ => true | _ => false end.
Definition is_str_e (e : elem) := match elem_val e with XStr _ => true | _ => false end.
Definition is_inexact_e (e : elem) := match e with EPy (XFlt _) | EPy (XCplx _ _) => true | _ => false end.
Definition is_big_e (e : elem) := match e with EPy (XInt z) => INT_MAX_COERCIBLE_TO_FLOAT <? Z.abs z | _ => false end.

(* ---- ORACLE: NumPy's dtype discovery for np.array(sequence) with dtype=None, as the promotion of the element
   dtypes; string promotion widths per NumPy.  Err "unmodelled" outside the modelled classes. *)
Definition str_width (d : dtype) : res Z :=
  match d with
  | DBool => Ok 5
  | DInt true b => Ok (if b =? 1 then 4 else if b =? 2 then 6 else if b =? 4 then 11 else 21)
  | DInt false b => Ok (if b =? 1 then 3 else if b =? 2 then 5 else if b =? 4 then 10 else 20)
  | DFlt b => if b <=? 8 then Ok 32 else Ok 48
  | DCplx b => if b <=? 16 then Ok 64 else Ok 96
  | _ => Err "unmodelled"
  end.

Definition np_promote (d1 d2 : dtype) : res dtype :=
  if dtype_eqb d1 d2 then Ok d1 else
  match d1, d2 with
  | DObj, _ | _, DObj => Ok DObj
  | DBytes n, (DBool | DInt _ _ | DFlt _ | DCplx _) => w <- str_width d2 ;; Ok (DBytes (Z.max n w))
  | (DBool | DInt _ _ | DFlt _ | DCplx _), DBytes n => w <- str_width d1 ;; Ok (DBytes (Z.max n w))
  | DStr n, (DBool | DInt _ _ | DFlt _ | DCplx _) => w <- str_width d2 ;; Ok (DStr (Z.max n w))
  | (DBool | DInt _ _ | DFlt _ | DCplx _), DStr n => w <- str_width d1 ;; Ok (DStr (Z.max n w))
  | DDt _, DDt _ => np_result_type d1 d2
  | DTd _, DTd _ => match np_result_type d1 d2 with Ok d => Ok d | Err _ => Ok DObj end   (* no common unit: object *)
  | (DDt _ | DTd _), _ | _, (DDt _ | DTd _) => Err "unmodelled"
  | _, _ => np_result_type d1 d2
  end.

Fixpoint np_discover_from (acc : dtype) (es : list elem) : res dtype :=
  match es with
  | [] => Ok acc
  | e :: rest => d <- np_promote acc (elem_dtype e) ;; np_discover_from d rest
  end.

Definition np_discover (es : list elem) : res dtype :=
  match es with
  | [] => Ok (DFlt 8)
  | e :: rest => np_discover_from (elem_dtype e) rest
  end.

(* ------------------------------------------------------------------ plans: which code path decides the dtype *)
Inductive plan :=
| PKeep (d : dtype)                       (* the operation returns the host array (no missing value, shift 0 ...) *)
| PFill (d : dtype) (e : elem)            (* resolve_dtype(d, dtype_from_element(e)): util.full_for_fill, assignment of one element *)
| PFillR (d : dtype) (e : elem)           (* resolve_dtype(dtype_from_element(e), d): fillna of one element, IndexGO.append *)
| PElem (e : elem)                        (* util.full_for_fill(None, ., e): a region made of the fill value only *)
| PPair (d1 d2 : dtype)                   (* resolve_dtype(d1, d2): array meets array *)
| PSteps (d : dtype) (es : list elem)     (* IndexGO.extend: one resolve_dtype(dtype_from_element(e), acc) per appended label *)
| PConcat (d : dtype) (ds : list dtype)   (* util.concat_resolved *)
| PIterDt (d : dtype) (ds : list dtype)   (* util.resolve_dtype_iter: row consolidation, Frame.values *)
| PGrown (d : dtype) (ds : list dtype)    (* TypeBlocks.append: the cached row dtype of a table grown block by block *)
| PIter (es : list elem).                 (* util.iterable_to_array_1d(values, dtype=None) *)

(* TypeBlocks.append (type_blocks.py:3222-3227): `elif block.dtype != self._row_dtype: self._row_dtype = object` *)
Definition grown_step (acc d : dtype) : dtype := if dtype_eqb d acc then acc else DObj.
Definition grown_loop (d : dtype) (ds : list dtype) : dtype := fold_left grown_step ds d.

Definition plan_dtype (p : plan) : res dtype :=
  match p with
  | PKeep d => Ok d
  | PFill d e => Ok (resolve d (elem_dtype e))
  | PFillR d e => Ok (resolve (elem_dtype e) d)
  | PElem e => Ok (elem_dtype e)
  | PPair d1 d2 => Ok (resolve d1 d2)
  | PSteps d es => Ok (fold_left (fun acc e => resolve (elem_dtype e) acc) es d)
  | PConcat d ds => Ok (concat_loop d ds)
  | PIterDt d ds => Ok (resolve_iter_loop d ds)
  | PGrown d ds => Ok (grown_loop d ds)
  | PIter es => if f_obj (iter_flags es) then Ok DObj else np_discover es
  end.

(* a supplied cell and where it comes from *)
Inductive src :=
| FromArr (d : dtype) (v : cv)     (* a cell of an array of dtype d *)
| FromElem (e : elem)              (* the element handed to the operation *)
| FromVia (d mid : dtype) (v : cv). (* a cell of an array of dtype d that is first converted to dtype mid (concat_resolved of
                                      the value blocks, type_blocks.py:1543) and then written into the result *)

Definition src_val (s : src) : cv := match s with FromArr _ v => v | FromElem e => elem_val e | FromVia _ _ v => v end.

Definition survives (dr : dtype) (s : src) : bool :=
  match s with
  | FromArr d v => holds_arr d dr v
  | FromElem e => holds_elem dr e
  | FromVia d mid v => holds_arr d mid v && holds_arr mid dr v
  end.

(* M: result dtype by the plan; a surviving cell is stored as an inhabitant of that dtype that is `same` as the
   supplied one, a cell that does not survive is stored as something else *)
Definition cell_check (dr : dtype) (s : src) (obs : cv) : bool :=
  if survives dr s then same (src_val s) obs && conforms dr obs
  else negb (same (src_val s) obs).

Definition M_check (p : plan) (cells : list src) (od : dtype) (obs : list cv) : bool :=
  match plan_dtype p with
  | Err _ => false
  | Ok dr => dtype_eqb dr od && all2 (cell_check dr) cells obs
  end.

(* the dtype alone (strata that observe only a dtype, e.g. an untouched column) *)
Definition M_dtype_check (p : plan) (od : dtype) : bool :=
  match plan_dtype p with Ok dr => dtype_eqb dr od | Err _ => false end.

Definition S_cells (cells : list src) (obs : list cv) : bool := S_check (map src_val cells) obs.

(* ------------------------------------------------------------------ guards of the no-loss theorem *)
Definition big_int (d : dtype) : bool := match d with DInt _ b => 8 <=? b | _ => false end.
Definition small_inexact (d : dtype) : bool :=
  match d with DFlt b => b <=? 8 | DCplx b => b <=? 16 | _ => false end.
Definition is_uint64 (d : dtype) : bool := match d with DInt false b => 8 <=? b | _ => false end.
Definition is_sint (d : dtype) : bool := match d with DInt true _ => true | _ => false end.
Definition is_dt_cal (d : dtype) : bool := match d with DDt UY | DDt UM => true | _ => false end.
Definition is_dt_week (d : dtype) : bool := match d with DDt UW => true | _ => false end.
Definition is_strlike (d : dtype) : bool := match d with DStr _ | DBytes _ => true | _ => false end.
Definition is_time (d : dtype) : bool := match d with DDt _ | DTd _ => true | _ => false end.

(* the pairs for which NumPy's promotion (followed by static-frame 0.8.8) is lossy, plus str+bytes which the
   property excludes: int64/uint64 with float16..64 or complex64/128; uint64 with a signed int;
   datetime64[Y|M] with datetime64[W] *)
Definition lossy_pair (d1 d2 : dtype) : bool :=
  (big_int d1 && small_inexact d2) || (big_int d2 && small_inexact d1) ||
  (is_uint64 d1 && is_sint d2) || (is_uint64 d2 && is_sint d1) ||
  (is_dt_cal d1 && is_dt_week d2) || (is_dt_cal d2 && is_dt_week d1) ||
  (is_strlike d1 && is_strlike d2 && negb (String.eqb (dtype_kind d1) (dtype_kind d2))).

(* a time value whose count in the (finer) unit of the result overflows int64: NumPy raises OverflowError or
   wraps; outside the claim proved here *)
Definition time_fits (dr : dtype) (v : cv) : bool :=
  match dr, v with
  | DDt u, XDt u' z => match dt_conv u' u z with Some c => in_i64 c | None => true end
  | DTd u, XTd u' z => match td_conv u' u z with Some c => in_i64 c | None => true end
  | _, _ => true
  end.

(* all pairwise steps of a left fold are outside lossy_pair *)
Fixpoint fold_ok (acc : dtype) (ds : list dtype) : bool :=
  match ds with
  | [] => true
  | d :: rest => negb (lossy_pair acc d) && fold_ok (resolve acc d) rest
  end.

(* value-level guard of the n-ary theorems: at every step of the fold a time value fits the unit reached *)
Fixpoint fold_fits (acc : dtype) (ds : list dtype) (v : cv) : bool :=
  match ds with
  | [] => true
  | d :: rest => time_fits (resolve acc d) v && fold_fits (resolve acc d) rest v
  end.

(* what the flag loop of prepare_iter_for_array decides, stated without the loop *)
Definition is_other_e (e : elem) : bool := negb (is_tuple_e e) && negb (is_str_e e).
Definition iter_object_spec (es : list elem) : bool :=
  existsb is_tuple_e es || (existsb is_str_e es && existsb is_other_e es) || (existsb is_big_e es && existsb is_inexact_e es).

(* ------------------------------------------------------------------ element assignment by Boolean targets, block by block
   (TypeBlocks._assign_from_bloc_by_unit / _assign_from_boolean_blocks_by_unit, type_blocks.py:1674-1840):
   a block with at least one targeted cell is converted as a whole to resolve_dtype(value dtype, block dtype) *)
Fixpoint M_bloc (blocks : list (dtype * nat)) (hits : list bool) (vd : dtype) : list dtype :=
  match blocks with
  | [] => []
  | (d, w) :: rest =>
      let h := firstn w hits in
      let r := if existsb (fun b => b) h then resolve vd d else d in
      repeat r w ++ M_bloc rest (skipn w hits) vd
  end.

(* specification: a column changes dtype only if one of its own cells is targeted *)
Fixpoint S_bloc (cols : list dtype) (hits : list bool) (vd : dtype) : list dtype :=
  match cols, hits with
  | d :: cs, h :: hs => (if h then resolve vd d else d) :: S_bloc cs hs vd
  | _, _ => []
  end.

Definition expand_blocks (blocks : list (dtype * nat)) : list dtype :=
  flat_map (fun b => repeat (fst b) (snd b)) blocks.

Definition total_width (blocks : list (dtype * nat)) : nat :=
  fold_right (fun b n => (snd b + n)%nat) 0%nat blocks.

(* no block mixes targeted and untargeted columns, unless the value already fits the block *)
Fixpoint bloc_uniform (blocks : list (dtype * nat)) (hits : list bool) (vd : dtype) : bool :=
  match blocks with
  | [] => true
  | (d, w) :: rest =>
      let h := firstn w hits in
      (forallb (fun b => b) h || negb (existsb (fun b => b) h) || dtype_eqb (resolve vd d) d) &&
      bloc_uniform rest (skipn w hits) vd
  end.

(* ------------------------------------------------------------------ set-valued results (Index.union / intersection / difference):
   every stored element is one of the supplied elements; for a union every supplied element is stored *)
Definition S_subset (supplied stored : list cv) : bool :=
  forallb (fun o => existsb (fun s => same s o) supplied) stored.
Definition S_union (supplied stored : list cv) : bool :=
  S_subset supplied stored && forallb (fun s => existsb (fun o => same s o) stored) supplied.
