(* C11 -- SF/Concat.v instantiated at the observed value type `val` (labels and cells), with
   util.resolve_dtype taken from the kernel REGENERATED from /repo (Gen/Gen_util.v), and the
   boolean comparers the correspondence cases evaluate.  Models only, no proofs. *)
Require Import SF.Prelude SF.Dtype SF.Value SF.Blocks SF.PyDyn SF.Concat Gen.Gen_util.

(* the order NumPy sorts labels by (one label kind per index in the generated cases) *)
Fixpoint lleb_val (a b : val) : bool :=
  match a, b with
  | VInt x, VInt y => x <=? y
  | VStr x, VStr y => String.leb x y
  | VTup l1, VTup l2 =>                     (* rows of a hierarchical index: lexicographic *)
      (fix go (x y : list val) : bool :=
         match x, y with
         | [], _ => true
         | _ :: _, [] => false
         | u :: us, v :: vs => if val_eqb u v then go us vs else lleb_val u v
         end) l1 l2
  | _, _ => true
  end.

(* storing a cell in an array of dtype d: an int becomes a float in a float array; every other
   (resolve_dtype-produced) target holds the cell unchanged *)
Definition unit_secs (u : tunit) : Z :=
  match u with UD => 86400 | Uh => 3600 | Um => 60 | Us => 1 | _ => 0 end.

Definition cast_val (d : dtype) (v : val) : val :=
  match d, v with
  | DFlt _, VInt z => VFlt z 1
  | DObj, VNaT => VNone                       (* NaT stored in an object array is None *)
  | DObj, VTd u z => if 0 <? unit_secs u then VTd Us (z * unit_secs u) else v   (* datetime.timedelta: observed in seconds *)
  | DTd u2, VTd u1 z =>
      if (0 <? unit_secs u2) && (0 <? unit_secs u1) then VTd u2 (z * (unit_secs u1 / unit_secs u2)) else v
  | DDt u2, VDt u1 z =>                       (* datetime64 to a finer unit (D, h, m, s) *)
      if (0 <? unit_secs u2) && (0 <? unit_secs u1) then VDt u2 (z * (unit_secs u1 / unit_secs u2)) else v
  | _, _ => v
  end.

(* util.resolve_dtype, regenerated from the source on every run *)
Definition resolve_val (a b : dtype) : dtype :=
  match resolve_dtype (PDtype a) (PDtype b) with
  | PDtype d => d
  | _ => DObj
  end.

Definition vframe := frame val val.
Definition vblock := block val.

Definition block_eqb (a b : vblock) : bool :=
  dtype_eqb (b_dtype a) (b_dtype b) && Bool.eqb (b_1d a) (b_1d b) &&
  list_eqb vlist_eqb (b_cols a) (b_cols b).

(* exact comparison with the observed result: labels, block layout, dtypes, cells *)
Definition frame_eqb (a b : vframe) : bool :=
  vlist_eqb (f_index a) (f_index b) && vlist_eqb (f_columns a) (f_columns b) &&
  list_eqb block_eqb (f_blocks a) (f_blocks b).

Definition MV_concat (axis1 union : bool) (ixa cola : ixarg val) (filldt : dtype) (fill : val)
  (fs : list vframe) : res vframe :=
  if axis1 then M_concat1 val_eqb lleb_val cast_val resolve_val VInt union ixa cola filldt fill fs
  else M_concat0 val_eqb lleb_val cast_val resolve_val VInt union ixa cola filldt fill fs.

Definition MV_concat_ok axis1 union ixa cola filldt fill fs (obs : res vframe) : bool :=
  res_eqb frame_eqb (MV_concat axis1 union ixa cola filldt fill fs) obs.

(* ------------------------------------------------------------------ specification check *)
(* cells are "the inputs' cells": identical, or the same number stored in a wider numeric dtype
   (which dtype is C07's concern, not C11's) *)
Definition cell_equiv (a b : val) : bool :=
  val_eqb a b ||
  match a, b with
  | VInt z, VFlt n d | VFlt n d, VInt z => n =? z * d
  | VDt u1 z1, VDt u2 z2 => (0 <? unit_secs u1) && (0 <? unit_secs u2) && (z1 * unit_secs u1 =? z2 * unit_secs u2)   (* same instant *)
  | VTd u1 z1, VTd u2 z2 => (0 <? unit_secs u1) && (0 <? unit_secs u2) && (z1 * unit_secs u1 =? z2 * unit_secs u2)   (* same duration *)
  | VNaT, VNone | VNone, VNaT => true          (* NaT stored in an object array *)
  | _, _ => false
  end.
Definition cells_equiv (a b : list val) : bool := list_eqb cell_equiv a b.

Definition same_set (a b : list val) : bool :=
  forallb (fun x => lmem val_eqb x b) a && forallb (fun x => lmem val_eqb x a) b.

Definition is_err {X} (r : res X) : bool := match r with Err _ => true | Ok _ => false end.

(* what the property fixes about labels on the concatenation axis *)
Definition S_along (arg : ixarg val) (ls : list (list val)) (n : nat) : option (list val) :=
  match arg with
  | IxAuto => Some (auto_labels VInt n)
  | IxNone => if nodupb val_eqb (concat ls) then Some (concat ls) else None      (* None: must fail *)
  | IxGiven l => if (length l =? n)%nat then Some l else None
  end.
(* ... and on the aligned axis: a duplicate-free arrangement of the union / intersection, or the given labels *)
Definition S_aligned_ok (arg : ixarg val) (union : bool) (ls : list (list val)) (got : list val) : bool :=
  match arg with
  | IxAuto => false
  | IxNone => nodupb val_eqb got && same_set got (S_aligned val_eqb union ls)
  | IxGiven l => vlist_eqb got l
  end.

Definition cols_equiv (a b : list (dtype * list val)) : bool :=
  list_eqb (fun x y => cells_equiv (snd x) (snd y)) a b.

Definition SV_concat_ok (axis1 union : bool) (ixa cola : ixarg val) (filldt : dtype) (fill : val)
  (fs : list vframe) (obs : res vframe) : bool :=
  match fs with
  | [] => match obs with
          | Ok o => is_nil (f_index o) && is_nil (f_columns o) && is_nil (f_blocks o)
          | Err _ => false
          end
  | _ =>
    let arg_along := if axis1 then cola else ixa in
    let arg_aligned := if axis1 then ixa else cola in
    let ls_along := map (if axis1 then @f_columns val val else @f_index val val) fs in
    let ls_aligned := map (if axis1 then @f_index val val else @f_columns val val) fs in
    let n := if axis1 then length (flat_map (@f_columns val val) fs) else sum_rows fs in
    match arg_aligned, S_along arg_along ls_along n with
    | IxAuto, _ | _, None => is_err obs
    | _, Some along =>
        match obs with
        | Err _ => false
        | Ok o =>
            let got_along := if axis1 then f_columns o else f_index o in
            let got_aligned := if axis1 then f_index o else f_columns o in
            vlist_eqb got_along along &&
            S_aligned_ok arg_aligned union ls_aligned got_aligned &&
            cols_equiv (f_cols o)
              (if axis1 then S_concat1_cols val_eqb cast_val resolve_val filldt fill fs got_aligned
               else S_concat0_cols val_eqb cast_val resolve_val filldt fill fs got_aligned)
        end
    end
  end.

(* short constructors for the generated case terms *)
Definition mkf (i c : list val) (b : list vblock) : vframe := mk_frame i c b.
Definition mkb (d : dtype) (is1d : bool) (cols : list (list val)) : vblock := mk_block d is1d cols.
Definition ixn : ixarg val := IxNone.
Definition ixa : ixarg val := IxAuto.
Definition ixg (l : list val) : ixarg val := IxGiven l.

(* ------------------------------------------------------------------ Series.from_concat, items forms *)
Definition vseries := (list val * (dtype * list val))%type.
Definition mks (i : list val) (d : dtype) (v : list val) : vseries := (i, (d, v)).

Definition series_eqb (a b : vseries) : bool :=
  vlist_eqb (fst a) (fst b) && dtype_eqb (fst (snd a)) (fst (snd b)) && vlist_eqb (snd (snd a)) (snd (snd b)).

Definition pair_val (k l : val) : val := VTup [k; l].

Definition MV_series_concat_ok (arg : ixarg val) (ss : list vseries) (obs : res vseries) : bool :=
  res_eqb series_eqb (M_series_concat val_eqb cast_val resolve_val VInt arg ss) obs.

Definition SV_series_concat_ok (arg : ixarg val) (ss : list vseries) (obs : res vseries) : bool :=
  match ss with
  | [] => match obs with Ok o => is_nil (fst o) && is_nil (snd (snd o)) | Err _ => false end
  | _ =>
    match S_along arg (map fst ss) (length (S_series_cells ss)) with
    | None => is_err obs
    | Some along =>
        match obs with
        | Err _ => false
        | Ok o => vlist_eqb (fst o) along && cells_equiv (snd (snd o)) (S_series_cells ss)
        end
    end
  end.

Definition MV_concat_items_ok (axis1 union : bool) (filldt : dtype) (fill : val)
  (kfs : list (val * vframe)) (obs : res vframe) : bool :=
  res_eqb frame_eqb (M_concat_items val_eqb lleb_val cast_val resolve_val VInt pair_val axis1 union filldt fill kfs) obs.

(* the items form: the labels along the axis are the pairs (key, inner label), the content is that of
   from_concat; when the pairs are not unique construction must fail; a repeated key whose pairs are
   nevertheless unique may be rejected (the tree-shaped hierarchy cannot hold it) *)
Definition SV_concat_items_ok (axis1 union : bool) (filldt : dtype) (fill : val)
  (kfs : list (val * vframe)) (obs : res vframe) : bool :=
  let kls := map (fun kf : val * vframe => (fst kf, if axis1 then f_columns (snd kf) else f_index (snd kf))) kfs in
  let pairs := S_item_labels pair_val kls in
  let as_concat := if axis1 then SV_concat_ok true union ixn (ixg pairs) filldt fill (map snd kfs) obs
                   else SV_concat_ok false union (ixg pairs) ixn filldt fill (map snd kfs) obs in
  match kfs with
  | [] => as_concat
  | _ =>
    if nodupb val_eqb (map fst kls) then as_concat
    else if nodupb val_eqb pairs then is_err obs || as_concat
    else is_err obs
  end.

Definition MV_series_items_ok (kss : list (val * vseries)) (obs : res vseries) : bool :=
  res_eqb series_eqb (M_series_concat_items val_eqb cast_val resolve_val pair_val kss) obs.

Definition SV_series_items_ok (kss : list (val * vseries)) (obs : res vseries) : bool :=
  let kls := map (fun ks : val * vseries => (fst ks, fst (snd ks))) kss in
  let pairs := S_item_labels pair_val kls in
  let content := match obs with
                 | Err _ => false
                 | Ok o => vlist_eqb (fst o) pairs && cells_equiv (snd (snd o)) (S_series_cells (map snd kss))
                 end in
  if nodupb val_eqb (map fst kls) then content
  else if nodupb val_eqb pairs then is_err obs || content
  else is_err obs.

(* ------------------------------------------------------------------ overlay *)
(* util.dtype_kind_to_na, regenerated from the source on every run *)
Definition na_of_val (d : dtype) : dtype * val :=
  match dtype_kind_to_na (PStr (dtype_kind d)) with
  | PConst c => if String.eqb c "nan" then (DFlt 8, VNaN) else (DDt UGen, VNaT)
  | _ => (DObj, VNone)
  end.

Definition MV_overlay_ok (union : bool) (ixa cola : option (list val)) (fs : list vframe) (obs : res vframe) : bool :=
  res_eqb frame_eqb (M_overlay val_eqb lleb_val cast_val resolve_val isna na_of_val union ixa cola fs) obs.

Definition labels_ok (arg : option (list val)) (union : bool) (ls : list (list val)) (got : list val) : bool :=
  match arg with
  | Some l => vlist_eqb got l
  | None => nodupb val_eqb got && same_set got (S_aligned val_eqb union ls)
  end.

Definition cell_ok (expect : option val) (v : val) : bool :=
  match expect with
  | Some e => cell_equiv v e
  | None => isna v
  end.

Definition SV_overlay_ok (union : bool) (ixa cola : option (list val)) (fs : list vframe) (obs : res vframe) : bool :=
  match fs with
  | [] => is_err obs
  | _ =>
    match obs with
    | Err _ => false
    | Ok o =>
        labels_ok ixa union (map (@f_index val val) fs) (f_index o) &&
        labels_ok cola union (map (@f_columns val val) fs) (f_columns o) &&
        (length (f_cols o) =? length (f_columns o))%nat &&
        forallb (fun cc : val * (dtype * list val) =>
                   (length (snd (snd cc)) =? length (f_index o))%nat &&
                   forallb (fun rv : val * val => cell_ok (S_overlay_cell val_eqb isna fs (fst rv) (fst cc)) (snd rv))
                           (combine (f_index o) (snd (snd cc))))
                (combine (f_columns o) (f_cols o))
    end
  end.

Definition MV_series_overlay_ok (union : bool) (ixa : option (list val)) (ss : list vseries) (obs : res vseries) : bool :=
  res_eqb series_eqb (M_series_overlay val_eqb lleb_val cast_val resolve_val isna na_of_val union ixa ss) obs.

Definition SV_series_overlay_ok (union : bool) (ixa : option (list val)) (ss : list vseries) (obs : res vseries) : bool :=
  match ss with
  | [] => is_err obs
  | _ =>
    match obs with
    | Err _ => false
    | Ok o =>
        labels_ok ixa union (map fst ss) (fst o) &&
        (length (snd (snd o)) =? length (fst o))%nat &&
        forallb (fun rv : val * val => cell_ok (S_series_overlay_cell val_eqb isna ss (fst rv)) (snd rv))
                (combine (fst o) (snd (snd o)))
    end
  end.

(* ------------------------------------------------------------------ kernel: index_many_set *)
Definition MV_many_set_ok (union : bool) (ls : list (list val)) (obs : list val) : bool :=
  vlist_eqb (M_index_many_set val_eqb lleb_val union ls) obs.
Definition SV_many_set_ok (union : bool) (ls : list (list val)) (obs : list val) : bool :=
  nodupb val_eqb obs && same_set obs (S_aligned val_eqb union ls).

(* ------------------------------------------------------------------ kernel: TypeBlocks.fillna_by_values *)
Definition MV_fillna_ok (t : tb val) (vals : list (dtype * list val)) (obs : tb val) : bool :=
  list_eqb block_eqb (drop_empty (M_fillna_blocks cast_val resolve_val isna t vals)) obs.
(* per cell: the value unless it is missing, then the aligned value of the same column *)
Definition SV_fillna_ok (t : tb val) (vals : list (dtype * list val)) (obs : tb val) : bool :=
  list_eqb cells_equiv (map snd (flatten obs))
    (map (fun cv : (dtype * list val) * (dtype * list val) =>
            map (fun xv : val * val => overlay_step isna (fst xv) (snd xv)) (combine (snd (fst cv)) (snd (snd cv))))
         (combine (flatten t) vals)).

(* ------------------------------------------------------------------ kernel: vstack_blocks_to_blocks computing its own flags *)
Definition MV_vstack_ok (ts : list (tb val)) (obs : tb val) : bool :=
  list_eqb block_eqb (M_vstack cast_val resolve_val ts) obs.
Definition SV_vstack_ok (ts : list (tb val)) (obs : tb val) : bool :=
  list_eqb cells_equiv (map snd (flatten obs))
    (map snd (S_vstack cast_val resolve_val (total_width (hd [] ts)) (map (@flatten val) ts))).
