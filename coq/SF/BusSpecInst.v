(* C17 -- the specification S instantiated for evaluation: labels and frames are integers
   (label f<d> is d; a frame is the rank of its canonical literal among the frames written). *)
Require Import SF.Prelude SF.PySlice SF.Value SF.BusSpec.

Definition zkey_tbl (tbl : list (Z * Z)) (f : Z) : Z :=
  match assoc Z Z.eqb f tbl with Some k => k | None => 0 end.

(* the store as the property sees it: opened when the file had mtime t0 *)
Definition z_store (content : list (Z * (Z * Z))) (t0 : Z) : store Z Z :=
  mk_store Z Z content (Some t0) (Some t0).

Definition z_s_run (content : list (Z * (Z * Z))) (t0 : Z) (mp : option Z) (tbl : list (Z * Z))
  (ops : list (op Z)) : list (obs Z Z * list bool) :=
  s_run Z Z Z.eqb Z.leb (zkey_tbl tbl) (z_store content t0) (s_open Z Z (z_store content t0) mp) ops.

Definition z_trace_eqb := trace_eqb Z Z Z.eqb Z.eqb.

(* write, then open again: same labels in the same order, an equal Frame under each label *)
Definition rt_ok (written_labels read_labels : list val) (written read : list oframe) : bool :=
  vlist_eqb written_labels read_labels && list_eqb oframe_eqb written read.

(* short names for the literals the harness prints *)
Definition kI := KInt Z.
Definition kL := KList Z.
Definition kS := KSlice Z.
Definition kM := KMask Z.
Definition kl := KLabel Z.
Definition kls := KLabels Z.
Definition klS := KLabelSlice Z.
Definition oSel := OSel Z.
Definition oItems := OItems Z.
Definition oValues := OValues Z.
Definition oKeys := OKeys Z.
Definition oStatus := OStatus Z.
Definition oGet := OGet Z.
Definition oIterElem := OIterElem Z.
Definition oIterItems := OIterItems Z.
Definition oDrop := ODrop Z.
Definition oReindex := OReindex Z.
Definition oSortIndex := OSortIndex Z.
Definition oSortValues := OSortValues Z.
Definition oFile := OFile Z.
Definition bSlot := ObSlot Z Z.
Definition bBus := ObBus Z Z.
Definition bItems := ObItems Z Z.
Definition bSlots := ObSlots Z Z.
Definition bLabels := ObLabels Z Z.
Definition bFlags := ObFlags Z Z.
Definition bUnit := ObUnit Z Z.
Definition bErr := ObErr Z Z.

(* a Bus built by the public constructor Bus(series, store=, max_persist=) from a Series that already holds some Frames:
   __init__ refuses it when more Frames are loaded than max_persist allows; otherwise the Frames held count as used in
   index order *)
Definition z_s_run_init (content : list (Z * (Z * Z))) (t0 : Z) (labels : list Z) (held : list bool) (mp : option Z)
  (tbl : list (Z * Z)) (ops : list (op Z)) : list (obs Z Z * list bool) :=
  let cache := map fst (filter snd (combine labels held)) in
  if (match mp with Some k => k <? Z.of_nat (length cache) | None => false end) then [(ObErr Z Z "ErrorInitBus", [])]
  else (ObUnit Z Z, held) :: s_run Z Z Z.eqb Z.leb (zkey_tbl tbl) (z_store content t0) (mk_sbus Z labels cache mp) ops.
