(* C17 -- the implementation model M instantiated for evaluation (see SF/BusSpecInst.v). *)
Require Import SF.Prelude SF.PySlice SF.Value SF.BusSpec SF.Bus Gen.Gen_c17.
Require Export SF.BusSpecInst.

(* Store.__init__: _last_modified = nan; _mtime_update() *)
Definition z_mstore (content : list (Z * (Z * Z))) (t0 : Z) : store Z Z :=
  mk_store Z Z content (if init_records then mtime_update true (Some t0) else None) (Some t0).

Definition z_m_run (content : list (Z * (Z * Z))) (t0 : Z) (mp : option Z) (tbl : list (Z * Z))
  (ops : list (op Z)) : list (obs Z Z * list bool) :=
  match m_open Z Z (z_mstore content t0) mp with
  | Err e => [(ObErr Z Z e, [])]
  | Ok b => m_run Z Z Z.eqb Z.leb (zkey_tbl tbl) (z_mstore content t0) b ops
  end.

Definition z_m_run_k (content : list (Z * (Z * Z))) (t0 : Z) (mp : option Z) (tbl : list (Z * Z))
  (ops : list (op Z)) : list (obs Z Z * list bool * list Z * list (list Z)) :=
  match m_open Z Z (z_mstore content t0) mp with
  | Err e => [(ObErr Z Z e, [], [], [])]
  | Ok b => m_run_k Z Z Z.eqb Z.leb (zkey_tbl tbl) (z_mstore content t0) b ops
  end.

Definition z_ktrace_eqb := ktrace_eqb Z Z Z.eqb Z.eqb.

(* Bus._store_reader called directly with a recording stub store: the read_many / read calls *)
Definition z_reader_batches (mp : option Z) (ls : list Z) : list (list Z) := reader_batches Z mp ls.
Definition z_batches_eqb := list_eqb (list_eqb Z.eqb).

(* Bus.__init__ (bus.py:297-341) on a Series of Frames / FrameDeferred given by the caller *)
Definition z_m_run_init (content : list (Z * (Z * Z))) (t0 : Z) (labels : list Z) (slots : list (option Z)) (mp : option Z)
  (tbl : list (Z * Z)) (ops : list (op Z)) : list (obs Z Z * list bool) :=
  match m_init Z Z labels slots mp with
  | Err e => [(ObErr Z Z e, [])]
  | Ok b => (ObUnit Z Z, m_flags Z Z b) :: m_run Z Z Z.eqb Z.leb (zkey_tbl tbl) (z_mstore content t0) b ops
  end.
