(* C03: instantiation of the block models at the observable value type `val` for evaluation inside Coq
   (correspondence cases), plus the concrete NumPy-side parameters the abstract models leave open:
   cell functions of the per-block maps, the typed form of util.resolve_dtype, a cell cast, np.roll on a column.
   Models only. *)
Require Import SF.Prelude SF.PySlice SF.Dtype SF.Value SF.Blocks SF.BlocksOps.

(* ---------- comparing an observed block list / column list with a model output ---------- *)
Definition cols_eqb (a b : list (list val)) : bool := list_eqb vlist_eqb a b.
Definition block_eqb (a b : block val) : bool :=
  dtype_eqb (b_dtype a) (b_dtype b) && Bool.eqb (b_1d a) (b_1d b) && cols_eqb (b_cols a) (b_cols b).
Definition tb_eqb (a b : tb val) : bool := list_eqb block_eqb a b.
Definition columns_eqb (a b : list (dtype * list val)) : bool := list_eqb col_eqb a b.
Definition zpair_eqb (a b : Z * Z) : bool := (fst a =? fst b) && (snd a =? snd b).
Definition dcell_eqb (a b : dtype * val) : bool := dtype_eqb (fst a) (fst b) && val_eqb (snd a) (snd b).
Definition sig_eqb (a b : dtype * list (list val)) : bool := dtype_eqb (fst a) (fst b) && cols_eqb (snd a) (snd b).
Definition state_eqb (a b : tb_state val) : bool :=
  tb_eqb (st_blocks a) (st_blocks b) && list_eqb zpair_eqb (st_index a) (st_index b) &&
  list_eqb dtype_eqb (st_dtypes a) (st_dtypes b) && (st_columns a =? st_columns b).

(* ---------- cell functions of per-block maps (what NumPy does with one block of a dtype) ---------- *)
Definition is_numeric (d : dtype) : bool :=
  match d with DInt _ _ | DFlt _ | DCplx _ => true | _ => false end.

(* isna_array / logical_not(isna_array): Boolean block, never raises *)
Definition cf_isna : cellfun (A := val) val := fun _ => Ok (DBool, fun v => VBool (isna v)).
Definition cf_notna : cellfun (A := val) val := fun _ => Ok (DBool, fun v => VBool (negb (isna v))).

Definition v_neg (v : val) : val :=
  match v with VInt z => VInt (- z) | VFlt n d => VFlt (- n) d | VInf b => VInf (negb b) | _ => v end.
Definition v_abs (v : val) : val :=
  match v with VInt z => VInt (Z.abs z) | VFlt n d => VFlt (Z.abs n) d | VInf _ => VInf false | _ => v end.
(* operator.neg / abs: numeric dtypes keep their dtype; bool, str, datetime raise (UFuncTypeError is a TypeError) *)
Definition cf_neg : cellfun (A := val) val := fun d => if is_numeric d then Ok (d, v_neg) else Err "TypeError".
Definition cf_abs : cellfun (A := val) val :=
  fun d => if is_numeric d then Ok (d, v_abs) else match d with DBool => Ok (DBool, fun v => v) | _ => Err "TypeError" end.
(* operator.invert: bool -> logical not, signed int -> -x-1, else TypeError *)
Definition cf_invert : cellfun (A := val) val :=
  fun d => match d with
           | DBool => Ok (DBool, fun v => match v with VBool b => VBool (negb b) | _ => v end)
           | DInt true _ => Ok (d, fun v => match v with VInt z => VInt (- z - 1) | _ => v end)
           | _ => Err "TypeError"
           end.
(* block * 2 for int64 / float64 blocks (the other dtypes are left to the layout-vs-layout comparison) *)
Definition cf_mul2 : cellfun (A := val) val :=
  fun d => match d with
           | DInt true 8 => Ok (d, fun v => match v with VInt z => VInt (2 * z) | _ => v end)
           | DFlt 8 => Ok (d, fun v => match v with VFlt n dd => if dd =? 1 then VFlt (2 * n) 1 else VFlt n (dd / 2) | _ => v end)
           | _ => Err "unmodelled"
           end.

(* ---------- util.resolve_dtype, typed (Proofs/BlocksOpsRow.v: equal to the regenerated kernel) ---------- *)
Definition is_str (d : dtype) : bool := match d with DStr _ | DBytes _ => true | _ => false end.
Definition is_dt (d : dtype) : bool := match d with DDt _ => true | _ => false end.
Definition is_td (d : dtype) : bool := match d with DTd _ => true | _ => false end.
Definition is_bool (d : dtype) : bool := match d with DBool => true | _ => false end.
Definition is_obj (d : dtype) : bool := match d with DObj => true | _ => false end.
(* np.result_type where it cannot fail / `except TypeError: return DTYPE_OBJECT` *)
Definition rt (d1 d2 : dtype) : dtype := match np_result_type d1 d2 with Ok d => d | Err _ => DObj end.
Definition resolve_dtype_t (d1 d2 : dtype) : dtype :=
  if dtype_eqb d1 d2 then d1
  else if is_obj d1 || is_obj d2 then DObj
  else if is_str d1 && is_str d2 then rt d1 d2
  else if is_dt d1 && is_dt d2 then rt d1 d2
  else if is_td d1 && is_td d2 then rt d1 d2
  else if is_str d1 || is_str d2 || is_bool d1 || is_bool d2 || is_dt d1 || is_dt d2 || is_td d1 || is_td d2 then DObj
  else rt d1 d2.

(* a dtype NumPy can have: positive item size *)
Definition dtype_pos (d : dtype) : bool :=
  match d with
  | DInt _ b | DFlt b | DCplx b | DStr b | DBytes b => 0 <? b
  | _ => true
  end.

Definition real_dtypes {A} (t : tb A) : Prop := Forall (fun b => dtype_pos (b_dtype b) = true) t.

(* ---------- ndarray.astype on one cell, for the conversions the row dtype causes in the cases ---------- *)
Definition v_cast (src dst : dtype) (v : val) : val :=
  match dst, v with
  | DFlt _, VInt z => VFlt z 1
  | DFlt _, VBool b => VFlt (if b then 1 else 0) 1
  | DInt _ _, VBool b => VInt (if b then 1 else 0)
  | _, _ => v                                 (* widening within a kind, anything -> object: the Python value is the same *)
  end.

(* ---------- np.roll(column, k) (array_shift with wrap=True along axis 0) ---------- *)
Definition roll_list {B} (k : Z) (l : list B) : list B :=
  let n := Z.of_nat (length l) in
  if n =? 0 then l else
  let s := Z.to_nat ((n - k mod n) mod n) in skipn s l ++ firstn s l.

(* the models at val *)
Definition M_values_v := M_values (A := val) resolve_dtype_t v_cast.
Definition S_values_v := S_values (A := val) resolve_dtype_t v_cast.
Definition M_transpose_v := M_transpose (A := val) resolve_dtype_t v_cast.
Definition S_transpose_v := S_transpose (A := val) resolve_dtype_t v_cast.
Definition M_row_dtype_v := M_row_dtype (A := val) resolve_dtype_t.

Definition M_fillna_v := M_fillna (A := val) resolve_dtype_t v_cast isna.
Definition S_fillna_v := S_fillna (A := val) resolve_dtype_t v_cast isna.
Definition coord_eqb (a b : Z * Z) : bool := zpair_eqb a b.
Definition cellpos_eqb (a b : Z * Z * val) : bool := zpair_eqb (fst a) (fst b) && val_eqb (snd a) (snd b).
Definition any_true (l : list bool) : bool := existsb (fun x => x) l.
Definition all_true (l : list bool) : bool := forallb (fun x => x) l.

(* ---------- np.clip on one cell = minimum(maximum(x, lo), hi); NaN propagates ---------- *)
Definition v_le (a b : val) : bool :=
  match num_view a, num_view b with
  | Some (n1, d1), Some (n2, d2) => n1 * d2 <=? n2 * d1
  | _, _ => true
  end.
Definition v_max (a b : val) : val :=
  match a, b with VNaN, _ | _, VNaN => VNaN | _, _ => if v_le a b then b else a end.
Definition v_min (a b : val) : val :=
  match a, b with VNaN, _ | _, VNaN => VNaN | _, _ => if v_le a b then a else b end.
Definition v_clip (x : val) (lo hi : option val) : val :=
  let y := match lo with Some l => v_max x l | None => x end in
  match hi with Some h => v_min y h | None => y end.
Definition M_clip_v := M_clip (A := val) v_clip.
Definition S_clip_v := S_clip (A := val) v_clip.

(* ---------- block + int64 array along the rows, for int64 / float64 blocks ---------- *)
Definition v_addz (x : val) (o : Z) : val :=
  match x with VInt z => VInt (z + o) | VFlt n d => VFlt (n + o * d) d | _ => x end.
Definition M_binop_row_v := M_binop_row (A := val) (B := Z) v_addz (fun d => d).
Definition S_binop_row_v := S_binop_row (A := val) (B := Z) v_addz (fun d => d).
