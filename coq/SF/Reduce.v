(* C15 -- axis reductions.  Models only, no proofs.

   S_*  : the specification.  A Frame is a list of columns of cells; a reduction along an axis is the
          SAME one-line function applied independently to every column (axis 0) or every row (axis 1).
          Cells are exact rationals (Q) or "missing"; skipna ignores the missing cells, otherwise a
          missing cell propagates (NaN) or is rejected (logical reductions).
   M_*  : the implementation model -- the algorithm TypeBlocks.ufunc_axis_skipna
          (static_frame/core/type_blocks.py:829-934) really runs over the block list: unified path,
          axis 0 per block into out[pos:end], axis 1 composable path (each block reduced to one column of an
          r x nblocks array that is reduced again), non-composable path (consolidate, then reduce), the
          size_one_unity shortcut, the choice of the dtype of `out` and the store into it; plus
          util._argminmax_2d (util.py:751-783) and Frame._ufunc_shape_skipna (frame.py:4218-4242).
          The per-function keyword constants (composable / size_one_unity / dtypes) are NOT written here:
          M takes them from the table regenerated from container.py on every run (Gen/Gen_c15_table.v). *)
Require Import SF.Prelude SF.Value SF.Dtype.
From Coq Require Import QArith Qabs.
Local Open Scope Z_scope.

(* ------------------------------------------------------------------ the functions of the property *)
Inductive rfunc := Fsum | Fprod | Fmin | Fmax | Fmean | Fmedian | Fstd | Fvar | Fall | Fany.

Definition rfunc_name (f : rfunc) : string :=
  match f with
  | Fsum => "sum" | Fprod => "prod" | Fmin => "min" | Fmax => "max" | Fmean => "mean"
  | Fmedian => "median" | Fstd => "std" | Fvar => "var" | Fall => "all" | Fany => "any"
  end%string.

Definition all_rfuncs : list rfunc := [Fsum; Fprod; Fmin; Fmax; Fmean; Fmedian; Fstd; Fvar; Fall; Fany].

Definition is_logical (f : rfunc) : bool := match f with Fall | Fany => true | _ => false end.

(* ------------------------------------------------------------------ cells and line results *)
(* a cell: an exact number, or missing (NaN) *)
Definition cell := option Q.

Definition cell_of (v : val) : cell :=
  match v with
  | VInt z => Some (z # 1)
  | VBool b => Some ((if b then 1 else 0) # 1)
  | VFlt n d => Some (n # Z.to_pos d)
  | _ => None
  end.

(* result of reducing one line *)
Inductive out :=
| ONum (q : Q)      (* the exact value *)
| ONaN              (* missing *)
| OSqrt (q : Q)     (* the square root of q (std) *)
| OUndef.           (* degrees of freedom <= 0: NaN or an infinity, the property does not say which *)

Definition is_none {A} (c : option A) : bool := match c with None => true | Some _ => false end.
Definition present (xs : list cell) : list Q :=
  flat_map (fun c => match c with Some q => [q] | None => [] end) xs.
Definition has_missing (xs : list cell) : bool := existsb is_none xs.
Definition is_nil {A} (l : list A) : bool := match l with [] => true | _ => false end.

(* leftmost minimum / maximum (what a left-to-right scan keeps on ties) *)
Definition qminl (a b : Q) : Q := if Qle_bool a b then a else b.
Definition qmaxl (a b : Q) : Q := if Qle_bool b a then a else b.
Definition qsum (l : list Q) : Q := fold_left Qplus l 0%Q.
Definition qprod (l : list Q) : Q := fold_left Qmult l 1%Q.
Definition qnonzero (q : Q) : bool := negb (Qnum q =? 0).
Definition qbool (b : bool) : Q := (if b then 1 else 0) # 1.
Definition qlen (l : list Q) : Q := inject_Z (Z.of_nat (length l)).
Definition qmean (l : list Q) : Q := (qsum l / qlen l)%Q.
Fixpoint qinsert (x : Q) (l : list Q) : list Q :=
  match l with
  | [] => [x]
  | y :: t => if Qle_bool x y then x :: l else y :: qinsert x t
  end.
Definition qsort (l : list Q) : list Q := fold_right qinsert [] l.
Definition qmedian (l : list Q) : Q :=
  let s := qsort l in
  let n := length l in
  if Nat.even n then ((nth (n / 2 - 1) s 0 + nth (n / 2) s 0) / (2 # 1))%Q else nth (n / 2) s 0%Q.
(* sum of squared deviations from the mean *)
Definition qdev2 (l : list Q) : Q := let m := qmean l in qsum (map (fun x => (x - m) * (x - m))%Q l).
Definition qvar (ddof : Z) (l : list Q) : Q := (qdev2 l / inject_Z (Z.of_nat (length l) - ddof))%Q.

(* the function on the present (non-missing) values of one line; [empty_line]: the line had no cell at all *)
Definition S_present (f : rfunc) (ddof : Z) (empty_line : bool) (p : list Q) : res out :=
  match f with
  | Fsum => Ok (ONum (qsum p))
  | Fprod => Ok (ONum (qprod p))
  | Fmin => match p with
            | [] => if empty_line then Err "ValueError" else Ok ONaN
            | q :: t => Ok (ONum (fold_left qminl t q))
            end
  | Fmax => match p with
            | [] => if empty_line then Err "ValueError" else Ok ONaN
            | q :: t => Ok (ONum (fold_left qmaxl t q))
            end
  | Fmean => if is_nil p then Ok ONaN else Ok (ONum (qmean p))
  | Fmedian => if is_nil p then Ok ONaN else Ok (ONum (qmedian p))
  | Fvar => if is_nil p then Ok ONaN
            else if Z.of_nat (length p) - ddof <=? 0 then Ok OUndef else Ok (ONum (qvar ddof p))
  | Fstd => if is_nil p then Ok ONaN
            else if Z.of_nat (length p) - ddof <=? 0 then Ok OUndef else Ok (OSqrt (qvar ddof p))
  | Fall => Ok (ONum (qbool (forallb qnonzero p)))
  | Fany => Ok (ONum (qbool (existsb qnonzero p)))
  end.

(* THE specification of one line: with skipna the missing cells are ignored; without it a missing
   cell propagates, or is rejected for the logical reductions -- it is never treated as a number *)
Definition S_line (f : rfunc) (skipna : bool) (ddof : Z) (xs : list cell) : res out :=
  if has_missing xs && negb skipna
  then (if is_logical f then Err "TypeError" else Ok ONaN)
  else S_present f ddof (is_nil xs) (present xs).

(* ------------------------------------------------------------------ frames as columns; lines of an axis *)
Section Lines.
  Context {A : Type}.
  Variable dflt : A.
  Definition row_at (i : nat) (cols : list (list A)) : list A := map (fun c => nth i c dflt) cols.
  Definition rows_of (r : nat) (cols : list (list A)) : list (list A) :=
    map (fun i => row_at i cols) (seq 0 r).
  (* axis 0: one line per column; axis 1: one line per row *)
  Definition lines (axis : Z) (r : nat) (cols : list (list A)) : list (list A) :=
    if axis =? 0 then cols else rows_of r cols.
End Lines.

Definition S_frame (f : rfunc) (axis : Z) (skipna : bool) (ddof : Z) (r : nat) (cols : list (list cell))
  : res (list out) :=
  res_all (map (S_line f skipna ddof) (lines None axis r cols)).

(* labels of the result: the other axis *)
Definition S_labels (axis : Z) (index columns : list val) : list val :=
  if axis =? 0 then columns else index.

(* ------------------------------------------------------------------ position of the minimum / maximum *)
(* scan keeping (position, value) of the best present cell; [better q b]: q strictly beats b *)
Fixpoint arg_go (better : Q -> Q -> bool) (i : Z) (best : option (Z * Q)) (xs : list cell) : option (Z * Q) :=
  match xs with
  | [] => best
  | None :: t => arg_go better (i + 1) best t
  | Some q :: t =>
      arg_go better (i + 1)
        (match best with
         | None => Some (i, q)
         | Some (_, b) => if better q b then Some (i, q) else best
         end) t
  end.
Definition q_lt (a b : Q) : bool := negb (Qle_bool b a).
Definition arg_better (ismin : bool) (q b : Q) : bool := if ismin then q_lt q b else q_lt b q.

(* a line without any non-missing cell (all missing, or no cell at all) has no position: NaN *)
Definition S_argline (ismin skipna : bool) (xs : list cell) : res out :=
  if has_missing xs && negb skipna then Ok ONaN
  else match arg_go (arg_better ismin) 0 None xs with
       | None => Ok ONaN
       | Some (i, _) => Ok (ONum (i # 1))
       end.

Definition S_argframe (ismin : bool) (axis : Z) (skipna : bool) (r : nat) (cols : list (list cell))
  : res (list out) :=
  res_all (map (S_argline ismin skipna) (lines None axis r cols)).

(* the label at the position; a line without a position has no label: RuntimeError *)
Definition loc_of (labels : list val) (o : out) : res val :=
  match o with
  | ONum q => match nth_error labels (Z.to_nat (Qnum q)) with Some l => Ok l | None => Err "IndexError" end
  | _ => Err "RuntimeError"
  end.
Definition S_locframe (ismin : bool) (axis : Z) (skipna : bool) (r : nat) (cols : list (list cell))
           (index columns : list val) : res (list val) :=
  match S_argframe ismin axis skipna r cols with
  | Err e => Err e
  | Ok os => res_all (map (loc_of (if axis =? 0 then index else columns)) os)
  end.

(* ------------------------------------------------------------------ cumulative sum / product *)
Fixpoint cum_go (op : Q -> Q -> Q) (skipna : bool) (acc : Q) (dead : bool) (xs : list cell) : list out :=
  match xs with
  | [] => []
  | None :: t => if skipna then (if dead then ONaN else ONum acc) :: cum_go op skipna acc dead t
                 else ONaN :: cum_go op skipna acc true t
  | Some q :: t => let a := op acc q in (if dead then ONaN else ONum a) :: cum_go op skipna a dead t
  end.
Definition S_cumline (isprod skipna : bool) (xs : list cell) : list out :=
  if isprod then cum_go Qmult skipna 1%Q false xs else cum_go Qplus skipna 0%Q false xs.
(* result in "lines" orientation: one list per column (axis 0) or per row (axis 1) *)
Definition S_cumframe (isprod : bool) (axis : Z) (skipna : bool) (r : nat) (cols : list (list cell))
  : list (list out) :=
  map (S_cumline isprod skipna) (lines None axis r cols).

(* ------------------------------------------------------------------ folds over a semigroup; missing values *)
(* fold of a NON-EMPTY list with an associative operation, no identity needed ([d] only for the empty list) *)
Definition fold1 {Mo} (op : Mo -> Mo -> Mo) (d : Mo) (l : list Mo) : Mo :=
  match l with [] => d | x :: t => fold_left op t x end.
(* missing = identity (skipna): the missing cells drop out; a line of missing cells stays missing *)
Definition lift_skip {X} (op : X -> X -> X) (a b : option X) : option X :=
  match a, b with
  | None, y => y
  | x, None => x
  | Some p, Some q => Some (op p q)
  end.
(* missing = absorbing (no skipna): one missing cell makes the result missing *)
Definition lift_prop {X} (op : X -> X -> X) (a b : option X) : option X :=
  match a, b with
  | Some p, Some q => Some (op p q)
  | _, _ => None
  end.

(* ================================================================== implementation model *)
(* a block: one 1-D array, or a 2-D array given by its columns *)
Inductive blk (A : Type) :=
| B1 (c : list A)
| B2 (cs : list (list A)).
Arguments B1 {A} c.
Arguments B2 {A} cs.

Definition blk_cols {A} (b : blk A) : list (list A) := match b with B1 c => [c] | B2 cs => cs end.
Definition flatten {A} (bs : list (blk A)) : list (list A) := flat_map blk_cols bs.
Definition blk_map {A B} (g : A -> B) (b : blk A) : blk B :=
  match b with B1 c => B1 (map g c) | B2 cs => B2 (map (map g) cs) end.
(* b.size == 1 *)
Definition blk_single {A} (b : blk A) : option A :=
  match b with
  | B1 [x] => Some x
  | B2 [[x]] => Some x
  | _ => None
  end.

Section BlockAlg.
  Context {A R : Type}.
  Variable dflt : A.
  Variable red : list A -> R.        (* reduce one line (the ufunc pair applied along the axis) *)

  (* axis 0, several blocks (type_blocks.py:889-905): each block is reduced on its own into out[pos:end];
     [store]: the cast into the dtype of `out` *)
  Variable store : R -> R.
  Definition M_axis0_blk (b : blk A) : list R := map (fun c => store (red c)) (blk_cols b).
  Definition M_axis0 (bs : list (blk A)) : list R := flat_map M_axis0_blk bs.

  (* axis 1, composable (type_blocks.py:862-864, 906-933): block idx is reduced to column idx of an
     r x nblocks array `out`; a 1-D block is copied, a 2-D block is reduced row by row and the result stored as
     a cell ([inj]); with the size_one_unity shortcut ([short]) a one-cell block is copied;
     then `out` is reduced again, row by row *)
  Variable inj : R -> A.
  Variable short : bool.
  Definition comp_cell (i : nat) (b : blk A) : A :=
    match b with
    | B1 c => nth i c dflt
    | B2 cs => match (if short then blk_single b else None) with
               | Some x => x
               | None => inj (red (row_at dflt i cs))
               end
    end.
  Definition M_axis1_comp (r : nat) (bs : list (blk A)) : list R :=
    map (fun i => red (map (comp_cell i) bs)) (seq 0 r).

  (* axis 1, not composable (type_blocks.py:865-876): _blocks_to_array builds every row by concatenating
     the block rows; the 2-D result is reduced row by row *)
  Definition blk_row (i : nat) (b : blk A) : list A :=
    match b with B1 c => [nth i c dflt] | B2 cs => row_at dflt i cs end.
  Definition consolidated_row (i : nat) (bs : list (blk A)) : list A := flat_map (blk_row i) bs.
  Definition M_axis1_cons (r : nat) (bs : list (blk A)) : list R :=
    map (fun i => red (consolidated_row i bs)) (seq 0 r).
End BlockAlg.

(* ------------------------------------------------------------------ the per-function constants *)
(* the `dtypes` keyword: which constant tuple container.py passes *)
Inductive dsel := DsEmpty | DsBool | DsInexact | DsFloat.
Record flags := mk_flags { fl_composable : bool; fl_unity : bool; fl_dtypes : dsel }.

(* kinds of the column dtypes the model covers, and the row dtype they resolve to
   (util.resolve_dtype: equal kinds stay, int+float -> float, bool with anything else -> object) *)
Inductive kind := KB | KI | KF | KO.
Definition kind_of (d : dtype) : kind :=
  match d with DBool => KB | DInt _ _ => KI | DFlt _ => KF | _ => KO end.
Definition kind_join (a b : kind) : kind :=
  match a, b with
  | KB, KB => KB
  | KI, KI => KI
  | KF, KF | KI, KF | KF, KI => KF
  | _, _ => KO
  end.
Definition is_kb (k : kind) : bool := match k with KB => true | _ => false end.
Definition is_ko (k : kind) : bool := match k with KO => true | _ => false end.
Definition row_kind (ks : list kind) : kind :=
  match ks with [] => KF | k :: t => fold_left kind_join t k end.

(* dtype of `out` (type_blocks.py:878-899): is it bool?  With no `dtypes` it is the row dtype, except that the
   sum over an all-bool frame is counted into the default integer dtype (`dtype == DTYPE_BOOL and ufunc is np.sum`) *)
Definition is_sum (f : rfunc) : bool := match f with Fsum => true | _ => false end.
Definition out_is_bool (fl : flags) (rk : kind) (f : rfunc) : bool :=
  match fl_dtypes fl with
  | DsEmpty => match rk with KB => negb (is_sum f) | _ => false end
  | DsBool => true
  | DsInexact | DsFloat => false
  end.
Definition out_is_obj (fl : flags) (rk : kind) : bool :=
  match fl_dtypes fl with
  | DsEmpty => match rk with KO => true | _ => false end
  | _ => false
  end.

(* storing a line result into a bool array: anything non-zero is True *)
Definition store_bool (o : res out) : res out :=
  match o with
  | Ok (ONum q) => Ok (ONum (qbool (qnonzero q)))
  | Ok _ => Ok (ONum (qbool true))
  | Err e => Err e
  end.

(* a line result written into `out` and read back as a cell; an exception aborts the whole call, which the
   model renders as a missing cell that the (logical, skipna=False) second pass rejects again *)
Definition inj_out (o : res out) : cell :=
  match o with
  | Ok (ONum q) => Some q
  | _ => None
  end.
(* a 1-D block of a logical reduction whose dtype is not bool is first reduced cell by cell
   (type_blocks.py:921-924: func(array=column_2d_filter(b), axis=1)) *)
Definition prep_blk (f : rfunc) (skipna : bool) (is_bool_blk : bool) (b : blk cell) : blk cell :=
  match b with
  | B1 c => if is_logical f && negb is_bool_blk
            then B1 (map (fun x => inj_out (S_line f skipna 0 [x])) c) else b
  | B2 _ => b
  end.

Definition vblk := (dtype * blk val)%type.
Definition vblk_cells (b : vblk) : blk cell := blk_map cell_of (snd b).
Definition frame_cells (bs : list vblk) : list (list cell) := flatten (map vblk_cells bs).
Definition frame_kinds (bs : list vblk) : list kind :=
  flat_map (fun b => map (fun _ => kind_of (fst b)) (blk_cols (snd b))) bs.

(* size_one_unity shortcut of axis 0 (type_blocks.py:896-900): `out[pos] = b` with b an ARRAY of size 1;
   NumPy 2 refuses to store a sequence in an element *)
Definition shortcut0 (fl : flags) (skipna : bool) (bs : list vblk) : bool :=
  fl_unity fl && negb skipna && existsb (fun b => negb (is_none (blk_single (snd b)))) bs.

(* several blocks (type_blocks.py:858-933) *)
Definition M_multi (tbl : rfunc -> flags) (f : rfunc) (axis : Z) (skipna : bool) (ddof : Z) (r : nat)
           (bs : list vblk) : res (list out) :=
  let fl := tbl f in
  let red := S_line f skipna ddof in
  let rk := row_kind (frame_kinds bs) in
  let store := if out_is_bool fl rk f then store_bool else (fun o => o) in
  if axis =? 0 then
    if shortcut0 fl skipna bs then
      (* out[pos] = b, b an array of size 1: a bool `out` takes its truth value, a numeric one raises *)
      if out_is_bool fl rk f then
        res_all (flat_map (fun b : vblk =>
                   match blk_single (vblk_cells b) with
                   | Some x => [store_bool (Ok (match x with Some q => ONum q | None => ONaN end))]
                   | None => M_axis0_blk red store (vblk_cells b)
                   end) bs)
      else Err "ValueError"
    else res_all (M_axis0 red store (map vblk_cells bs))
  else if fl_composable fl then
    res_all (M_axis1_comp None red inj_out (fl_unity fl && negb skipna) r
               (map (fun b : vblk => prep_blk f skipna (is_kb (kind_of (fst b))) (vblk_cells b)) bs))
  else
    res_all (M_axis1_cons None red r (map vblk_cells bs)).

Definition M_frame (tbl : rfunc -> flags) (f : rfunc) (axis : Z) (skipna : bool) (ddof : Z) (r : nat)
           (bs : list vblk) : res (list out) :=
  match bs with
  | [] => Err "IndexError"                                     (* self._blocks[0] *)
  | [b] =>                                                     (* unified: one call on the only block *)
      res_all (map (S_line f skipna ddof) (lines None axis r (blk_cols (vblk_cells b))))
  | _ => M_multi tbl f axis skipna ddof r bs
  end.

(* ------------------------------------------------------------------ argmin / argmax: util._argminmax_2d *)
(* on self.values (the consolidated array): NaN in every line and not skipna -> all NaN; NaN in some line ->
   nanargmin of every line (ValueError on an all-NaN line), then NaN for the lines with NaN if not skipna;
   otherwise argmin *)
(* Frame.values: the consolidated 2-D array, row by row (TypeBlocks._blocks_to_array) *)
Definition values_rows (r : nat) (bs : list vblk) : list (list cell) :=
  map (fun i => consolidated_row None i (map vblk_cells bs)) (seq 0 r).
Definition ncols (bs : list vblk) : nat := length (frame_cells bs).
(* the lines of the 2-D array along an axis: its columns (axis 0) or its rows (axis 1) *)
Definition values_lines (axis : Z) (r : nat) (bs : list vblk) : list (list cell) :=
  let rows := values_rows r bs in
  if axis =? 0 then map (fun j => map (fun row => nth j row None) rows) (seq 0 (ncols bs)) else rows.

Definition M_argframe (ismin : bool) (axis : Z) (skipna : bool) (r : nat) (bs : list vblk) : res (list out) :=
  let ls := values_lines axis r bs in
  if existsb is_nil ls then Err "ValueError"
  else
    let isna_axis := map has_missing ls in
    if forallb (fun b => b) isna_axis && negb skipna then Ok (map (fun _ => ONaN) ls)
    else if existsb (fun b => b) isna_axis then
      if existsb (fun l => forallb is_none l) ls then Err "ValueError"       (* np.nanargmin: All-NaN slice *)
      else res_all (map (fun l => if has_missing l && negb skipna then Ok ONaN else S_argline ismin true l) ls)
    else res_all (map (S_argline ismin true) ls).

(* cumsum / cumprod: Frame._ufunc_shape_skipna works on self.values *)
Definition M_cumframe (isprod : bool) (axis : Z) (skipna : bool) (r : nat) (bs : list vblk) : list (list out) :=
  map (S_cumline isprod skipna) (values_lines axis r bs).

(* ------------------------------------------------------------------ guards *)
(* shape: every column of every block has r cells, a 2-D block has at least one column, a bool block holds bools *)
Definition is_vbool (v : val) : bool := match v with VBool _ => true | _ => false end.
Definition wf_blk (r : nat) (b : vblk) : bool :=
  forallb (fun c => (length c =? r)%nat &&
                    (match fst b with DBool => forallb is_vbool c | _ => true end)) (blk_cols (snd b)) &&
  negb (is_nil (blk_cols (snd b))).
Definition wf_frame (r : nat) (bs : list vblk) : bool := forallb (wf_blk r) bs.

Definition multi {A} (l : list A) : bool := match l with _ :: _ :: _ => true | _ => false end.

(* where M claims to describe the code: NumPy reductions over OBJECT arrays (rows mixing bool with numbers) and
   the 0-row logical reductions (uninitialised memory) are not modelled *)
Definition m_faithful (tbl : rfunc -> flags) (f : rfunc) (axis : Z) (skipna : bool) (r : nat) (bs : list vblk) : bool :=
  let rk := row_kind (frame_kinds bs) in
  negb (multi bs && is_ko rk &&
        (match f with Fmin | Fmax => true | Fstd | Fmedian | Fvar | Fmean => negb (axis =? 0)
                  | Fsum | Fprod => (r =? 0)%nat | _ => false end)) &&
  negb (multi bs && (axis =? 0) && shortcut0 (tbl f) skipna bs && out_is_obj (tbl f) rk) &&
  negb ((r =? 0)%nat && is_logical f && negb (is_nil bs)).

(* where M meets S: at least one column, and the size_one_unity shortcut of axis 0 not taken *)
Definition dom (tbl : rfunc -> flags) (f : rfunc) (axis : Z) (skipna : bool) (r : nat) (bs : list vblk) : bool :=
  negb (is_nil bs) &&
  negb (multi bs && (axis =? 0) && shortcut0 (tbl f) skipna bs).

(* ------------------------------------------------------------------ comparing with what was observed *)
Definition two40 : Q := (1099511627776 # 1).
(* |q - r| <= 2^-40 |q| *)
Definition q_close (q r : Q) : bool := Qle_bool (Qabs (q - r) * two40) (Qabs q).
Definition pos_is_pow2 (p : positive) : bool := Z.pos p =? 2 ^ Z.log2 (Z.pos p).
Definition is_dyadic (q : Q) : bool := pos_is_pow2 (Qden (Qred q)).

(* an exactly representable value must be reproduced exactly; otherwise to 2^-40 relative (NumPy's own rounding
   is not part of the property) *)
Definition out_match (o : out) (v : val) : bool :=
  match o with
  | ONaN => match v with VNaN => true | _ => false end
  | OUndef => match v with VNaN | VInf _ => true | _ => false end
  | ONum q => match cell_of v with
              | Some r => Qeq_bool q r || (negb (is_dyadic q) && q_close q r)
              | None => false
              end
  | OSqrt q => match cell_of v with
               | Some r => Qle_bool 0 r && q_close q (r * r)
               | None => false
               end
  end.

Fixpoint list_match {A B} (m : A -> B -> bool) (a : list A) (b : list B) : bool :=
  match a, b with
  | [], [] => true
  | x :: xs, y :: ys => m x y && list_match m xs ys
  | _, _ => false
  end.
Definition outs_match (os : list out) (vs : list val) : bool := list_match out_match os vs.

Definition res_match {A B} (m : A -> B -> bool) (a : res A) (b : res B) : bool :=
  match a, b with
  | Ok x, Ok y => m x y
  | Err e1, Err e2 => String.eqb e1 e2
  | _, _ => false
  end.

(* observed Series: (index labels, values) or the exception class *)
Definition reduce_match (want : res (list out)) (labels : list val) (obs : res (list val * list val)) : bool :=
  res_match (fun os p => vlist_eqb labels (fst p) && outs_match os (snd p)) want obs.

Definition loc_match (want : res (list val)) (labels : list val) (obs : res (list val * list val)) : bool :=
  res_match (fun ls p => vlist_eqb labels (fst p) && list_eqb py_val_eq ls (snd p)) want obs.

(* observed Frame of cumsum/cumprod: index, columns, values by line along the axis *)
Definition cum_match (want : list (list out)) (index columns : list val)
           (obs : res (list val * list val * list (list val))) : bool :=
  match obs with
  | Ok (i, c, ls) => vlist_eqb index i && vlist_eqb columns c && list_match outs_match want ls
  | Err _ => false
  end.

(* ------------------------------------------------------------------ what a correspondence case evaluates *)
Definition check_S (f : rfunc) (axis : Z) (skipna : bool) (ddof : Z) (r : nat) (bs : list vblk)
           (index columns : list val) (obs : res (list val * list val)) : bool :=
  reduce_match (S_frame f axis skipna ddof r (frame_cells bs)) (S_labels axis index columns) obs.
(* the ddof the code really passes on: container.py binds it with partial(np.var, ddof=ddof) separately for the
   skipna and the non-skipna function; [bound f skipna] (regenerated from the source) says whether it is bound *)
Definition eff_ddof (bound : rfunc -> bool -> bool) (f : rfunc) (skipna : bool) (ddof : Z) : Z :=
  if bound f skipna then ddof else 0.
Definition check_M (tbl : rfunc -> flags) (bound : rfunc -> bool -> bool) (f : rfunc) (axis : Z) (skipna : bool) (ddof : Z)
           (r : nat) (bs : list vblk) (index columns : list val) (obs : res (list val * list val)) : bool :=
  negb (m_faithful tbl f axis skipna r bs) ||
  (wf_frame r bs &&
   reduce_match (M_frame tbl f axis skipna (eff_ddof bound f skipna ddof) r bs) (S_labels axis index columns) obs).

Definition check_arg_S (ismin isloc : bool) (axis : Z) (skipna : bool) (r : nat) (bs : list vblk)
           (index columns : list val) (obs : res (list val * list val)) : bool :=
  if isloc
  then loc_match (S_locframe ismin axis skipna r (frame_cells bs) index columns) (S_labels axis index columns) obs
  else reduce_match (S_argframe ismin axis skipna r (frame_cells bs)) (S_labels axis index columns) obs.
Definition M_locframe (ismin : bool) (axis : Z) (skipna : bool) (r : nat) (bs : list vblk)
           (index columns : list val) : res (list val) :=
  match M_argframe ismin axis skipna r bs with
  | Err e => Err e
  | Ok os => res_all (map (loc_of (if axis =? 0 then index else columns)) os)
  end.
Definition check_arg_M (ismin isloc : bool) (axis : Z) (skipna : bool) (r : nat) (bs : list vblk)
           (index columns : list val) (obs : res (list val * list val)) : bool :=
  wf_frame r bs &&
  (if isloc
   then loc_match (M_locframe ismin axis skipna r bs index columns) (S_labels axis index columns) obs
   else reduce_match (M_argframe ismin axis skipna r bs) (S_labels axis index columns) obs).

Definition check_cum_S (isprod : bool) (axis : Z) (skipna : bool) (r : nat) (bs : list vblk)
           (index columns : list val) (obs : res (list val * list val * list (list val))) : bool :=
  cum_match (S_cumframe isprod axis skipna r (frame_cells bs)) index columns obs.
Definition check_cum_M (isprod : bool) (axis : Z) (skipna : bool) (r : nat) (bs : list vblk)
           (index columns : list val) (obs : res (list val * list val * list (list val))) : bool :=
  wf_frame r bs && cum_match (M_cumframe isprod axis skipna r bs) index columns obs.

(* kernel level: TypeBlocks.ufunc_axis_skipna called directly with ANY flag combination (also the ones
   container.py never passes); observed: the returned 1-D array *)
Definition check_K (fl : flags) (f : rfunc) (axis : Z) (skipna : bool) (ddof : Z) (r : nat) (bs : list vblk)
           (obs : res (list val)) : bool :=
  negb (m_faithful (fun _ => fl) f axis skipna r bs) ||
  (wf_frame r bs && res_match outs_match (M_frame (fun _ => fl) f axis skipna ddof r bs) obs).

(* a Series reduced on its own (the right-hand side of the property): observed scalar *)
Definition check_series (f : rfunc) (skipna : bool) (ddof : Z) (c : list val) (obs : res val) : bool :=
  res_match out_match (S_line f skipna ddof (map cell_of c)) obs.
Definition check_series_arg (ismin : bool) (skipna : bool) (c : list val) (obs : res val) : bool :=
  res_match out_match (S_argline ismin skipna (map cell_of c)) obs.
