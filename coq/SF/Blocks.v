(* The block manager (static_frame/core/type_blocks.py): columns partitioned into typed blocks,
   the position -> (block, column-in-block) directory, and the block-walking column algorithms
   (selection, drop, mask).  Models only, no proofs (Proofs/Blocks*.v).

   Row keys are applied by NumPy to every block alike (b[row_key] / b[row_key, slc]); they are
   modelled by a function on a single column that is mapped over the columns.  What static-frame
   itself computes -- and what can go wrong per block layout -- is the walk over the column axis. *)
Require Import SF.Prelude SF.PySlice SF.Dtype.

Section Blocks.
Context {A : Type}.

(* one block: its dtype, whether it is a 1-D array, its columns (each a list of cells down the rows).
   A 1-D block has exactly one column; a 2-D block has >= 1 (0-width blocks are dropped by from_blocks). *)
Record block := mk_block { b_dtype : dtype; b_1d : bool; b_cols : list (list A) }.

Definition tb := list block.

Definition width (b : block) : Z := Z.of_nat (length (b_cols b)).

Definition wf_block (b : block) : Prop :=
  (1 <= length (b_cols b))%nat /\ (b_1d b = true -> length (b_cols b) = 1%nat).
Definition wf_tb (t : tb) : Prop := Forall wf_block t.

(* ABSTRACTION: the external view, one (dtype, column) per column position *)
Definition block_columns (b : block) : list (dtype * list A) := map (pair (b_dtype b)) (b_cols b).
Definition flatten (t : tb) : list (dtype * list A) := flat_map block_columns t.

(* TypeBlocks._index as from_blocks builds it (type_blocks.py:146-153): for block number k,
   (k, 0) .. (k, width-1) *)
Fixpoint index_from (k : Z) (t : tb) : list (Z * Z) :=
  match t with
  | [] => []
  | b :: r => map (fun j => (k, Z.of_nat j)) (seq 0 (length (b_cols b))) ++ index_from (k + 1) r
  end.
Definition tb_index (t : tb) : list (Z * Z) := index_from 0 t.

(* ---- TypeBlocks._cols_to_slice, typed (Proofs/BlocksRefine.v: equal to the regenerated kernel) ---- *)
Definition cols_to_slice_t (indices : list Z) : slice :=
  match indices with
  | [] => mk_slice None None None      (* IndexError in Python; never reached: bundles are non-empty *)
  | start_idx :: _ =>
      if (Z.of_nat (length indices) =? 1) then mk_slice (Some start_idx) (Some (start_idx + 1)) None
      else
        let stop_idx := last indices start_idx in
        if stop_idx >? start_idx then mk_slice (Some start_idx) (Some (stop_idx + 1)) None
        else if stop_idx =? 0 then mk_slice (Some start_idx) None (Some (-1))
        else mk_slice (Some start_idx) (Some (stop_idx - 1)) (Some (-1))
  end.

(* ---- TypeBlocks._indices_to_contiguous_pairs (type_blocks.py:1017-1046) ----
   state: last = (block, col) of the previous pair, bundle = columns collected so far (in order) *)
Fixpoint contiguous_go (last_b last_c : Z) (bundle_rev : list Z) (rest : list (Z * Z))
  : list (Z * list Z) :=
  match rest with
  | [] => [(last_b, rev bundle_rev)]
  | (bi, col) :: rest' =>
      if (last_b =? bi) && (Z.abs (col - last_c) =? 1)
      then contiguous_go bi col (col :: bundle_rev) rest'
      else (last_b, rev bundle_rev) :: contiguous_go bi col [col] rest'
  end.

Definition contiguous_bundles (pairs : list (Z * Z)) : list (Z * list Z) :=
  match pairs with
  | [] => []
  | (bi, col) :: rest => contiguous_go bi col [col] rest
  end.

Definition contiguous_pairs (pairs : list (Z * Z)) : list (Z * slice) :=
  map (fun p => (fst p, cols_to_slice_t (snd p))) (contiguous_bundles pairs).

(* ---- column keys, after Frame-level translation to positions ---- *)
Inductive ckey :=
| CAll                          (* None or the null slice *)
| CInt (i : Z)
| CSlice (s : slice)
| CList (l : list Z)            (* list / integer array, Python negative indexing into _index *)
| CMask (m : list bool).

Definition nth_pair (l : list (Z * Z)) (i : Z) : option (Z * Z) := py_nth l i.

Fixpoint opt_all {B} (l : list (option B)) : option (list B) :=
  match l with
  | [] => Some []
  | None :: _ => None
  | Some x :: r => match opt_all r with Some xs => Some (x :: xs) | None => None end
  end.

Fixpoint mask_positions (m : list bool) (i : Z) : list Z :=
  match m with
  | [] => []
  | true :: r => i :: mask_positions r (i + 1)
  | false :: r => mask_positions r (i + 1)
  end.

(* TypeBlocks._key_to_block_slices (type_blocks.py:1058-1096), retain_key_order = true.
   The integer key yields (block, column) with an INTEGER column: represented as a one-column
   slice here (the 1-D/2-D reshaping it causes is not visible in `flatten`). *)
Definition all_block_slices (t : tb) : list (Z * slice) :=
  map (fun kb => (fst kb, mk_slice (Some 0) (Some (width (snd kb))) None))
      (combine (map Z.of_nat (seq 0 (length t))) t).

Definition key_positions (k : ckey) (n : Z) : res (list Z) :=
  match k with
  | CAll => Ok (map Z.of_nat (seq 0 (Z.to_nat n)))
  | CInt i => match norm_index i n with Some j => Ok [j] | None => Err "IndexError" end
  | CSlice s => match positions s n with Some ps => Ok ps | None => Err "ValueError" end
  | CList l => match opt_all (map (fun i => norm_index i n) l) with Some ps => Ok ps | None => Err "IndexError" end
  | CMask m => if Z.of_nat (length m) =? n then Ok (mask_positions m 0) else Err "IndexError"
  end.

Definition key_to_block_slices (t : tb) (k : ckey) : res (list (Z * slice)) :=
  match k with
  | CAll => Ok (all_block_slices t)
  | _ =>
    match key_positions k (Z.of_nat (length (tb_index t))) with
    | Err e => Err e
    | Ok ps =>
        match opt_all (map (nth_z (tb_index t)) ps) with
        | Some pairs => Ok (contiguous_pairs pairs)
        | None => Err "IndexError"
        end
    end
  end.

(* ---- TypeBlocks._slice_blocks, column part (type_blocks.py:1966-2024) ---- *)
Definition slice_block (b : block) (slc : slice) : option block :=
  if b_1d b then Some b                      (* "given 1D array, our row key is all we need" *)
  else match slice_list (b_cols b) slc with
       | Some cols => Some (mk_block (b_dtype b) false cols)
       | None => None
       end.

Definition slice_blocks (t : tb) (pairs : list (Z * slice)) : option tb :=
  opt_all (map (fun p => match nth_z t (fst p) with
                         | Some b => slice_block b (snd p)
                         | None => None
                         end) pairs).

(* column selection through the blocks *)
Definition M_select_columns (t : tb) (k : ckey) : res tb :=
  match key_to_block_slices t k with
  | Err e => Err e
  | Ok pairs => match slice_blocks t pairs with
                | Some t' => Ok t'
                | None => Err "IndexError"
                end
  end.

(* SPECIFICATION: pick the columns at the key's positions, in key order -- no blocks in sight *)
Definition S_select_columns (cols : list (dtype * list A)) (k : ckey) : res (list (dtype * list A)) :=
  match key_positions k (Z.of_nat (length cols)) with
  | Err e => Err e
  | Ok ps => match take_positions cols ps with
             | Some out => Ok out
             | None => Err "IndexError"
             end
  end.

(* ---- ascending walk used by drop and mask: retain_key_order = false ----
   slices go through slice_to_ascending_slice (typed form asc_typed, Proofs/AscSliceRefine.v),
   lists through sorted(); masks and ints are ascending already *)
Fixpoint insert_sorted (x : Z) (l : list Z) : list Z :=
  match l with
  | [] => [x]
  | y :: r => if x <=? y then x :: l else y :: insert_sorted x r
  end.
Definition sort_z (l : list Z) : list Z := fold_right insert_sorted [] l.

End Blocks.

Arguments block : clear implicits.
Arguments tb : clear implicits.
