(* C20 -- moving columns into index labels and back: Frame.set_index / set_index_hierarchy / unset_index
   (frame.py:4906-5058), relabel_shift_in / relabel_shift_out (frame.py:3190-3358).  Models only.

   A frame is seen as two lists of NAMED COLUMNS: the index depths (name of the depth, labels down the
   rows) and the data columns (column label, cells down the rows).  A cell keeps its row exactly when
   the column it lives in is moved as a whole, so "no cell or its row changes" is: the named columns
   of the result are the named columns of the input, only distributed differently over index / data. *)
Require Import SF.Prelude.

Section Shift.
Context {N A : Type}.
Variable neqb : N -> N -> bool.         (* equality of names / column labels *)
Variable aeqb : A -> A -> bool.         (* equality of labels (cells that become index labels) *)
Variable auto_level : nat -> N * list A.   (* IndexAutoFactory: ('__index0__', [0 .. n-1]) *)

Definition ncol := (N * list A)%type.
Record lframe := mk_lframe { lf_rows : nat; lf_levels : list ncol; lf_cols : list ncol }.

(* ---- index validity: what Index / IndexHierarchy._from_type_blocks accept ---- *)
Definition row_at (cols : list (list A)) (d : A) (i : nat) : list A := map (fun c => nth i c d) cols.
Definition rows_of_cols (n : nat) (d : A) (cols : list (list A)) : list (list A) :=
  map (row_at cols d) (seq 0 n).

Fixpoint nodupb' {X} (eqb : X -> X -> bool) (l : list X) : bool :=
  match l with [] => true | x :: r => negb (existsb (eqb x) r) && nodupb' eqb r end.

Fixpoint dropwhile {X} (p : X -> bool) (l : list X) : list X :=
  match l with [] => [] | x :: r => if p x then dropwhile p r else l end.

(* equal elements are contiguous: "v cannot follow observed_last[d] when v has already been defined" *)
Fixpoint groupedb {X} (eqb : X -> X -> bool) (l : list X) : bool :=
  match l with
  | [] => true
  | x :: r => negb (existsb (eqb x) (dropwhile (eqb x) r)) && groupedb eqb r
  end.

Definition index_okb (n : nat) (d : A) (levels : list ncol) : bool :=
  let rows := rows_of_cols n d (map snd levels) in
  let depth := length levels in
  nodupb' (list_eqb aeqb) rows &&
  forallb (fun k => groupedb (list_eqb aeqb) (map (firstn (S k)) rows)) (seq 0 (depth - 1)).

Definition check_index (n : nat) (d : A) (levels : list ncol) : res unit :=
  if index_okb n d levels then Ok tt else Err "ErrorInitIndex".
Definition check_names (cols : list ncol) : res unit :=
  if nodupb' neqb (map fst cols) then Ok tt else Err "ErrorInitIndex".

(* ---- selection of columns by label (Index._loc_to_iloc + _extract / _drop_blocks) ---- *)
Definition find_col (k : N) (cols : list ncol) : res ncol :=
  match find (fun c => neqb k (fst c)) cols with Some c => Ok c | None => Err "KeyError" end.
Definition select (keys : list N) (cols : list ncol) : res (list ncol) :=
  res_all (map (fun k => find_col k cols) keys).
Definition in_keys (keys : list N) (c : ncol) : bool := existsb (fun k => neqb k (fst c)) keys.
Definition remaining (keys : list N) (cols : list ncol) : list ncol :=
  filter (fun c => negb (in_keys keys c)) cols.

(* selection of depths by position *)
Fixpoint select_pos {X} (ps : list nat) (l : list X) : res (list X) :=
  match ps with
  | [] => Ok []
  | p :: r => match nth_error l p with
              | Some x => match select_pos r l with Ok xs => Ok (x :: xs) | Err e => Err e end
              | None => Err "IndexError"
              end
  end.
Definition remaining_pos {X} (ps : list nat) (l : list X) : list X :=
  map snd (filter (fun ix => negb (existsb (Nat.eqb (fst ix)) ps)) (combine (seq 0 (length l)) l)).

Definition auto_if_empty (n : nat) (levels : list ncol) : list ncol :=
  match levels with [] => [auto_level n] | _ => levels end.

(* ---- the operations ---- *)
(* relabel_shift_in(key, axis=0): selected columns are appended to the index depths (in key order) *)
Definition M_shift_in (d : A) (keys : list N) (t : lframe) : res lframe :=
  sel <- select keys (lf_cols t) ;;
  let levels := lf_levels t ++ sel in
  _ <- check_index (lf_rows t) d levels ;;
  Ok (mk_lframe (lf_rows t) levels (remaining keys (lf_cols t))).

(* relabel_shift_out(depth_level, axis=0): selected depths become the first columns (in key order) *)
Definition depth1_valid (depths : list nat) : bool :=
  match depths with [O] => true | _ => false end.
Definition M_shift_out (d : A) (depths : list nat) (t : lframe) : res lframe :=
  (* Index._depth_level_validate: a depth-1 index only has depth 0 *)
  if (length (lf_levels t) =? 1)%nat && negb (depth1_valid depths) then Err "RuntimeError" else
  sel <- select_pos depths (lf_levels t) ;;
  let rest := remaining_pos depths (lf_levels t) in
  _ <- (match rest with [] => Ok tt | _ => check_index (lf_rows t) d rest end) ;;
  let cols := sel ++ lf_cols t in
  _ <- check_names cols ;;
  Ok (mk_lframe (lf_rows t) (auto_if_empty (lf_rows t) rest) cols).

(* set_index(column, drop) / set_index_hierarchy(columns, drop): the PREVIOUS index is discarded *)
Definition M_set_index (d : A) (keys : list N) (drop : bool) (t : lframe) : res lframe :=
  sel <- select keys (lf_cols t) ;;
  _ <- check_index (lf_rows t) d sel ;;
  Ok (mk_lframe (lf_rows t) sel (if drop then remaining keys (lf_cols t) else lf_cols t)).

(* unset_index(names): the index depths become the first columns, the index becomes the auto index *)
Definition rename (names : list N) (levels : list ncol) : list ncol :=
  match names with
  | [] => levels
  | _ => combine names (map snd levels)
  end.
Definition M_unset_index (names : list N) (t : lframe) : res lframe :=
  let cols := rename names (lf_levels t) ++ lf_cols t in
  _ <- check_names cols ;;
  Ok (mk_lframe (lf_rows t) [auto_level (lf_rows t)] cols).

End Shift.

Arguments lframe : clear implicits.
Arguments mk_lframe {N A} _ _ _.
