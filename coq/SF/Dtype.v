(* NumPy dtypes as static-frame sees them, and the ORACLE model of np.result_type
   (hand-written, trusted, exhaustively validated against NumPy by tools/sfv/oracles.py). *)
Require Import SF.Prelude.

(* time units Y..ns and the generic unit; ps/fs/as are outside the model (NumPy raises
   OverflowError when promoting them with coarse units) *)
Inductive tunit := UGen | UY | UM | UW | UD | Uh | Um | Us | Ums | Uus | Uns.

Definition tunit_rank (u : tunit) : Z :=
  match u with
  | UGen => 0 | UY => 1 | UM => 2 | UW => 3 | UD => 4 | Uh => 5 | Um => 6
  | Us => 7 | Ums => 8 | Uus => 9 | Uns => 10
  end.
Definition tunit_eqb (a b : tunit) : bool := tunit_rank a =? tunit_rank b.

Inductive dtype :=
| DBool
| DInt (signed : bool) (bytes : Z)     (* bytes in 1,2,4,8 *)
| DFlt (bytes : Z)                     (* 2,4,8,16 (longdouble) *)
| DCplx (bytes : Z)                    (* 8,16,32 *)
| DStr (n : Z)                         (* <U n *)
| DBytes (n : Z)                       (* |S n *)
| DDt (u : tunit)                      (* datetime64 *)
| DTd (u : tunit)                      (* timedelta64 *)
| DObj.

Definition dtype_eqb (a b : dtype) : bool :=
  match a, b with
  | DBool, DBool => true
  | DInt s1 b1, DInt s2 b2 => Bool.eqb s1 s2 && (b1 =? b2)
  | DFlt b1, DFlt b2 => b1 =? b2
  | DCplx b1, DCplx b2 => b1 =? b2
  | DStr n1, DStr n2 => n1 =? n2
  | DBytes n1, DBytes n2 => n1 =? n2
  | DDt u1, DDt u2 => tunit_eqb u1 u2
  | DTd u1, DTd u2 => tunit_eqb u1 u2
  | DObj, DObj => true
  | _, _ => false
  end.

(* dtype.kind *)
Definition dtype_kind (d : dtype) : string :=
  match d with
  | DBool => "b" | DInt true _ => "i" | DInt false _ => "u" | DFlt _ => "f" | DCplx _ => "c"
  | DStr _ => "U" | DBytes _ => "S" | DDt _ => "M" | DTd _ => "m" | DObj => "O"
  end%string.

(* smallest float width (bytes) able to hold every value of an integer dtype, per NumPy's
   promotion table (int64/uint64 -> float64 although that is lossy) *)
Definition float_for_int (bytes : Z) : Z :=
  if bytes <=? 1 then 2 else if bytes <=? 2 then 4 else 8.

(* oracle: np.result_type(d1, d2) for the pairs resolve_dtype can pass to it;
   Err "TypeError" where NumPy raises it, Err "unmodelled" outside the modelled domain *)
Definition np_result_type (d1 d2 : dtype) : res dtype :=
  match d1, d2 with
  | DBool, DBool => Ok DBool
  | DBool, (DInt _ _ | DFlt _ | DCplx _) => Ok d2
  | (DInt _ _ | DFlt _ | DCplx _), DBool => Ok d1
  | DInt s1 b1, DInt s2 b2 =>
      if Bool.eqb s1 s2 then Ok (DInt s1 (Z.max b1 b2))
      else
        let sb := if s1 then b1 else b2 in   (* signed width *)
        let ub := if s1 then b2 else b1 in   (* unsigned width *)
        if ub <? sb then Ok (DInt true sb)
        else if ub <? 8 then Ok (DInt true (2 * ub))
        else Ok (DFlt 8)
  | DInt _ b, DFlt f | DFlt f, DInt _ b => Ok (DFlt (Z.max f (float_for_int b)))
  | DFlt f1, DFlt f2 => Ok (DFlt (Z.max f1 f2))
  | DInt _ b, DCplx c | DCplx c, DInt _ b => Ok (DCplx (Z.max c (2 * float_for_int b)))
  | DFlt f, DCplx c | DCplx c, DFlt f => Ok (DCplx (Z.max c (2 * f)))
  | DCplx c1, DCplx c2 => Ok (DCplx (Z.max c1 c2))
  | DStr n1, DStr n2 => Ok (DStr (Z.max n1 n2))
  | DBytes n1, DBytes n2 => Ok (DBytes (Z.max n1 n2))
  | DStr n1, DBytes n2 | DBytes n2, DStr n1 => Ok (DStr (Z.max n1 n2))
  | DDt u1, DDt u2 => Ok (DDt (if tunit_rank u1 <? tunit_rank u2 then u2 else u1))
  | DTd u1, DTd u2 =>
      let r1 := tunit_rank u1 in let r2 := tunit_rank u2 in
      let ym r := (1 <=? r) && (r <=? 2) in
      let fine r := 3 <=? r in
      if (ym r1 && fine r2) || (ym r2 && fine r1) then Err "TypeError"
      else Ok (DTd (if r1 <? r2 then u2 else u1))
  | _, _ => Err "unmodelled"
  end.
