(* C13 -- grouping: executable models, no proofs.

   A container is seen along the grouping axis as a list of "rows" (R): for axis 0 a row is
   (index label, cells of that row), for axis 1 it is (column label, cells of that column), for a
   Series (label, [value]).  `key : R -> K` reads the group key of a row (one cell, a tuple of cells,
   or one/several depths of a hierarchical label).

   S_group      specification: one group per distinct key (first-occurrence order), members =
                the rows with that key, in their original order.
   M_A          Frame._axis_group_sort_items (frame.py:4341-4389): stable sort by the key, then
                transitions = flatnonzero(v != roll(v, 1))[1:], then slices between transitions.
   M_B          TypeBlocks.group / Series._axis_group_items / *_axis_group_labels_items
                (type_blocks.py:775-824, series.py:1490-1541, frame.py:4437-4483) on top of
                util.array_to_groups_and_locations (util.py:1197-1217): np.unique(return_inverse),
                then one Boolean mask `locations == idx` per distinct key.
   M_B_fallback the `except TypeError` branch of array_to_groups_and_locations: np.unique on the
                STRING representations, group label = array[first index of that string].
   M_apply      IterNodeDelegate.apply (node_iter.py:290-337): Series.from_items((k, func(v)) ...).

   Positions inside a list are `nat` (they are produced structurally by walking the list, never
   by arithmetic on user integers). *)
Require Import SF.Prelude.

Section Group.
  Context {R K : Type}.
  Variable key : R -> K.
  Variable keqb : K -> K -> bool.      (* == on keys *)
  Variable kleb : K -> K -> bool.      (* <= of the key dtype: the order NumPy sorts by *)

  (* ------------------------------------------------------------------ specification *)
  (* distinct keys, in order of first occurrence *)
  Fixpoint distinct (l : list K) : list K :=
    match l with
    | [] => []
    | k :: t => k :: filter (fun x => negb (keqb x k)) (distinct t)
    end.

  Definition members (k : K) (rows : list R) : list R :=
    filter (fun r => keqb (key r) k) rows.

  Definition groups_by (ks : list K) (rows : list R) : list (K * list R) :=
    map (fun k => (k, members k rows)) ks.

  Definition S_group (rows : list R) : list (K * list R) :=
    groups_by (distinct (map key rows)) rows.

  (* ------------------------------------------------------------------ oracle: stable sort *)
  (* np.argsort(kind='mergesort') followed by the take: THE stable sorted arrangement.
     r (coming from the left of the already sorted tail) goes before the first element it is <= to. *)
  Fixpoint insert_row (r : R) (l : list R) : list R :=
    match l with
    | [] => [r]
    | x :: t => if kleb (key r) (key x) then r :: x :: t else x :: insert_row r t
    end.

  Fixpoint stable_sort (l : list R) : list R :=
    match l with
    | [] => []
    | r :: t => insert_row r (stable_sort t)
    end.

  (* ------------------------------------------------------------------ path A *)
  (* np.roll(v, 1) *)
  Definition roll1 (v : list K) : list K :=
    match v with
    | [] => []
    | a :: _ => last v a :: removelast v
    end.

  (* elementwise v != w *)
  Fixpoint neq_pairs (v w : list K) : list bool :=
    match v, w with
    | a :: v', b :: w' => negb (keqb a b) :: neq_pairs v' w'
    | _, _ => []
    end.

  (* np.flatnonzero, positions counted from i *)
  Fixpoint flatnonzero_from (i : nat) (bs : list bool) : list nat :=
    match bs with
    | [] => []
    | b :: t => (if b then [i] else []) ++ flatnonzero_from (S i) t
    end.

  (* transitions = np.flatnonzero(group_values != np.roll(group_values, 1))[1:] *)
  Definition transitions (v : list K) : list nat :=
    tl (flatnonzero_from 0 (neq_pairs v (roll1 v))).

  (* the loop `start = 0; for t in transitions: yield slice(start, t); start = t` and the final
     `slice(start, None)` *)
  Fixpoint slices_loop (start : nat) (ts : list nat) : list (nat * option nat) :=
    match ts with
    | [] => [(start, None)]
    | t :: ts' => (start, Some t) :: slices_loop t ts'
    end.

  (* l[a:b] for 0 <= a, 0 <= b (b = None: to the end) *)
  Definition extract_slice {A} (l : list A) (a : nat) (b : option nat) : list A :=
    match b with
    | None => skipn a l
    | Some b => firstn (b - a) (skipn a l)
    end.

  Definition M_A_sorted (sorted : list R) : list (K * list R) :=
    match sorted with
    | [] => []                                   (* `if not self._blocks.size: return` *)
    | r0 :: _ =>
        let v := map key sorted in
        map (fun sl => (nth (fst sl) v (key r0), extract_slice sorted (fst sl) (snd sl)))
            (slices_loop 0 (transitions v))
    end.

  Definition M_A (rows : list R) : list (K * list R) := M_A_sorted (stable_sort rows).

  (* ------------------------------------------------------------------ path B *)
  (* the sorted keys (ar.sort() inside np.unique): same stable insertion, on bare keys *)
  Fixpoint insert_key (k : K) (l : list K) : list K :=
    match l with
    | [] => [k]
    | x :: t => if kleb k x then k :: x :: t else x :: insert_key k t
    end.

  Fixpoint sort_keys (l : list K) : list K :=
    match l with
    | [] => []
    | k :: t => insert_key k (sort_keys t)
    end.

  Fixpoint index_of (k : K) (u : list K) : nat :=
    match u with
    | [] => 0
    | x :: t => if keqb x k then 0 else S (index_of k t)
    end.

  (* np.unique(array, return_inverse=True): sorted distinct values, and for every element the
     position of its value among them *)
  Definition np_unique (ks : list K) : list K * list nat :=
    let u := distinct (sort_keys ks) in
    (u, map (fun k => index_of k u) ks).

  (* array[mask] *)
  Fixpoint mask_select {A} (m : list bool) (l : list A) : list A :=
    match m, l with
    | b :: m', x :: l' => if b then x :: mask_select m' l' else mask_select m' l'
    | _, _ => []
    end.

  Fixpoint enumerate_from {A} (i : nat) (l : list A) : list (nat * A) :=
    match l with
    | [] => []
    | x :: t => (i, x) :: enumerate_from (S i) t
    end.

  Definition M_B (rows : list R) : list (K * list R) :=
    let '(groups, locations) := np_unique (map key rows) in
    map (fun ig => (snd ig, mask_select (map (fun l => Nat.eqb l (fst ig)) locations) rows))
        (enumerate_from 0 groups).

  (* ------------------------------------------------------------------ apply *)
  (* IterNodeDelegate.apply: Series.from_items((k, func(group)) for k, group in items):
     (index labels, values) *)
  Definition M_apply {V} (f : list R -> V) (groups : list (K * list R)) : list K * list V :=
    (map fst groups, map (fun g => f (snd g)) groups).

  Definition S_apply {V} (f : list R -> V) (rows : list R) (ks : list K) : list K * list V :=
    (ks, map (fun k => f (members k rows)) ks).
End Group.

(* the TypeError branch: np.unique over the string representations (return_index, return_inverse);
   the label of a group is the key of its first member (array[group_index]) *)
Definition M_B_fallback {R K K' : Type} (key : R -> K) (repr : K -> K') (eqb' leb' : K' -> K' -> bool)
           (rows : list R) : list (option K * list R) :=
  map (fun g => (match snd g with r :: _ => Some (key r) | [] => None end, snd g))
      (M_B (fun r => repr (key r)) eqb' leb' rows).

(* path choice of Frame._axis_group_loc_items (frame.py:4411-4426) *)
Inductive gpath := PathSort | PathUnique.
Definition choose_path (columns_depth1 index_depth1 key_multiple key_dtype_object : bool) : gpath :=
  if columns_depth1 && index_depth1 && negb key_multiple
  then (if negb key_dtype_object then PathSort else PathUnique)
  else PathUnique.
