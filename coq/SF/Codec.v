(* C16 -- delimited export / import of one Frame: executable models, no proofs.

   Three layers (DESIGN 5/C16):
   (3) ORACLE models of what is not static-frame: csv.writer (QUOTE_MINIMAL, doublequote, "\n"),
       the csv.reader state machine (default dialect), genfromtxt's line splitter
       (line.strip(" \r\n"), skip empty, split on the delimiter) and its dtype=None column inference
       (bool, int64, float, str in that order; blank = missing), Python int()/float()/f'{x}' on the modelled
       alphabet.  Each is validated by an exhaustive sweep in tools/sfv/props/c16.py.
   (2) static-frame's TEXT pipeline: Frame.to_delimited = csv.writer on every record;
       Frame.from_delimited = raw lines when the delimiter is the native one (TAB), otherwise
       TAB.join(csv.reader row) -- the asymmetry exactly as coded (frame.py:1655-1673).
   (1) static-frame's LAYOUT: Frame._to_str_records (frame.py:6536-6621), from_delimited's header rows /
       index columns / StoreFilter (frame.py:1676-1803, 1109-1219, store_filter.py).
   S_roundtrip is the specification (the same Frame comes back); M_roundtrip is the pipeline. *)
Require Import SF.Prelude SF.Value Gen.Gen_c16.
Require Export SF.CodecSpec.
From Coq Require DecimalString DecimalZ.

Notation text := (list ascii) (only parsing).
Definition tx (s : string) : text := list_ascii_of_string s.
Definition st (x : text) : string := string_of_list_ascii x.
Definition text_eqb : text -> text -> bool := list_eqb Ascii.eqb.

Definition ch_tab : ascii := "009"%char.
Definition ch_nl : ascii := "010"%char.
Definition ch_cr : ascii := "013"%char.
Definition ch_sp : ascii := " "%char.
Definition ch_q : ascii := """"%char.
Definition is_nl (c : ascii) : bool := Ascii.eqb c ch_nl || Ascii.eqb c ch_cr.

(* ------------------------------------------------------------------ oracle: csv.writer *)
Definition needs_quote (d : ascii) (s : text) : bool :=
  existsb (fun c => Ascii.eqb c d || Ascii.eqb c ch_q || is_nl c) s.

Fixpoint double_quotes (s : text) : text :=
  match s with
  | [] => []
  | c :: r => if Ascii.eqb c ch_q then ch_q :: ch_q :: double_quotes r else c :: double_quotes r
  end.

Definition csv_write_field (d : ascii) (s : text) : text :=
  if needs_quote d s then ch_q :: double_quotes s ++ [ch_q] else s.

Fixpoint join (sep : ascii) (fs : list text) : text :=
  match fs with
  | [] => []
  | f :: r => match r with [] => f | _ :: _ => f ++ sep :: join sep r end
  end.

(* a record that is one empty field is written as "" (so that it is not an empty line) *)
Definition csv_write_row (d : ascii) (fs : list text) : text :=
  match fs with
  | [ [] ] => [ch_q; ch_q]
  | _ => join d (map (csv_write_field d) fs)
  end.

(* ------------------------------------------------------------------ oracle: csv.reader (one physical line) *)
Inductive rstate := StartField | InField | InQuoted | QuoteInQuoted.

(* [cur] is the current field, reversed *)
Fixpoint rd (d : ascii) (s : rstate) (cur : text) (l : text) : option (list text) :=
  match l with
  | [] => match s with InQuoted => None | _ => Some [rev cur] end
  | c :: r =>
      match s with
      | StartField =>
          if Ascii.eqb c ch_q then rd d InQuoted cur r
          else if Ascii.eqb c d then option_map (cons (rev cur)) (rd d StartField [] r)
          else rd d InField (c :: cur) r
      | InField =>
          if Ascii.eqb c d then option_map (cons (rev cur)) (rd d StartField [] r)
          else rd d InField (c :: cur) r
      | InQuoted =>
          if Ascii.eqb c ch_q then rd d QuoteInQuoted cur r
          else rd d InQuoted (c :: cur) r
      | QuoteInQuoted =>
          if Ascii.eqb c ch_q then rd d InQuoted (ch_q :: cur) r
          else if Ascii.eqb c d then option_map (cons (rev cur)) (rd d StartField [] r)
          else rd d InField (c :: cur) r
      end
  end.

(* None: outside the model (a line break inside the line, or a quote left open at the end of the line,
   which makes the real reader continue on the next line) *)
Definition csv_read_line (d : ascii) (l : text) : option (list text) :=
  if existsb is_nl l then None
  else match l with [] => Some [] | _ :: _ => rd d StartField [] l end.

(* ------------------------------------------------------------------ oracle: genfromtxt's LineSplitter *)
Definition is_strip (c : ascii) : bool := Ascii.eqb c ch_sp || is_nl c.

Fixpoint lstrip (l : text) : text :=
  match l with
  | [] => []
  | c :: r => if is_strip c then lstrip r else l
  end.
Definition rstrip (l : text) : text := rev (lstrip (rev l)).
Definition strip_edge (l : text) : text := rstrip (lstrip l).

(* str.split(sep): always at least one piece; [cur] reversed *)
Fixpoint split_on (d : ascii) (cur : text) (l : text) : list text :=
  match l with
  | [] => [rev cur]
  | c :: r => if Ascii.eqb c d then rev cur :: split_on d [] r else split_on d (c :: cur) r
  end.

Definition native : ascii := ascii_of_N (Z.to_N sf_delimiter_native).

Definition gen_split (l : text) : list text :=
  match strip_edge l with
  | [] => []
  | s => split_on native [] s
  end.

(* ------------------------------------------------------------------ static-frame: from_delimited's file_like() *)
Definition sf_import_line (d : ascii) (line : text) : res text :=
  if sf_reader_bypass_native && Ascii.eqb d native then Ok line
  else match csv_read_line d line with
       | Some fs => Ok (join native fs)
       | None => Err "OutOfModel:reader"%string
       end.

Definition sf_export_line (d : ascii) (fields : list text) : text := csv_write_row d fields.

(* ------------------------------------------------------------------ oracle: Python number / bool text *)
Definition is_digit (c : ascii) : bool :=
  let n := N_of_ascii c in (48 <=? n)%N && (n <=? 57)%N.

Definition upper (c : ascii) : ascii :=
  let n := N_of_ascii c in if (97 <=? n)%N && (n <=? 122)%N then ascii_of_N (n - 32) else c.

Definition blank (s : text) : bool := forallb (fun c => Ascii.eqb c ch_sp) s.

Fixpoint lstrip_sp (l : text) : text :=
  match l with
  | [] => []
  | c :: r => if Ascii.eqb c ch_sp then lstrip_sp r else l
  end.
(* str.strip() on the modelled alphabet (the only white space a field can hold is the space) *)
Definition trim (s : text) : text := rev (lstrip_sp (rev (lstrip_sp s))).

(* genfromtxt's str2bool: value.upper() in ('TRUE', 'FALSE') -- no stripping *)
Definition parse_bool (s : text) : option bool :=
  let u := map upper s in
  if text_eqb u (tx "TRUE") then Some true
  else if text_eqb u (tx "FALSE") then Some false else None.

Fixpoint span_digits (l : text) : text * text :=
  match l with
  | [] => ([], [])
  | c :: r => if is_digit c then let (a, b) := span_digits r in (c :: a, b) else ([], l)
  end.

Definition digits_to_Z (ds : text) : Z :=
  match DecimalString.NilEmpty.uint_of_string (st ds) with
  | Some u => Z.of_uint u
  | None => 0
  end.

(* [sign] digits [ '.' digits ]  |  [sign] '.' digits, surrounded by spaces: (negative, integer digits, fraction digits) *)
Definition parse_num (s : text) : option (bool * text * option text) :=
  let s1 := trim s in
  let '(neg, s2) := match s1 with
                    | c :: r => if Ascii.eqb c "-"%char then (true, r) else if Ascii.eqb c "+"%char then (false, r) else (false, s1)
                    | [] => (false, s1)
                    end in
  let (ip, rest) := span_digits s2 in
  match rest with
  | [] => match ip with [] => None | _ => Some (neg, ip, None) end
  | c :: fr =>
      if Ascii.eqb c "."%char then
        let (fp, rest2) := span_digits fr in
        match rest2 with
        | [] => match ip, fp with [], [] => None | _, _ => Some (neg, ip, Some fp) end
        | _ => None
        end
      else None
  end.

Definition int64_min : Z := - 9223372036854775808.
Definition int64_max : Z := 9223372036854775807.
Definition in_int64 (z : Z) : bool := (int64_min <=? z) && (z <=? int64_max).

(* int(s) accepted by genfromtxt's int64 converter; Err = int-looking but outside int64 (NumPy then tries
   float: not modelled) *)
Definition parse_int (s : text) : option (res Z) :=
  match parse_num s with
  | Some (neg, ip, None) =>
      let z := digits_to_Z ip in
      let z := if neg then - z else z in
      Some (if in_int64 z then Ok z else Err "OutOfModel:int64"%string)
  | _ => None
  end.

Definition pow2 (x : Z) : bool := (0 <? x) && (Z.land x (x - 1) =? 0).

(* float(s) as the exact dyadic rational float.as_integer_ratio() returns; Err when the decimal is not
   exactly a double (the harness never compares such values) *)
Definition parse_float (s : text) : option (res val) :=
  let t := trim s in
  if text_eqb t (tx "inf") then Some (Ok (VInf false))
  else if text_eqb t (tx "-inf") then Some (Ok (VInf true))
  else if text_eqb t (tx "nan") then Some (Ok VNaN)
  else
  match parse_num s with
  | Some (neg, ip, fp) =>
      let fp := match fp with Some f => f | None => [] end in
      let den := 10 ^ Z.of_nat (length fp) in
      let num := digits_to_Z ip * den + digits_to_Z fp in
      let g := Z.gcd num den in
      let n := num / g in
      let dd := den / g in
      (* exactly a double: power-of-two denominator and an odd part of at most 53 bits *)
      Some (if pow2 dd && ((n =? 0) || (n / Z.land n (- n) <? 2 ^ 53)) then Ok (VFlt (if neg then - n else n) dd)
            else Err "OutOfModel:inexact float"%string)
  | None => None
  end.

(* ------------------------------------------------------------------ oracle: f'{x}' of the modelled scalars *)
Definition render_Z (z : Z) : text := tx (DecimalString.NilZero.string_of_int (Z.to_int z)).

Fixpoint frac_digits (fuel : nat) (r d : Z) : text :=
  match fuel with
  | O => []
  | S f => if r =? 0 then [] else ascii_of_N (Z.to_N (48 + (10 * r) / d)) :: frac_digits f ((10 * r) mod d) d
  end.

(* repr of a double n/d (d a power of two): positional notation, shortest = exact, when
   1e-4 <= |x| < 1e16 and d <= 2^20 *)
Definition float_renderable (n d : Z) : bool :=
  pow2 d && (d <=? 1048576) && (Z.abs n <? 2 ^ 53) && (Z.abs n / d <? 10 ^ 15) &&
  ((n =? 0) || (d <=? Z.abs n * 10000)).

Definition render_float (n d : Z) : text :=
  let a := Z.abs n in
  let fr := frac_digits 64 (a mod d) d in
  (if n <? 0 then ["-"%char] else []) ++ render_Z (a / d) ++ "."%char :: (match fr with [] => ["0"%char] | _ => fr end).

(* ------------------------------------------------------------------ static-frame: StoreFilter *)
Record sfilter := mk_sfilter {
  f_from_nan : option string; f_from_none : option string; f_from_posinf : option string; f_from_neginf : option string;
  f_to_nan : list string; f_to_none : list string; f_to_posinf : list string; f_to_neginf : list string
}.
Definition filter_default : sfilter :=
  mk_sfilter sf_from_nan sf_from_none sf_from_posinf sf_from_neginf sf_to_nan sf_to_none sf_to_posinf sf_to_neginf.
Definition filter_disable : sfilter :=
  mk_sfilter sf_dis_from_nan sf_dis_from_none sf_dis_from_posinf sf_dis_from_neginf
             sf_dis_to_nan sf_dis_to_none sf_dis_to_posinf sf_dis_to_neginf.

Definition or_default (o : option string) (d : string) : text :=
  match o with Some s => tx s | None => tx d end.

(* f'{filter_func(x)}' (StoreFilter.from_type_filter_element, then str formatting) *)
Definition render_val (flt : sfilter) (v : val) : text :=
  match v with
  | VNone => or_default (f_from_none flt) "None"
  | VNaN => or_default (f_from_nan flt) "nan"
  | VInf false => or_default (f_from_posinf flt) "inf"
  | VInf true => or_default (f_from_neginf flt) "-inf"
  | VInt z => render_Z z
  | VBool true => tx "True"
  | VBool false => tx "False"
  | VStr s => tx s
  | VFlt n d => render_float n d
  | _ => tx "<unmodelled>"
  end.

Definition renderable (v : val) : bool :=
  match v with
  | VNone | VNaN | VInf _ | VInt _ | VBool _ | VStr _ => true
  | VFlt n d => float_renderable n d
  | _ => false
  end.

Definition mem_str (s : string) (l : list string) : bool := existsb (String.eqb s) l.

(* StoreFilter.to_type_filter_element on a str (same table as to_type_filter_array on a str column) *)
Definition decode_str (flt : sfilter) (s : string) : val :=
  if mem_str s (f_to_nan flt) then VNaN
  else if mem_str s (f_to_none flt) then VNone
  else if mem_str s (f_to_posinf flt) then VInf false
  else if mem_str s (f_to_neginf flt) then VInf true
  else VStr s.

Definition is_sentinel (flt : sfilter) (s : string) : bool :=
  mem_str s (f_to_nan flt) || mem_str s (f_to_none flt) || mem_str s (f_to_posinf flt) || mem_str s (f_to_neginf flt).

(* ------------------------------------------------------------------ typed columns *)
Fixpoint res_list {A} (l : list (res A)) : res (list A) :=
  match l with
  | [] => Ok []
  | r :: rs => match r with
               | Err e => Err e
               | Ok a => match res_list rs with Ok xs => Ok (a :: xs) | Err e => Err e end
               end
  end.

(* the converters of genfromtxt(dtype=None): a blank cell is a missing value and takes the default *)
Definition conv_bool (s : text) : option (res val) :=
  if blank s then Some (Ok (VBool false)) else option_map (fun b => Ok (VBool b)) (parse_bool s).
Definition conv_int (s : text) : option (res val) :=
  if blank s then Some (Ok (VInt (-1))) else option_map (res_map VInt) (parse_int s).
Definition conv_float (s : text) : option (res val) :=
  if blank s then Some (Ok VNaN) else parse_float s.

Fixpoint all_some {A} (l : list (option A)) : option (list A) :=
  match l with
  | [] => Some []
  | None :: _ => None
  | Some a :: r => option_map (cons a) (all_some r)
  end.

(* the first non-blank cell reads as a Python int *)
Fixpoint int_first (col : list text) : bool :=
  match col with
  | [] => false
  | s :: r => if blank s then int_first r
              else match parse_num s with Some (_, _, None) => true | _ => false end
  end.

(* np.genfromtxt(dtype=None) on one column of texts: first converter in the order bool, int64, float, str
   that accepts every cell.  A column with no non-blank cell, or a bool column with a blank cell, is outside
   the model (its converter stays "unchecked" and the resulting type depends on the other columns).
   NumPy 2: on the way from float to str the upgrade loop passes the generic (np.integer, int) entry of
   StringConverter._mapper, whose overflow probe np.array(value, dtype=np.integer) raises TypeError as soon
   as int(value) succeeds -- i.e. when the first non-blank cell of a text column reads as an int. *)
Definition infer_col (col : list text) : res (kind * list val) :=
  if forallb blank col then Err "OutOfModel:all-missing column"%string
  else match all_some (map conv_bool col) with
  | Some vs => if existsb blank col then Err "OutOfModel:bool column with a missing cell"%string
               else res_map (pair KBool) (res_list vs)
  | None =>
  match all_some (map conv_int col) with
  | Some vs => res_map (pair KInt) (res_list vs)
  | None =>
  match all_some (map conv_float col) with
  | Some vs => res_map (pair KFlt) (res_list vs)
  | None => if int_first col then Err "TypeError"%string
            else Ok (KStr, map (fun s => VStr (st s)) col)
  end end end.

(* StoreFilter.to_type_filter_array: only str (and object) columns are touched; any replacement makes the
   column object *)
Definition filter_col (flt : sfilter) (c : kind * list val) : kind * list val :=
  match c with
  | (KStr, vs) =>
      let vs' := map (fun v => match v with VStr s => decode_str flt s | _ => v end) vs in
      if existsb (fun v => match v with VStr s => is_sentinel flt s | _ => false end) vs then (KObj, vs') else (KStr, vs')
  | _ => c
  end.

(* one header cell: genfromtxt on a single row types every cell on its own *)
Definition infer_cell (s : text) : res val :=
  match infer_col [s] with
  | Ok (_, [v]) => Ok v
  | Ok _ => Err "OutOfModel:cell"%string
  | Err e => Err e
  end.

(* ------------------------------------------------------------------ tables *)
Section Tables.
  Context {A : Type}.
  (* rows of a list of equally long columns, and back *)
  Definition rows_of (d : A) (nr : nat) (cols : list (list A)) : list (list A) :=
    map (fun i => map (fun c => nth i c d) cols) (seq 0 nr).
  Definition cols_of (d : A) (nc : nat) (rows : list (list A)) : list (list A) :=
    map (fun j => map (fun r => nth j r d) rows) (seq 0 nc).
End Tables.

Record cfg := mk_cfg {
  c_delim : ascii;
  c_inc_index : bool;       (* include_index on export; index_depth = depth (else 0) on import *)
  c_inc_columns : bool;     (* include_columns on export; columns_depth = depth (else 0) on import *)
  c_filter : sfilter;       (* the store_filter passed to both sides *)
  c_di : nat;               (* depth of the index *)
  c_dc : nat;               (* depth of the columns *)
  c_apex : list text        (* f'{name}' for name in index.names (the apex cells of the first header row) *)
}.

Definition auto_labels (n : nat) : list (list val) := map (fun i => [VInt (Z.of_nat i)]) (seq 0 n).

(* ------------------------------------------------------------------ static-frame: Frame._to_str_records *)
Definition nrows (f : tframe) : nat := length (tf_index f).

Definition M_records (c : cfg) (f : tframe) : list (list text) :=
  let flt := c_filter c in
  let header :=
    if c_inc_columns c then
      map (fun r => (if c_inc_index c then map (fun a => match r with O => a | S _ => [] end) (c_apex c) else [])
                    ++ map (fun lab => render_val flt (nth r lab VNone)) (tf_columns f))
          (seq 0 (c_dc c))
    else [] in
  let body :=
    map (fun i => (if c_inc_index c then map (render_val flt) (nth i (tf_index f) []) else [])
                  ++ map (fun col => render_val flt (nth i (snd col) VNone)) (tf_cols f))
        (seq 0 (nrows f)) in
  header ++ body.

Definition M_export (c : cfg) (f : tframe) : list text :=
  map (sf_export_line (c_delim c)) (M_records c f).

(* ------------------------------------------------------------------ static-frame: Frame.from_delimited *)
(* Index / IndexHierarchy.from_labels accept the labels: unique (Python equality), and for depth > 1 in
   tree form (equal prefixes contiguous) *)
Definition label_eq : list val -> list val -> bool := list_eqb py_val_eq.

Fixpoint nodup_labels (l : list (list val)) : bool :=
  match l with
  | [] => true
  | x :: r => negb (existsb (label_eq x) r) && nodup_labels r
  end.

(* no label y later than a different-prefix label z after x shares x's p-prefix *)
Fixpoint contiguous_from (p : nat) (x : list val) (broken : bool) (l : list (list val)) : bool :=
  match l with
  | [] => true
  | y :: r =>
      let same := label_eq (firstn p x) (firstn p y) in
      if same then negb broken && contiguous_from p x broken r
      else contiguous_from p x true r
  end.

Fixpoint contiguous_at (p : nat) (l : list (list val)) : bool :=
  match l with
  | [] => true
  | x :: r => contiguous_from p x false r && contiguous_at p r
  end.

Definition labels_valid (depth : nat) (l : list (list val)) : bool :=
  nodup_labels l && forallb (fun p => contiguous_at p l) (seq 1 (depth - 1)).

Definition eff_di (c : cfg) : nat := if c_inc_index c then c_di c else O.
Definition eff_dc (c : cfg) : nat := if c_inc_columns c then c_dc c else O.

(* file_like(): every line through csv.reader + TAB.join, or raw when the delimiter is the native one *)
Definition import_lines (c : cfg) (lines : list text) : res (list text) :=
  res_list (map (sf_import_line (c_delim c)) lines).

(* genfromtxt: split every data line, skip the empty ones *)
Definition nonempty_row (r : list text) : bool := match r with [] => false | _ :: _ => true end.
Definition body_records (dc : nat) (lines' : list text) : list (list text) :=
  filter nonempty_row (map gen_split (skipn dc lines')).

(* genfromtxt(dtype=None) per column, then StoreFilter.to_type_filter_array per column
   (_structured_array_to_d_ia_cl) *)
Definition type_columns (flt : sfilter) (n : nat) (body : list (list text)) : res (list (kind * list val)) :=
  res_map (map (filter_col flt)) (res_list (map infer_col (cols_of [] n body))).

(* column labels pass the StoreFilter in the branches of from_delimited that say so (regenerated: frame.py:1742-1750) *)
Definition label_filter_on (dc : nat) : bool :=
  if Nat.ltb 1 dc then sf_hier_columns_filtered else sf_flat_columns_filtered.

Definition decode_label_cell (flt : sfilter) (v : val) : val :=
  match v with VStr s => decode_str flt s | _ => v end.

(* the header rows: genfromtxt on each row alone, the leading index_depth cells set aside (apex);
   StoreFilter as the source says per branch (label_filter_on; today: only when columns_depth > 1) *)
Definition header_rows (flt : sfilter) (di dc n : nat) (head : list text) : res (list (list val)) :=
  res_map (fun hrows => if label_filter_on dc then map (map (decode_label_cell flt)) hrows else hrows)
    (res_list (map (fun h =>
        let cells := gen_split h in
        if negb (Nat.eqb (length cells) n) then Err "OutOfModel:ragged header"%string
        else res_list (map infer_cell (skipn di cells))) head)).

(* everything after file_like(): header rows set aside, genfromtxt on the body, columns typed and filtered,
   index columns split off, Index / IndexHierarchy built *)
Definition M_assemble (c : cfg) (lines' : list text) : res tframe :=
  let flt := c_filter c in
  let di := eff_di c in
  let dc := eff_dc c in
  let head := firstn dc lines' in
  let body := body_records dc lines' in
  let n := length (hd [] body) in
  if Nat.eqb (length body) 0 then Err "OutOfModel:no data rows"%string
  else if negb (forallb (fun r => Nat.eqb (length r) n) body) then Err "OutOfModel:ragged"%string
  else if Nat.ltb n 2 then Err "OutOfModel:single field"%string
  else if Nat.ltb n (S di) then Err "OutOfModel:no data columns"%string
  else
    typed <- type_columns flt n body ;;
    hrows <- header_rows flt di dc n head ;;
    let columns := if Nat.eqb dc 0 then auto_labels (n - di) else cols_of VNone (n - di) hrows in
    let index := if Nat.eqb di 0 then auto_labels (length body)
                 else rows_of VNone (length body) (map snd (firstn di typed)) in
    if negb (labels_valid dc columns) then Err "ErrorInitIndex"%string
    else if negb (labels_valid di index) then Err "ErrorInitIndex"%string
    else Ok (mk_tframe index columns (skipn di typed)).

Definition M_import (c : cfg) (lines : list text) : res tframe :=
  lines' <- import_lines c lines ;; M_assemble c lines'.

Definition all_values (f : tframe) : list val :=
  concat (tf_index f) ++ concat (tf_columns f) ++ concat (map snd (tf_cols f)).

Definition M_roundtrip (c : cfg) (f : tframe) : res tframe :=
  if negb (forallb renderable (all_values f)) then Err "OutOfModel:render"%string
  else M_import c (M_export c f).

(* the specification of the delimited round trip, whatever the configuration: the same Frame (SF/CodecSpec.v) *)
Definition S_roundtrip (c : cfg) (f : tframe) : res tframe := S_same f.

(* ------------------------------------------------------------------ the domain of the round-trip theorem
   dom c f = the Frame is well formed, every cell text is unambiguous for its type, and the Frame is in none
   of the classes where the pipeline is known to lose information (Refuted/C16.v has a witness for each). *)
Definition no_nl (s : text) : bool := negb (existsb is_nl s).
Definition delim_ok (d : ascii) : bool := negb (Ascii.eqb d ch_q) && negb (is_nl d).

Definition starts_strip (s : text) : bool := match s with c :: _ => is_strip c | [] => false end.

(* a field survives from_delimited's text pipeline *)
Definition field_ok (d : ascii) (s : text) : bool :=
  no_nl s && negb (existsb (Ascii.eqb native) s) &&
  (if sf_reader_bypass_native && Ascii.eqb d native then negb (existsb (Ascii.eqb ch_q) s) else true).

(* a record survives: at least two fields, no space at either end of the line *)
Definition record_ok (d : ascii) (fs : list text) : bool :=
  Nat.leb 2 (length fs) && forallb (field_ok d) fs &&
  negb (starts_strip (hd [] fs)) && negb (starts_strip (rev (last fs []))).

Definition is_none {A} (o : option A) : bool := match o with None => true | Some _ => false end.

Definition conv_is (o : option (res val)) (v : val) : bool :=
  match o with Some (Ok w) => val_eqb w v | _ => false end.

(* the text is rejected by every converter genfromtxt tries before the one of kind k *)
Definition witness (k : kind) (s : text) : bool :=
  match k with
  | KBool => negb (blank s)
  | KInt => is_none (conv_bool s)
  | KFlt => is_none (conv_bool s) && is_none (conv_int s)
  | KStr | KObj => is_none (conv_bool s) && is_none (conv_int s) && is_none (conv_float s)
  end.

(* the text of the cell, read as a cell of a column of kind k, is the cell *)
Definition cell_ok (flt : sfilter) (k : kind) (v : val) : bool :=
  let s := render_val flt v in
  renderable v &&
  match k with
  | KBool => negb (blank s) && conv_is (conv_bool s) v
  | KInt => conv_is (conv_int s) v
  | KFlt => conv_is (conv_float s) v
  | KStr => match v with VStr x => negb (is_sentinel flt x) | _ => false end
  | KObj => val_eqb (decode_str flt (st s)) v
  end.

Definition col_ok (flt : sfilter) (c : kind * list val) : bool :=
  let (k, vs) := c in
  existsb (fun v => witness k (render_val flt v)) vs &&
  forallb (cell_ok flt k) vs &&
  match k with
  | KObj => existsb (fun v => is_sentinel flt (st (render_val flt v))) vs && negb (int_first (map (render_val flt) vs))
  | KStr => negb (int_first (map (render_val flt) vs))
  | _ => true
  end.

(* labels are int or str: a level of the index is a column of the file *)
Definition level_kind (vs : list val) : kind := match vs with VInt _ :: _ => KInt | _ => KStr end.
Definition level_ok (flt : sfilter) (vs : list val) : bool := col_ok flt (level_kind vs, vs).

(* a column label cell is typed on its own; with columns_depth > 1 it also passes the StoreFilter *)
Definition label_cell_ok (flt : sfilter) (dc : nat) (v : val) : bool :=
  renderable v &&
  match infer_cell (render_val flt v) with
  | Ok w => val_eqb (if label_filter_on dc then decode_label_cell flt w else w) v
  | Err _ => false
  end.

(* shape: at least one row and one column, rectangular, labels of the stated depths *)
Definition dom_shape (c : cfg) (f : tframe) : bool :=
  let nr := nrows f in
  Nat.leb 1 nr && Nat.leb 1 (length (tf_cols f)) &&
  Nat.eqb (length (tf_columns f)) (length (tf_cols f)) &&
  forallb (fun col => Nat.eqb (length (snd col)) nr) (tf_cols f) &&
  forallb (fun lab => Nat.eqb (length lab) (c_di c)) (tf_index f) &&
  forallb (fun lab => Nat.eqb (length lab) (c_dc c)) (tf_columns f) &&
  Nat.leb 1 (c_di c) && Nat.leb 1 (c_dc c) && Nat.eqb (length (c_apex c)) (c_di c).

(* an axis that is not written must be the automatic one; both axes are valid indexes *)
Definition dom_axes (c : cfg) (f : tframe) : bool :=
  (c_inc_index c || (Nat.eqb (c_di c) 1 && labels_eqb (tf_index f) (auto_labels (nrows f)))) &&
  (c_inc_columns c || (Nat.eqb (c_dc c) 1 && labels_eqb (tf_columns f) (auto_labels (length (tf_cols f))))) &&
  labels_valid (c_di c) (tf_index f) && labels_valid (c_dc c) (tf_columns f).

(* the text pipeline loses nothing: none of the classes refuted in Refuted/C16.v *)
Definition dom_text (c : cfg) (f : tframe) : bool :=
  delim_ok (c_delim c) && forallb (record_ok (c_delim c)) (M_records c f).

(* every cell text is unambiguous for its type *)
Definition dom_typed (c : cfg) (f : tframe) : bool :=
  let flt := c_filter c in
  forallb renderable (all_values f) &&
  forallb (col_ok flt) (tf_cols f) &&
  (negb (c_inc_index c) || forallb (level_ok flt) (cols_of VNone (c_di c) (tf_index f))) &&
  (negb (c_inc_columns c) || forallb (forallb (label_cell_ok flt (c_dc c))) (tf_columns f)).

Definition dom (c : cfg) (f : tframe) : bool :=
  dom_shape c f && dom_axes c f && dom_text c f && dom_typed c f.

(* ------------------------------------------------------------------ well-formed store filters
   Every marker the encoder writes is in the decoder's set for the same marker and in none of the sets the
   decoder tests before it (to_nan, to_none, to_posinf, to_neginf in that order, store_filter.py:155-161). *)
Definition marker_text (flt : sfilter) (v : val) : string := st (render_val flt v).
Definition filter_wf (flt : sfilter) : bool :=
  mem_str (marker_text flt VNaN) (f_to_nan flt) &&
  (negb (mem_str (marker_text flt VNone) (f_to_nan flt)) && mem_str (marker_text flt VNone) (f_to_none flt)) &&
  (negb (mem_str (marker_text flt (VInf false)) (f_to_nan flt)) && negb (mem_str (marker_text flt (VInf false)) (f_to_none flt)) &&
   mem_str (marker_text flt (VInf false)) (f_to_posinf flt)) &&
  (negb (mem_str (marker_text flt (VInf true)) (f_to_nan flt)) && negb (mem_str (marker_text flt (VInf true)) (f_to_none flt)) &&
   negb (mem_str (marker_text flt (VInf true)) (f_to_posinf flt)) && mem_str (marker_text flt (VInf true)) (f_to_neginf flt)).
Definition is_marker (v : val) : bool := match v with VNaN | VNone | VInf _ => true | _ => false end.
