(* C16 -- the SPECIFICATION side of the round trips and the observation types: what the harness observes of a
   Frame (labels, per-column dtype kind and values) and the checkers the cases' `s=` terms use.
   This file must not depend on anything regenerated from the source (Gen/...): when the generate() hook of the
   check fails closed the specification can still be evaluated on generated inputs. *)
Require Import SF.Prelude SF.Dtype SF.Value.

Inductive kind := KBool | KInt | KFlt | KStr | KObj.
Definition kind_eqb (a b : kind) : bool :=
  match a, b with
  | KBool, KBool | KInt, KInt | KFlt, KFlt | KStr, KStr | KObj, KObj => true
  | _, _ => false
  end.

(* ------------------------------------------------------------------ frames as the harness observes them *)
Record tframe := mk_tframe {
  tf_index : list (list val);      (* one label per row; a label is the list of its depth components *)
  tf_columns : list (list val);    (* one label per column *)
  tf_cols : list (kind * list val) (* per column: dtype kind and the values down the rows *)
}.

Definition labels_eqb : list (list val) -> list (list val) -> bool := list_eqb (list_eqb val_eqb).
Definition tcol_eqb (a b : kind * list val) : bool := kind_eqb (fst a) (fst b) && list_eqb val_eqb (snd a) (snd b).
Definition tframe_eqb (a b : tframe) : bool :=
  labels_eqb (tf_index a) (tf_index b) && labels_eqb (tf_columns a) (tf_columns b) &&
  list_eqb tcol_eqb (tf_cols a) (tf_cols b).

(* ------------------------------------------------------------------ specification: the same Frame comes back *)
Definition S_same (f : tframe) : res tframe := Ok f.

Definition obs_eqb : res tframe -> res tframe -> bool := res_eqb tframe_eqb.

(* "an equal Frame" (Frame.equals): same labels, values equal under Python == with NaN matching NaN;
   the dtype is not part of it *)
Definition val_sim (a b : val) : bool :=
  match a, b with
  | VNaN, VNaN => true
  | _, _ => py_val_eq a b
  end.
Definition frame_sim (a b : tframe) : bool :=
  labels_eqb (tf_index a) (tf_index b) && labels_eqb (tf_columns a) (tf_columns b) &&
  list_eqb (fun x y => list_eqb val_sim (snd x) (snd y)) (tf_cols a) (tf_cols b).
Definition obs_sim (a b : res tframe) : bool := res_eqb frame_sim a b.

