(* Python slice semantics (CPython PySlice_AdjustIndices / range), total and computable. *)
Require Import SF.Prelude.

Record slice := mk_slice { s_start : option Z; s_stop : option Z; s_step : option Z }.

Definition slice_eqb (a b : slice) : bool :=
  option_eqb Z.eqb (s_start a) (s_start b) &&
  option_eqb Z.eqb (s_stop a) (s_stop b) &&
  option_eqb Z.eqb (s_step a) (s_step b).

(* start/stop adjustment of one bound, as in PySlice_AdjustIndices *)
Definition adj_bound (b : option Z) (len step : Z) (is_start : bool) : Z :=
  match b with
  | None => if is_start then (if step <? 0 then len - 1 else 0)
            else (if step <? 0 then -1 else len)
  | Some v =>
      if v <? 0 then
        let v' := v + len in
        if v' <? 0 then (if step <? 0 then -1 else 0) else v'
      else if v >=? len then (if step <? 0 then len - 1 else len)
      else v
  end.

(* number of elements of range(start, stop, step), step <> 0 *)
Definition range_len (start stop step : Z) : Z :=
  if step <? 0 then (if stop <? start then (start - stop - 1) / (- step) + 1 else 0)
  else (if start <? stop then (stop - start - 1) / step + 1 else 0).

(* slice.indices(len): (start, stop, step); step 0 is a ValueError *)
Definition slice_indices (s : slice) (len : Z) : option (Z * Z * Z) :=
  let step := match s_step s with None => 1 | Some v => v end in
  if step =? 0 then None
  else Some (adj_bound (s_start s) len step true, adj_bound (s_stop s) len step false, step).

Definition range_list (start step : Z) (count : nat) : list Z :=
  map (fun i => start + Z.of_nat i * step) (seq 0 count).

(* positions selected by a slice on a sequence of length len (len >= 0) *)
Definition positions (s : slice) (len : Z) : option (list Z) :=
  match slice_indices s len with
  | None => None
  | Some (a, b, st) => Some (range_list a st (Z.to_nat (range_len a b st)))
  end.

(* Python/NumPy integer indexing: negative wraps once, else IndexError *)
Definition norm_index (i len : Z) : option Z :=
  if (0 <=? i) && (i <? len) then Some i
  else if (i <? 0) && (0 <=? i + len) then Some (i + len)
  else None.

Definition nth_z {A} (l : list A) (i : Z) : option A :=
  if i <? 0 then None else nth_error l (Z.to_nat i).

Definition py_nth {A} (l : list A) (i : Z) : option A :=
  match norm_index i (Z.of_nat (length l)) with
  | Some j => nth_z l j
  | None => None
  end.

(* take the elements of l at the given (already normalised) positions *)
Fixpoint take_positions {A} (l : list A) (ps : list Z) : option (list A) :=
  match ps with
  | [] => Some []
  | p :: ps' => match nth_z l p, take_positions l ps' with
                | Some x, Some xs => Some (x :: xs)
                | _, _ => None
                end
  end.

(* l[s] for a Python list *)
Definition slice_list {A} (l : list A) (s : slice) : option (list A) :=
  match positions s (Z.of_nat (length l)) with
  | None => None
  | Some ps => take_positions l ps
  end.
