(* C20 -- shift / set_index models at observed values + the comparators of the correspondence cases. *)
Require Import SF.Prelude SF.Dtype SF.Value SF.RelJoinVal SF.RelShift.

Definition vncol := (val * list val)%type.
Definition vlframe := lframe val val.

Definition vlf (n : nat) (levels cols : list vncol) : vlframe := mk_lframe n levels cols.
Definition OkL (f : vlframe) : res vlframe := Ok f.
Definition ErrL (e : string) : res vlframe := Err e.

Definition zrange (n : nat) : list val := map (fun i => VInt (Z.of_nat i)) (seq 0 n).
Definition v_auto_level (n : nat) : vncol := (VStr "__index0__", zrange n).

(* labels: hash/== equality; 1 == 1.0 == True is not exercised by the generators *)
Definition M_shift_in_v := @M_shift_in val val val_eqb val_eqb.
Definition M_shift_out_v := @M_shift_out val val val_eqb val_eqb v_auto_level.
Definition M_set_index_v := @M_set_index val val val_eqb val_eqb.
Definition M_unset_index_v := @M_unset_index val val val_eqb v_auto_level.

Definition vncol_eqb (a b : vncol) : bool := val_eqb (fst a) (fst b) && list_eqb obs_eqb (snd a) (snd b).

Definition lframe_shape_ok (t : vlframe) : bool :=
  forallb (fun c => (length (snd c) =? lf_rows t)%nat) (lf_levels t ++ lf_cols t).

Definition vlframe_eqb (a b : vlframe) : bool :=
  (lf_rows a =? lf_rows b)%nat && lframe_shape_ok a && lframe_shape_ok b &&
  list_eqb vncol_eqb (lf_levels a) (lf_levels b) && list_eqb vncol_eqb (lf_cols a) (lf_cols b).

Definition res_lframe_eqb (m o : res vlframe) : bool :=
  match m, o with
  | Ok a, Ok b => vlframe_eqb a b
  | Err e1, Err e2 => String.eqb e1 e2
  | _, _ => false
  end.

(* ---- specification side: the named columns of the result are those of the input ---- *)
Definition same_named_cols (a b : list vncol) : bool := perm_eqb vncol_eqb a b.
Definition names_of (l : list vncol) : list val := map fst l.

Inductive shop :=
| OpShiftIn (keys : list val)
| OpShiftOut (depths : list nat)
| OpSetIndex (keys : list val) (drop : bool)
| OpUnset (names : list val).

Definition M_shop (op : shop) (t : vlframe) : res vlframe :=
  match op with
  | OpShiftIn keys => M_shift_in_v VNone keys t
  | OpShiftOut depths => M_shift_out_v VNone depths t
  | OpSetIndex keys drop => M_set_index_v VNone keys drop t
  | OpUnset names => M_unset_index_v names t
  end.

Definition is_auto (t : vlframe) : bool :=
  list_eqb vncol_eqb (lf_levels t) [v_auto_level (lf_rows t)].

(* what the property fixes about the result o of `op` on t (order of columns is not part of it) *)
Definition S_shop_ok (op : shop) (t o : vlframe) : bool :=
  (lf_rows t =? lf_rows o)%nat && lframe_shape_ok o &&
  match op with
  | OpShiftIn keys =>
      same_named_cols (lf_levels o ++ lf_cols o) (lf_levels t ++ lf_cols t) &&
      list_eqb val_eqb (names_of (lf_levels o)) (names_of (lf_levels t) ++ keys)
  | OpShiftOut depths =>
      if (length depths =? length (lf_levels t))%nat
      then is_auto o && same_named_cols (lf_cols o) (lf_levels t ++ lf_cols t)
      else same_named_cols (lf_levels o ++ lf_cols o) (lf_levels t ++ lf_cols t) &&
           (length (lf_levels o) + length depths =? length (lf_levels t))%nat
  | OpSetIndex keys true =>
      same_named_cols (lf_levels o ++ lf_cols o) (lf_cols t) && list_eqb val_eqb (names_of (lf_levels o)) keys
  | OpSetIndex keys false =>
      list_eqb vncol_eqb (lf_cols o) (lf_cols t) && list_eqb val_eqb (names_of (lf_levels o)) keys &&
      forallb (fun lv => existsb (vncol_eqb lv) (lf_cols t)) (lf_levels o)
  | OpUnset names =>
      is_auto o &&
      same_named_cols (lf_cols o) (rename names (lf_levels t) ++ lf_cols t)
  end.

(* a refusal is within the property exactly where the requested frame cannot exist: a key that is
   not a column, an index that would not be unique / tree-formed, colliding column names *)
Definition shop_m_ok (op : shop) (t : vlframe) (obs : res vlframe) : bool := res_lframe_eqb (M_shop op t) obs.
Definition shop_s_ok (op : shop) (t : vlframe) (obs : res vlframe) : bool :=
  match obs with
  | Ok o => S_shop_ok op t o
  | Err _ => match M_shop op t with Err _ => true | Ok _ => false end
  end.

(* a sequence of operations applied to the observed intermediate results: round trips *)
Definition roundtrip_cells_ok (t o : vlframe) : bool :=
  (lf_rows t =? lf_rows o)%nat && same_named_cols (lf_cols o) (lf_cols t).
