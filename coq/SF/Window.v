(* C13 -- window iteration: executable models, no proofs.

   M_windows  container_util.axis_window_items (container_util.py:404-511): the `while True` loop with
              its mutable state (idx_left, size, count).  Every index expression, the validity
              tests, the three updates and the exit test are the definitions w_* of Gen/Gen_c13.v,
              REGENERATED from the source text on every run; only the extraction `container[key]`
              (a slice with non-negative bounds), `labels.iloc[i]` and the loop skeleton are written
              by hand.  Fuel count_window_max + 2; Err "OutOfFuel" is excluded by theorem.
   S_windows  the specification lives in SF/WindowSpec.v.

   The container is a list of rows (label, payload) along the window axis. *)
Require Import SF.Prelude SF.PySlice SF.WindowSpec Gen.Gen_c13.

Section Window.
  Context {L A : Type}.
  Notation wrow := (@wrow L A).

  (* one pass through the loop body up to the `yield`: the items yielded (none or one) *)
  Definition w_body (rows : list wrow) (sized : bool) (label_shift idx_left size : Z) : list (L * list wrow) :=
    let idx_right := w_idx_right idx_left size in
    let idx_left_floored := w_idx_left_floored idx_left in
    let idx_right_floored := w_idx_right_floored idx_right in
    let window := window_of rows (w_key_start idx_left idx_right idx_left_floored idx_right_floored)
                                 (w_key_stop idx_left idx_right idx_left_floored idx_right_floored) in
    let idx_label := w_idx_label idx_right label_shift in
    let label := if w_label_neg idx_label then None else nth_z rows idx_label in   (* labels.iloc[i]: IndexError past the end *)
    match label with
    | None => []
    | Some lr => if sized && w_sized_invalid (zlen window) size then [] else [(fst lr, window)]
    end.

  Fixpoint w_loop (fuel : nat) (rows : list wrow) (sized : bool) (step label_shift incr cmax lmax : Z)
           (idx_left size count : Z) : res (list (L * list wrow)) :=
    match fuel with
    | O => Err "OutOfFuel"
    | S fuel' =>
        let out := w_body rows sized label_shift idx_left size in
        let idx_left' := w_next_left idx_left step in
        let size' := w_next_size size incr in
        let count' := w_next_count count in
        if w_break count' cmax idx_left' lmax size' then Ok out
        else match w_loop fuel' rows sized step label_shift incr cmax lmax idx_left' size' count' with
             | Ok rest => Ok (out ++ rest)
             | Err e => Err e
             end
    end.

  Definition M_windows (rows : list wrow) (p : wparams) : res (list (L * list wrow)) :=
    if w_reject_size (wp_size p) then Err "RuntimeError"
    else if w_reject_step (wp_step p) then Err "RuntimeError"
    else
      let cmax := w_count_window_max (zlen rows) (wp_start_shift p) in
      w_loop (Z.to_nat (cmax + 2)) rows (wp_sized p) (wp_step p) (wp_label_shift p) (wp_incr p)
             cmax (w_idx_left_max cmax) (w_idx_left_init (wp_start_shift p)) (wp_size p) w_count_init.

  (* Frame.iter_window_array[_items](axis=1): the window is TypeBlocks._extract_array(NULL_SLICE, key); for an EMPTY
     column selection that function raises StopIteration inside the generator (type_blocks.py:2088,
     resolve_dtype_iter of no blocks) -> RuntimeError for the whole iteration, whether or not the anchor would
     have been valid (a finding: the model follows the code) *)
  Definition has_empty_anchor (rows : list wrow) (p : wparams) : bool :=
    let n := zlen rows in
    existsb (fun i => a_enumerated n p i && (zlen (a_window rows p i) =? 0))
            (zseq 0 (Z.to_nat (a_count_max n p + 1))).

  Definition M_windows_frame_array_axis1 (rows : list wrow) (p : wparams) : res (list (L * list wrow)) :=
    match M_windows rows p with
    | Err e => Err e
    | Ok out => if has_empty_anchor rows p then Err "RuntimeError" else Ok out
    end.
End Window.
