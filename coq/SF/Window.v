(* C13 -- window iteration: executable models, no proofs.

   M_windows  container_util.axis_window_items (container_util.py:404-511): the `while True` loop with
              its mutable state (idx_left, size, count).  Every index expression, the validity
              tests, the three updates and the exit test are the definitions w_* of Gen/Gen_c13.v,
              REGENERATED from the source text on every run; only the extraction `container[key]`
              (a slice with non-negative bounds), `labels.iloc[i]` and the loop skeleton are written
              by hand.  Fuel count_window_max + 2; Err "OutOfFuel" is excluded by theorem.
   S_windows  the specification: anchor number i = 0, 1, 2, ... has left edge start_shift + i*step,
              size size + i*size_increment, right edge left + size - 1, label position
              right + label_shift; it is yielded iff the label position exists and (window_sized)
              the window lies completely inside the container; anchors are enumerated while the
              left edge has not passed the last admissible position and the size is not negative.

   The container is a list of rows (label, payload) along the window axis. *)
Require Import SF.Prelude SF.PySlice Gen.Gen_c13.

Section Window.
  Context {L A : Type}.
  Definition wrow := (L * A)%type.

  Record wparams := mk_wparams {
    wp_size : Z; wp_step : Z; wp_sized : bool; wp_label_shift : Z; wp_start_shift : Z; wp_incr : Z }.

  (* container[a:b] for a, b >= 0 *)
  Definition window_of (rows : list wrow) (a b : Z) : list wrow :=
    firstn (Z.to_nat (b - a)) (skipn (Z.to_nat a) rows).

  Definition zlen {X} (l : list X) : Z := Z.of_nat (length l).

  (* one pass through the loop body up to the `yield`: the items yielded (none or one) *)
  Definition w_body (rows : list wrow) (sized : bool) (label_shift idx_left size : Z) : list (L * list wrow) :=
    let idx_right := w_idx_right idx_left size in
    let idx_left_floored := w_idx_left_floored idx_left in
    let idx_right_floored := w_idx_right_floored idx_right in
    let window := window_of rows (w_key_start idx_left_floored idx_right_floored)
                                 (w_key_stop idx_left_floored idx_right_floored) in
    let idx_label := w_idx_label idx_right label_shift in
    let label := if w_label_neg idx_label then None else nth_z rows idx_label in   (* labels.iloc[i]: IndexError past the end *)
    match label with
    | None => []
    | Some lr => if sized && w_sized_invalid (zlen window) size then [] else [(fst lr, window)]
    end.

  Fixpoint w_loop (fuel : nat) (rows : list wrow) (sized : bool) (step label_shift incr cmax lmax : Z)
           (idx_left size count : Z) : res (list (L * list wrow)) :=
    match fuel with
    | O => Err "OutOfFuel"
    | S fuel' =>
        let out := w_body rows sized label_shift idx_left size in
        let idx_left' := w_next_left idx_left step in
        let size' := w_next_size size incr in
        let count' := w_next_count count in
        if w_break count' cmax idx_left' lmax size' then Ok out
        else match w_loop fuel' rows sized step label_shift incr cmax lmax idx_left' size' count' with
             | Ok rest => Ok (out ++ rest)
             | Err e => Err e
             end
    end.

  Definition M_windows (rows : list wrow) (p : wparams) : res (list (L * list wrow)) :=
    if w_reject_size (wp_size p) then Err "RuntimeError"
    else if w_reject_step (wp_step p) then Err "RuntimeError"
    else
      let cmax := w_count_window_max (zlen rows) (wp_start_shift p) in
      w_loop (Z.to_nat (cmax + 2)) rows (wp_sized p) (wp_step p) (wp_label_shift p) (wp_incr p)
             cmax (w_idx_left_max cmax) (w_idx_left_init (wp_start_shift p)) (wp_size p) w_count_init.

  (* ------------------------------------------------------------------ specification *)
  Definition a_left (p : wparams) (i : Z) : Z := wp_start_shift p + i * wp_step p.
  Definition a_size (p : wparams) (i : Z) : Z := wp_size p + i * wp_incr p.
  Definition a_right (p : wparams) (i : Z) : Z := a_left p i + a_size p i - 1.
  Definition a_label (p : wparams) (i : Z) : Z := a_right p i + wp_label_shift p.

  (* number of admissible anchors is bounded by this (reached only when step = 0) *)
  Definition a_count_max (n : Z) (p : wparams) : Z :=
    if wp_start_shift p >=? 0 then n else n - wp_start_shift p.

  (* the rows of anchor i that exist: positions max(0,left) .. right *)
  Definition a_window (rows : list wrow) (p : wparams) (i : Z) : list wrow :=
    window_of rows (Z.max 0 (a_left p i)) (Z.max 0 (a_right p i + 1)).

  Definition a_item (rows : list wrow) (p : wparams) (i : Z) : list (L * list wrow) :=
    match (if a_label p i <? 0 then None else nth_z rows (a_label p i)) with
    | None => []
    | Some lr =>
        if wp_sized p && negb (zlen (a_window rows p i) =? a_size p i) then []
        else [(fst lr, a_window rows p i)]
    end.

  (* anchor i is enumerated: the first always; later ones while the left edge is admissible and
     the size has not become negative *)
  Definition a_enumerated (n : Z) (p : wparams) (i : Z) : bool :=
    (i =? 0) || ((a_left p i <=? a_count_max n p - 1) && (a_size p i >=? 0)).

  Fixpoint zseq (a : Z) (k : nat) : list Z :=
    match k with O => [] | S k' => a :: zseq (a + 1) k' end.

  Definition S_windows (rows : list wrow) (p : wparams) : res (list (L * list wrow)) :=
    if (wp_size p <=? 0) || (wp_step p <? 0) then Err "RuntimeError"
    else
      let n := zlen rows in
      Ok (flat_map (fun i => if a_enumerated n p i then a_item rows p i else [])
                   (zseq 0 (Z.to_nat (a_count_max n p + 1)))).
End Window.

Arguments wparams : clear implicits.
Arguments mk_wparams : clear implicits.
