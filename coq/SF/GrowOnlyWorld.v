(* C09 -- never shared: a world of frame objects that hold REFERENCES to their mutable members
   (columns index object, TypeBlocks object).  Conversions follow the decision tables regenerated
   from the source on every run (Gen/Gen_c09.v): the three _to_frame sites, the to_frame* methods,
   Frame.__init__ (own_data / own_columns / Frame as data / STATIC check), index_from_optional_constructor,
   TypeBlocks.__copy__.  Growth goes through the FrameGO machine of SF/GrowOnly.v and writes the two
   referenced cells.  Models only. *)
Require Import SF.Prelude SF.Dtype SF.GrowOnly SF.GrowOnlyShare Gen.Gen_c09.

Section World.
Variable L : Type.
Variable V : Type.
Variable leq : L -> L -> bool.
Variable as_pos : L -> option Z.
Variable cast : dtype -> V -> V.
Variable resolve : dtype -> dtype -> dtype.

Record frm := mk_frm { fr_cls : fcls; fr_rows : list L; fr_cols : nat; fr_tb : nat }.

Record world := mk_world {
  w_idx : list (bool * igo L);     (* index objects: (STATIC, state) *)
  w_tbs : list (tb V);             (* TypeBlocks objects *)
  w_frames : list frm              (* live frames *)
}.

Fixpoint upd {A} (l : list A) (k : nat) (v : A) : list A :=
  match l, k with
  | [], _ => []
  | _ :: r, O => v :: r
  | x :: r, S k' => x :: upd r k' v
  end.

Definition cls_go (k : fcls) : bool := match k with KFrameGO => true | _ => false end.

Definition idx_static (w : world) (r : nat) : bool :=
  match nth_error (w_idx w) r with Some (st, _) => st | None => true end.

Definition alloc_idx (w : world) (c : bool * igo L) : world * nat :=
  (mk_world (w_idx w ++ [c]) (w_tbs w) (w_frames w), length (w_idx w)).
Definition alloc_tb (w : world) (t : tb V) : world * nat :=
  (mk_world (w_idx w) (w_tbs w ++ [t]) (w_frames w), length (w_tbs w)).
Definition add_frame (w : world) (f : frm) : world :=
  mk_world (w_idx w) (w_tbs w) (w_frames w ++ [f]).

(* an index handed to a constructor helper *)
Definition apply_action (w : world) (r : nat) (a : idx_action) : world * nat :=
  match nth_error (w_idx w) r with
  | None => (w, r)
  | Some (st, g) =>
      match a with
      | ASame => (w, r)
      | AImmutable => alloc_idx w (true, M_refresh g)
      | ACopy => alloc_idx w (st, M_refresh g)
      | AMutable => alloc_idx w (false, M_refresh g)
      end
  end.

Definition copy_tb (w : world) (r : nat) (fresh : bool) : world * nat :=
  if fresh then
    match nth_error (w_tbs w) r with
    | Some t => alloc_tb w t
    | None => (w, r)
    end
  else (w, r).

(* Frame.__init__ given a TypeBlocks and an index object (frame.py:2454-2519) *)
Definition init_members (w : world) (dst : fcls) (rows : list L) (dref cref : nat) (own_data own_columns : bool)
  : world * outcome :=
  let '(w1, tref) := if own_data && gen_init_own_data_takes then (w, dref)
                     else copy_tb w dref gen_init_copy_rebuilds in
  let '(w2, cref') := if own_columns && gen_init_own_columns_takes then (w1, cref)
                      else apply_action w1 cref (gen_ifoc (gen_columns_static dst) (idx_static w1 cref)) in
  if gen_init_static_check && negb (Bool.eqb (gen_columns_static dst) (idx_static w2 cref'))
  then (w, Err "ErrorInitFrame")
  else (add_frame w2 (mk_frm dst rows cref' tref), Ok tt).

(* frame_i.to_frame() / to_frame_go() / to_frame_he() *)
Definition w_to_frame (w : world) (i : nat) (dst : fcls) : world * outcome :=
  match nth_error (w_frames w) i with
  | None => (w, Err "IndexError")
  | Some f =>
      if gen_conv_returns_self (fr_cls f) dst
      then (add_frame w f, Ok tt)                     (* the result IS the receiver *)
      else
        let '(w1, dref) := copy_tb w (fr_tb f) (gen_to_frame_blocks_copied (fr_cls f) && gen_tb_copy_fresh) in
        init_members w1 dst (fr_rows f) dref (fr_cols f)
                     (gen_to_frame_own_data (fr_cls f) dst) (gen_to_frame_own_columns (fr_cls f) dst)
  end.

(* dst(frame_i): the constructor given a Frame (frame.py:2472-2483): blocks copied, columns passed on un-owned *)
Definition w_construct (w : world) (i : nat) (dst : fcls) : world * outcome :=
  match nth_error (w_frames w) i with
  | None => (w, Err "IndexError")
  | Some f =>
      let '(w1, dref) := copy_tb w (fr_tb f) (gen_init_frame_data_copies && gen_tb_copy_fresh) in
      init_members w1 dst (fr_rows f) dref (fr_cols f) true false
  end.

(* a growth call on frame i: only a FrameGO has the methods *)
Definition w_grow (w : world) (i : nat) (op : gop L V) : world * outcome :=
  match nth_error (w_frames w) i with
  | None => (w, Err "IndexError")
  | Some f =>
      if cls_go (fr_cls f) then
        match nth_error (w_idx w) (fr_cols f), nth_error (w_tbs w) (fr_tb f) with
        | Some (st, g), Some t =>
            let '(f', o) := M_step L V leq as_pos cast resolve (mk_fgo (fr_rows f) g t) op in
            (mk_world (upd (w_idx w) (fr_cols f) (st, f_cols f')) (upd (w_tbs w) (fr_tb f) (f_tb f')) (w_frames w), o)
        | _, _ => (w, Err "IndexError")
        end
      else (w, Err "AttributeError")
  end.

Inductive wop :=
| WGrow (i : nat) (op : gop L V)
| WToFrame (i : nat) (dst : fcls)
| WConstruct (i : nat) (dst : fcls).

Definition wstep (w : world) (op : wop) : world * outcome :=
  match op with
  | WGrow i g => w_grow w i g
  | WToFrame i dst => w_to_frame w i dst
  | WConstruct i dst => w_construct w i dst
  end.

Fixpoint wrun (w : world) (ops : list wop) : world :=
  match ops with
  | [] => w
  | op :: r => wrun (fst (wstep w op)) r
  end.

(* what can be seen of frame j: class, row labels, column labels, columns *)
Definition w_observe (w : world) (j : nat) : option (fcls * list L * list L * list (col V)) :=
  match nth_error (w_frames w) j with
  | None => None
  | Some f =>
      match nth_error (w_idx w) (fr_cols f), nth_error (w_tbs w) (fr_tb f) with
      | Some (_, g), Some t => Some (fr_cls f, fr_rows f, g_lm g, tb_flat t)
      | _, _ => None
      end
  end.

End World.

Arguments mk_frm {L}.
Arguments fr_cls {L}. Arguments fr_rows {L}. Arguments fr_cols {L}. Arguments fr_tb {L}.
Arguments mk_world {L V}.
Arguments w_idx {L V}. Arguments w_tbs {L V}. Arguments w_frames {L V}.
Arguments WGrow {L V}. Arguments WToFrame {L V}. Arguments WConstruct {L V}.
