(* C02 -- instantiation of the flat index SPECIFICATION at SF.Value.val and the comparison functions
   the correspondence cases call for S (independent of the model M and of anything regenerated).

   canon: the canonical representative of a label under Python equality/hash
   (True == 1 == 1.0, (1, 2) == (1.0, 2.0)); NaN labels are outside C02.  Floats arrive as exact
   num/den in lowest terms (float.as_integer_ratio), so an integral float has den = 1. *)
Require Import SF.Prelude SF.Value SF.PySlice SF.IndexBijSpec.
Fixpoint canon (v : val) : val :=
  match v with
  | VBool b => VInt (if b then 1 else 0)
  | VFlt n d => if d =? 1 then VInt n else VFlt n d
  | VTup l => VTup (map canon l)
  | _ => v
  end.

Definition vclass (v : val) : kclass :=
  match v with VInt _ => KInt | VBool _ => KBool | VNone => KNone | _ => KOther end.

Definition vto_Z (v : val) : option Z := match v with VInt z => Some z | _ => None end.

Definition vkey (v : val) : key val := (canon v, vclass v).

Notation vobs := (obs val).

Definition res_unit_eqb (a b : res unit) : bool :=
  match a, b with Ok _, Ok _ => true | Err x, Err y => String.eqb x y | _, _ => false end.

Definition obs_eqb (a b : vobs) : bool :=
  vlist_eqb (o_values a) (o_values b) && vlist_eqb (o_iter a) (o_iter b) &&
  vlist_eqb (o_rev a) (o_rev b) && (o_len a =? o_len b) &&
  list_eqb Z.eqb (o_pos a) (o_pos b) && vlist_eqb (o_at a) (o_at b) &&
  list_eqb (res_eqb Z.eqb) (o_lookup a) (o_lookup b) &&
  list_eqb Bool.eqb (o_contains a) (o_contains b).

(* an observation as printed by the harness (raw values) -> canonical *)
Definition obs_canon (o : vobs) : vobs :=
  mk_obs (map canon (o_values o)) (map canon (o_iter o)) (map canon (o_rev o)) (o_len o) (o_pos o)
         (map canon (o_at o)) (o_lookup o) (o_contains o).

Definition robs_eqb (a b : res vobs) : bool := res_eqb obs_eqb a b.
Definition robs_canon (r : res vobs) : res vobs := res_map obs_canon r.
Definition vS_index (labels probes : list val) : res vobs :=
  S_index val_eqb (map canon labels) (map vkey probes).
Definition chk_S_index labels probes (observed : res vobs) : bool :=
  robs_eqb (vS_index labels probes) (robs_canon observed).
Definition chk_S_auto (n : Z) probes (observed : vobs) : bool :=
  obs_eqb (S_auto val_eqb VInt (Z.to_nat n) (map vkey probes)) (obs_canon observed).
Definition chk_S_list labels (ks : list val) (observed : res (list Z)) : bool :=
  res_eqb (list_eqb Z.eqb) (S_lookup_list val_eqb (map canon labels) (map vkey ks)) observed.
Definition chk_S_slice labels (a b : option val) (st : option Z) (observed : res slice) : bool :=
  res_eqb slice_eqb (S_lookup_slice val_eqb (map canon labels) (option_map vkey a) (option_map vkey b) st) observed.

(* grow-only histories.  init: inl labels (IndexGO(labels)) or inr n (auto-integer IndexGO) *)
Inductive vop := VAppend (v : val) | VExtend (vs : list val) | VTouch.
Definition vop_op (o : vop) : op val :=
  match o with
  | VAppend v => OpAppend (vkey v)
  | VExtend vs => OpExtend (map vkey vs)
  | VTouch => OpTouch
  end.

Definition start_labels (init : list val + Z) : list val :=
  match init with
  | inl l => map canon l
  | inr n => map VInt (iota (Z.to_nat n))
  end.

Definition chk_S_go init (ops : list vop) probes (outs : list (res unit)) (observed : vobs) : bool :=
  let '(l', rs) := S_go_run val_eqb (start_labels init) (map vop_op ops) in
  list_eqb Bool.eqb rs (map is_ok outs) &&
  obs_eqb (S_observe val_eqb l' (map vkey probes)) (obs_canon observed).

(* ---- derived indices: the implementation's derived index is observed in full and compared with the
   specification index over the labels the derivation must produce (S_select / S_drop / S_roll ...) ---- *)
Definition chk_S_derived (expect : res (list val)) probes (observed : res vobs) : bool :=
  match expect with
  | Err e => match observed with Err _ => true | Ok _ => false end   (* a malformed key must be refused; C02 does not fix the class *)
  | Ok l => chk_S_index l probes observed
  end.

Fixpoint opt_all {A} (l : list (option A)) : option (list A) :=
  match l with
  | [] => Some []
  | Some a :: t => match opt_all t with Some r => Some (a :: r) | None => None end
  | None :: _ => None
  end.

(* positions as NumPy takes them: negative wraps once, otherwise IndexError *)
Definition norm_positions (n : Z) (ps : list Z) : res (list Z) :=
  match opt_all (map (fun p => norm_index p n) ps) with Some r => Ok r | None => Err "IndexError" end.

Definition vS_iloc_list (labels : list val) (ps : list Z) : res (list val) :=
  match norm_positions (zlen labels) ps with
  | Err e => Err e
  | Ok qs => match S_select (map canon labels) qs with Some l => Ok l | None => Err "IndexError" end
  end.

Definition vS_iloc_slice (labels : list val) (s : slice) : res (list val) :=
  match positions s (zlen labels) with
  | None => Err "ValueError"
  | Some qs => match S_select (map canon labels) qs with Some l => Ok l | None => Err "IndexError" end
  end.

Fixpoint mask_positions (mask : list bool) (i : Z) : list Z :=
  match mask with
  | [] => []
  | b :: m => if b then i :: mask_positions m (i + 1) else mask_positions m (i + 1)
  end.

Definition vS_iloc_mask (labels : list val) (mask : list bool) : res (list val) :=
  if negb (Nat.eqb (length mask) (length labels)) then Err "IndexError"
  else match S_select (map canon labels) (mask_positions mask 0) with Some l => Ok l | None => Err "IndexError" end.

Definition vS_loc_list (labels keys : list val) : res (list val) :=
  match S_lookup_list val_eqb (map canon labels) (map vkey keys) with
  | Err e => Err e
  | Ok qs => match S_select (map canon labels) qs with Some l => Ok l | None => Err "IndexError" end
  end.

Definition vS_drop_iloc (labels : list val) (ps : list Z) : res (list val) :=
  match norm_positions (zlen labels) ps with
  | Err e => Err e
  | Ok qs => Ok (S_drop (map canon labels) qs)
  end.

Definition vS_drop_loc (labels keys : list val) : res (list val) :=
  match S_lookup_list val_eqb (map canon labels) (map vkey keys) with
  | Err e => Err e
  | Ok qs => Ok (S_drop (map canon labels) qs)
  end.

Definition vS_roll (labels : list val) (shift : Z) : res (list val) := Ok (S_roll (map canon labels) shift).

(* relabel with a finite mapping (dict): labels not in the mapping are kept *)
Fixpoint vassoc (x : val) (m : list (val * val)) : option val :=
  match m with [] => None | (a, b) :: m' => if val_eqb x (canon a) then Some (canon b) else vassoc x m' end.
Definition vS_relabel (labels : list val) (m : list (val * val)) : res (list val) :=
  Ok (map (fun x => match vassoc x m with Some y => y | None => x end) (map canon labels)).

(* sort of integer labels *)
Definition vint (v : val) : Z := match v with VInt z => z | _ => 0 end.
Fixpoint zinsert (x : Z) (l : list Z) : list Z :=
  match l with [] => [x] | y :: ys => if x <=? y then x :: l else y :: zinsert x ys end.
Definition zsort (l : list Z) : list Z := fold_right zinsert [] l.
Definition vS_sort_int (labels : list val) (ascending : bool) : res (list val) :=
  let s := zsort (map vint (map canon labels)) in Ok (map VInt (if ascending then s else rev s)).

(* set operations: the property (C02) fixes that the result is an index holding exactly the set;
   the order of the result is C06's business *)
Definition subsetb (a b : list val) : bool := forallb (fun x => memb val_eqb x b) a.
Definition same_set (a b : list val) : bool := subsetb a b && subsetb b a.
Definition vset_union (a b : list val) := map canon a ++ map canon b.
Definition vset_inter (a b : list val) := filter (fun x => memb val_eqb x (map canon b)) (map canon a).
Definition vset_diff (a b : list val) := filter (fun x => negb (memb val_eqb x (map canon b))) (map canon a).

Definition chk_S_setop (expect : list val) probes (observed : res vobs) : bool :=
  match observed with
  | Err _ => false
  | Ok o => chk_S_index (o_values o) probes observed && same_set (map canon (o_values o)) expect
  end.

(* label-slice selection (inclusive stop): positions through the label slice, then positional selection *)
Definition vS_loc_slice (labels : list val) (a b : option val) (st : option Z) : res (list val) :=
  match S_lookup_slice val_eqb (map canon labels) (option_map vkey a) (option_map vkey b) st with
  | Err e => Err e
  | Ok s => vS_iloc_slice labels s
  end.

(* sample(k): an index holding k of the labels of the source (which ones is not C02's business) *)
Definition chk_S_sample (labels : list val) (k : Z) probes (observed : res vobs) : bool :=
  match observed with
  | Err _ => false
  | Ok o => chk_S_index (o_values o) probes observed && subsetb (map canon (o_values o)) (map canon labels) &&
            (zlen (o_values o) =? k)
  end.
