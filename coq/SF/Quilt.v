(* C19 -- Quilt: a Frame-like view over the Frames of a Bus (static_frame/core/quilt.py).

   Everything is stated over "lines": a member Frame is a list of labelled lines along the Quilt
   axis (rows for axis 0, columns for axis 1) over a shared opposite axis; the two branches of
   Quilt._extract (quilt.py:971-979 / 981-993) are mirror images of each other, so the model is
   parametric in what a line is and the harness hands rows (axis 0) or columns (axis 1) to it.

   S_* : the specification -- the operation on the single concatenated Frame.
   M_* : the implementation model -- what quilt.py really does (Boolean mask over the axis map,
         ordered bus labels, per-member sub-mask through HLoc, per-member mask selection,
         relabel, reduction, concatenation), defects included.   NO proofs in this file. *)
Require Import SF.Prelude SF.PySlice SF.Value.

(* ------------------------------------------------------------------ generic list helpers *)
Fixpoint find_all {Y} (f : Y -> bool) (l : list Y) (i : nat) : list nat :=
  match l with
  | [] => []
  | x :: r => if f x then i :: find_all f r (S i) else find_all f r (S i)
  end.

(* xs[mask] for a Boolean mask of the same length *)
Fixpoint mask_select {Y} (xs : list Y) (m : list bool) : list Y :=
  match xs, m with
  | x :: xs', c :: m' => if c then x :: mask_select xs' m' else mask_select xs' m'
  | _, _ => []
  end.

(* sel = np.full(n, False); sel[ps] = True *)
Definition mask_of (n : nat) (ps : list nat) : list bool :=
  map (fun i => existsb (Nat.eqb i) ps) (seq 0 n).

(* l[ps] for in-range positions (out-of-range positions are checked before) *)
Definition take_nat {Y} (l : list Y) (ps : list nat) : list Y :=
  flat_map (fun p => match nth_error l p with Some y => [y] | None => [] end) ps.

Fixpoint nodup_nat (l : list nat) : bool :=
  match l with [] => true | x :: r => negb (existsb (Nat.eqb x) r) && nodup_nat r end.

Fixpoint asc_nat (l : list nat) : bool :=      (* strictly ascending *)
  match l with
  | [] => true
  | x :: r => match r with [] => true | y :: _ => (x <? y)%nat && asc_nat r end
  end.

Definition in_range (n : nat) (ps : list nat) : bool := forallb (fun p => (p <? n)%nat) ps.

Fixpoint all_some {Y} (l : list (option Y)) : option (list Y) :=
  match l with
  | [] => Some []
  | o :: r => match o, all_some r with Some y, Some ys => Some (y :: ys) | _, _ => None end
  end.

(* ------------------------------------------------------------------ 1-D core: a segmented sequence *)
Section Seg.
  Variables (B X : Type) (beqb : B -> B -> bool).

  (* a Bus seen along the Quilt axis: (bus label, items of that member) *)
  Definition sbus := list (B * list X).

  (* AxisMap.from_bus / IndexHierarchy.from_tree (quilt.py:84-116, 72-81): (bus label, inner item) *)
  Definition axis_map (q : sbus) : list (B * X) :=
    flat_map (fun bx => map (pair (fst bx)) (snd bx)) q.
  Definition owners (q : sbus) : list B := map fst (axis_map q).

  (* bus.loc[key] *)
  Fixpoint bus_loc (q : sbus) (b : B) : option (list X) :=
    match q with
    | [] => None
    | (b', xs) :: r => if beqb b' b then Some xs else bus_loc r b
    end.

  (* util.duplicate_filter (util.py:352-366): drops only ADJACENT repeats *)
  Fixpoint dup_filter_from (last : B) (l : list B) : list B :=
    match l with
    | [] => []
    | v :: r => if beqb v last then dup_filter_from v r else v :: dup_filter_from v r
    end.
  Definition dup_filter (l : list B) : list B :=
    match l with [] => [] | v :: r => v :: dup_filter_from v r end.

  Fixpoint nodupb (l : list B) : bool :=
    match l with [] => true | x :: r => negb (existsb (beqb x) r) && nodupb r end.

  (* quilt.py:969-972: sel_component = sel[axis_map.index._loc_to_iloc(HLoc[key])];
     bus.loc[key].iloc[sel_component] *)
  Definition component (q : sbus) (sel : list bool) (b : B) : list X :=
    let pos := find_all (beqb b) (owners q) 0 in
    let sel_component := map (fun i => nth i sel false) pos in
    match bus_loc q b with Some xs => mask_select xs sel_component | None => [] end.

  (* quilt.py:958-995 for already normalised positions ps (in key order):
     sel[sel_key] = True (IndexError when out of range); axis_map.iloc[sel_key] is a Series over a
     depth-2 IndexHierarchy, so it rejects repeated positions and owner sequences that are not in
     tree form (ErrorInitIndex); bus_keys = duplicate_filter(its values); one part per bus key. *)
  Definition M_parts (q : sbus) (ps : list nat) : res (list (B * list X)) :=
    let n := length (axis_map q) in
    if negb (in_range n ps) then Err "IndexError"
    else if negb (nodup_nat ps) then Err "ErrorInitIndex"
    else
      let bus_keys := dup_filter (take_nat (owners q) ps) in
      if negb (nodupb bus_keys) then Err "ErrorInitIndex"
      else
        let sel := mask_of n ps in
        Ok (map (fun b => (b, component q sel b)) bus_keys).

  Definition flatten_parts (parts : list (B * list X)) : list (B * X) :=
    flat_map (fun bx => map (pair (fst bx)) (snd bx)) parts.

  (* which member Frames a selection asks the Bus for (bus.loc[key] calls, in order) *)
  Definition M_touched (q : sbus) (ps : list nat) : list B :=
    match M_parts q ps with Ok parts => map fst parts | Err _ => [] end.

  (* the specification: positions ps, in key order, of the concatenation *)
  Definition S_take (q : sbus) (ps : list nat) : res (list (B * X)) :=
    let am := axis_map q in
    if negb (in_range (length am) ps) then Err "IndexError"
    else if negb (nodup_nat ps) then Err "ErrorInitIndex"      (* a Frame cannot hold a label twice *)
    else Ok (take_nat am ps).

  (* the exact guard under which the unchanged code is right: the key visits the members one after the
     other (each at most once) and the positions inside every member ascend.
     runs: adjacent positions grouped by owner *)
  Fixpoint runs (own : list B) (ps : list nat) : list (B * list nat) :=
    match ps with
    | [] => []
    | p :: r =>
        match nth_error own p with
        | None => runs own r
        | Some b => match runs own r with
                    | (b', run) :: rest => if beqb b b' then (b, p :: run) :: rest else (b, [p]) :: (b', run) :: rest
                    | [] => [(b, [p])]
                    end
        end
    end.

  Definition block_asc (q : sbus) (ps : list nat) : bool :=
    in_range (length (axis_map q)) ps && nodup_nat ps &&
    nodupb (map fst (runs (owners q) ps)) && forallb asc_nat (map snd (runs (owners q) ps)).
End Seg.

Arguments axis_map {B X} q.
Arguments owners {B X} q.
Arguments bus_loc {B X} beqb q b.
Arguments dup_filter {B} beqb l.
Arguments dup_filter_from {B} beqb last l.
Arguments nodupb {B} beqb l.
Arguments component {B X} beqb q sel b.
Arguments M_parts {B X} beqb q ps.
Arguments M_touched {B X} beqb q ps.
Arguments flatten_parts {B X} parts.
Arguments S_take {B X} q ps.
Arguments runs {B} beqb own ps.
Arguments block_asc {B X} beqb q ps.

(* ------------------------------------------------------------------ keys (NumPy / Python indexing) *)
Inductive key :=
| KAll                       (* None / NULL_SLICE *)
| KInt (i : Z)
| KSlice (s : slice)
| KList (l : list Z)
| KMask (m : list bool).

Definition norm_nat (i : Z) (n : nat) : option nat :=
  match norm_index i (Z.of_nat n) with Some j => Some (Z.to_nat j) | None => None end.

Definition key_positions (k : key) (n : nat) : res (list nat) :=
  match k with
  | KAll => Ok (seq 0 n)
  | KInt i => match norm_nat i n with Some p => Ok [p] | None => Err "IndexError" end
  | KSlice s => match positions s (Z.of_nat n) with
                | Some zs => Ok (map Z.to_nat zs)
                | None => Err "ValueError"
                end
  | KList l => match all_some (map (fun i => norm_nat i n) l) with
               | Some ps => Ok ps
               | None => Err "IndexError"
               end
  | KMask m => if (length m =? n)%nat then Ok (find_all (fun c : bool => c) m 0) else Err "IndexError"
  end.

Definition key_reduces (k : key) : bool := match k with KInt _ => true | _ => false end.
Definition key_is_all (k : key) : bool := match k with KAll => true | _ => false end.

(* ------------------------------------------------------------------ Frames as labelled lines *)
Section QuiltFrames.
  Variable A : Type.          (* cell *)

  Record mframe := mk_mframe {
    mf_labels : list val;          (* labels along the Quilt axis *)
    mf_lines : list (list A);      (* one line per label, each over the opposite axis *)
    mf_name : val
  }.

  Record quilt := mk_quilt {
    q_bus : list (val * mframe);   (* Bus label, member Frame *)
    q_opp : list val;              (* the shared opposite-axis labels *)
    q_retain : bool                (* retain_labels *)
  }.

  (* what a selection returns, as the harness observes it (lines along the Quilt axis) *)
  Inductive qres :=
  | QFrame (labels opp : list val) (lines : list (list A)) (name : val)
  | QSeries (index : list val) (vals : list A) (name : val)
  | QElem (a : A).

  Definition item := (val * list A)%type.      (* labelled line *)
  Definition seg_of (q : quilt) : sbus val item :=
    map (fun bf => (fst bf, combine (mf_labels (snd bf)) (mf_lines (snd bf)))) (q_bus q).

  (* relabel_level_add(key) when labels are retained *)
  Definition out_label (retain : bool) (bx : val * item) : val :=
    if retain then VTup [fst bx; fst (snd bx)] else fst (snd bx).

  Definition member_name (q : quilt) (b : val) : val :=
    match find (fun bf => val_eqb (fst bf) b) (q_bus q) with
    | Some bf => mf_name (snd bf)
    | None => VNone
    end.

  (* assemble the observable result from the selected labelled lines *)
  Definition assemble (q : quilt) (sel opp : key) (items : list (val * item)) (ops : list nat) (name : val)
    : res qres :=
    let lab := out_label (q_retain q) in
    match key_reduces sel, key_reduces opp with
    | false, false =>
        Ok (QFrame (map lab items) (take_nat (q_opp q) ops)
                   (map (fun bx => take_nat (snd (snd bx)) ops) items) name)
    | true, false =>
        match items with
        | bx :: _ => Ok (QSeries (take_nat (q_opp q) ops) (take_nat (snd (snd bx)) ops) (lab bx))
        | [] => Err "IndexError"
        end
    | false, true =>
        match ops with
        | j :: _ => match nth_error (q_opp q) j with
                    | Some ol => Ok (QSeries (map lab items) (flat_map (fun bx => take_nat (snd (snd bx)) [j]) items) ol)
                    | None => Err "IndexError"
                    end
        | [] => Err "IndexError"
        end
    | true, true =>
        match items, ops with
        | bx :: _, j :: _ => match nth_error (snd (snd bx)) j with Some a => Ok (QElem a) | None => Err "IndexError" end
        | _, _ => Err "IndexError"
        end
    end.

  Definition opp_positions (q : quilt) (opp : key) : res (list nat) :=
    ops <- key_positions opp (length (q_opp q)) ;;
    if nodup_nat ops then Ok ops else Err "ErrorInitIndex".

  (* ---- S: the single Frame Frame.from_concat[_items](bus frames), then Frame selection ---- *)
  Definition S_extract (q : quilt) (sel opp : key) : res qres :=
    let sq := seg_of q in
    ps <- key_positions sel (length (axis_map sq)) ;;
    items <- S_take sq ps ;;
    ops <- opp_positions q opp ;;
    assemble q sel opp items ops VNone.

  (* ---- M: Quilt._extract (quilt.py:910-1003) ---- *)
  Definition M_extract_gen (empty_err : string) (q : quilt) (sel opp : key) : res qres :=
    let sq := seg_of q in
    if key_is_all sel && key_is_all opp then
      (* quilt.py:930-944: Frame.from_concat of the (relabelled) member Frames *)
      ops <- opp_positions q opp ;;
      assemble q sel opp (axis_map sq) ops VNone
    else
      ps <- key_positions sel (length (axis_map sq)) ;;
      parts <- M_parts val_eqb sq ps ;;
      match parts with
      | [] => Err empty_err
      | (b, _) :: rest =>
          ops <- opp_positions q opp ;;
          let name := match rest with [] => member_name q b | _ => VNone end in   (* quilt.py:997-998 *)
          assemble q sel opp (flatten_parts parts) ops name
      end.

  (* AxisMap.get_axis_series -> IndexHierarchy.from_tree (quilt.py:76): an IndexLevel leaf of length zero
     cannot be built without a depth reference, so a member with no line makes every use of the Quilt raise *)
  Definition axis_map_ok (q : quilt) : bool :=
    forallb (fun bf => negb (match mf_labels (snd bf) with [] => true | _ => false end)) (q_bus q).

  (* quilt.py:1001: with no addressed member `component_is_series` was never bound *)
  Definition M_extract := M_extract_gen "UnboundLocalError".

  Definition M_extract_full (q : quilt) (sel opp : key) : res qres :=
    if axis_map_ok q then M_extract q sel opp else Err "ErrorInitIndex".

  (* Quilt._extract_array (quilt.py:832-908) has the same structure and returns the bare values; with no
     addressed member concat_resolved([]) ends the window generator that called it (RuntimeError) *)
  Inductive ares :=
  | AArr2 (lines : list (list A))
  | AArr1 (vals : list A)
  | AElem (a : A).

  Definition values_of (r : qres) : ares :=
    match r with QFrame _ _ lines _ => AArr2 lines | QSeries _ vals _ => AArr1 vals | QElem a => AElem a end.

  Definition M_extract_array (q : quilt) (sel opp : key) : res ares :=
    if axis_map_ok q then res_map values_of (M_extract_gen "RuntimeError" q sel opp) else Err "ErrorInitIndex".

  Definition S_extract_array (q : quilt) (sel opp : key) : res ares :=
    res_map values_of (S_extract q sel opp).

  (* S says nothing about the name of a Frame result *)
  Definition strip_name (r : qres) : qres :=
    match r with QFrame l o ls _ => QFrame l o ls VNone | x => x end.

  (* ---- labels and shape: Quilt._update_axis_labels (quilt.py:489-509) vs the concatenated Frame ---- *)
  Definition M_labels (q : quilt) : res (list val) :=
    if negb (axis_map_ok q) then Err "ErrorInitIndex" else
    let labs := map (out_label (q_retain q)) (axis_map (seg_of q)) in
    if q_retain q then Ok labs                               (* axis_map.index *)
    else if nodupb val_eqb labs then Ok labs else Err "ErrorInitIndex".   (* index.level_drop(1) *)

  Definition S_labels (q : quilt) : res (list val) :=
    let labs := flat_map (fun bf => map (fun l => if q_retain q then VTup [fst bf; l] else l) (mf_labels (snd bf))) (q_bus q) in
    if nodupb val_eqb labs then Ok labs else Err "ErrorInitIndex".

  (* the widest guard: order-preserving inside every member, members visited one after the other *)
  Definition dom_extract_block (q : quilt) (sel : key) : bool :=
    axis_map_ok q &&
    match key_positions sel (length (axis_map (seg_of q))) with
    | Err _ => true
    | Ok ps => block_asc val_eqb (seg_of q) ps && negb (match ps with [] => true | _ => false end)
    end.

  (* the guard of the refinement theorem, computed from the key alone *)
  Definition dom_extract (q : quilt) (sel : key) : bool :=
    axis_map_ok q &&
    match key_positions sel (length (axis_map (seg_of q))) with
    | Err _ => true
    | Ok ps => asc_nat ps && negb (match ps with [] => true | _ => false end)
    end.
End QuiltFrames.

Arguments mk_mframe {A} _ _ _.
Arguments mk_quilt {A} _ _ _.
Arguments QFrame {A} _ _ _ _.
Arguments QSeries {A} _ _ _.
Arguments QElem {A} _.
Arguments seg_of {A} q.
Arguments S_extract {A} q sel opp.
Arguments M_extract {A} q sel opp.
Arguments M_extract_gen {A} empty_err q sel opp.
Arguments M_extract_array {A} q sel opp.
Arguments S_extract_array {A} q sel opp.
Arguments values_of {A} r.
Arguments AArr2 {A} _.
Arguments AArr1 {A} _.
Arguments AElem {A} _.
Arguments M_extract_full {A} q sel opp.
Arguments axis_map_ok {A} q.
Arguments strip_name {A} r.
Arguments M_labels {A} q.
Arguments S_labels {A} q.
Arguments dom_extract {A} q sel.
Arguments dom_extract_block {A} q sel.

(* ------------------------------------------------------------------ selection by label *)
(* label keys as the harness builds them; the label -> position translation itself is the business of
   C02/C05 (Index / IndexHierarchy._loc_to_iloc) and is modelled here by plain lookup *)
Inductive lkey :=
| LAll
| LOne (v : val)                 (* a single label: reduces *)
| LMany (vs : list val)          (* a list of labels, in key order *)
| LRange (a b : val)             (* slice(a, b): stop label included *)
| LOuter (b : val).              (* HLoc[b] on a retained (hierarchical) axis: every line of member b *)

Fixpoint index_of (v : val) (l : list val) (i : nat) : option nat :=
  match l with
  | [] => None
  | x :: r => if val_eqb x v then Some i else index_of v r (S i)
  end.

Definition outer_is (b : val) (lab : val) : bool :=
  match lab with VTup (o :: _) => val_eqb o b | _ => false end.

Definition loc_to_key (labels : list val) (k : lkey) : res key :=
  match k with
  | LAll => Ok KAll
  | LOne v => match index_of v labels 0 with Some p => Ok (KInt (Z.of_nat p)) | None => Err "KeyError" end
  | LMany vs => match all_some (map (fun v => index_of v labels 0) vs) with
                | Some ps => Ok (KList (map Z.of_nat ps))
                | None => Err "KeyError"
                end
  | LRange a b => match index_of a labels 0, index_of b labels 0 with
                  | Some p, Some r => Ok (KSlice (mk_slice (Some (Z.of_nat p)) (Some (Z.of_nat r + 1)) None))
                  | _, _ => Err "KeyError"
                  end
  | LOuter b => match find_all (outer_is b) labels 0 with
                | [] => Err "KeyError"
                | ps => Ok (KList (map Z.of_nat ps))
                end
  end.

Section QuiltMore.
  Variable A : Type.
  Notation quilt := (quilt A).
  Notation qres := (qres A).

  Definition labels_raw (q : quilt) : list val := map (out_label A (q_retain A q)) (axis_map (seg_of q)).

  (* Quilt._extract_loc / _compound_loc_to_iloc (quilt.py:1017-1035): translate both keys on the
     Quilt's own index objects, then _extract by position *)
  Definition M_extract_loc (q : quilt) (lsel lopp : lkey) : res qres :=
    if negb (axis_map_ok q) then Err "ErrorInitIndex" else
    opp <- loc_to_key (q_opp A q) lopp ;;
    sel <- loc_to_key (labels_raw q) lsel ;;
    M_extract q sel opp.

  Definition S_extract_loc (q : quilt) (lsel lopp : lkey) : res qres :=
    opp <- loc_to_key (q_opp A q) lopp ;;
    sel <- loc_to_key (labels_raw q) lsel ;;
    S_extract q sel opp.

  Definition dom_extract_loc (q : quilt) (lsel : lkey) : bool :=
    axis_map_ok q &&
    match loc_to_key (labels_raw q) lsel with Ok sel => dom_extract q sel | Err _ => true end.

  (* ---- iteration along the Quilt axis: Quilt._axis_array / _axis_array_items (quilt.py:695-726) ----
     walks the Bus, and inside every member its lines; labels come from the Quilt index by zip *)
  Definition M_iter_items (q : quilt) : res (list (val * list A)) :=
    labs <- M_labels q ;;
    Ok (combine labs (flat_map (fun bf => mf_lines A (snd bf)) (q_bus A q))).

  (* the concatenated Frame's (label, line) pairs *)
  Definition S_iter_items (q : quilt) : res (list (val * list A)) :=
    labs <- S_labels q ;;
    Ok (map (fun bx => (out_label A (q_retain A q) bx, snd (snd bx))) (axis_map (seg_of q))).

  (* iteration across the Quilt axis: Quilt._axis_array raises NotImplementedAxis (quilt.py:712-720);
     the concatenated Frame yields its cross lines *)
  Definition M_iter_cross (q : quilt) : res (list (val * list A)) :=
    if negb (axis_map_ok q) then Err "ErrorInitIndex" else Err "NotImplementedError".

  Definition S_iter_cross (q : quilt) : res (list (val * list A)) :=
    let lines := map (fun bx : val * item A => snd (snd bx)) (axis_map (seg_of q)) in
    Ok (map (fun jl : nat * val => (snd jl, flat_map (fun line => take_nat line [fst jl]) lines))
            (combine (seq 0 (length (q_opp A q))) (q_opp A q))).

  Definition wf_quilt (q : quilt) : bool :=
    forallb (fun bf => (length (mf_labels A (snd bf)) =? length (mf_lines A (snd bf)))%nat) (q_bus A q).

  (* ---- windows: container_util.axis_window_items (404-511) with source = the Quilt / the Frame ---- *)
  Record wparams := mk_wparams {
    w_size : Z; w_step : Z; w_sized : bool; w_label_shift : Z; w_start_shift : Z; w_size_inc : Z
  }.

  (* the loop's arithmetic: (iloc slice, label position, size demanded) per iteration *)
  Fixpoint window_loop (fuel : nat) (cmax lmax idx_left size count : Z) (p : wparams) : list (slice * Z * Z) :=
    match fuel with
    | O => []
    | S fuel' =>
        let idx_right := idx_left + size - 1 in
        let l := if 0 <? idx_left then idx_left else 0 in
        let r := if -1 <? idx_right then idx_right else -1 in
        let here := (mk_slice (Some l) (Some (r + 1)) None, idx_right + w_label_shift p, size) in
        let idx_left' := idx_left + w_step p in
        let size' := size + w_size_inc p in
        let count' := count + 1 in
        if (cmax <? count') || (lmax <? idx_left') || (size' <? 0) then [here]
        else here :: window_loop fuel' cmax lmax idx_left' size' count' p
    end.

  Definition window_keys (n : nat) (p : wparams) : list (slice * Z * Z) :=
    let nz := Z.of_nat n in
    let cmax := if 0 <=? w_start_shift p then nz else nz + Z.abs (w_start_shift p) in
    window_loop (S (S (Z.to_nat cmax))) cmax (cmax - 1) (w_start_shift p) (w_size p) 0 p.

  Definition window_len (r : qres) (along_sel : bool) : Z :=
    match r with
    | QFrame labels opp _ _ => Z.of_nat (if along_sel then length labels else length opp)
    | QSeries idx _ _ => Z.of_nat (length idx)
    | QElem _ => 0
    end.

  Definition awindow_len (r : ares A) (along_sel : bool) : Z :=
    match r with
    | AArr2 lines => Z.of_nat (if along_sel then length lines else match lines with l :: _ => length l | [] => 0 end)
    | AArr1 vals => Z.of_nat (length vals)
    | AElem _ => 0
    end.

  (* windows along the Quilt axis (along_sel = true) or along the opposite axis; W = Frame or array windows *)
  Definition windows_with {W} (extract : key -> key -> res W) (wlen : W -> bool -> Z) (labels : list val) (along_sel : bool)
             (p : wparams) : res (list (val * W)) :=
    if w_size p <=? 0 then Err "RuntimeError"
    else if w_step p <? 0 then Err "RuntimeError"
    else
      rs <- res_all (map (fun kls : slice * Z * Z =>
                            let '(k, il, sz) := kls in
                            w <- (if along_sel then extract (KSlice k) KAll else extract KAll (KSlice k)) ;;
                            Ok (il, sz, w)) (window_keys (length labels) p)) ;;
      Ok (flat_map (fun ilw : Z * Z * W =>
                      let '(il, sz, w) := ilw in
                      if il <? 0 then []
                      else match nth_error labels (Z.to_nat il) with
                           | None => []
                           | Some lab => if w_sized p && negb (wlen w along_sel =? sz) then [] else [(lab, w)]
                           end) rs).

  Definition window_labels (q : quilt) (along_sel : bool) : list val := if along_sel then labels_raw q else q_opp A q.

  Definition M_windows (q : quilt) (along_sel : bool) (p : wparams) : res (list (val * qres)) :=
    if negb (axis_map_ok q) then Err "ErrorInitIndex" else
    windows_with (fun s o => res_map (strip_name (A:=A)) (M_extract q s o)) window_len (window_labels q along_sel) along_sel p.

  Definition S_windows (q : quilt) (along_sel : bool) (p : wparams) : res (list (val * qres)) :=
    windows_with (S_extract q) window_len (window_labels q along_sel) along_sel p.

  Definition M_windows_array (q : quilt) (along_sel : bool) (p : wparams) : res (list (val * ares A)) :=
    if negb (axis_map_ok q) then Err "ErrorInitIndex" else
    windows_with (M_extract_array q) awindow_len (window_labels q along_sel) along_sel p.

  Definition S_windows_array (q : quilt) (along_sel : bool) (p : wparams) : res (list (val * ares A)) :=
    windows_with (S_extract_array q) awindow_len (window_labels q along_sel) along_sel p.

  Definition dom_windows (q : quilt) (along_sel : bool) (p : wparams) : bool :=
    axis_map_ok q &&
    forallb (fun kls : slice * Z * Z => dom_extract q (if along_sel then KSlice (fst (fst kls)) else KAll))
            (window_keys (length (window_labels q along_sel)) p).

  (* ---- which members a selection asks the Bus for: bus.items() for the full path, bus.loc[key] per part ---- *)
  Definition M_touched_key (q : quilt) (sel opp : key) : list val :=
    if key_is_all sel && key_is_all opp then map fst (q_bus A q)
    else match key_positions sel (length (axis_map (seg_of q))) with
         | Ok ps => M_touched val_eqb (seg_of q) ps
         | Err _ => []
         end.

  (* ---- the Bus under the Quilt with max_persist = 1 (bus.py:558-629): which store reads a selection costs.
     `cur` is the one member still loaded; a member is read again unless it is the loaded one ---- *)
  Fixpoint reads_persist1 (cur : option val) (touched : list val) : list val :=
    match touched with
    | [] => []
    | b :: r => match cur with
                | Some c => if val_eqb c b then reads_persist1 cur r else b :: reads_persist1 (Some b) r
                | None => b :: reads_persist1 (Some b) r
                end
    end.
End QuiltMore.

Arguments labels_raw {A} q.
Arguments M_extract_loc {A} q lsel lopp.
Arguments S_extract_loc {A} q lsel lopp.
Arguments dom_extract_loc {A} q lsel.
Arguments M_iter_items {A} q.
Arguments S_iter_items {A} q.
Arguments wf_quilt {A} q.
Arguments M_iter_cross {A} q.
Arguments S_iter_cross {A} q.
Arguments M_windows {A} q along_sel p.
Arguments S_windows {A} q along_sel p.
Arguments dom_windows {A} q along_sel p.
Arguments M_windows_array {A} q along_sel p.
Arguments S_windows_array {A} q along_sel p.
Arguments M_touched_key {A} q sel opp.
Arguments window_labels {A} q along_sel.

(* ------------------------------------------------------------------ comparison of observations *)
Definition lines_eqb := list_eqb (list_eqb val_eqb).

Definition qres_eqb (a b : qres val) : bool :=
  match a, b with
  | QFrame l1 o1 ls1 n1, QFrame l2 o2 ls2 n2 =>
      vlist_eqb l1 l2 && vlist_eqb o1 o2 && lines_eqb ls1 ls2 && val_eqb n1 n2
  | QSeries i1 v1 n1, QSeries i2 v2 n2 => vlist_eqb i1 i2 && vlist_eqb v1 v2 && val_eqb n1 n2
  | QElem x, QElem y => val_eqb x y
  | _, _ => false
  end.

Definition ares_eqb (a b : ares val) : bool :=
  match a, b with
  | AArr2 x, AArr2 y => lines_eqb x y
  | AArr1 x, AArr1 y => vlist_eqb x y
  | AElem x, AElem y => val_eqb x y
  | _, _ => false
  end.

(* impl == M: everything, the Frame name included *)
Definition qm_eqb (model observed : res (qres val)) : bool := res_eqb qres_eqb model observed.
(* impl == S: the Frame name is not determined by the property *)
Definition qs_eqb (spec observed : res (qres val)) : bool :=
  res_eqb qres_eqb spec (res_map strip_name observed).
