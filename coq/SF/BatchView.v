(* C19 -- Batch: a lazy chain of generators over (label, Frame) pairs (static_frame/core/batch.py).

   M_batch : the implementation model -- every operation wraps the previous generator in a new one
             (Batch._derive, _apply_attr/apply/apply_items and their *_except twins, batch.py:337-561);
             a generator that raises ends there, and everything downstream ends with the same exception.
   S_batch : the specification -- label by label, the operations applied to that label's Frame.
   The operations themselves are parameters (any function from a container to a result or an exception);
   the correspondence instantiates them by the graph of the real Frame/Series methods on the inputs at hand.
   NO proofs in this file. *)
Require Import SF.Prelude SF.Value.

(* what a Batch holds and yields *)
Inductive cont :=
| CFrame (index cols : list val) (rows : list (list val)) (name : val)
| CSeries (index vals : list val) (name : val).

(* what a function applied to a Frame may return before normalize_container (batch.py:53-64) *)
Inductive raw :=
| RCont (c : cont)
| RElem (v : val)
| RArr1 (vs : list val)
| RArr2 (width : nat) (rows : list (list val)).

Definition auto_index (n : nat) : list val := map (fun i => VInt (Z.of_nat i)) (seq 0 n).

Definition normalize_container (r : raw) : cont :=
  match r with
  | RCont c => c
  | RElem v => CSeries [VNone] [v] VNone                       (* Series.from_element(post, index=ELEMENT_TUPLE) *)
  | RArr1 vs => CSeries (auto_index (length vs)) vs VNone      (* Series(post) *)
  | RArr2 width rows => CFrame (auto_index (length rows)) (auto_index width) rows VNone   (* Frame(post) *)
  end.

Section Batch.
  Variable L : Type.      (* labels *)

  (* a generator's life: the items it yielded, and the exception that ended it (None: exhausted normally) *)
  Definition stream := (list (L * cont) * option string)%type.

  Inductive stage :=
  | SApply (f : L -> cont -> res raw)                                 (* _apply_attr / apply / apply_items *)
  | SExcept (f : L -> cont -> res raw) (catches : string -> bool).    (* apply_except / apply_items_except *)

  Definition stage_fn (st : stage) := match st with SApply f => f | SExcept f _ => f end.
  Definition stage_catches (st : stage) (e : string) : bool := match st with SApply _ => false | SExcept _ c => c e end.

  (* def gen(): for label, frame in self._items: yield label, call(frame)   -- wrapped around `upstream` *)
  Fixpoint run_items (st : stage) (items : list (L * cont)) (upstream_end : option string) : stream :=
    match items with
    | [] => ([], upstream_end)
    | (l, c) :: r =>
        match stage_fn st l c with
        | Ok x => let (ys, e) := run_items st r upstream_end in ((l, normalize_container x) :: ys, e)
        | Err e => if stage_catches st e then run_items st r upstream_end else ([], Some e)
        end
    end.

  Definition run_stage (st : stage) (s : stream) : stream := run_items st (fst s) (snd s).

  Definition M_batch (stages : list stage) (items : list (L * cont)) : stream :=
    fold_left (fun s st => run_stage st s) stages (items, None).

  (* with max_workers set (Batch._apply_pool / _apply_pool_except, batch.py:407-447) executor.map / submit
     consume the whole upstream generator before the first result is handed on: an upstream exception
     surfaces at once, whatever was yielded before it *)
  Definition run_stage_pool (st : stage) (s : stream) : stream :=
    match snd s with
    | Some e => ([], Some e)
    | None => run_items st (fst s) None
    end.

  Definition M_batch_pool (stages : list stage) (items : list (L * cont)) : stream :=
    fold_left (fun s st => run_stage_pool st s) stages (items, None).

  (* ---- specification: one label at a time ---- *)
  Inductive outcome := Keep (c : cont) | Drop | Fail (e : string).

  Fixpoint thread (stages : list stage) (l : L) (c : cont) : outcome :=
    match stages with
    | [] => Keep c
    | st :: r => match stage_fn st l c with
                 | Ok x => thread r l (normalize_container x)
                 | Err e => if stage_catches st e then Drop else Fail e
                 end
    end.

  Fixpoint S_items (stages : list stage) (items : list (L * cont)) (end_ : option string) : stream :=
    match items with
    | [] => ([], end_)
    | (l, c) :: r =>
        match thread stages l c with
        | Keep c' => let (xs, e) := S_items stages r end_ in ((l, c') :: xs, e)
        | Drop => S_items stages r end_
        | Fail e => ([], Some e)
        end
    end.

  Definition S_batch (stages : list stage) (items : list (L * cont)) : stream := S_items stages items None.

  (* list(batch.items()) *)
  Definition collect (s : stream) : res (list (L * cont)) :=
    match snd s with None => Ok (fst s) | Some e => Err e end.
End Batch.

Arguments SApply {L} f.
Arguments SExcept {L} f catches.
Arguments run_stage {L} st s.
Arguments M_batch {L} stages items.
Arguments M_batch_pool {L} stages items.
Arguments run_stage_pool {L} st s.
Arguments S_batch {L} stages items.
Arguments S_items {L} stages items end_.
Arguments thread {L} stages l c.
Arguments collect {L} s.

(* ------------------------------------------------------------------ export: Batch.to_frame (batch.py:1081-1131) *)
Definition cont_is_series (c : cont) : bool := match c with CSeries _ _ _ => true | _ => false end.

Fixpoint all_same (l : list (list val)) : bool :=
  match l with
  | [] => true
  | x :: r => match r with [] => true | y :: _ => vlist_eqb x y && all_same r end
  end.

Fixpoint val_nodup (l : list val) : bool :=
  match l with [] => true | x :: r => negb (existsb (val_eqb x) r) && val_nodup r end.

Fixpoint transpose_rows (width : nat) (rows : list (list val)) : list (list val) :=
  match width with
  | O => []
  | S w => map (fun r => match r with x :: _ => x | [] => VNone end) rows ::
           transpose_rows w (map (fun r => match r with _ :: t => t | [] => [] end) rows)
  end.

(* the concatenation of labelled results, the labels as (outer) index along `axis`; results whose other
   axis is not aligned need a union/fill and are outside this model ("Unsupported") *)
Definition empty_along (axis : Z) (c : cont) : bool :=
  match c with
  | CFrame i k _ _ => if axis =? 0 then match i with [] => true | _ => false end else match k with [] => true | _ => false end
  | CSeries _ _ _ => false
  end.

(* strict = true: Frame.from_concat_items as it is -- the (label, inner labels) hierarchy cannot be built when
   a result has no label along the axis (IndexLevel of length zero) *)
Definition to_frame_of (strict : bool) (axis : Z) (name : val) (items : list (val * cont)) : res cont :=
  let labels := map fst items in
  let conts := map snd items in
  if forallb cont_is_series conts then
    (* Frame.from_concat(containers, axis, index=labels | columns=labels) *)
    let idxs := map (fun c => match c with CSeries i _ _ => i | _ => [] end) conts in
    let vals := map (fun c => match c with CSeries _ v _ => v | _ => [] end) conts in
    if negb (all_same idxs) then Err "Unsupported"
    else if negb (val_nodup labels) then Err "ErrorInitIndex"
    else
      let other := match idxs with i :: _ => i | [] => [] end in
      if axis =? 0 then Ok (CFrame labels other vals name)
      else Ok (CFrame other labels (transpose_rows (length other) vals) name)
  else if forallb (fun c => negb (cont_is_series c)) conts then
    (* Frame.from_concat_items(zip(labels, containers), axis): hierarchical (label, inner label) *)
    let fi := map (fun c => match c with CFrame i _ _ _ => i | _ => [] end) conts in
    let fc := map (fun c => match c with CFrame _ k _ _ => k | _ => [] end) conts in
    let fr := map (fun c => match c with CFrame _ _ r _ => r | _ => [] end) conts in
    if strict && existsb (empty_along axis) conts then Err "ErrorInitIndex"
    else if axis =? 0 then
      if negb (all_same fc) then Err "Unsupported"
      else
        let index := flat_map (fun lc => map (fun i => VTup [fst lc; i]) (snd lc)) (combine labels fi) in
        if negb (val_nodup index) then Err "ErrorInitIndex"
        else Ok (CFrame index (match fc with k :: _ => k | [] => [] end) (concat fr) name)
    else
      if negb (all_same fi) then Err "Unsupported"
      else
        let cols := flat_map (fun lc => map (fun k => VTup [fst lc; k]) (snd lc)) (combine labels fc) in
        let index := match fi with i :: _ => i | [] => [] end in
        if negb (val_nodup cols) then Err "ErrorInitIndex"
        else Ok (CFrame index cols
                        (map (fun n => flat_map (fun rows => nth n rows []) fr) (seq 0 (length index))) name)
  else Err "Unsupported".

Definition M_to_frame (axis : Z) (name : val) (stages : list (stage val)) (items : list (val * cont)) : res cont :=
  its <- collect (M_batch stages items) ;; to_frame_of true axis name its.

Definition M_to_frame_pool (axis : Z) (name : val) (stages : list (stage val)) (items : list (val * cont)) : res cont :=
  its <- collect (M_batch_pool stages items) ;; to_frame_of true axis name its.

(* which exception ends a Batch when several labels fail is not determined by the property: S is compared
   up to the class of the error *)
Definition ok_part {X} (r : res X) : option X := match r with Ok x => Some x | Err _ => None end.

Definition S_to_frame (axis : Z) (name : val) (stages : list (stage val)) (items : list (val * cont)) : res cont :=
  its <- collect (S_batch stages items) ;; to_frame_of false axis name its.

Definition dom_export (axis : Z) (stages : list (stage val)) (items : list (val * cont)) : bool :=
  match collect (S_batch stages items) with
  | Ok its => negb (forallb (fun c => negb (cont_is_series c)) (map snd its) && existsb (empty_along axis) (map snd its))
  | Err _ => true
  end.

(* ------------------------------------------------------------------ operations given by their graph *)
Definition cont_eqb (a b : cont) : bool :=
  match a, b with
  | CFrame i1 c1 r1 n1, CFrame i2 c2 r2 n2 =>
      vlist_eqb i1 i2 && vlist_eqb c1 c2 && list_eqb vlist_eqb r1 r2 && val_eqb n1 n2
  | CSeries i1 v1 n1, CSeries i2 v2 n2 => vlist_eqb i1 i2 && vlist_eqb v1 v2 && val_eqb n1 n2
  | _, _ => false
  end.

(* the real method, tabulated on the (label, container) pairs it is applied to in this case *)
Fixpoint table_fn (t : list (val * cont * res raw)) (l : val) (c : cont) : res raw :=
  match t with
  | [] => Err "NoTableEntry"
  | (l', c', r) :: rest => if val_eqb l' l && cont_eqb c' c then r else table_fn rest l c
  end.

Definition catches_of (names : list string) (e : string) : bool := existsb (String.eqb e) names.

Definition items_eqb := list_eqb (pair_eqb val_eqb cont_eqb).

Definition bs_eqb {X} (eqb : X -> X -> bool) (spec observed : res X) : bool :=
  option_eqb eqb (ok_part spec) (ok_part observed).
