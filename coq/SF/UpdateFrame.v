(* C08 -- MODEL side of the Frame level of the functional update interfaces: M_frame_* are the block walks of
   SF.BlocksUpdate under the Frame constructor's shape checks, on frames WITH a block layout.  The specifications and
   comparators live in SF.UpdateFrameSpec (re-exported), which does not depend on the regenerated constants.
   Models only, no proofs. *)
Require Export SF.UpdateFrameSpec.
Require Import SF.Prelude SF.PySlice SF.Dtype SF.Value SF.Blocks SF.UpdateSpec SF.BlocksUpdate Gen.Gen_c08.

Fixpoint build_tb (ly : layout) (cols : list (dtype * list val)) : tb val :=
  match ly with
  | [] => []
  | (w, is2d) :: r =>
      let part := firstn (Z.to_nat w) cols in
      mk_block (match part with c :: _ => fst c | [] => DObj end) (negb is2d) (map snd part)
      :: build_tb r (skipn (Z.to_nat w) cols)
  end.

Record mframe := mk_mframe { mf_index : list val; mf_columns : list val; mf_blocks : tb val; mf_name : val }.
Definition mf_oframe (f : mframe) : oframe :=
  mk_oframe (mf_index f) (mf_columns f) (flatten (mf_blocks f)) (mf_name f).

(* the Frame constructor's final shape checks (frame.py: Frame.__init__) *)
Definition tb_rows (t : tb val) (dflt : Z) : Z :=
  match t with
  | b :: _ => match b_cols b with c :: _ => zlen c | [] => dflt end
  | [] => dflt
  end.

Definition frame_init (idx cols : list val) (t : tb val) (rows_reference : Z) (name : val) : res (oframe * layout) :=
  if negb (zlen (flatten t) =? zlen cols) then Err "ErrorInitFrame"
  else if negb (tb_rows t rows_reference =? zlen idx) then Err "ErrorInitFrame"
  else Ok (mk_oframe idx cols (flatten t) name, layout_of t).

Definition M_frame_drop (f : mframe) (rk ck : option ckey) : res (oframe * layout) :=
  match drop_positions rk (zlen (mf_index f)), drop_positions ck (zlen (mf_columns f)) with
  | Ok rps, Ok cps =>
      match M_drop_blocks (mf_blocks f) ck (fun col => S_drop_at col rps) with
      | Err e => Err e
      | Ok t' => frame_init (S_drop_at (mf_index f) rps) (S_drop_at (mf_columns f) cps) t'
                            (zlen (mf_index f))      (* shape_reference = the shape BEFORE the drop *)
                            (mf_name f)
      end
  | Err e, _ => Err e
  | _, Err e => Err e
  end.

Definition key_or_all (k : option ckey) : ckey := match k with Some k => k | None => CAll end.

Definition M_frame_mask (f : mframe) (rk ck : option ckey) : res (oframe * layout) :=
  let nr := zlen (mf_index f) in
  match all_positions rk nr with
  | Err e => Err e
  | Ok rps =>
      match M_mask_blocks (mf_blocks f) (key_or_all ck) (row_pattern rps nr) (all_false nr) with
      | Err e => Err e
      | Ok t' => frame_init (mf_index f) (mf_columns f) t' nr VNone
      end
  end.

(* MODEL of FrameAssignILoc.__call__ for unlabelled values / already aligned values (frame.py:7207-7253 +
   TypeBlocks._assign_from_iloc_by_unit): which blocks come out, which columns are replaced, their dtype.
   `vdt` = dtype_from_element(value); `resolve` = util.resolve_dtype (the caller passes the regenerated kernel);
   cells of replaced columns are compared up to Python == *)
Definition write_rows (v : aval) (fill : val) (rps : list Z) (vcol : Z) (old : list val) : list val :=
  map (fun i => if memz i rps
                then match v with
                     | AElem x => x
                     | AMat m => match rankz i rps with Some ri => nthz (nthz m vcol []) ri fill | None => fill end
                     | _ => fill
                     end
                else nthz old i VNone) (zrange (zlen old)).

Definition M_frame_assign_unit (f : mframe) (rk ck : option ckey) (as_array is_slice sliceable : bool)
    (v : aval) (vdt : dtype) (resolve : dtype -> dtype -> dtype) : res (oframe * layout) :=
  let nr := zlen (mf_index f) in
  let row_null := match rk with None | Some CAll => true | _ => false end in
  match all_positions rk nr with
  | Err e => Err e
  | Ok rps =>
      let k := match ck with
               | Some k => if assign_iloc_column_key_made_ascending then ascending_key k (zlen (mf_columns f)) as_array else k
               | None => CAll
               end in
      match M_assign_unit_blocks is_slice sliceable
              (fun d => if row_null then vdt else resolve vdt d)
              (write_rows v VNone rps) (mf_blocks f) k with
      | Err e => Err e
      | Ok t' => frame_init (mf_index f) (mf_columns f) t' nr (mf_name f)
      end
  end.

Definition M_frame_astype (f : mframe) (ck : ckey) (d : dtype) : res (oframe * layout) :=
  match M_astype_blocks d (fun _ => map (conv_val d)) (match ck with CInt _ => true | _ => false end) (mf_blocks f) ck with
  | Err e => Err e
  | Ok t' => frame_init (mf_index f) (mf_columns f) t' (zlen (mf_index f)) (mf_name f)
  end.

Definition M_frame_insert (f : mframe) (key : Z) (labels : list val) (ins : tb val) : res (oframe * layout) :=
  match M_insert_blocks (mf_blocks f) key ins with
  | Err e => Err e
  | Ok t' => frame_init (mf_index f) (S_insert_at (mf_columns f) key labels) t' (zlen (mf_index f)) (mf_name f)
  end.

(* MODEL of FrameAssignBLoc.__call__ for an element / array value (frame.py: FrameAssignBLoc + TypeBlocks._assign_from_bloc_by_unit):
   masks[j][i] = the normalised Boolean key, vals[j][i] = the value for column j, row i *)
Fixpoint write_mask (m : list bool) (vs old : list val) : list val :=
  match m, vs, old with
  | b :: m', v :: vs', o :: old' => (if b then v else o) :: write_mask m' vs' old'
  | _, _, _ => old
  end.

Definition M_frame_bloc_unit (f : mframe) (masks : list (list bool)) (vals : list (list val)) (vdt : dtype)
    (resolve : dtype -> dtype -> dtype) : res (oframe * layout) :=
  frame_init (mf_index f) (mf_columns f)
    (from_blocks (bloc_walk (resolve vdt) (fun j m c => write_mask m (nthz vals j []) c) 0 (mf_blocks f) masks))
    (zlen (mf_index f)) (mf_name f).
