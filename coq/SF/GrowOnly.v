(* C09 -- grow-only containers.  Executable models only (no proofs here).

   S_*  specification: a grow-only index is a duplicate-free list of labels, a grow-only frame is a
        list of labels paired with a list of columns; growth appends or is rejected as a whole.
   M_*  implementation models (static-frame 0.8.8, /repo/static_frame/core):
        IndexGO            index.py:1148-1155 (__contains__), 1404-1417 (_update_array_cache),
                           1435-1479 (append / extend)
        TypeBlocks         type_blocks.py:3157-3209 (append / extend), 307-316 (__copy__)
        FrameGO            frame.py:7023-7108 (__setitem__, extend_items, extend)
        sharing            frame.py:2454-2541 (Frame.__init__ own_* / STATIC check),
                           container_util.py:193-224, index.py:268-285, the three _to_frame sites
   Everything is parametric in the label type L (with Python equality leq and the "is an int" view
   as_pos used by the loc_is_iloc fast path) and the cell type V. *)
Require Import SF.Prelude SF.Dtype SF.Value.

Section Model.
Variable L : Type.
Variable V : Type.
Variable leq : L -> L -> bool.          (* Python == / hash equality of labels (AutoMap, dict) *)
Variable as_pos : L -> option Z.        (* Some z iff isinstance(label, INT_TYPES), z its int value *)
Variable cast : dtype -> V -> V.        (* a cell as stored in an array of that dtype *)
Variable resolve : dtype -> dtype -> dtype.   (* util.resolve_dtype *)

(* ------------------------------------------------------------------ labels *)
Definition mem (v : L) (l : list L) : bool := existsb (leq v) l.

Fixpoint nodupb (l : list L) : bool :=
  match l with
  | [] => true
  | x :: xs => negb (mem x xs) && nodupb xs
  end.

(* every label of vs is new with respect to l and to the labels of vs before it *)
Fixpoint fresh_all (l vs : list L) : bool :=
  match vs with
  | [] => true
  | v :: r => negb (mem v l) && fresh_all (l ++ [v]) r
  end.

Fixpoint index_of (v : L) (l : list L) (k : Z) : option Z :=
  match l with
  | [] => None
  | x :: xs => if leq v x then Some k else index_of v xs (k + 1)
  end.

Definition is_some {A} (o : option A) : bool := match o with Some _ => true | None => false end.
Definition outcome := res unit.
Definition is_ok {A} (r : res A) : bool := match r with Ok _ => true | Err _ => false end.

(* ================================================================== IndexGO *)
(* --- specification: the labels, nothing else *)
Definition S_append (l : list L) (v : L) : list L * outcome :=
  if mem v l then (l, Err "KeyError") else (l ++ [v], Ok tt).

Definition S_extend (l vs : list L) : list L * outcome :=
  if fresh_all l vs then (l ++ vs, Ok tt) else (l, Err "KeyError").

Inductive iop :=
| IAppend (v : L)
| IExtend (vs : list L)
| IRead.                       (* values / len / positions: materialises the array cache *)

Definition S_istep (l : list L) (op : iop) : list L * outcome :=
  match op with
  | IAppend v => S_append l v
  | IExtend vs => S_extend l vs
  | IRead => (l, Ok tt)
  end.

Fixpoint S_irun (l : list L) (ops : list iop) : list L * list outcome :=
  match ops with
  | [] => (l, [])
  | op :: r => let '(l1, o) := S_istep l op in
               let '(l2, os) := S_irun l1 r in (l2, o :: os)
  end.

(* labels successfully given by a history, in the order given *)
Fixpoint S_igiven (l : list L) (ops : list iop) : list L :=
  match ops with
  | [] => []
  | op :: r =>
      let '(l1, o) := S_istep l op in
      (match op, o with
       | IAppend v, Ok _ => [v]
       | IExtend vs, Ok _ => vs
       | _, _ => []
       end) ++ S_igiven l1 r
  end.

(* --- implementation model *)
Record igo := mk_igo {
  g_lm : list L;               (* _labels_mutable *)
  g_map : option (list L);     (* _map: None = loc_is_iloc, Some keys = AutoMap in insertion order *)
  g_cnt : Z;                   (* _positions_mutable_count *)
  g_recache : bool;            (* _recache *)
  g_arr : list L;              (* _labels   (array cache) *)
  g_npos : Z                   (* len(_positions) (array cache) *)
}.

(* _update_array_cache (index.py:1404-1417) guarded by `if self._recache` as every reader does *)
Definition M_refresh (s : igo) : igo :=
  if g_recache s then mk_igo (g_lm s) (g_map s) (g_cnt s) false (g_lm s) (g_cnt s) else s.

Definition M_len (s : igo) : Z := Z.of_nat (length (g_arr (M_refresh s))).

(* Index.__contains__ (index.py:1148-1155); the loc_is_iloc branch calls len(self) only when 0 <= value *)
Definition M_contains (s : igo) (v : L) : bool :=
  match g_map s with
  | None => match as_pos v with
            | Some z => (0 <=? z) && (z <? M_len s)
            | None => false
            end
  | Some keys => mem v keys
  end.
Definition M_contains_state (s : igo) (v : L) : igo :=
  match g_map s with
  | None => match as_pos v with
            | Some z => if 0 <=? z then M_refresh s else s
            | None => s
            end
  | Some _ => s
  end.

(* _IndexGOMixin.append (index.py:1435-1471, after fix feb832d: on a loc_is_iloc index the AutoMap is built
   BEFORE any state is changed, and its NonUniqueError -- a label equal to an existing position that
   __contains__ did not recognise, e.g. 1.0 -- is turned into the KeyError of a duplicate) *)
Definition M_append (s : igo) (v : L) : igo * outcome :=
  let s1 := M_contains_state s v in
  if M_contains s v then (s1, Err "KeyError") else
  match g_map s1 with
  | Some keys =>
      (mk_igo (g_lm s1 ++ [v]) (Some (keys ++ [v])) (g_cnt s1 + 1) true (g_arr s1) (g_npos s1), Ok tt)
  | None =>
      let keep := match as_pos v with Some z => z =? g_cnt s1 | None => false end in
      let lm' := g_lm s1 ++ [v] in
      if keep then (mk_igo lm' None (g_cnt s1 + 1) true (g_arr s1) (g_npos s1), Ok tt)
      else if nodupb lm' then (mk_igo lm' (Some lm') (g_cnt s1 + 1) true (g_arr s1) (g_npos s1), Ok tt)
      else (s1, Err "KeyError")
  end.

(* _IndexGOMixin.extend (index.py:1486-1500, after fix c675c22): FIRST every value is validated against
   __contains__ and against the values seen before it in the same call (nothing is mutated but the array
   cache), THEN the values are appended one by one *)
Fixpoint M_extend_check (s : igo) (vs observed : list L) : igo * bool :=
  match vs with
  | [] => (s, true)
  | v :: r => let s1 := M_contains_state s v in
              if M_contains s v || mem v observed then (s1, false)
              else M_extend_check s1 r (observed ++ [v])
  end.

Fixpoint M_extend_loop (s : igo) (vs : list L) : igo * outcome :=
  match vs with
  | [] => (s, Ok tt)
  | v :: r => let '(s1, o) := M_append s v in
              match o with
              | Ok _ => M_extend_loop s1 r
              | Err e => (s1, Err e)
              end
  end.

Definition M_extend (s : igo) (vs : list L) : igo * outcome :=
  let '(s1, ok) := M_extend_check s vs [] in
  if ok then M_extend_loop s1 vs else (s1, Err "KeyError").

Definition M_istep (s : igo) (op : iop) : igo * outcome :=
  match op with
  | IAppend v => M_append s v
  | IExtend vs => M_extend s vs
  | IRead => (M_refresh s, Ok tt)
  end.

Fixpoint M_irun (s : igo) (ops : list iop) : igo * list outcome :=
  match ops with
  | [] => (s, [])
  | op :: r => let '(s1, o) := M_istep s op in
               let '(s2, os) := M_irun s1 r in (s2, o :: os)
  end.

(* construction: Index.__init__ with explicit labels (a map is built, duplicates rejected) or
   with loc_is_iloc=True (labels must be 0..n-1, no map) *)
Definition M_inew (labels : list L) : res igo :=
  if nodupb labels
  then Ok (mk_igo labels (Some labels) (Z.of_nat (length labels)) false labels (Z.of_nat (length labels)))
  else Err "ErrorInitIndex".
Definition M_inew_auto (labels : list L) : igo :=
  mk_igo labels None (Z.of_nat (length labels)) false labels (Z.of_nat (length labels)).

(* what a reader sees: values, number of positions, and label -> position for every label shown *)
Definition M_lookup (s : igo) (v : L) : option Z :=
  match g_map s with
  | None => match as_pos v with
            | Some z => if (0 <=? z) && (z <? Z.of_nat (length (g_arr s))) then Some z else None
            | None => None
            end
  | Some keys => index_of v keys 0
  end.

Record iobs := mk_iobs { io_labels : list L; io_npos : Z; io_locs : list (option Z) }.

Definition M_iobserve (s : igo) : iobs :=
  let s' := M_refresh s in
  mk_iobs (g_arr s') (g_npos s') (map (M_lookup s') (g_arr s')).

Fixpoint zrange_from (k : Z) (n : nat) : list Z :=
  match n with O => [] | S m => k :: zrange_from (k + 1) m end.
Definition zrange (n : Z) : list Z := zrange_from 0 (Z.to_nat n).

Definition S_iobserve (l : list L) : iobs :=
  mk_iobs l (Z.of_nat (length l)) (map Some (zrange (Z.of_nat (length l)))).

(* abstraction and well-formedness of an IndexGO state *)
Definition abs_igo (s : igo) : list L := g_lm s.

Definition igo_wfb (s : igo) : bool :=
  (g_cnt s =? Z.of_nat (length (g_lm s))) &&
  nodupb (g_lm s) &&
  match g_map s with
  | Some keys => list_eqb leq keys (g_lm s)
  | None => list_eqb (option_eqb Z.eqb) (map as_pos (g_lm s)) (map Some (zrange (g_cnt s)))
  end &&
  (g_recache s || (list_eqb leq (g_arr s) (g_lm s) && (g_npos s =? g_cnt s))).

(* guard: the inputs on which the implementation meets the specification.  An index with a map: none.
   A loc_is_iloc index: __contains__ answers False for every label that is not an int, so extend's
   validation does not see a non-int label equal to a held position (1.0); such a label is outside. *)
Definition ext_safe (s : igo) (vs : list L) : bool :=
  match g_map s with
  | Some _ => true
  | None => forallb (fun v => is_some (as_pos v) || negb (mem v (g_lm s))) vs
  end.

Definition dom_iop (s : igo) (op : iop) : bool :=
  match op with
  | IAppend v => true
  | IExtend vs => ext_safe s vs
  | IRead => true
  end.

Fixpoint dom_irun (s : igo) (ops : list iop) : bool :=
  match ops with
  | [] => true
  | op :: r => dom_iop s op && dom_irun (fst (M_istep s op)) r
  end.

(* ================================================================== TypeBlocks (mutation only) *)
Record blk := mk_blk {
  b_dt : dtype;
  b_2d : bool;                 (* ndim == 2 *)
  b_rows : Z;                  (* shape[0] *)
  b_cols : list (list V)       (* column-major; exactly one column when 1-D *)
}.
Definition blk_width (b : blk) : Z := if b_2d b then Z.of_nat (length (b_cols b)) else 1.

Record tb := mk_tb {
  t_blocks : list blk;         (* _blocks *)
  t_index : list (Z * Z);      (* _index : column -> (block, column in block) *)
  t_dtypes : list dtype;       (* _dtypes *)
  t_rows : Z;                  (* _shape[0] *)
  t_ncols : Z;                 (* _shape[1] *)
  t_rowdt : option dtype       (* _row_dtype *)
}.

Definition col := (dtype * list V)%type.
Definition blk_flat (b : blk) : list col := map (fun c => (b_dt b, c)) (b_cols b).
Definition tb_flat (t : tb) : list col := flat_map blk_flat (t_blocks t).

(* TypeBlocks.append (type_blocks.py:3157-3193) *)
Definition M_tb_append (t : tb) (b : blk) : res tb :=
  if negb (b_rows b =? t_rows t) then Err "RuntimeError" else
  let bc := blk_width b in
  if b_2d b && (bc =? 0) then Ok t else
  let bi := Z.of_nat (length (t_blocks t)) in
  Ok (mk_tb (t_blocks t ++ [b])
            (t_index t ++ map (fun i => (bi, i)) (zrange bc))
            (t_dtypes t ++ repeat (b_dt b) (Z.to_nat bc))
            (t_rows t) (t_ncols t + bc)
            (match t_rowdt t with
             | None => Some (b_dt b)
             | Some d => if dtype_eqb (b_dt b) d then Some d else Some DObj
             end)).

Fixpoint M_tb_append_all (t : tb) (bs : list blk) : tb * outcome :=
  match bs with
  | [] => (t, Ok tt)
  | b :: r => match M_tb_append t b with
              | Ok t1 => M_tb_append_all t1 r
              | Err e => (t, Err e)
              end
  end.

(* TypeBlocks.extend with a TypeBlocks argument (type_blocks.py:3195-3209) *)
Definition M_tb_extend (t : tb) (other_rows : Z) (bs : list blk) : tb * outcome :=
  if negb (t_rows t =? 0) && negb (t_rows t =? other_rows) then (t, Err "RuntimeError")
  else M_tb_append_all t bs.

(* the directory as from_blocks / append build it, and reading column j through it *)
Fixpoint tb_dir_from (k : Z) (bs : list blk) : list (Z * Z) :=
  match bs with
  | [] => []
  | b :: r => map (fun i => (k, i)) (zrange (blk_width b)) ++ tb_dir_from (k + 1) r
  end.

Definition znth {A} (l : list A) (i : Z) : option A :=
  if i <? 0 then None else nth_error l (Z.to_nat i).

(* _extract_array_column: _index[j] -> (block, column), then the block's column *)
Definition M_tb_column (t : tb) (j : Z) : option col :=
  match znth (t_index t) j with
  | None => None
  | Some (bi, ci) =>
      match znth (t_blocks t) bi with
      | None => None
      | Some b => match znth (b_cols b) ci with
                  | None => None
                  | Some c => Some (b_dt b, c)
                  end
      end
  end.

Definition blk_wfb (rows : Z) (b : blk) : bool :=
  (b_rows b =? rows) && (b_2d b || (Z.of_nat (length (b_cols b)) =? 1)) &&
  forallb (fun c => Z.of_nat (length c) =? rows) (b_cols b).

Definition pair_zeqb (a b : Z * Z) : bool := (fst a =? fst b) && (snd a =? snd b).

Definition tb_wfb (t : tb) : bool :=
  forallb (blk_wfb (t_rows t)) (t_blocks t) &&
  forallb (fun b => negb (blk_width b =? 0)) (t_blocks t) &&
  list_eqb pair_zeqb (t_index t) (tb_dir_from 0 (t_blocks t)) &&
  list_eqb dtype_eqb (t_dtypes t) (map fst (tb_flat t)) &&
  (t_ncols t =? Z.of_nat (length (tb_flat t))).

Definition tb_of_blocks (rows : Z) (bs : list blk) : tb :=
  mk_tb bs (tb_dir_from 0 bs) (map fst (flat_map blk_flat bs)) rows
        (Z.of_nat (length (flat_map blk_flat bs)))
        (* TypeBlocks.__init__: resolve_dtype_iter over the block dtypes (type_blocks.py:280) *)
        (match bs with
         | [] => None
         | b :: r => Some (fold_left (fun d x => resolve d (b_dt x)) r (b_dt b))
         end).

(* ================================================================== FrameGO *)
(* what can be given as a column value *)
Inductive gvalue :=
| GArr (dt : dtype) (vals : list V)                     (* 1-D ndarray *)
| GArr2                                                 (* ndarray with ndim != 1 *)
| GIter (dt : dtype) (vals : list V)                    (* list / tuple -> iterable_to_array_1d *)
| GScalar (dt : dtype) (v : V)                          (* non-iterable or str: np.full *)
| GSeries (sidx : list L) (dt : dtype) (vals : list V)  (* Series: aligned on the frame's index *)
| GFrame.                                               (* a Frame: rejected by __setitem__ *)

Fixpoint lookup (v : L) (ls : list L) (xs : list V) : option V :=
  match ls, xs with
  | l :: lr, x :: xr => if leq v l then Some x else lookup v lr xr
  | _, _ => None
  end.

(* reindex of one array onto the frame's rows (Series.reindex, series.py:792-841; the per-block
   branch of TypeBlocks.resize_blocks, type_blocks.py:684-695; full_for_fill, util.py:510-535):
   equal index -> unchanged; all rows found -> selection, dtype kept; otherwise resolved dtype, fill *)
Definition covers (rows sidx : list L) : bool := forallb (fun r => mem r sidx) rows.   (* ic.is_subset *)

Definition align (rows sidx : list L) (dt : dtype) (vals : list V) (fill : V) (fdt : dtype) : col :=
  if list_eqb leq rows sidx then (dt, vals)
  else
    let found := map (fun r => lookup r sidx vals) rows in
    if covers rows sidx
    then (dt, flat_map (fun o => match o with Some x => [x] | None => [] end) found)
    else let d := resolve dt fdt in
         (d, map (fun o => match o with Some x => cast d x | None => cast d fill end) found).

Definition zlen {A} (l : list A) : Z := Z.of_nat (length l).

(* the array __setitem__ derives from the value, or the error it raises (frame.py:7035-7059) *)
Definition block_of (rows : list L) (value : gvalue) (fill : V) (fdt : dtype) : res col :=
  match value with
  | GSeries sidx dt vals => Ok (align rows sidx dt vals fill fdt)
  | GFrame => Err "RuntimeError"
  | GArr2 => Err "RuntimeError"
  | GArr dt vals => if zlen vals =? zlen rows then Ok (dt, vals) else Err "RuntimeError"
  | GScalar dt v => Ok (dt, repeat v (length rows))
  | GIter dt vals => if zlen vals =? zlen rows then Ok (dt, vals) else Err "RuntimeError"
  end.

Inductive gop :=
| OSet (key : L) (value : gvalue) (fill : V) (fdt : dtype)                    (* f[key] = value *)
| OItems (pairs : list (L * gvalue)) (fill : V) (fdt : dtype)                (* f.extend_items(pairs) *)
| OExtSeries (name : L) (sidx : list L) (dt : dtype) (vals : list V) (fill : V) (fdt : dtype)
| OExtFrame (fidx : list L) (fcols : list L) (blocks : list blk) (fill : V) (fdt : dtype)
| OExtOther                                                                   (* neither Series nor Frame *)
| ORead.                                                                      (* a read of columns/values *)

(* --- specification: (row labels, column labels, columns) *)
Record sfr := mk_sfr { s_rows : list L; s_labels : list L; s_cols : list col }.

Definition S_set (f : sfr) (key : L) (value : gvalue) (fill : V) (fdt : dtype) : sfr * outcome :=
  if mem key (s_labels f) then (f, Err "RuntimeError") else
  match block_of (s_rows f) value fill fdt with
  | Err e => (f, Err e)
  | Ok c => (mk_sfr (s_rows f) (s_labels f ++ [key]) (s_cols f ++ [c]), Ok tt)
  end.

Fixpoint S_items_go (f : sfr) (pairs : list (L * gvalue)) (fill : V) (fdt : dtype) : sfr * outcome :=
  match pairs with
  | [] => (f, Ok tt)
  | (k, v) :: r => let '(f1, o) := S_set f k v fill fdt in
                   match o with
                   | Ok _ => S_items_go f1 r fill fdt
                   | Err e => (f1, Err e)
                   end
  end.

Definition blk_align (rows fidx : list L) (fill : V) (fdt : dtype) (b : blk) : blk :=
  if list_eqb leq rows fidx then b
  else
    let cs := map (fun c => align rows fidx (b_dt b) c fill fdt) (b_cols b) in
    let d := if covers rows fidx then b_dt b else resolve (b_dt b) fdt in
    mk_blk d (b_2d b) (zlen rows) (map snd cs).

Definition S_step (f : sfr) (op : gop) : sfr * outcome :=
  match op with
  | OSet k v fill fdt => S_set f k v fill fdt
  | OItems pairs fill fdt =>
      (* all or nothing: the whole call is evaluated, and taken only if every pair succeeds *)
      let '(f1, o) := S_items_go f pairs fill fdt in
      if is_ok o then (f1, o) else (f, o)
  | OExtSeries name sidx dt vals fill fdt =>
      if mem name (s_labels f) then (f, Err "KeyError")
      else (mk_sfr (s_rows f) (s_labels f ++ [name]) (s_cols f ++ [align (s_rows f) sidx dt vals fill fdt]), Ok tt)
  | OExtFrame fidx fcols blocks fill fdt =>
      if fresh_all (s_labels f) fcols
      then (mk_sfr (s_rows f) (s_labels f ++ fcols)
                   (s_cols f ++ flat_map (fun b => blk_flat (blk_align (s_rows f) fidx fill fdt b)) blocks), Ok tt)
      else (f, Err "KeyError")
  | OExtOther => (f, Err "NotImplementedError")
  | ORead => (f, Ok tt)
  end.

Fixpoint S_run (f : sfr) (ops : list gop) : sfr * list outcome :=
  match ops with
  | [] => (f, [])
  | op :: r => let '(f1, o) := S_step f op in
               let '(f2, os) := S_run f1 r in (f2, o :: os)
  end.

(* --- implementation model *)
Record fgo := mk_fgo { f_rows : list L; f_cols : igo; f_tb : tb }.

(* FrameGO.__setitem__ (frame.py:7023-7063): membership, value -> block, THEN columns.append, blocks.append *)
Definition M_set (f : fgo) (key : L) (value : gvalue) (fill : V) (fdt : dtype) : fgo * outcome :=
  let c1 := M_contains_state (f_cols f) key in
  if M_contains (f_cols f) key then (mk_fgo (f_rows f) c1 (f_tb f), Err "RuntimeError") else
  match block_of (f_rows f) value fill fdt with
  | Err e => (mk_fgo (f_rows f) c1 (f_tb f), Err e)
  | Ok (dt, vals) =>
      let '(c2, o) := M_append (f_cols f) key in
      match o with
      | Err e => (mk_fgo (f_rows f) c2 (f_tb f), Err e)
      | Ok _ =>
          match M_tb_append (f_tb f) (mk_blk dt false (zlen vals) [vals]) with
          | Ok t2 => (mk_fgo (f_rows f) c2 t2, Ok tt)
          | Err e => (mk_fgo (f_rows f) c2 (f_tb f), Err e)
          end
      end
  end.

(* FrameGO.extend_items (frame.py:7066-7074): a loop of __setitem__ *)
Fixpoint M_items (f : fgo) (pairs : list (L * gvalue)) (fill : V) (fdt : dtype) : fgo * outcome :=
  match pairs with
  | [] => (f, Ok tt)
  | (k, v) :: r => let '(f1, o) := M_set f k v fill fdt in
                   match o with
                   | Ok _ => M_items f1 r fill fdt
                   | Err e => (f1, Err e)
                   end
  end.

(* the closing `assert len(self._columns) == self._blocks._shape[1]` of FrameGO.extend (frame.py:7108) *)
Definition M_ext_assert (f : fgo) : fgo * outcome :=
  let c := M_refresh (f_cols f) in
  let f' := mk_fgo (f_rows f) c (f_tb f) in
  if zlen (g_arr c) =? t_ncols (f_tb f) then (f', Ok tt) else (f', Err "AssertionError").

(* FrameGO.extend (frame.py:7077-7108) *)
Definition M_step (f : fgo) (op : gop) : fgo * outcome :=
  match op with
  | OSet k v fill fdt => M_set f k v fill fdt
  | OItems pairs fill fdt => M_items f pairs fill fdt
  | OExtOther => (f, Err "NotImplementedError")
  | ORead => (mk_fgo (f_rows f) (M_refresh (f_cols f)) (f_tb f), Ok tt)
  | OExtSeries name sidx dt vals fill fdt =>
      let '(d, vs) := align (f_rows f) sidx dt vals fill fdt in
      let '(c2, o) := M_append (f_cols f) name in
      match o with
      | Err e => (mk_fgo (f_rows f) c2 (f_tb f), Err e)
      | Ok _ =>
          match M_tb_append (f_tb f) (mk_blk d false (zlen vs) [vs]) with
          | Ok t2 => M_ext_assert (mk_fgo (f_rows f) c2 t2)
          | Err e => (mk_fgo (f_rows f) c2 (f_tb f), Err e)
          end
      end
  | OExtFrame fidx fcols blocks fill fdt =>
      match fcols with
      | [] => (f, Ok tt)                                   (* `if not len(container.columns): return` *)
      | _ =>
          let bs := map (blk_align (f_rows f) fidx fill fdt) blocks in
          let '(c2, o) := M_extend (f_cols f) fcols in       (* validated as a whole since fix c675c22 *)
          match o with
          | Err e => (mk_fgo (f_rows f) c2 (f_tb f), Err e)
          | Ok _ =>
              let '(t2, o2) := M_tb_extend (f_tb f) (zlen (f_rows f)) bs in
              match o2 with
              | Err e => (mk_fgo (f_rows f) c2 t2, Err e)
              | Ok _ => M_ext_assert (mk_fgo (f_rows f) c2 t2)
              end
          end
      end
  end.

Fixpoint M_run (f : fgo) (ops : list gop) : fgo * list outcome :=
  match ops with
  | [] => (f, [])
  | op :: r => let '(f1, o) := M_step f op in
               let '(f2, os) := M_run f1 r in (f2, o :: os)
  end.

Definition abs_fgo (f : fgo) : sfr := mk_sfr (f_rows f) (g_lm (f_cols f)) (tb_flat (f_tb f)).

Definition fgo_wfb (f : fgo) : bool :=
  igo_wfb (f_cols f) && tb_wfb (f_tb f) &&
  (t_ncols (f_tb f) =? g_cnt (f_cols f)) && (t_rows (f_tb f) =? zlen (f_rows f)).

(* the frame given to extend: labels and data of the same width, every block of the argument's height *)
Definition extframe_wfb (fidx fcols : list L) (blocks : list blk) : bool :=
  forallb (blk_wfb (zlen fidx)) blocks && (zlen fcols =? zlen (flat_map blk_flat blocks)).

(* a Series has as many values as labels *)
Definition value_wfb (v : gvalue) : bool :=
  match v with
  | GSeries sidx _ vals => zlen vals =? zlen sidx
  | _ => true
  end.

Fixpoint dom_items (f : fgo) (pairs : list (L * gvalue)) (fill : V) (fdt : dtype) (first : bool) : bool :=
  match pairs with
  | [] => true
  | (k, v) :: r => value_wfb v &&
                   (let '(f1, o) := M_set f k v fill fdt in
                    match o with
                    | Ok _ => dom_items f1 r fill fdt false
                    | Err _ => first
                    end)
  end.

Definition dom_gop (f : fgo) (op : gop) : bool :=
  match op with
  | OSet k v _ _ => value_wfb v
  | OItems pairs fill fdt => dom_items f pairs fill fdt true
  | OExtSeries name sidx _ vals _ _ => zlen vals =? zlen sidx
  | OExtFrame fidx fcols blocks _ _ => extframe_wfb fidx fcols blocks && ext_safe (f_cols f) fcols
  | OExtOther => true
  | ORead => true
  end.

Fixpoint dom_run (f : fgo) (ops : list gop) : bool :=
  match ops with
  | [] => true
  | op :: r => dom_gop f op && dom_run (fst (M_step f op)) r
  end.

(* what is observed of a frame after each step *)
Record fobs := mk_fobs {
  fo_labels : list L;          (* columns.values *)
  fo_npos : Z;                 (* len(columns.positions) *)
  fo_cols : list col;          (* data columns, by position *)
  fo_shape : Z * Z;            (* shape *)
  fo_readable : list bool      (* for every label shown: position lookup lands on a data column *)
}.

Definition M_fobserve (f : fgo) : fobs :=
  let c := M_refresh (f_cols f) in
  let t := f_tb f in
  mk_fobs (g_arr c) (g_npos c)
          (flat_map (fun j => match M_tb_column t j with Some x => [x] | None => [] end) (zrange (t_ncols t)))
          (t_rows t, t_ncols t)
          (map (fun v => match M_lookup c v with
                         | Some j => is_some (M_tb_column t j)
                         | None => false
                         end) (g_arr c)).

Definition S_fobserve (f : sfr) : fobs :=
  mk_fobs (s_labels f) (zlen (s_labels f)) (s_cols f) (zlen (s_rows f), zlen (s_cols f))
          (map (fun _ => true) (s_labels f)).

End Model.

Arguments mk_igo {L}.
Arguments mk_blk {V}.
Arguments mk_tb {V}.
Arguments mk_fgo {L V}.
Arguments mk_sfr {L V}.
Arguments mk_iobs {L}.
Arguments mk_fobs {L V}.
Arguments IAppend {L}.
Arguments IExtend {L}.
Arguments IRead {L}.
Arguments GArr {L V}.
Arguments GArr2 {L V}.
Arguments GIter {L V}.
Arguments GScalar {L V}.
Arguments GSeries {L V}.
Arguments GFrame {L V}.
Arguments OSet {L V}.
Arguments OItems {L V}.
Arguments OExtSeries {L V}.
Arguments OExtFrame {L V}.
Arguments OExtOther {L V}.
Arguments ORead {L V}.
Arguments g_lm {L}. Arguments g_map {L}. Arguments g_cnt {L}. Arguments g_recache {L}.
Arguments g_arr {L}. Arguments g_npos {L}.
Arguments io_labels {L}. Arguments io_npos {L}. Arguments io_locs {L}.
Arguments b_dt {V}. Arguments b_2d {V}. Arguments b_rows {V}. Arguments b_cols {V}.
Arguments t_blocks {V}. Arguments t_index {V}. Arguments t_dtypes {V}. Arguments t_rows {V}.
Arguments t_ncols {V}. Arguments t_rowdt {V}.
Arguments f_rows {L V}. Arguments f_cols {L V}. Arguments f_tb {L V}.
Arguments s_rows {L V}. Arguments s_labels {L V}. Arguments s_cols {L V}.
Arguments fo_labels {L V}. Arguments fo_npos {L V}. Arguments fo_cols {L V}.
Arguments fo_shape {L V}. Arguments fo_readable {L V}.
Arguments blk_width {V}. Arguments blk_flat {V}. Arguments tb_flat {V}.
Arguments M_refresh {L}. Arguments zlen {A}. Arguments is_ok {A}. Arguments znth {A}.
