(* C01 -- the second kind of sharing: GROWABLE MEMBERS.
   A container holds, besides frozen arrays, member lists that a grow-only container extends in place: the block list of a
   TypeBlocks (FrameGO[k] = v, FrameGO.extend), the label list of an IndexGO / IndexHierarchyGO (append, extend).  No array
   flag is involved: if a static container holds the very list a grow-only container extends, the static one changes.

   gM_* : what static-frame does: a constructor route either copies the member lists of its source (TypeBlocks.copy(),
          rebuilding an Index from labels) or keeps them (a static container handed to a static constructor: Frame.to_frame()
          returns self, Index(index) shares the map and label arrays).
   gS_* : value semantics: every route copies.
   Both allocate one list id per member of the result (gM leaves it unused when it keeps the source's list).  NO proofs here. *)
Require Import SF.Prelude.
Local Open Scope nat_scope.

Record gcont := mk_gcont { g_static : bool; g_lists : list nat }.
Record gworld := mk_gworld { gw_lists : list (list Z); gw_conts : list gcont }.
Definition gw0 : gworld := mk_gworld [] [].

Inductive groute := GCopy | GShare.

Inductive gstep :=
| GNew (static : bool) (members : list (list Z))   (* a container built from plain data: one fresh list per member *)
| GFrom (static : bool) (c : nat) (r : groute)       (* a container built FROM container c: constructor / to_frame* / copy / from_concat ... *)
| GGrow (c : nat) (m : Z)                            (* c[m] = ..., c.append(m), c.extend(...): every member list of c gains m *)
| GFail.

Definition glist (ls : list (list Z)) (id : nat) : list Z := nth id ls [].

(* append m to the lists whose id is in ids; i = id of the head of ls *)
Fixpoint grow_lists (ids : list nat) (m : Z) (i : nat) (ls : list (list Z)) : list (list Z) :=
  match ls with
  | [] => []
  | l :: t => (if existsb (Nat.eqb i) ids then l ++ [m] else l) :: grow_lists ids m (S i) t
  end.

Definition gM_step (w : gworld) (s : gstep) : res gworld :=
  match s with
  | GNew st ms =>
      Ok (mk_gworld (gw_lists w ++ ms) (gw_conts w ++ [mk_gcont st (seq (length (gw_lists w)) (length ms))]))
  | GFrom st c r =>
      match nth_error (gw_conts w) c with
      | None => Err "IndexError"
      | Some src =>
          let n := length (gw_lists w) in
          match r with
          | GCopy => Ok (mk_gworld (gw_lists w ++ map (glist (gw_lists w)) (g_lists src))
                                   (gw_conts w ++ [mk_gcont st (seq n (length (g_lists src)))]))
          | GShare => Ok (mk_gworld (gw_lists w ++ map (fun _ => []) (g_lists src))
                                    (gw_conts w ++ [mk_gcont st (g_lists src)]))
          end
      end
  | GGrow c m =>
      match nth_error (gw_conts w) c with
      | None => Err "IndexError"
      | Some cont => if g_static cont then Err "TypeError"        (* no __setitem__ / append on a static container *)
                     else Ok (mk_gworld (grow_lists (g_lists cont) m 0 (gw_lists w)) (gw_conts w))
      end
  | GFail => Err "Raised"
  end.

(* value semantics: every route copies *)
Definition force_copy (s : gstep) : gstep :=
  match s with GFrom st c _ => GFrom st c GCopy | _ => s end.
Definition gS_step (w : gworld) (s : gstep) : res gworld := gM_step w (force_copy s).

Definition gnext (f : gworld -> gstep -> res gworld) (w : gworld) (s : gstep) : gworld :=
  match f w s with Ok w' => w' | Err _ => w end.
Definition grun (f : gworld -> gstep -> res gworld) (w : gworld) (hist : list gstep) : gworld := fold_left (gnext f) hist w.

(* the hypothesis: a route keeps the member lists of its source only between two STATIC containers *)
Definition gstep_ok (w : gworld) (s : gstep) : bool :=
  match s with
  | GFrom st c GShare => match nth_error (gw_conts w) c with
                         | Some src => st && g_static src
                         | None => true
                         end
  | _ => true
  end.
Fixpoint gguarded (w : gworld) (hist : list gstep) : bool :=
  match hist with
  | [] => true
  | s :: t => gstep_ok w s && gguarded (gnext gM_step w s) t
  end.

(* what is seen through a container: the content of each member list *)
Definition gcont_obs (w : gworld) (c : gcont) : bool * list (list Z) := (g_static c, map (glist (gw_lists w)) (g_lists c)).
Definition gobs (w : gworld) : list (bool * list (list Z)) := map (gcont_obs w) (gw_conts w).
Definition gobs_at (w : gworld) (c : nat) : option (bool * list (list Z)) :=
  match nth_error (gw_conts w) c with Some k => Some (gcont_obs w k) | None => None end.

Fixpoint gtrace (f : gworld -> gstep -> res gworld) (w : gworld) (hist : list gstep) : list (bool * list (bool * list (list Z))) :=
  match hist with
  | [] => []
  | s :: t => let w' := gnext f w s in
              ((match f w s with Ok _ => true | Err _ => false end), gobs w') :: gtrace f w' t
  end.

Definition gobs_eqb : list (bool * list (list Z)) -> list (bool * list (list Z)) -> bool :=
  list_eqb (fun a b => Bool.eqb (fst a) (fst b) && list_eqb (list_eqb Z.eqb) (snd a) (snd b)).
Definition gtrace_eqb : list (bool * list (bool * list (list Z))) -> list (bool * list (bool * list (list Z))) -> bool :=
  list_eqb (fun a b => Bool.eqb (fst a) (fst b) && gobs_eqb (snd a) (snd b)).
