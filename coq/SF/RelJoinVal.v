(* C20 -- the join models instantiated at observed values, and the comparators used by the
   correspondence cases (tools/sfv/props/c20.py).  No proofs. *)
Require Import SF.Prelude SF.Dtype SF.Value SF.RelJoin.

(* cells are compared as Python values: an int column that received a NaN fill shows 1.0 for 1 *)
Definition obs_eqb (a b : val) : bool := val_eqb a b || py_val_eq a b.

Definition vkey_eqb : list val -> list val -> bool := list_eqb py_val_eq.
Definition vrow := trow val (list val) val.
Definition vframe := jframe val val.

(* monomorphic constructors for the literals printed by the harness (cheap to elaborate) *)
Definition vt (l : val) (k c : list val) : vrow := mk_trow l k c.
Definition vjf (i : list (val + val * val)) (n : list string) (c : list (list val)) : vframe := mk_jframe i n c.
Definition ir (a b : val) : val + val * val := inr (a, b).
Definition il (a : val) : val + val * val := inl a.
Definition OkJ (f : vframe) : res vframe := Ok f.
Definition ErrJ (e : string) : res vframe := Err e.

Definition vlab_eqb (a b : val + val * val) : bool :=
  match a, b with
  | inl x, inl y => val_eqb x y
  | inr (x1, x2), inr (y1, y2) => val_eqb x1 y1 && val_eqb x2 y2
  | _, _ => false
  end.

Definition rows_of (n : nat) (cols : list (list val)) : list (list val) :=
  map (fun i => map (fun c => nth i c VNone) cols) (seq 0 n).

Definition lrows (f : vframe) : list ((val + val * val) * list val) :=
  combine (jf_index f) (rows_of (length (jf_index f)) (jf_cols f)).

(* multiset equality by removal *)
Fixpoint remove_first {X} (eqb : X -> X -> bool) (x : X) (l : list X) : option (list X) :=
  match l with
  | [] => None
  | y :: r => if eqb x y then Some r else option_map (cons y) (remove_first eqb x r)
  end.
Fixpoint perm_eqb {X} (eqb : X -> X -> bool) (a b : list X) : bool :=
  match a with
  | [] => match b with [] => true | _ => false end
  | x :: r => match remove_first eqb x b with Some b' => perm_eqb eqb r b' | None => false end
  end.

Definition lrow_eqb (a b : (val + val * val) * list val) : bool :=
  vlab_eqb (fst a) (fst b) && list_eqb obs_eqb (snd a) (snd b).

Definition well_shaped (f : vframe) : bool :=
  forallb (fun c => (length c =? length (jf_index f))%nat) (jf_cols f) &&
  (length (jf_cols f) =? length (jf_names f))%nat.

(* exact: same labels in the same order, same names, same cells *)
Definition vframe_eqb (a b : vframe) : bool :=
  well_shaped a && well_shaped b &&
  list_eqb vlab_eqb (jf_index a) (jf_index b) && list_eqb String.eqb (jf_names a) (jf_names b) &&
  list_eqb (list_eqb obs_eqb) (jf_cols a) (jf_cols b).

(* same labelled rows in any order (np.union1d order of the non-composite outer join is not modelled) *)
Definition vframe_perm_eqb (a b : vframe) : bool :=
  well_shaped a && well_shaped b &&
  list_eqb String.eqb (jf_names a) (jf_names b) && perm_eqb lrow_eqb (lrows a) (lrows b).

(* same rows of cells in any order, labels ignored *)
Definition vframe_cells_eqb (a b : vframe) : bool :=
  well_shaped a && well_shaped b &&
  list_eqb String.eqb (jf_names a) (jf_names b) &&
  perm_eqb (list_eqb obs_eqb) (map snd (lrows a)) (map snd (lrows b)).

Definition M_join_v := @M_join val (list val) val val_eqb vkey_eqb.
Definition S_frame_v := @S_frame val (list val) val vkey_eqb.
Definition S_refusal_ok_v := @S_refusal_ok val (list val) val vkey_eqb.

(* impl = M: exact, except the row order of the non-composite outer join *)
Definition join_m_ok (jt : jtype) (composite : bool) (cifv fill : val) (lt rt : tmpl)
                     (lcols rcols : list string) (Lt Rt : list vrow) (obs : res vframe) : bool :=
  match M_join_v jt composite cifv fill lt rt lcols rcols Lt Rt, obs with
  | Ok m, Ok o => match jt, jf_index m with
                  | JOuter, inl _ :: _ => vframe_perm_eqb m o
                  | _, _ => vframe_eqb m o
                  end
  | Err e1, Err e2 => String.eqb e1 e2
  | _, _ => false
  end.

(* impl = S: the labelled rows of the relational definition (composite labels identify the pair);
   on the non-composite path only the rows of cells are determined by the property *)
Definition join_s_ok (jt : jtype) (composite : bool) (cifv fill : val) (lt rt : tmpl)
                     (lcols rcols : list string) (Lt Rt : list vrow) (obs : res vframe) : bool :=
  match obs with
  | Ok o => let s := S_frame_v jt cifv fill lt rt lcols rcols Lt Rt in
            match jf_index o with
            | inl _ :: _ => vframe_cells_eqb s o
            | _ => if composite then vframe_perm_eqb s o else vframe_cells_eqb s o
            end
  | Err _ => S_refusal_ok_v composite lt rt lcols rcols Lt Rt
  end.
