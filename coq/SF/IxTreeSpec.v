(* C02 -- hierarchical index from labels: the SPECIFICATION side (independent of the model and of
   anything regenerated).  S_*: the hierarchical index over the label table ls IS the list ls;
   accepted iff all labels have the same depth >= 2, are pairwise distinct and are "tree ordered":
   labels sharing a proper prefix are contiguous. *)
Require Import SF.Prelude SF.PySlice SF.IndexBijSpec.

Section TreeSpec.
  Variable C : Type.
  Variable ceqb : C -> C -> bool.

  Definition label := list C.

  Definition leqb (a b : label) : bool := list_eqb ceqb a b.

  Definition depth_ok (depth : nat) (lab : label) : bool := Nat.eqb (length lab) depth.

  (* ------------------------------------------------------------------ specification *)
  Definition lmemb (x : label) (l : list label) : bool := memb leqb x l.

  Definition lnodupb (l : list label) : bool := nodupb leqb l.

  Definition lindex_of (x : label) (l : list label) : option Z := index_of leqb x l.

  Fixpoint lastopt {A} (l : list A) : option A :=
    match l with
    | [] => None
    | x :: l' => match l' with [] => Some x | _ => lastopt l' end
    end.

  (* tree order: whenever a label shares a proper prefix (length p, 1 <= p < depth) with an EARLIER
     label, it shares it with the label just before it *)
  Definition share (p : nat) (a b : label) : bool := leqb (firstn p a) (firstn p b).

  Definition okb (depth : nat) (seen : list label) (x : label) : bool :=
    forallb (fun p => negb (existsb (share p x) seen) ||
                      match lastopt seen with Some q => share p x q | None => false end)
            (seq 1 (depth - 1)).

  Fixpoint tree_ordered_from (depth : nat) (seen : list label) (labs : list label) : bool :=
    match labs with
    | [] => true
    | x :: xs => okb depth seen x && tree_ordered_from depth (seen ++ [x]) xs
    end.

  Definition tree_ordered (depth : nat) (labs : list label) : bool := tree_ordered_from depth [] labs.

  Definition S_h_accepts (labs : list label) : bool :=
    match labs with
    | [] => false
    | first :: _ =>
        let depth := length first in
        negb (depth <? 2)%nat && forallb (depth_ok depth) labs && tree_ordered depth labs && lnodupb labs
    end.

  Definition S_h_lookup (labs : list label) (key : label) : res Z :=
    match lindex_of key labs with Some i => Ok i | None => Err "KeyError" end.

  Definition S_h_contains (labs : list label) (key : label) : bool := lmemb key labs.

  (* observation of a hierarchical index *)
  Record hobs := mk_hobs {
    h_values : list label;       (* index.values rows *)
    h_iter : list label;         (* list(index) *)
    h_rev : list label;          (* list(reversed(index)) *)
    h_len : Z;
    h_pos : list Z;
    h_at : list label;           (* index.iloc[i] *)
    h_lookup : list (res Z);     (* loc_to_iloc(tuple) per probe *)
    h_contains : list bool
  }.

  Definition S_h_observe (labs : list label) (probes : list label) : hobs :=
    mk_hobs labs labs (rev labs) (zlen labs) (iota (length labs)) labs
            (map (S_h_lookup labs) probes) (map (S_h_contains labs) probes).

  Definition S_from_labels (labs : list label) (probes : list label) : res hobs :=
    if S_h_accepts labs then Ok (S_h_observe labs probes) else Err "ErrorInitIndex".

  (* grow-only hierarchical index (specification): a label is accepted iff the table stays an index *)
  Fixpoint S_hgo_run (labs : list label) (ops : list label) : list label * list bool :=
    match ops with
    | [] => (labs, [])
    | x :: ops' =>
        if S_h_accepts (labs ++ [x])
        then let '(l, r) := S_hgo_run (labs ++ [x]) ops' in (l, true :: r)
        else let '(l, r) := S_hgo_run labs ops' in (l, false :: r)
    end.
End TreeSpec.

Arguments mk_hobs {C}. Arguments h_values {C}. Arguments h_iter {C}. Arguments h_rev {C}. Arguments h_len {C}.
Arguments h_pos {C}. Arguments h_at {C}. Arguments h_lookup {C}. Arguments h_contains {C}.
Arguments depth_ok {C}. Arguments leqb {C}. Arguments lmemb {C}. Arguments lnodupb {C}. Arguments lindex_of {C}.
Arguments share {C}. Arguments okb {C}. Arguments lastopt {A}. Arguments tree_ordered_from {C}. Arguments tree_ordered {C}.
Arguments S_h_accepts {C}. Arguments S_h_lookup {C}. Arguments S_h_contains {C}. Arguments S_h_observe {C}.
Arguments S_from_labels {C}. Arguments S_hgo_run {C}.
