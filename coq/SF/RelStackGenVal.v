(* C20 -- the part of the pivot_unstack model side that reads the constant REGENERATED from frame.py
   (Gen/Gen_c20.v).  Kept apart so that the specification checkers (SF/Rel*Val.v) do not depend on the
   generated file: when generate() fails closed, S can still be evaluated (IMPORTS_SPEC_ONLY). *)
Require Import SF.Prelude SF.Dtype SF.Value Gen.Gen_c20 SF.RelJoinVal SF.RelStack SF.RelStackVal.

Definition M_unstack_v (fill : val) (castfill : list (res val)) (f : sframe val (tup * tup) tup) : res vsframe :=
  res_map unstack_view (M_unstack tup_eqb tup_eqb gen_unstack_dtype_from_last_group fill castfill f).

Definition unstack_m_ok (fill : val) (castfill : list (res val)) (f : sframe val (tup * tup) tup) (obs : res vsframe) : bool :=
  match M_unstack_v fill castfill f, obs with
  | Ok m, Ok o => vsframe_eqb m o
  | Err e1, Err e2 => String.eqb e1 e2
  | _, _ => false
  end.
