(* C01 -- static tripwire over the freeze protocol of the library.
   `expected_protect` is the census of protect sites (`x.flags.writeable = False` statements + immutable_filter calls per
   function) of static-frame 0.8.8 as pinned in /repo (re-pinned after fix commits 72854e7 f0b8a42 c94a7b3 50ff628, which only added sites); Gen/Gen_c01.v holds the census of the CURRENT source, regenerated on
   every run.  The property theorems state that no function has lost a protect site and that the only function that sets
   flags.writeable = True is the whitelisted one.  NO proofs in this file. *)
Require Import SF.Prelude.
Local Open Scope string_scope.
Local Open Scope nat_scope.

Fixpoint census_lookup (name : string) (c : list (string * (nat * nat))) : option (nat * nat) :=
  match c with
  | [] => None
  | (n, v) :: t => if String.eqb n name then Some v else census_lookup name t
  end.

(* every pinned function still exists and protects at least as often *)
Definition census_covers (now : list (string * (nat * nat))) (expected : list (string * nat)) : bool :=
  forallb (fun e => match census_lookup (fst e) now with
                    | Some (p, _) => snd e <=? p
                    | None => false
                    end) expected.

(* functions that make an array writeable again *)
Definition thaw_sites (now : list (string * (nat * nat))) : list string :=
  map fst (filter (fun e => negb (snd (snd e) =? 0)) now).

(* TypeBlocks.equals thaws blocks of the fresh Boolean TypeBlocks `self == other` it has just built (type_blocks.py:3147) *)
Definition thaw_whitelist : list string := ["type_blocks.TypeBlocks.equals"].

Definition expected_protect : list (string * nat) := [
  ("array_go.ArrayGO.__init__", 2);
  ("array_go.ArrayGO.__setstate__", 1);
  ("array_go.ArrayGO._update_array_cache", 2);
  ("container_util.apply_binary_operator", 1);
  ("container_util.array_from_value_iter", 1);
  ("container_util.matmul", 1);
  ("container_util.pandas_to_numpy", 1);
  ("frame.Frame.__init__", 1);
  ("frame.Frame._structured_array_to_d_ia_cl.blocks", 1);
  ("frame.Frame._ufunc_shape_skipna", 1);
  ("frame.Frame.count", 1);
  ("frame.Frame.cov", 1);
  ("frame.Frame.duplicated", 1);
  ("frame.Frame.from_arrow.blocks", 1);
  ("frame.Frame.from_delimited", 1);
  ("frame.Frame.from_element", 1);
  ("frame.Frame.from_elements", 1);
  ("frame.Frame.from_msgpack.decode", 1);
  ("frame.Frame.from_overlay", 2);
  ("frame.Frame.from_pandas.part_to_array", 1);
  ("frame.Frame.iloc_max", 1);
  ("frame.Frame.iloc_min", 1);
  ("frame.Frame.pivot_unstack.items", 1);
  ("frame.FrameGO.__setitem__", 1);
  ("index.Index.__init__", 1);
  ("index.Index.__setstate__", 2);
  ("index.Index._drop_iloc", 2);
  ("index.Index._extract_labels", 2);
  ("index.Index._extract_positions", 1);
  ("index.Index._sample_and_key", 1);
  ("index.Index._ufunc_unary_operator", 1);
  ("index.Index.fillna", 1);
  ("index.Index.roll", 1);
  ("index_base.IndexBase.loc_searchsorted", 1);
  ("index_datetime.IndexDate.from_date_range", 1);
  ("index_datetime.IndexDate.from_year_month_range", 1);
  ("index_datetime.IndexDate.from_year_range", 1);
  ("index_datetime.IndexDatetime._ufunc_binary_operator", 1);
  ("index_datetime.IndexYear.from_date_range", 1);
  ("index_datetime.IndexYear.from_year_month_range", 1);
  ("index_datetime.IndexYear.from_year_range", 1);
  ("index_datetime.IndexYearMonth.from_date_range", 1);
  ("index_datetime.IndexYearMonth.from_year_month_range", 1);
  ("index_datetime.IndexYearMonth.from_year_range", 1);
  ("index_hierarchy.IndexHierarchy._ufunc_axis_skipna", 1);
  ("index_hierarchy.IndexHierarchy._ufunc_unary_operator", 1);
  ("index_hierarchy.IndexHierarchy.level_add", 1);
  ("index_hierarchy.IndexHierarchy.loc_searchsorted", 1);
  ("index_level.IndexLevel.values", 1);
  ("index_level.IndexLevel.values_at_depth", 2);
  ("node_dt.InterfaceDatetime.day.blocks", 1);
  ("node_dt.InterfaceDatetime.fromisoformat.blocks", 1);
  ("node_dt.InterfaceDatetime.month.blocks", 1);
  ("node_dt.InterfaceDatetime.year.blocks", 1);
  ("node_str.InterfaceString._process_blocks", 1);
  ("node_str.InterfaceString.endswith.block_gen", 1);
  ("node_str.InterfaceString.startswith.block_gen", 1);
  ("series.Series.__init__", 1);
  ("series.Series.__init__.values_constructor", 1);
  ("series.Series.__setstate__", 1);
  ("series.Series._drop_iloc", 1);
  ("series.Series._extract_iloc_mask", 1);
  ("series.Series._fillna_directional", 1);
  ("series.Series._fillna_sided", 1);
  ("series.Series._insert", 1);
  ("series.Series._ufunc_shape_skipna", 1);
  ("series.Series.clip", 1);
  ("series.Series.dropna", 1);
  ("series.Series.duplicated", 1);
  ("series.Series.fillna", 1);
  ("series.Series.from_element", 1);
  ("series.Series.from_pandas", 2);
  ("series.Series.isna", 1);
  ("series.Series.loc_searchsorted", 1);
  ("series.Series.notna", 1);
  ("series.Series.rehierarch", 1);
  ("series.Series.reindex", 2);
  ("series.Series.roll", 1);
  ("series.Series.sample", 1);
  ("series.Series.shift", 1);
  ("series.Series.sort_index", 1);
  ("series.Series.sort_values", 1);
  ("series.SeriesAssign.__call__", 1);
  ("type_blocks.TypeBlocks.__round__", 1);
  ("type_blocks.TypeBlocks.__setstate__", 1);
  ("type_blocks.TypeBlocks._assign_from_bloc_by_blocks", 1);
  ("type_blocks.TypeBlocks._assign_from_bloc_by_coordinate", 1);
  ("type_blocks.TypeBlocks._assign_from_bloc_by_unit", 1);
  ("type_blocks.TypeBlocks._assign_from_boolean_blocks_by_blocks", 1);
  ("type_blocks.TypeBlocks._assign_from_boolean_blocks_by_unit", 1);
  ("type_blocks.TypeBlocks._assign_from_iloc_by_blocks", 1);
  ("type_blocks.TypeBlocks._assign_from_iloc_by_unit", 1);
  ("type_blocks.TypeBlocks._blocks_to_array", 1);
  ("type_blocks.TypeBlocks._drop_blocks", 2);
  ("type_blocks.TypeBlocks._fillna_directional_axis_0", 1);
  ("type_blocks.TypeBlocks._fillna_directional_axis_1", 1);
  ("type_blocks.TypeBlocks._fillna_sided_axis_0", 1);
  ("type_blocks.TypeBlocks._fillna_sided_axis_1", 1);
  ("type_blocks.TypeBlocks._shift_blocks", 1);
  ("type_blocks.TypeBlocks._ufunc_unary_operator.operation", 1);
  ("type_blocks.TypeBlocks.append", 1);
  ("type_blocks.TypeBlocks.axis_values", 1);
  ("type_blocks.TypeBlocks.dtypes", 1);
  ("type_blocks.TypeBlocks.extract_bloc", 1);
  ("type_blocks.TypeBlocks.from_blocks", 2);
  ("type_blocks.TypeBlocks.from_element_items", 1);
  ("type_blocks.TypeBlocks.from_zero_size_shape", 1);
  ("type_blocks.TypeBlocks.isin", 1);
  ("type_blocks.TypeBlocks.isna.blocks", 1);
  ("type_blocks.TypeBlocks.mloc", 1);
  ("type_blocks.TypeBlocks.notna.blocks", 1);
  ("type_blocks.TypeBlocks.resize_blocks", 6);
  ("type_blocks.TypeBlocks.shapes", 1);
  ("type_blocks.TypeBlocks.transpose", 1);
  ("type_blocks.TypeBlocks.ufunc_axis_skipna", 4);
  ("util", 3);
  ("util.PositionsAllocator", 1);
  ("util.PositionsAllocator.get", 1);
  ("util._isin_1d", 1);
  ("util._isin_2d", 1);
  ("util._ufunc_set_1d", 4);
  ("util._ufunc_set_2d", 7);
  ("util.array2d_to_array1d", 1);
  ("util.array_from_element_apply", 1);
  ("util.array_from_element_attr", 1);
  ("util.array_from_element_method", 1);
  ("util.array_sample", 1);
  ("util.concat_resolved", 1);
  ("util.immutable_filter", 1);
  ("util.isin", 1);
  ("util.isin_array", 1);
  ("util.iterable_to_array_1d", 3);
  ("util.iterable_to_array_2d", 1);
  ("util.ufunc_set_iter", 1)
].
