(* C09 -- IndexHierarchyGO (static-frame 0.8.8: a tree of IndexLevelGO nodes).  Models only.
   M_h*  IndexLevelGO.append / extend, index_level.py:819-851, 853-940; IndexHierarchyGO.append / extend,
         index_hierarchy.py:1675-1687; iteration index_level.py:606-628; length 237-253.
   S     the labels are a duplicate-free list of tuples; growth appends in the order given or is rejected. *)
Require Import SF.Prelude SF.Dtype SF.GrowOnly.

Section Hier.
Variable L : Type.
Variable leq : L -> L -> bool.

Notation mem := (mem L leq).

(* a node: the labels of its index, and (inner nodes) one child per label *)
Inductive lvl :=
| Leaf (labels : list L)
| Node (labels : list L) (kids : list lvl).

Definition lvl_labels (t : lvl) : list L := match t with Leaf ls => ls | Node ls _ => ls end.

(* depth as _get_depth computes it: follow the FIRST child *)
Fixpoint lvl_depth (t : lvl) : Z :=
  match t with
  | Leaf _ => 1
  | Node _ kids => match kids with [] => 1 | c :: _ => 1 + lvl_depth c end
  end.

(* __iter__: labels zipped with children (the shorter wins), leaves in tree order *)
Fixpoint flatten (t : lvl) : list (list L) :=
  match t with
  | Leaf ls => map (fun l => [l]) ls
  | Node ls kids =>
      (fix go (ks : list lvl) (ls : list L) {struct ks} : list (list L) :=
         match ks, ls with
         | c :: cr, l :: lr => map (cons l) (flatten c) ++ go cr lr
         | _, _ => []
         end) kids ls
  end.

(* __len__: the sum of the leaf index lengths, whatever the labels above them *)
Fixpoint lvl_len (t : lvl) : Z :=
  match t with
  | Leaf ls => zlen ls
  | Node ls kids =>
      match kids with
      | [] => zlen ls
      | _ => (fix go (ks : list lvl) : Z := match ks with [] => 0 | c :: cr => lvl_len c + go cr end) kids
      end
  end.

(* the new branch for the rest of a key *)
Fixpoint chain (key : list L) : option lvl :=
  match key with
  | [] => None
  | [k] => Some (Leaf [k])
  | k :: r => match chain r with Some c => Some (Node [k] [c]) | None => None end
  end.

Fixpoint last_opt (l : list L) : option L :=
  match l with [] => None | [x] => Some x | _ :: r => last_opt r end.

(* the key's label is the LAST label of this node's index (node.index._loc_to_iloc(k) == len - 1) *)
Definition is_last (k : L) (ls : list L) : bool :=
  match last_opt ls with Some x => leq k x | None => false end.

(* IndexLevelGO.append below the depth check (index_level.py:895-906, after fix 5320f59): walk down the
   LAST child while the key's label is contained in the node's index -- and, at an inner node, IS its last
   label, otherwise RuntimeError before anything is mutated; at the first depth where the label is not
   contained, append it there and hang the new branch below it.
   All labels found -> RuntimeError('unable to set depth_not_found'). *)
Fixpoint M_lappend (t : lvl) (key : list L) : res lvl :=
  match t with
  | Leaf ls =>
      match key with
      | [k] => if mem k ls then Err "RuntimeError" else Ok (Leaf (ls ++ [k]))
      | _ => Err "RuntimeError"
      end
  | Node ls kids =>
      match key with
      | k :: r =>
          if mem k ls then
            if negb (is_last k ls) then Err "RuntimeError" else
            match
              (fix on_last (ks : list lvl) : res (list lvl) :=
                 match ks with
                 | [] => Err "IndexError"
                 | c :: rest =>
                     match rest with
                     | [] => match M_lappend c r with Ok c' => Ok [c'] | Err e => Err e end
                     | _ => match on_last rest with Ok rs => Ok (c :: rs) | Err e => Err e end
                     end
                 end) kids
            with
            | Ok kids' => Ok (Node ls kids')
            | Err e => Err e
            end
          else
            match chain r with
            | Some c => Ok (Node (ls ++ [k]) (kids ++ [c]))
            | None => Err "RuntimeError"
            end
      | [] => Err "RuntimeError"
      end
  end.

Definition lvl_empty (t : lvl) : bool := match lvl_labels t with [] => true | _ => false end.

(* the whole IndexHierarchyGO: the tree and the depth fixed at construction (depth_reference) *)
Record hgo := mk_hgo { h_tree : lvl; h_depth : Z }.

Definition M_happend (h : hgo) (key : list L) : hgo * outcome :=
  if negb (zlen key =? h_depth h) then (h, Err "RuntimeError") else
  if lvl_empty (h_tree h) then
    match chain key with
    | Some c => (mk_hgo c (h_depth h), Ok tt)
    | None => (h, Err "RuntimeError")
    end
  else
    match M_lappend (h_tree h) key with
    | Ok t' => (mk_hgo t' (h_depth h), Ok tt)
    | Err e => (h, Err e)
    end.

(* IndexGO.extend on the root index (always an index with a map), after fix c675c22: all labels are
   validated against the index and against each other before any is appended *)
Fixpoint root_valid (ls vs observed : list L) : bool :=
  match vs with
  | [] => true
  | v :: r => negb (mem v ls || mem v observed) && root_valid ls r (observed ++ [v])
  end.

(* IndexLevelGO.extend (index_level.py:822-857, after fixes 4b2944d and c675c22): the other level must
   have children, the depths must agree, THIS level must have children (all checked before anything is
   mutated), the root index is extended as a whole or not at all, then the other tree's children are
   copied below *)
Definition M_hextend (h : hgo) (other : hgo) : hgo * outcome :=
  match h_tree other with
  | Leaf _ => (h, Err "RuntimeError")
  | Node ols okids =>
      if negb (h_depth h =? h_depth other) then (h, Err "RuntimeError") else
      match h_tree h with
      | Leaf _ => (h, Err "RuntimeError")
      | Node ls kids =>
          if root_valid ls ols [] then (mk_hgo (Node (ls ++ ols) (kids ++ okids)) (h_depth h), Ok tt)
          else (h, Err "KeyError")
      end
  end.

Inductive hop :=
| HAppend (key : list L)
| HExtend (other : hgo)
| HRead.

Definition M_hstep (h : hgo) (op : hop) : hgo * outcome :=
  match op with
  | HAppend key => M_happend h key
  | HExtend o => M_hextend h o
  | HRead => (h, Ok tt)
  end.

(* specification, as a relation between what was there, what was given and what is there now *)
Definition tuple_eqb (a b : list L) : bool := list_eqb leq a b.
Definition tmem (k : list L) (l : list (list L)) : bool := existsb (tuple_eqb k) l.

Fixpoint tfresh_all (l : list (list L)) (vs : list (list L)) : bool :=
  match vs with
  | [] => true
  | v :: r => negb (tmem v l) && tfresh_all (l ++ [v]) r
  end.

Definition hop_given (op : hop) : list (list L) :=
  match op with
  | HAppend key => [key]
  | HExtend o => flatten (h_tree o)
  | HRead => []
  end.

(* accepted -> exactly the given labels were appended, all of them new and of the right depth;
   rejected -> nothing changed.  (A call the implementation refuses although it could be accepted is
   not judged: the property only says what an accepted call must have done.) *)
Definition S_hstep_ok (depth : Z) (before : list (list L)) (op : hop) (out : outcome) (after : list (list L)) : bool :=
  if is_ok out
  then list_eqb tuple_eqb after (before ++ hop_given op) &&
       tfresh_all before (hop_given op) &&
       forallb (fun k => zlen k =? depth) (hop_given op)
  else list_eqb tuple_eqb after before.

(* duplicates and wrong-depth labels must be rejected *)
Definition S_hstep_must_reject (depth : Z) (before : list (list L)) (op : hop) : bool :=
  negb (tfresh_all before (hop_given op)) || negb (forallb (fun k => zlen k =? depth) (hop_given op)).

End Hier.

Arguments Leaf {L}.
Arguments Node {L}.
Arguments mk_hgo {L}.
Arguments h_tree {L}.
Arguments h_depth {L}.
Arguments HAppend {L}.
Arguments HExtend {L}.
Arguments HRead {L}.
