(* C13 -- the grouping models instantiated at observed values (SF.Value.val), for evaluating
   correspondence cases.  No proofs.

   row      = (label along the grouping axis, cells across)   -- Series: (label, [value])
   keyspec  = how the group key is read off a row
   canon    = canonical form of a key: Python == on numbers (True == 1 == 1.0) becomes structural
              equality (floats arrive as lowest-terms dyadic rationals, so den = 1 iff integral)
   val_leb  = the order NumPy sorts one homogeneous key array by (numbers by value, strings by code
              point, tuples lexicographically) *)
Require Import SF.Prelude SF.Value SF.Group.
From Coq Require Import DecimalString.

Definition row := (val * list val)%type.

Fixpoint canon (v : val) : val :=
  match v with
  | VBool b => VInt (if b then 1 else 0)
  | VFlt n d => if d =? 1 then VInt n else v
  | VTup l => VTup (map canon l)
  | _ => v
  end.

Fixpoint val_leb (a b : val) : bool :=
  match a, b with
  | VInt x, VInt y => x <=? y
  | VInt x, VFlt n d => x * d <=? n
  | VFlt n d, VInt y => n <=? y * d
  | VFlt n1 d1, VFlt n2 d2 => n1 * d2 <=? n2 * d1
  | VStr x, VStr y => String.leb x y
  | VBytes x, VBytes y => String.leb x y
  | VDt _ x, VDt _ y => x <=? y
  | VTd _ x, VTd _ y => x <=? y
  | VNone, VNone => true
  | VTup l1, VTup l2 =>
      (fix lex (x y : list val) : bool :=
         match x, y with
         | [], _ => true
         | _ :: _, [] => false
         | u :: us, v :: vs => if val_eqb u v then lex us vs else val_leb u v
         end) l1 l2
  | _, _ => false
  end.

Inductive keyspec :=
| KCell (p : nat)            (* element key: that cell *)
| KCells (ps : list nat)     (* list / slice / mask key: tuple of those cells *)
| KDepth (d : nat)           (* one depth of the (tuple) label; a flat label is its own depth 0 *)
| KDepths (ds : list nat).   (* several depths: tuple *)

Definition tup_nth (v : val) (i : nat) : val :=
  match v with VTup l => nth i l VNone | x => x end.

Definition key_of (ks : keyspec) (r : row) : val :=
  canon (match ks with
         | KCell p => nth p (snd r) VNone
         | KCells ps => VTup (map (fun p => nth p (snd r) VNone) ps)
         | KDepth d => tup_nth (fst r) d
         | KDepths ds => VTup (map (tup_nth (fst r)) ds)
         end).

(* str(x) of the key cells the generators produce (ints, bools, strings, None); the harness refuses
   other classes on the fallback path *)
Definition z_str (z : Z) : string := NilZero.string_of_int (Z.to_int z).

Fixpoint val_repr (v : val) : val :=
  match v with
  | VInt z => VStr (z_str z)
  | VStr s => VStr s
  | VNone => VStr "None"
  | VBool b => VStr (if b then "True" else "False")
  | VFlt n d => if d =? 1 then VStr (z_str n ++ ".0") else v     (* str(1.0) = '1.0'; other floats never reach the string branch *)
  | VTup l => VTup (map val_repr l)
  | x => x
  end.

(* does np.unique on a 1-D OBJECT array of these keys raise TypeError?  It sorts with `<`:
   numbers compare with numbers, strings with strings, anything else (None, mixed classes) raises
   as soon as two elements are compared *)
Definition is_num (v : val) : bool := match v with VInt _ | VFlt _ _ | VBool _ => true | _ => false end.
Definition is_str (v : val) : bool := match v with VStr _ => true | _ => false end.
Definition orderable (ks : list val) : bool :=
  (Nat.leb (length ks) 1) || forallb is_num ks || forallb is_str ks.

Inductive unique_mode :=
| UPlain       (* np.unique succeeds *)
| UFallback.   (* TypeError -> string representations *)

(* what array_to_groups_and_locations does for a key array:
   obj     the extracted key array has dtype object
   two_d   np.unique is called with axis= (np.unique refuses object dtype then) *)
Definition unique_mode_of (obj two_d : bool) (ks : list val) : unique_mode :=
  if negb obj then UPlain
  else if two_d then UFallback
  else if orderable ks then UPlain else UFallback.

Definition raw_key_of (ks : keyspec) (r : row) : val :=
  match ks with
  | KCell p => nth p (snd r) VNone
  | KCells ps => VTup (map (fun p => nth p (snd r) VNone) ps)
  | KDepth d => tup_nth (fst r) d
  | KDepths ds => VTup (map (tup_nth (fst r)) ds)
  end.

Definition opt_groups (g : list (val * list row)) : list (option val * list row) :=
  map (fun kg => (Some (fst kg), snd kg)) g.

(* the whole of TypeBlocks.group / Series._axis_group_items / _axis_group_labels_items *)
Definition M_unique_path (obj two_d : bool) (ks : keyspec) (rows : list row) : list (option val * list row) :=
  match unique_mode_of obj two_d (map (raw_key_of ks) rows) with
  | UPlain => opt_groups (M_B (key_of ks) val_eqb val_leb rows)
  | UFallback => M_B_fallback (raw_key_of ks) val_repr val_eqb val_leb rows
  end.

(* Frame.iter_group_items: path choice then the chosen algorithm *)
Definition M_frame_group (columns_depth1 index_depth1 key_multiple key_dtype_object two_d : bool)
           (ks : keyspec) (rows : list row) : list (option val * list row) :=
  match choose_path columns_depth1 index_depth1 key_multiple key_dtype_object with
  | PathSort => opt_groups (M_A (key_of ks) val_eqb val_leb rows)
  | PathUnique => M_unique_path key_dtype_object two_d ks rows
  end.

Definition S_group_val (ks : keyspec) (rows : list row) : list (option val * list row) :=
  opt_groups (S_group (key_of ks) val_eqb rows).

(* ---- comparing with what the implementation returned ---- *)
Definition row_eqb (a b : row) : bool := val_eqb (fst a) (fst b) && vlist_eqb (snd a) (snd b).

Definition okey_eqb (a b : option val) : bool :=
  match a, b with
  | Some x, Some y => val_eqb (canon x) (canon y)
  | None, None => true
  | _, _ => false
  end.

Definition group_eqb (a b : option val * list row) : bool :=
  okey_eqb (fst a) (fst b) && list_eqb row_eqb (snd a) (snd b).

(* same groups in the same order (model M: the order is part of what the algorithm does) *)
Definition groups_eqb (a b : list (option val * list row)) : bool := list_eqb group_eqb a b.

(* same SET of groups (specification: the property does not fix the order of the groups) *)
Definition groups_same (obs spec : list (option val * list row)) : bool :=
  Nat.eqb (length obs) (length spec) &&
  forallb (fun g => existsb (group_eqb g) spec) obs &&
  forallb (fun g => existsb (group_eqb g) obs) spec.

(* apply: a Series (index labels, values); func = bitmask of the member labels' positions in the
   input, so the value identifies the member set exactly *)
Fixpoint label_pos (l : val) (rows : list row) : Z :=
  match rows with
  | [] => 0
  | r :: t => if val_eqb (fst r) l then 0 else 1 + label_pos l t
  end.

Definition bitmask (all : list row) (g : list row) : val :=
  VInt (fold_right (fun r acc => 2 ^ (label_pos (fst r) all) + acc) 0 g).

Definition apply_eqb (a b : list (option val) * list val) : bool :=
  list_eqb okey_eqb (fst a) (fst b) && vlist_eqb (snd a) (snd b).

Definition apply_same (obs spec : list (option val) * list val) : bool :=
  let zip := fun p : list (option val) * list val => combine (fst p) (snd p) in
  let item_eqb := fun x y : option val * val => okey_eqb (fst x) (fst y) && val_eqb (snd x) (snd y) in
  Nat.eqb (length (fst obs)) (length (snd obs)) &&
  Nat.eqb (length (fst obs)) (length (fst spec)) &&
  forallb (fun x => existsb (item_eqb x) (zip spec)) (zip obs) &&
  forallb (fun x => existsb (item_eqb x) (zip obs)) (zip spec).

(* ---- the public calls (what the correspondence cases evaluate) ---- *)
(* Frame.iter_group_items(key, axis=axis):
   key = None models a key label that is not on the opposite axis;
   multi: the key is a list/slice/mask (KEY_MULTIPLE_TYPES): the key array is 2-D and np.unique is
   called with axis= (also for a key selecting a single row/column: type_blocks.py:797-803);
   obj: the extracted key array has dtype object;
   go: the receiver is a FrameGO.  On the sort path with axis 1 the groups are built as
   `Frame(..., columns=frame_sorted.columns[slc], own_columns=True)` (frame.py:4364-4370): for a FrameGO
   that is an IndexGO handed to a static Frame as its own columns -> ErrorInitFrame at the first group
   (a finding: the model follows the code). *)
Definition M_frame_group_api (axis : Z) (key : option keyspec) (multi cdepth1 idepth1 obj go : bool)
           (rows : list row) : res (list (option val * list row)) :=
  if negb ((axis =? 0) || (axis =? 1)) then Err "AxisInvalid"
  else match key with
       | None => Err "KeyError"
       | Some ks =>
           match rows, choose_path cdepth1 idepth1 multi obj with
           | _ :: _, PathSort => if go && (axis =? 1) then Err "ErrorInitFrame"
                                 else Ok (M_frame_group cdepth1 idepth1 multi obj multi ks rows)
           | _, _ => Ok (M_frame_group cdepth1 idepth1 multi obj multi ks rows)
           end
       end.

Definition S_frame_group_api (axis : Z) (key : option keyspec) (rows : list row) : res (list (option val * list row)) :=
  if negb ((axis =? 0) || (axis =? 1)) then Err "AxisInvalid"
  else match key with
       | None => Err "KeyError"
       | Some ks => Ok (S_group_val ks rows)
       end.

(* Series.iter_group_items, Series/Frame.iter_group_labels_items: array_to_groups_and_locations with
   its default unique_axis=0.  NumPy treats axis=0 on a 1-D array like axis=None; on a 2-D OBJECT
   array (several depths of mixed dtype) np.unique refuses the axis argument (TypeError). *)
Definition is_multi (ks : keyspec) : bool :=
  match ks with KCells _ | KDepths _ => true | _ => false end.

Definition M_unique_api (obj : bool) (ks : keyspec) (rows : list row) : res (list (option val * list row)) :=
  Ok (M_unique_path obj (is_multi ks) ks rows).

Definition S_group_api (ks : keyspec) (rows : list row) : res (list (option val * list row)) :=
  Ok (S_group_val ks rows).

Definition gres_eqb (a b : res (list (option val * list row))) : bool := res_eqb groups_eqb a b.
Definition gres_same (obs spec : res (list (option val * list row))) : bool := res_eqb groups_same obs spec.

(* .apply(func) over the groups: Series.from_items((key, func(group)), ...) *)
Definition apply_of (all : list row) (gs : list (option val * list row)) : list (option val) * list val :=
  (map fst gs, map (fun g => bitmask all (snd g)) gs).

(* the result index must have unique labels (under ==): two groups whose keys are equal -- possible only on the string
   branch, e.g. 1 and True -- make Series.from_items raise *)
Fixpoint okeys_nodup (l : list (option val)) : bool :=
  match l with
  | [] => true
  | k :: t => negb (existsb (okey_eqb k) t) && okeys_nodup t
  end.

Definition M_apply_api (all : list row) (gs : res (list (option val * list row)))
  : res (list (option val) * list val) :=
  match gs with
  | Err e => Err e
  | Ok g => if okeys_nodup (map fst g) then Ok (apply_of all g) else Err "ErrorInitIndex"
  end.

Definition S_apply_api (all : list row) (gs : res (list (option val * list row)))
  : res (list (option val) * list val) :=
  match gs with Err e => Err e | Ok g => Ok (apply_of all g) end.

Definition ares_eqb (a b : res (list (option val) * list val)) : bool := res_eqb apply_eqb a b.
Definition ares_same (obs spec : res (list (option val) * list val)) : bool := res_eqb apply_same obs spec.

(* ---- windows ---- *)
Definition witem_eqb (a b : val * list row) : bool := val_eqb (fst a) (fst b) && list_eqb row_eqb (snd a) (snd b).
Definition wres_eqb (a b : res (list (val * list row))) : bool := res_eqb (list_eqb witem_eqb) a b.

(* ---- kernel: util.array_to_groups_and_locations on a 1-D array (or 2-D with rows as tuples) ---- *)
Definition first_with_repr (s : val) (ks : list val) : val :=
  match find (fun k => val_eqb (val_repr k) s) ks with Some k => k | None => VNone end.

Definition M_kernel (obj with_axis : bool) (ks : list val) : list val * list nat :=
  match unique_mode_of obj with_axis ks with
  | UPlain => np_unique val_eqb val_leb (map canon ks)
  | UFallback =>
      let '(u, locs) := np_unique val_eqb val_leb (map val_repr ks) in
      (map (fun s => first_with_repr s ks) u, locs)
  end.

Definition kernel_eqb (a b : list val * list nat) : bool :=
  list_eqb (fun x y => val_eqb (canon x) (canon y)) (fst a) (fst b) && list_eqb Nat.eqb (snd a) (snd b).

(* values-only window iterators (Frame/Series._axis_window: `(x for _, x in self._axis_window_items(...))`):
   the windows of the items, in order, labels dropped *)
Definition wvalues (r : res (list (val * list row))) : res (list (list row)) := res_map (map (@snd val (list row))) r.
Definition wvres_eqb (a b : res (list (list row))) : bool := res_eqb (list_eqb (list_eqb row_eqb)) a b.

(* ---- other public forms of the same iterators ---- *)
Definition lists_same {X} (eqb : X -> X -> bool) (a b : list X) : bool :=
  Nat.eqb (length a) (length b) && forallb (fun x => existsb (eqb x) b) a && forallb (fun x => existsb (eqb x) a) b.

(* values-only group iterators (iter_group / iter_group_labels iterated directly): the groups, keys dropped *)
Definition gvalues (r : res (list (option val * list row))) : res (list (list row)) :=
  res_map (map (@snd (option val) (list row))) r.
Definition gvres_eqb (a b : res (list (list row))) : bool := res_eqb (list_eqb (list_eqb row_eqb)) a b.
Definition gvres_same (a b : res (list (list row))) : bool := res_eqb (lists_same (list_eqb row_eqb)) a b.

(* apply_iter: the function values in iteration order, no labels *)
Definition avalues (r : res (list (option val) * list val)) : res (list val) := res_map (@snd (list (option val)) (list val)) r.
Definition avres_eqb (a b : res (list val)) : bool := res_eqb vlist_eqb a b.
Definition avres_same (a b : res (list val)) : bool := res_eqb (lists_same val_eqb) a b.

(* windows with window_valid = "even number of rows" and/or window_func = "reverse the rows":
   container_util.py:498-503 -- the validity callback is asked after the size test, the function is applied last *)
Definition wpost (even_only reversed : bool) (r : res (list (val * list row))) : res (list (val * list row)) :=
  res_map (fun items =>
             map (fun it : val * list row => (fst it, if reversed then rev (snd it) else snd it))
                 (filter (fun it : val * list row => negb even_only || Nat.even (length (snd it))) items)) r.

(* iter_window(...).apply(func): Series.from_items((label, func(window)) ...) *)
Definition wapply (all : list row) (r : res (list (val * list row))) : res (list (option val) * list val) :=
  res_map (fun items => (map (fun it : val * list row => Some (fst it)) items,
                         map (fun it : val * list row => bitmask all (snd it)) items)) r.
