(* C14 -- Series.fillna(Series): implementation model of the label-restricted fill (series.py:980-1010) over an abstract label
   type with a Boolean label equality, and the generic form of the specification.  Models only (no proofs). *)
Require Import SF.Prelude SF.Value SF.Missing.

Section Fill.
Context {L A : Type}.
Variable eqb : L -> L -> bool.

Fixpoint mem_g (k : L) (ks : list L) : bool :=
  match ks with [] => false | k' :: t => eqb k k' || mem_g k t end.

Fixpoint lookup_g {X} (k : L) (kv : list (L * X)) : option X :=
  match kv with
  | [] => None
  | (k', v) :: t => if eqb k k' then Some v else lookup_g k t
  end.

(* S: a missing cell whose label the container covers takes the container's cell; everything else is untouched *)
Definition S_fillna_labels_g (labels : list L) (l : list (option A)) (other : list (L * option A)) : list (option A) :=
  map (fun p => match snd p with
                | Some _ => snd p
                | None => match lookup_g (fst p) other with Some c => c | None => None end
                end) (combine labels l).

(* M: sel = isna; labels_common = intersect1d(index[sel], other.index); sel = index.isin(labels_common);
   value = other reindexed to the receiver's labels at sel, with util.dtype_to_fill_value(other.dtype) (fillv) where the
   label is absent; assigned[sel] = value *)
Definition M_fillna_series (fillv : option A) (labels : list L) (l : list (option A)) (other : list (L * option A)) : list (option A) :=
  let ps := combine labels l in
  if negb (existsb (fun p => is_missing (snd p)) ps) then map snd ps
  else
    let common := filter (fun lab => mem_g lab (map fst other)) (map fst (filter (fun p => is_missing (snd p)) ps)) in
    if negb (existsb (fun p => mem_g (fst p) common) ps) then map snd ps
    else map (fun p => if mem_g (fst p) common
                       then (match lookup_g (fst p) other with Some c => c | None => fillv end)
                       else snd p) ps.

(* labels are pairwise different under eqb (C02: an index holds unique labels) *)
Fixpoint uniq (ls : list L) : Prop :=
  match ls with
  | [] => True
  | a :: t => (forall b, In b t -> eqb a b = false /\ eqb b a = false) /\ uniq t
  end.

End Fill.
