(* Cell and label values as the correspondence harness observes them.
   Floats appear only as exact dyadic rationals num/den (den a power of two, lowest terms: the form
   float.as_integer_ratio() returns), so structural equality is value equality; generators keep
   every float result exact.  Missing markers are separate constructors. *)
Require Import SF.Prelude SF.Dtype.

Inductive val :=
| VInt (z : Z)
| VBool (b : bool)
| VStr (s : string)
| VFlt (num den : Z)          (* finite float num/den *)
| VInf (neg : bool)
| VNaN
| VNone
| VNaT
| VDt (u : tunit) (z : Z)     (* datetime64[u] count since epoch *)
| VTd (u : tunit) (z : Z)     (* timedelta64[u] *)
| VBytes (s : string)
| VTup (l : list val).

(* structural equality (used to compare an observed output with a model output) *)
Fixpoint val_eqb (a b : val) : bool :=
  match a, b with
  | VInt x, VInt y => x =? y
  | VBool x, VBool y => Bool.eqb x y
  | VStr x, VStr y => String.eqb x y
  | VFlt n1 d1, VFlt n2 d2 => (n1 =? n2) && (d1 =? d2)
  | VInf x, VInf y => Bool.eqb x y
  | VNaN, VNaN => true
  | VNone, VNone => true
  | VNaT, VNaT => true
  | VDt u1 z1, VDt u2 z2 => tunit_eqb u1 u2 && (z1 =? z2)
  | VTd u1 z1, VTd u2 z2 => tunit_eqb u1 u2 && (z1 =? z2)
  | VBytes x, VBytes y => String.eqb x y
  | VTup l1, VTup l2 =>
      (fix go (x y : list val) : bool :=
         match x, y with
         | [], [] => true
         | u :: us, v :: vs => val_eqb u v && go us vs
         | _, _ => false
         end) l1 l2
  | _, _ => false
  end.

(* NaN, None, NaT: what isna marks *)
Definition isna (v : val) : bool :=
  match v with VNaN | VNone | VNaT => true | _ => false end.

(* Python == between scalars: True == 1 == 1.0; NaN is unequal to everything *)
Definition num_view (v : val) : option (Z * Z) :=
  match v with
  | VInt z => Some (z, 1)
  | VBool b => Some ((if b then 1 else 0), 1)
  | VFlt n d => Some (n, d)
  | _ => None
  end.

Fixpoint py_val_eq (a b : val) : bool :=
  match num_view a, num_view b with
  | Some (n1, d1), Some (n2, d2) => (n1 * d2 =? n2 * d1)
  | None, None =>
      match a, b with
      | VNaN, _ | _, VNaN | VNaT, _ | _, VNaT => false
      | VTup l1, VTup l2 =>
          (fix go (x y : list val) : bool :=
             match x, y with
             | [], [] => true
             | u :: us, v :: vs => py_val_eq u v && go us vs
             | _, _ => false
             end) l1 l2
      | _, _ => val_eqb a b
      end
  | _, _ => false
  end.

Definition vlist_eqb := list_eqb val_eqb.

(* ---- observed containers (canonical form produced by tools/sfv/lit.py) ---- *)
Record oseries := mk_oseries {
  os_index : list val;      (* labels; tuples for hierarchical *)
  os_values : list val;
  os_dtype : dtype;
  os_name : val
}.

Record oframe := mk_oframe {
  of_index : list val;
  of_columns : list val;
  of_cols : list (dtype * list val);   (* one entry per column: dtype, values down the rows *)
  of_name : val
}.

Definition oseries_eqb (a b : oseries) : bool :=
  vlist_eqb (os_index a) (os_index b) && vlist_eqb (os_values a) (os_values b) &&
  dtype_eqb (os_dtype a) (os_dtype b) && val_eqb (os_name a) (os_name b).

Definition col_eqb (a b : dtype * list val) : bool :=
  dtype_eqb (fst a) (fst b) && vlist_eqb (snd a) (snd b).

Definition oframe_eqb (a b : oframe) : bool :=
  vlist_eqb (of_index a) (of_index b) && vlist_eqb (of_columns a) (of_columns b) &&
  list_eqb col_eqb (of_cols a) (of_cols b) && val_eqb (of_name a) (of_name b).

(* val_eqb decides equality *)
Lemma val_eqb_refl : forall v, val_eqb v v = true.
Proof.
  fix IH 1. intros [z|b|s|n d|b| | | |u z|u z|s|l]; cbn; try reflexivity;
    rewrite ?Z.eqb_refl, ?String.eqb_refl, ?Bool.eqb_reflx; try reflexivity.
  - unfold tunit_eqb. rewrite Z.eqb_refl. reflexivity.
  - unfold tunit_eqb. rewrite Z.eqb_refl. reflexivity.
  - induction l as [|x xs IHl]; [reflexivity|]. rewrite IH, IHl. reflexivity.
Qed.
