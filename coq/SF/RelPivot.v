(* C20 -- Frame.pivot (frame.py:5371-5582) with pivot_items / pivot_records_items /
   extrapolate_column_fields (pivot.py:27-137).  Models only, no proofs.

   A source row carries its index-field key, its column-field key and one value per data field.

   S_pivot_cell  the relational definition: the aggregation function applied to exactly the source rows
                 with that (index key, column key) pair -- the fill value where there are none.
   M_pivot       what the code does: one sub-frame per column key (in sorted order); WITHIN a column key
                 the code aggregates only "if sub_index_labels are not unique", and even then a group of
                 ONE row yields the value itself (`if len(values) == 1: values[0]`); sub-frames are
                 concatenated on the sorted unique index keys with the fill value. *)
Require Import SF.Prelude SF.RelStack.

Section Pivot.
Context {I C A F : Type}.
Variable ieqb : I -> I -> bool.
Variable ceqb : C -> C -> bool.
Variable isort : list I -> list I.     (* np.unique order of the index keys *)
Variable csort : list C -> list C.     (* group order of iter_group_items *)
Variable apply : F -> list A -> A.     (* the aggregation functions *)
(* two decisions of the code, READ FROM THE SOURCE on every run (Gen/Gen_c20.v):
   bypass = pivot_items / pivot_records_items hold `if len(values) == 1: values[0]` (a group of one row never reaches func);
   raw    = Frame.pivot takes the raw values of a column group whose index labels are unique ("assume no aggregation necessary") *)
Variable bypass : bool.
Variable raw : bool.

Record prow := mk_prow { p_i : I; p_c : C; p_d : list A }.

Definition field_values (k : nat) (d : A) (rows : list prow) : list A := map (fun r => nth k (p_d r) d) rows.

(* ------------------------------------------------------------------ specification *)
Definition S_pivot_cell (fill : A) (rows : list prow) (i : I) (c : C) (k : nat) (fn : F) : A :=
  match field_values k fill (filter (fun r => ieqb i (p_i r) && ceqb c (p_c r)) rows) with
  | [] => fill
  | vs => apply fn vs
  end.

Definition index_keys (rows : list prow) : list I := uniq ieqb (map p_i rows).
Definition column_keys (rows : list prow) : list C := uniq ceqb (map p_c rows).

(* ------------------------------------------------------------------ implementation model *)
Fixpoint has_dup {X} (eqb : X -> X -> bool) (l : list X) : bool :=
  match l with [] => false | x :: r => existsb (eqb x) r || has_dup eqb r end.

(* `if len(values) == 1: record.append(values[0]) else: record.append(func(values))` *)
Definition agg_or_single (fill : A) (fn : F) (vs : list A) : A :=
  match vs with
  | [] => fill
  | [v] => if bypass then v else apply fn [v]
  | _ => apply fn vs
  end.

Definition M_pivot_cell (fill : A) (rows : list prow) (i : I) (c : C) (k : nat) (fn : F) : A :=
  let sub := filter (fun r => ceqb c (p_c r)) rows in             (* iter_group_items(columns_fields) *)
  if negb raw || has_dup ieqb (map p_i sub)
  then (* pivot_items / pivot_records_items on the sub-frame, then from_concat on the full index *)
       agg_or_single fill fn (field_values k fill (filter (fun r => ieqb i (p_i r)) sub))
  else (* "assume no aggregation necessary": the raw values, func is never called *)
       match find (fun r => ieqb i (p_i r)) sub with
       | Some r => nth k (p_d r) fill
       | None => fill
       end.

(* the frame: sorted unique index keys x (sorted unique column keys x data fields x functions) *)
Definition pivot_columns (rows : list prow) (nd : nat) (funcs : list F) : list (C * (nat * F)) :=
  product (csort (column_keys rows)) (product (seq 0 nd) funcs).

Definition M_pivot (fill : A) (nd : nat) (funcs : list F) (rows : list prow) : sframe A I (C * (nat * F)) :=
  let idx := isort (index_keys rows) in
  let cols := pivot_columns rows nd funcs in
  mk_sframe idx cols (tab idx cols (fun i ckf => M_pivot_cell fill rows i (fst ckf) (fst (snd ckf)) (snd (snd ckf)))).

Definition S_pivot (fill : A) (nd : nat) (funcs : list F) (rows : list prow) : sframe A I (C * (nat * F)) :=
  let idx := index_keys rows in
  let cols := product (column_keys rows) (product (seq 0 nd) funcs) in
  mk_sframe idx cols (tab idx cols (fun i ckf => S_pivot_cell fill rows i (fst ckf) (fst (snd ckf)) (snd (snd ckf)))).

(* without columns_fields (frame.py:5442-5482): group by the index fields only *)
Definition S_pivot0_cell (fill : A) (rows : list prow) (i : I) (k : nat) (fn : F) : A :=
  match field_values k fill (filter (fun r => ieqb i (p_i r)) rows) with
  | [] => fill
  | vs => apply fn vs
  end.
Definition M_pivot0_cell (fill : A) (rows : list prow) (i : I) (k : nat) (fn : F) : A :=
  agg_or_single fill fn (field_values k fill (filter (fun r => ieqb i (p_i r)) rows)).

Definition M_pivot0 (fill : A) (nd : nat) (funcs : list F) (rows : list prow) : sframe A I (nat * F) :=
  let idx := isort (index_keys rows) in
  let cols := product (seq 0 nd) funcs in
  mk_sframe idx cols (tab idx cols (fun i kf => M_pivot0_cell fill rows i (fst kf) (snd kf))).
Definition S_pivot0 (fill : A) (nd : nat) (funcs : list F) (rows : list prow) : sframe A I (nat * F) :=
  let idx := index_keys rows in
  let cols := product (seq 0 nd) funcs in
  mk_sframe idx cols (tab idx cols (fun i kf => S_pivot0_cell fill rows i (fst kf) (snd kf))).

(* the class in which the code's shortcut is invisible: f [v] = v *)
Definition singleton_idem (fn : F) : Prop := forall v, apply fn [v] = v.

End Pivot.

Arguments prow : clear implicits.
Arguments mk_prow {I C A} _ _ _.
