(* C20 -- Frame.pivot_stack / pivot_unstack (frame.py:5588-5734) with pivot_index_map (pivot.py:149-216).
   Models only, no proofs.

   A frame is (row labels, column labels, cells row-major).  For pivot_stack the column labels arrive
   already split by the depth mask into (group part, target part): targets move to the index, groups
   remain columns.  pivot_unstack is the same with the index split into (group part, target part).

   S_*  label-keyed cell maps: the cell of the result at (row ++ target, group) is the source cell at
        (row, column (group, target)) or the fill value where no such column exists.
   M_*  what the code does: positions recorded in per-group dictionaries target -> axis position
        (later insertions overwrite), first-observed order of groups and targets, cells fetched by
        position. *)
Require Import SF.Prelude.

Section Stack.
Context {R G T A : Type}.
Variable reqb : R -> R -> bool.
Variable geqb : G -> G -> bool.
Variable teqb : T -> T -> bool.

Record sframe (RL CL : Type) := mk_sframe { sf_rows : list RL; sf_cols : list CL; sf_cells : list (list A) }.
Arguments mk_sframe {RL CL} _ _ _.
Arguments sf_rows {RL CL} _.
Arguments sf_cols {RL CL} _.
Arguments sf_cells {RL CL} _.

(* first-observed order without repetitions (dict insertion order) *)
Fixpoint uniq {X} (eqb : X -> X -> bool) (l : list X) : list X :=
  match l with
  | [] => []
  | x :: r => x :: filter (fun y => negb (eqb x y)) (uniq eqb r)
  end.

Definition product {X Y} (xs : list X) (ys : list Y) : list (X * Y) :=
  flat_map (fun x => map (pair x) ys) xs.

Definition tab {X Y} (rows : list X) (cols : list Y) (g : X -> Y -> A) : list (list A) :=
  map (fun r => map (g r) cols) rows.

Fixpoint pos_of {X} (p : X -> bool) (l : list X) : option nat :=
  match l with
  | [] => None
  | x :: r => if p x then Some 0%nat else option_map S (pos_of p r)
  end.

(* the cell map of a frame: by labels *)
Definition get_of {RL CL} (req : RL -> RL -> bool) (ceq : CL -> CL -> bool) (f : sframe RL CL) (d : A) (r : RL) (c : CL) : A :=
  match pos_of (req r) (sf_rows f), pos_of (ceq c) (sf_cols f) with
  | Some i, Some j => nth j (nth i (sf_cells f) []) d
  | _, _ => d
  end.

Definition gt_eqb (a b : G * T) : bool := geqb (fst a) (fst b) && teqb (snd a) (snd b).
Definition rt_eqb (a b : R * T) : bool := reqb (fst a) (fst b) && teqb (snd a) (snd b).

(* ------------------------------------------------------------------ specification *)
Definition S_stack (fill : A) (f : sframe R (G * T)) : sframe (R * T) G :=
  let targets := uniq teqb (map snd (sf_cols f)) in
  let groups := uniq geqb (map fst (sf_cols f)) in
  mk_sframe (product (sf_rows f) targets) groups
    (tab (product (sf_rows f) targets) groups
         (fun rt g => if existsb (gt_eqb (g, snd rt)) (sf_cols f)
                      then get_of reqb gt_eqb f fill (fst rt) (g, snd rt) else fill)).

(* ------------------------------------------------------------------ implementation model *)
Definition enumerate' {X} (l : list X) : list (nat * X) := combine (seq 0 (length l)) l.

(* group_to_target_map[group]: the (position, label) entries of the group, in axis order;
   dict semantics: the LAST entry for a target wins *)
Definition target_map (cols : list (G * T)) (g : G) : list (nat * (G * T)) :=
  filter (fun e => geqb g (fst (snd e))) (enumerate' cols).
Definition lookup_last (t : T) (tm : list (nat * (G * T))) : option nat :=
  option_map fst (find (fun e => teqb t (snd (snd e))) (rev tm)).

Definition M_stack (fill : A) (f : sframe R (G * T)) : sframe (R * T) G :=
  let targets := uniq teqb (map snd (sf_cols f)) in
  let groups := uniq geqb (map fst (sf_cols f)) in
  let maps := map (fun g => target_map (sf_cols f) g) groups in
  mk_sframe (product (sf_rows f) targets) groups
    (flat_map (fun rc => map (fun t => map (fun tm => match lookup_last t tm with
                                                        | Some j => nth j (snd rc) fill
                                                        | None => fill
                                                        end) maps) targets)
              (combine (sf_rows f) (sf_cells f))).

End Stack.

Arguments sframe A RL CL : clear implicits.
Arguments mk_sframe {A RL CL} _ _ _.
Arguments sf_rows {A RL CL} _.
Arguments sf_cols {A RL CL} _.
Arguments sf_cells {A RL CL} _.

(* ------------------------------------------------------------------ unstack: the transposed reading *)
Section Unstack.
Context {G T C A : Type}.
Variable geqb : G -> G -> bool.
Variable teqb : T -> T -> bool.
Variable ceqb : C -> C -> bool.

Definition gt_eqb' (a b : G * T) : bool := geqb (fst a) (fst b) && teqb (snd a) (snd b).
Definition ct_eqb (a b : C * T) : bool := ceqb (fst a) (fst b) && teqb (snd a) (snd b).

(* rows are split (group part, target part); targets move to the columns: column label = c ++ target *)
Definition S_unstack (fill : A) (f : sframe A (G * T) C) : sframe A G (C * T) :=
  let targets := uniq teqb (map snd (sf_rows f)) in
  let groups := uniq geqb (map fst (sf_rows f)) in
  mk_sframe groups (product (sf_cols f) targets)
    (tab groups (product (sf_cols f) targets)
         (fun g ct => if existsb (gt_eqb' (g, snd ct)) (sf_rows f)
                      then get_of gt_eqb' ceqb f fill (g, snd ct) (fst ct) else fill)).

Definition row_map (rows : list (G * T)) (g : G) : list (nat * (G * T)) :=
  filter (fun e => geqb g (fst (snd e))) (enumerate' rows).

Definition last_opt {X} (l : list X) : option X := match rev l with [] => None | x :: _ => Some x end.

(* frame.py:5704-5726.  The array of a new column is built as np.array(values, dtype=dtype) where
   dtype is the source column's dtype unless the LAST group lacks the target (then it is resolved
   with the fill's dtype).  castfill j = what np.array([fill], dtype=<dtype of source column j>)
   shows (an oracle of NumPy casting, computed by NumPy itself), or the exception it raises.
   cast_src = "the code still takes dtype from the last group visited" (read from the source on every
   run, Gen/Gen_c20.v gen_unstack_dtype_from_last_group); false once dtype is only ever widened. *)
Definition M_unstack (cast_src : bool) (fill : A) (castfill : list (res A)) (f : sframe A (G * T) C) : res (sframe A G (C * T)) :=
  let targets := uniq teqb (map snd (sf_rows f)) in
  let groups := uniq geqb (map fst (sf_rows f)) in
  let maps := map (fun g => row_map (sf_rows f) g) groups in
  let cols := product (enumerate' (sf_cols f)) targets in
  (* one array per new column *)
  arrays <- res_all (map (fun jct =>
      let j := fst (fst jct) in let t := snd jct in
      let hits := map (lookup_last teqb t) maps in
      let widened := match last_opt hits with Some None => true | _ => false end in
      let has_fill := existsb (fun h => match h with None => true | Some _ => false end) hits in
      match (if cast_src && has_fill && negb widened then nth j castfill (Ok fill) else Ok fill) with
      | Err e => Err e
      | Ok fv => Ok (map (fun h => match h with
                                   | Some i => nth j (nth i (sf_cells f) []) fill
                                   | None => fv
                                   end) hits)
      end) cols) ;;
  Ok (mk_sframe groups (map (fun jct => (snd (fst jct), snd jct)) cols)
        (map (fun i => map (fun a => nth i a fill) arrays) (seq 0 (length groups)))).

End Unstack.
