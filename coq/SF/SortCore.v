(* C12 -- sorting: generic executable definitions (no proofs here).
   S_sort  : the specification: stable insertion sort under a Boolean preorder `leb`.
   M_msort : top-down merge sort, the oracle model of np.argsort(kind='mergesort') and of each pass of
             np.lexsort (NumPy is not static-frame: its contract -- "the result is THE stable sorted
             arrangement" -- is validated by the oracle strata of the check; by theorem
             stable_sorted_unique the algorithm NumPy really uses (timsort/radix/merge) cannot matter).
   lexs    : lexicographic combination of a list of preorders (first = primary). *)
Require Import SF.Prelude.

Section SortCore.
  Context {A : Type}.
  Variable leb : A -> A -> bool.

  (* x goes before the first element it is <= to: with x coming from the left of the
     already sorted tail, equal keys keep their original order *)
  Fixpoint insert_s (x : A) (l : list A) : list A :=
    match l with
    | [] => [x]
    | y :: t => if leb x y then x :: y :: t else y :: insert_s x t
    end.

  Fixpoint S_sort (l : list A) : list A :=
    match l with
    | [] => []
    | x :: t => insert_s x (S_sort t)
    end.

  (* merge: take from the left run unless the right head is strictly smaller (NumPy: `if LT(right,left)`) *)
  Fixpoint merge (l1 : list A) : list A -> list A :=
    fix merge_aux (l2 : list A) : list A :=
      match l1, l2 with
      | [], _ => l2
      | _, [] => l1
      | a :: t1, b :: t2 => if leb a b then a :: merge t1 l2 else b :: merge_aux t2
      end.

  Fixpoint msort_fuel (fuel : nat) (l : list A) : list A :=
    match fuel with
    | O => l
    | S f =>
        match l with
        | [] => l
        | [_] => l
        | _ => let h := Nat.div2 (length l) in
               merge (msort_fuel f (firstn h l)) (msort_fuel f (skipn h l))
        end
    end.

  Definition M_msort (l : list A) : list A := msort_fuel (length l) l.

  (* key equivalence: neither is strictly before the other *)
  Definition eqv (x y : A) : bool := leb x y && leb y x.
End SortCore.

(* lexicographic combination: first order is the primary key *)
Definition lex2 {A} (le1 le2 : A -> A -> bool) (x y : A) : bool :=
  le1 x y && (negb (le1 y x) || le2 x y).

Fixpoint lexs {A} (les : list (A -> A -> bool)) (x y : A) : bool :=
  match les with
  | [] => true
  | le :: rest => lex2 le (lexs rest) x y
  end.

(* successive stable sorts, the first order of the list applied LAST (so it is the primary key) *)
Fixpoint lsd_sorts {A} (les : list (A -> A -> bool)) (l : list A) : list A :=
  match les with
  | [] => l
  | le :: rest => S_sort le (lsd_sorts rest l)
  end.

Definition flipb {A} (le : A -> A -> bool) (x y : A) : bool := le y x.

(* ---- what the generated file Gen/Gen_c12.v says about the code's loop directions ---- *)
(* `[... for i in range(d-1, -1, -1)]` = RangeDown ; `range(d)` = RangeUp *)
Inductive range_dir := RangeDown | RangeUp.

Definition dir_apply {X} (d : range_dir) (vecs : list X) : list X :=
  match d with RangeDown => rev vecs | RangeUp => vecs end.

Record sort_params := mk_sort_params {
  p_sifo_arr : range_dir;      (* sort_index_for_order: 2-D array key result *)
  p_sifo_idx : range_dir;      (* sort_index_for_order: IndexHierarchy (values_at_depth) *)
  p_sifo_thr : Z;              (* `if cfs_depth > THR` selects lexsort *)
  p_sifo_desc : bool;          (* `if not ascending: order = order[::-1]` present *)
  p_fsv0_arr : range_dir;      (* Frame.sort_values axis 0: 2-D array *)
  p_fsv0_frame : range_dir;    (* Frame.sort_values axis 0: Frame / TypeBlocks rows *)
  p_fsv1_arr : range_dir;      (* Frame.sort_values axis 1: 2-D array *)
  p_fsv1_frame : range_dir;    (* Frame.sort_values axis 1: Frame / TypeBlocks columns *)
  p_fsv_desc : bool;           (* Frame.sort_values: order[::-1] when descending *)
  p_ssv_desc : bool;           (* Series.sort_values: order[::-1] when descending *)
  p_ssv_len_check : bool;      (* Series.sort_values: `if len(cfs_values) != len(self.values): raise RuntimeError` under `if key:` *)
  p_sifo_len_check : bool;     (* sort_index_for_order: `if len(cfs) != len(index): raise RuntimeError` under `if key:` *)
  p_fsv0_len_check : bool;     (* Frame.sort_values axis 0: 1-D len / 2-D shape[1] compared with self.shape[1], RuntimeError *)
  p_fsv1_len_check : bool      (* Frame.sort_values axis 1: 1-D len / 2-D shape[0] compared with self.shape[0], RuntimeError *)
}.

(* what the refinement theorems need the code to say *)
Definition good_params : sort_params :=
  mk_sort_params RangeDown RangeDown 1 true RangeDown RangeDown RangeDown RangeDown true true true true true true.

(* ---- grow-only hierarchical indices: when are the cached per-depth arrays refreshed?
   (IndexHierarchy.values_at_depth: `if <cond>: self._update_array_cache()`) ---- *)
Inductive refresh_cond := RefreshOnRecache | RefreshOnMissingTable | RefreshNever.

Record cache_params := mk_cache_params {
  cp_vad_refresh : refresh_cond;      (* the condition in IndexHierarchy.values_at_depth *)
  cp_append_sets_recache : bool;      (* IndexHierarchyGO.append: self._recache = True *)
  cp_extend_sets_recache : bool       (* IndexHierarchyGO.extend: self._recache = True *)
}.

Definition good_cache_params : cache_params := mk_cache_params RefreshOnRecache true true.
