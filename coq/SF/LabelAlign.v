(* C06 -- label alignment.  Models only (no proofs).

   IndexCorrespondence.from_correspondence (index_correspondence.py:36-121), Series.reindex
   (series.py:792-841) and Series._ufunc_binary_operator (series.py:1169-1211), over abstract labels A,
   cell values V and operator results R.

   S_reindex / S_binop : the specification -- a label -> value map.
   M_*                 : what the code runs -- common labels by intersect1d(assume_unique=True), the
                         is_subset / has_common decision, positions by loc_to_iloc, fancy take and
                         fancy assignment into a full(fill) array, union index, operator on the two
                         re-indexed arrays. *)
Require Import SF.Prelude SF.SetAlg.

Section Align.
Variable A V : Type.
Variable eqb : A -> A -> bool.
Variable leb : A -> A -> bool.
Variable sortable : list A -> bool.

Notation mem := (mem A eqb).

(* position of a label (the index's AutoMap) *)
Fixpoint index_of (x : A) (l : list A) : option nat :=
  match l with
  | [] => None
  | y :: t => if eqb x y then Some 0%nat else option_map S (index_of x t)
  end.

(* the value a labelled vector holds at a label *)
Fixpoint get (ls : list A) (vs : list V) (x : A) : option V :=
  match ls, vs with
  | y :: t, v :: vt => if eqb x y then Some v else get t vt x
  | _, _ => None
  end.

(* Index._loc_to_iloc of a list of labels: KeyError (None) when one is absent *)
Fixpoint locs (l keys : list A) : option (list nat) :=
  match keys with
  | [] => Some []
  | k :: t => match index_of k l, locs l t with
              | Some i, Some r => Some (i :: r)
              | _, _ => None
              end
  end.

Record icorr := mk_icorr {
  ic_has_common : bool;
  ic_is_subset : bool;
  ic_src : list nat;
  ic_dst : list nat;
  ic_size : nat
}.

(* from_correspondence once the common labels are known (in WHATEVER order intersect1d produced them:
   sorted, or the hash order of a frozenset) *)
Definition ic_of_common (common src dst : list A) : option icorr :=
  if negb (is_nil A common) then
    if (Z.of_nat (length common) =? Z.of_nat (length dst)) then
      match locs src dst with
      | Some s => Some (mk_icorr true true s (seq 0 (length dst)) (length dst))
      | None => None
      end
    else
      match locs src common, locs dst common with
      | Some s, Some d => Some (mk_icorr true false s d (length dst))
      | _, _ => None
      end
  else Some (mk_icorr false false [] [] (length dst)).

Definition M_from_correspondence (objpath : bool) (src dst : list A) : option icorr :=
  ic_of_common (snd (M_ufunc_set A eqb leb sortable OpInter true objpath src dst)) src dst.

(* values[positions] *)
Definition take (vs : list V) (pos : list nat) (d : V) : list V := map (fun i => nth i vs d) pos.

Fixpoint set_nth (i : nat) (v : V) (l : list V) : list V :=
  match l, i with
  | [], _ => []
  | _ :: t, O => v :: t
  | x :: t, S j => x :: set_nth j v t
  end.

(* base[dst] = vals (NumPy fancy assignment, left to right) *)
Fixpoint scatter (dst : list nat) (vals : list V) (base : list V) : list V :=
  match dst, vals with
  | i :: dt, v :: vt => scatter dt vt (set_nth i v base)
  | _, _ => base
  end.

(* the three outcomes of Series.reindex / the per-block bodies of TypeBlocks.resize_blocks:
   is_subset -> a take of the source (dtype unchanged);
   otherwise a full(fill) array of the dtype resolved with the fill value ([cast] is that coercion of
   the kept cells), into which the common cells are assigned -- when there are any *)
Definition M_reindex_values (c : icorr) (vals : list V) (fill : V) (cast : V -> V) : list V :=
  if ic_is_subset c then take vals (ic_src c) fill
  else
    let base := repeat fill (ic_size c) in
    if ic_has_common c then scatter (ic_dst c) (map cast (take vals (ic_src c) fill)) base
    else base.

(* Series.reindex; [check_equals]: the index.equals fast path *)
Definition M_series_reindex (check_equals objpath : bool) (src : list A) (vals : list V) (dst : list A)
  (fill : V) (cast : V -> V) : option (list V) :=
  if check_equals && (Z.of_nat (length src) =? Z.of_nat (length dst)) && list_eqb eqb src dst then Some vals
  else match M_from_correspondence objpath src dst with
       | Some c => Some (M_reindex_values c vals fill cast)
       | None => None
       end.

(* ---- specification of reindex: per destination label, the source's value or the fill value.
   The dtype coercion [cast] happens exactly when some destination label is missing from the source. *)
Definition covers (src dst : list A) : bool := forallb (fun x => mem x src) dst.

Definition side (src : list A) (vals : list V) (dst : list A) (fill : V) (cast : V -> V) (l : A) : V :=
  match get src vals l with
  | Some v => if covers src dst then v else cast v
  | None => fill
  end.

Definition S_reindex (src : list A) (vals : list V) (dst : list A) (fill : V) (cast : V -> V) : list V :=
  map (side src vals dst fill cast) dst.

(* ---- binary operator between two labelled vectors ---- *)
Variable R : Type.

Fixpoint map2 (f : V -> V -> R) (xs ys : list V) : list R :=
  match xs, ys with
  | x :: xt, y :: yt => f x y :: map2 f xt yt
  | _, _ => []
  end.

(* Series._ufunc_binary_operator with a Series operand (series.py:1183-1193, 1203-1209):
   equal indices -> the operator on the two value arrays, left index kept;
   otherwise index = union, both sides re-indexed (check_equals=False) with fill NaN *)
Definition M_series_binop (f : V -> V -> R) (same_dtype objpath : bool) (na : V) (ca cb : V -> V)
  (ia : list A) (va : list V) (ib : list A) (vb : list V) : option (list A * list R) :=
  if (Z.of_nat (length ia) =? Z.of_nat (length ib)) && list_eqb eqb ia ib then Some (ia, map2 f va vb)
  else
    let idx := snd (M_index_set A eqb leb sortable OpUnion OperandIndex same_dtype objpath ia ib) in
    match M_series_reindex false objpath ia va idx na ca, M_series_reindex false objpath ib vb idx na cb with
    | Some xa, Some xb => Some (idx, map2 f xa xb)
    | _, _ => None
    end.

(* specification: on the union of the labels, the operator applied to what each side holds at the
   label (its value, or the missing marker) *)
Definition S_binop_at (f : V -> V -> R) (na : V) (ca cb : V -> V)
  (ia : list A) (va : list V) (ib : list A) (vb : list V) (l : A) : R :=
  let u := S_set A eqb OpUnion ia ib in
  f (side ia va u na ca l) (side ib vb u na cb l).

Definition S_series_binop (f : V -> V -> R) (na : V) (ca cb : V -> V)
  (ia : list A) (va : list V) (ib : list A) (vb : list V) : list A * list R :=
  let u := S_set A eqb OpUnion ia ib in
  (u, map (S_binop_at f na ca cb ia va ib vb) u).

End Align.
