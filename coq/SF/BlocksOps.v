(* C03 -- more block-walking operations of static_frame/core/type_blocks.py as implementation models M_*
   over a block layout (SF.Blocks.tb), each next to its specification S_* on the flattened column list
   (which cannot see blocks).  Models only; the refinement proofs are in Proofs/BlocksOps*.v.

   Conventions: a column is the list of its cells down the rows; a 2-D block is the list of its columns;
   what NumPy does to every cell / every column alike (ufuncs, astype, row selection, np.roll along axis 0)
   is a function parameter; what static-frame itself computes -- the walk over blocks, the directory
   _index, the grouping, the split of a block at a column, the row dtype -- is modelled step by step. *)
Require Import SF.Prelude SF.PySlice SF.Dtype SF.Blocks.

(* rows of a column-major matrix: heads, then the rows of the tails *)
Definition heads {B : Type} (cols : list (list B)) : list B :=
  flat_map (fun c => match c with [] => [] | x :: _ => [x] end) cols.
Fixpoint rows_of {B : Type} (n : nat) (cols : list (list B)) : list (list B) :=
  match n with
  | O => []
  | S k => heads cols :: rows_of k (map (@tl B) cols)
  end.

(* =====================================================================================================
   get_block_match (type_blocks.py: inside clip 2494-2545, _assign_from_iloc_by_blocks, _assign_from_boolean_blocks_by_blocks):
   the source arrays are kept on a stack (the reversed list, top = next columns); a request of width w pops
   arrays until w columns are collected, splits the last one and PUSHES THE REMAINDER BACK.  The branches of the
   code (w = 1 / equal width / wider / accumulate with trim) are all instances of this one recursion.
   X = a column; a source array = the list of its columns; stack top = head of the list.
   ===================================================================================================== *)
Fixpoint take_cols {X : Type} (src : list (list X)) (need : nat) : option (list X * list (list X)) :=
  match need with
  | O => Some ([], src)
  | S _ =>
      match src with
      | [] => None                                   (* source.pop() from an empty list: IndexError *)
      | blk :: rest =>
          if (length blk <=? need)%nat
          then match take_cols rest (need - length blk) with
               | Some (cols, src') => Some (blk ++ cols, src')
               | None => None
               end
          else Some (firstn need blk, skipn need blk :: rest)
      end
  end.

(* a sequence of requests of widths ws (one per target block) *)
Fixpoint take_many {X : Type} (src : list (list X)) (ws : list nat) : option (list (list X) * list (list X)) :=
  match ws with
  | [] => Some ([], src)
  | w :: r => match take_cols src w with
              | None => None
              | Some (cols, src') => match take_many src' r with
                                     | Some (pieces, rest) => Some (cols :: pieces, rest)
                                     | None => None
                                     end
              end
  end.

Section Ops.
Context {A : Type}.
Notation block := (block A).
Notation tb := (tb A).
Notation column := (dtype * list A)%type.

(* =====================================================================================================
   1. The directory read routes: TypeBlocks._index -> (block, column in block)
   ===================================================================================================== *)

(* b[:, column] / b for a 1-D block (type_blocks.py:507-512, 533-538, 2036-2045): a 1-D block ignores
   the column number *)
Definition block_column (b : block) (j : Z) : option (list A) :=
  if b_1d b then nth_z (b_cols b) 0 else nth_z (b_cols b) j.

Definition dir_column (t : tb) (p : Z * Z) : option column :=
  match nth_z t (fst p) with
  | Some b => match block_column b (snd p) with Some c => Some (b_dtype b, c) | None => None end
  | None => None
  end.

(* TypeBlocks.axis_values(axis=0, reverse) (type_blocks.py:501-512): walk _index (or reversed(_index)) *)
Definition M_axis_values0 (t : tb) (reverse : bool) : option (list column) :=
  opt_all (map (dir_column t) (if reverse then rev (tb_index t) else tb_index t)).
Definition S_axis_values0 (cols : list column) (reverse : bool) : list column :=
  if reverse then rev cols else cols.

(* TypeBlocks._extract_array(column_key=int) / _extract(column_key=int) (type_blocks.py:2036-2045, 2090-2107):
   self._index[column_key] with Python negative indexing *)
Definition M_column (t : tb) (j : Z) : res column :=
  match py_nth (tb_index t) j with
  | None => Err "IndexError"
  | Some p => match dir_column t p with Some c => Ok c | None => Err "IndexError" end
  end.
Definition S_column (cols : list column) (j : Z) : res column :=
  match py_nth cols j with Some c => Ok c | None => Err "IndexError" end.

(* TypeBlocks.element_items / iloc[i, j] (type_blocks.py:533-538, 2099-2106): b[i] or b[i, column] *)
Definition M_element (t : tb) (i j : Z) : res (dtype * A) :=
  match M_column t j with
  | Err e => Err e
  | Ok (d, c) => match py_nth c i with Some x => Ok (d, x) | None => Err "IndexError" end
  end.
Definition S_element (cols : list column) (i j : Z) : res (dtype * A) :=
  match py_nth cols j with
  | None => Err "IndexError"
  | Some (d, c) => match py_nth c i with Some x => Ok (d, x) | None => Err "IndexError" end
  end.

(* _dtypes and _shape[1] as from_blocks accumulates them (type_blocks.py:151-155) *)
Fixpoint tb_dtypes (t : tb) : list dtype :=
  match t with
  | [] => []
  | b :: r => repeat (b_dtype b) (length (b_cols b)) ++ tb_dtypes r
  end.
Fixpoint tb_column_count (t : tb) : Z :=
  match t with
  | [] => 0
  | b :: r => width b + tb_column_count r
  end.

(* =====================================================================================================
   2. Per-block cellwise maps: isna / notna (type_blocks.py:2414-2435), unary operators (2279-2289),
      binary operators with a scalar (2336-2344, container_util.py:728-790), astype of every column,
      isin (2377-2396): one loop `for b in self._blocks: yield g(b)` -- the result keeps the block shape.
      NumPy decides from the block's dtype the result dtype and the cell function, or raises.
   ===================================================================================================== *)
Definition cellfun (B : Type) := dtype -> res (dtype * (A -> B)).

Definition map_block {B} (f : cellfun B) (b : block) : res (Blocks.block B) :=
  match f (b_dtype b) with
  | Err e => Err e
  | Ok (d, g) => Ok (mk_block d (b_1d b) (map (map g) (b_cols b)))
  end.
(* TypeBlocks.from_blocks(generator) WITHOUT shape_reference (type_blocks.py:158-164): no block, no row count *)
Definition from_blocks_gen {B} (bs : Blocks.tb B) : res (Blocks.tb B) :=
  match bs with
  | [] => Err "ErrorInitTypeBlocks"
  | _ => Ok bs
  end.
Definition M_map_blocks {B} (f : cellfun B) (t : tb) : res (Blocks.tb B) :=
  match res_all (map (map_block f) t) with
  | Err e => Err e
  | Ok bs => from_blocks_gen bs
  end.

Definition map_column {B} (f : cellfun B) (c : column) : res (dtype * list B) :=
  match f (fst c) with
  | Err e => Err e
  | Ok (d, g) => Ok (d, map g (snd c))
  end.
Definition S_map_columns {B} (f : cellfun B) (cols : list column) : res (list (dtype * list B)) :=
  res_all (map (map_column f) cols).

(* =====================================================================================================
   3. TypeBlocks.consolidate_blocks / consolidate (type_blocks.py:620-669)
   ===================================================================================================== *)
(* _concatenate_blocks: column_2d_filter every member, np.concatenate(axis=1): always 2-D *)
Definition concat_group (gd : dtype) (g : list block) : block :=
  mk_block gd false (flat_map b_cols g).
(* a group of one is yielded by reference (it keeps its dimensionality) *)
Definition emit_group (gd : dtype) (g : list block) : block :=
  match g with
  | [b] => b
  | _ => concat_group gd g
  end.
Fixpoint consolidate_go (gd : dtype) (group_rev : list block) (rest : tb) : tb :=
  match rest with
  | [] => [emit_group gd (rev group_rev)]
  | b :: r => if dtype_eqb (b_dtype b) gd
              then consolidate_go gd (b :: group_rev) r
              else emit_group gd (rev group_rev) :: consolidate_go (b_dtype b) [b] r
  end.
Definition consolidate_blocks (t : tb) : tb :=
  match t with
  | [] => []
  | b :: r => consolidate_go (b_dtype b) [b] r
  end.
(* consolidate() passes the generator to from_blocks WITHOUT a shape reference: no block -> no row count *)
Definition M_consolidate (t : tb) : res tb :=
  match t with
  | [] => Err "ErrorInitTypeBlocks"
  | _ => Ok (consolidate_blocks t)
  end.

(* specification: group adjacent columns of equal dtype *)
Fixpoint group_go (gd : dtype) (acc_rev : list (list A)) (rest : list column) : list (dtype * list (list A)) :=
  match rest with
  | [] => [(gd, rev acc_rev)]
  | c :: r => if dtype_eqb (fst c) gd
              then group_go gd (snd c :: acc_rev) r
              else (gd, rev acc_rev) :: group_go (fst c) [snd c] r
  end.
Definition S_group_columns (cols : list column) : list (dtype * list (list A)) :=
  match cols with
  | [] => []
  | c :: r => group_go (fst c) [snd c] r
  end.
Definition block_sig (b : block) : dtype * list (list A) := (b_dtype b, b_cols b).

(* no two neighbours with the same dtype *)
Fixpoint adjacent_distinct (l : list dtype) : Prop :=
  match l with
  | x :: ((y :: _) as r) => x <> y /\ adjacent_distinct r
  | _ => True
  end.

(* =====================================================================================================
   4. Row dtype: resolve_dtype_iter over the BLOCK dtypes (type_blocks.py:279-283, util.py:460-473);
      values / _blocks_to_array (393-451); transpose (2399-2411); axis_values(axis=1) (463-499)
   ===================================================================================================== *)
Section RowDtype.
Variable resolve : dtype -> dtype -> dtype.          (* util.resolve_dtype *)
Variable cast : dtype -> dtype -> A -> A.            (* ndarray.astype, one cell: source dtype, target dtype *)

(* for dt in dtypes: dt_resolve = resolve_dtype(dt_resolve, dt); if dt_resolve == object: return *)
Fixpoint resolve_iter_go (acc : dtype) (ds : list dtype) : dtype :=
  match ds with
  | [] => acc
  | d :: r => let x := resolve acc d in
              if dtype_eqb x DObj then x else resolve_iter_go x r
  end.
Definition resolve_iter (ds : list dtype) : option dtype :=
  match ds with
  | [] => None                       (* _row_dtype = None when there is no block *)
  | d :: r => Some (resolve_iter_go d r)
  end.

Definition M_row_dtype (t : tb) : option dtype := resolve_iter (map b_dtype t).
Definition S_row_dtype (cols : list column) : option dtype := resolve_iter (map fst cols).

(* a block converted to the row dtype unless it has it already
   (`if b.dtype != self._row_dtype: b = b.astype(self._row_dtype)`; assignment into np.empty(dtype=row_dtype)) *)
Definition cast_cols (src dst : dtype) (cols : list (list A)) : list (list A) :=
  if dtype_eqb src dst then cols else map (map (cast src dst)) cols.

(* TypeBlocks.values: one block -> column_2d_filter(block) as is; else np.empty(shape, row_dtype) filled
   block by block at [pos:end].  Result: (dtype, columns of the 2-D array); None: no block, np.empty(shape, None) *)
Definition M_values (t : tb) : option (dtype * list (list A)) :=
  match t with
  | [] => None
  | [b] => Some (b_dtype b, b_cols b)
  | _ => match M_row_dtype t with
         | None => None
         | Some rd => Some (rd, flat_map (fun b => cast_cols (b_dtype b) rd (b_cols b)) t)
         end
  end.
Definition S_values (cols : list column) : option (dtype * list (list A)) :=
  match S_row_dtype cols with
  | None => None
  | Some rd => Some (rd, map (fun c => if dtype_eqb (fst c) rd then snd c else map (cast (fst c) rd) (snd c)) cols)
  end.

(* TypeBlocks.transpose: every block column_2d_filter(b).transpose(), cast to the row dtype, np.concatenate:
   ONE array of shape (columns, rows); from_blocks(array) stores it as one 2-D block unless it has no column *)
Definition M_transpose (t : tb) (nrows : nat) : res tb :=
  match t with
  | [] => Err "ValueError"                    (* np.concatenate of an empty list *)
  | _ => match M_row_dtype t with
         | None => Err "ValueError"
         | Some rd =>
             let cols := flat_map (fun b => cast_cols (b_dtype b) rd (b_cols b)) t in
             match nrows with
             | O => Ok []
             | _ => Ok [mk_block rd false (rows_of nrows cols)]
             end
         end
  end.
(* specification: one column per row, holding that row's cells in the row dtype; a frame without columns
   transposes to a frame without rows (its columns are empty, NumPy's default float64) *)
Definition S_transpose (cols : list column) (nrows : nat) : res (list column) :=
  match S_values cols with
  | None => Ok (repeat (DFlt 8, []) nrows)
  | Some (rd, cs) => Ok (map (pair rd) (rows_of nrows cs))
  end.

End RowDtype.

(* =====================================================================================================
   5. TypeBlocks._shift_blocks with wrap=True (type_blocks.py:1422-1483): Frame.roll
      rowf = what array_shift(axis=0) does to one column (the same for every column)
   ===================================================================================================== *)
Definition block_cols_from (b : block) (j : Z) : block :=      (* block_start[:, block_start_column:] *)
  mk_block (b_dtype b) false (skipn (Z.to_nat j) (b_cols b)).
Definition block_cols_to (b : block) (j : Z) : block :=        (* block_start[:, :block_start_column] *)
  mk_block (b_dtype b) false (firstn (Z.to_nat j) (b_cols b)).
Definition block_rowmap (rowf : list A -> list A) (b : block) : block :=
  mk_block (b_dtype b) (b_1d b) (map rowf (b_cols b)).

Definition M_roll (t : tb) (nrows ncols : Z) (row_shift col_shift : Z) (rowf : list A -> list A) : res tb :=
  if (ncols =? 0) || (nrows =? 0) then Err "ZeroDivisionError"      (* column_shift % column_count, row_shift % row_count *)
  else
    let index_start_pos := - (col_shift mod ncols) in
    let row_start_pos := - (row_shift mod nrows) in
    if (index_start_pos =? 0) && (row_start_pos =? 0) then Ok t
    else
      match py_nth (tb_index t) index_start_pos with
      | None => Err "IndexError"
      | Some (bi, col) =>
          match nth_z t bi with
          | None => Err "IndexError"
          | Some bs =>
              let before := firstn (Z.to_nat bi) t in
              let after := skipn (Z.to_nat (bi + 1)) t in
              let ordered := if col =? 0 then (bs :: after) ++ before
                             else (block_cols_from bs col :: after) ++ (before ++ [block_cols_to bs col]) in
              Ok (if row_start_pos =? 0 then ordered else map (block_rowmap rowf) ordered)
          end
      end.

(* specification: rotate the column list right by col_shift; every column rolled down the rows *)
Definition S_roll (cols : list column) (nrows ncols : Z) (row_shift col_shift : Z) (rowf : list A -> list A) : list column :=
  let k := Z.to_nat ((ncols - col_shift mod ncols) mod ncols) in     (* first column of the result *)
  let rotated := skipn k cols ++ firstn k cols in
  if row_shift mod nrows =? 0 then rotated else map (fun c => (fst c, rowf (snd c))) rotated.

(* =====================================================================================================
   6. TypeBlocks.append / extend (type_blocks.py:3157-3209): the directory is extended in place
   ===================================================================================================== *)
Record tb_state := mk_state { st_blocks : tb; st_index : list (Z * Z); st_dtypes : list dtype; st_columns : Z }.

Definition state_of (t : tb) : tb_state := mk_state t (tb_index t) (tb_dtypes t) (tb_column_count t).

Definition M_append (st : tb_state) (b : block) : tb_state :=
  if width b =? 0 then st                                 (* "do not append 0 width arrays" *)
  else
    let block_idx := Z.of_nat (length (st_blocks st)) in
    mk_state (st_blocks st ++ [b])
             (st_index st ++ map (fun i => (block_idx, Z.of_nat i)) (seq 0 (length (b_cols b))))
             (st_dtypes st ++ repeat (b_dtype b) (length (b_cols b)))
             (st_columns st + width b).
Definition M_extend (st : tb_state) (bs : list block) : tb_state := fold_left M_append bs st.

Definition nonempty_block (b : block) : bool := negb (width b =? 0).

(* =====================================================================================================
   7. Frame: index labels, column labels, blocks; the constructor's final coherence checks (frame.py:2554-2563)
   ===================================================================================================== *)
Section Frame.
Context {L : Type}.
Record frame := mk_frame { f_index : list L; f_columns : list L; f_blocks : tb; f_rows : Z }.   (* f_rows = _blocks._shape[0] *)

Definition mk_frame_checked (index columns : list L) (t : tb) (rows : Z) : res frame :=
  if negb (rows =? Z.of_nat (length index)) then Err "ErrorInitFrame"
  else if negb (tb_column_count t =? Z.of_nat (length columns)) then Err "ErrorInitFrame"
  else Ok (mk_frame index columns t rows).

(* every block has the TypeBlocks row count (from_blocks: `mismatched row count`, type_blocks.py:139-142) *)
Definition rows_ok (t : tb) (rows : Z) : Prop :=
  Forall (fun b => Forall (fun c => Z.of_nat (length c) = rows) (b_cols b)) t.

Definition frame_shape (f : frame) : Z * Z := (f_rows f, tb_column_count (f_blocks f)).

(* read routes of one cell *)
Definition frame_iloc (f : frame) (i j : Z) : res (dtype * A) := M_element (f_blocks f) i j.
(* to_pairs(0): ((column label, ((index label, value), ...)), ...) through axis_values(0) *)
Definition frame_to_pairs (f : frame) : option (list (L * dtype * list (L * A))) :=
  match M_axis_values0 (f_blocks f) false with
  | None => None
  | Some cols => Some (map (fun lc => (fst lc, fst (snd lc), combine (f_index f) (snd (snd lc)))) (combine (f_columns f) cols))
  end.
End Frame.

(* =====================================================================================================
   8. TypeBlocks.fillna(value) = _assign_from_boolean_blocks_by_unit with targets isna(block)
      (type_blocks.py:1674-1735, 3060-3077): decided PER BLOCK -- a block without a missing cell is yielded
      as is, a block with one is converted as a whole to resolve_dtype(value dtype, block dtype)
   ===================================================================================================== *)
Section Fill.
Variable resolve : dtype -> dtype -> dtype.
Variable cast : dtype -> dtype -> A -> A.
Variable na : A -> bool.
Variable fill : A.
Variable fill_dt : dtype.

(* assigned[target] = value: the value is converted to the assigned dtype by the assignment *)
Definition fill_cell (src dst : dtype) (x : A) : A :=
  if na x then (if dtype_eqb fill_dt dst then fill else cast fill_dt dst fill)
  else if dtype_eqb src dst then x else cast src dst x.
Definition fill_block (b : block) : block :=
  if existsb (existsb na) (b_cols b)
  then let ad := resolve fill_dt (b_dtype b) in mk_block ad (b_1d b) (map (map (fill_cell (b_dtype b) ad)) (b_cols b))
  else b.
Definition M_fillna (t : tb) : tb := map fill_block t.
(* specification: the same decision per column *)
Definition fill_column (c : column) : column :=
  if existsb na (snd c)
  then let ad := resolve fill_dt (fst c) in (ad, map (fill_cell (fst c) ad) (snd c))
  else c.
Definition S_fillna (cols : list column) : list column := map fill_column cols.
(* the value fits every block: no dtype changes *)
Definition fill_fits (t : tb) : Prop := Forall (fun b => resolve fill_dt (b_dtype b) = b_dtype b) t.
End Fill.

(* =====================================================================================================
   9. TypeBlocks.extract_bloc (type_blocks.py:2131-2185): block[target] enumerates a 2-D block ROW-major,
      np.nonzero(target) likewise; blocks are visited in order.  mask: one Boolean column per column.
   ===================================================================================================== *)
Definition indexed {B} (l : list B) : list (Z * B) := combine (map Z.of_nat (seq 0 (length l))) l.

Definition bloc_block (cols : list (list A)) (mask : list (list bool)) (start : Z) (n : nat) : list (Z * Z * A) :=
  flat_map (fun irow : Z * (list A * list bool) => flat_map (fun jx : Z * (A * bool) => if snd (snd jx) then [(fst irow, start + fst jx, fst (snd jx))] else [])
                                 (indexed (combine (fst (snd irow)) (snd (snd irow)))))
           (indexed (combine (rows_of n cols) (rows_of n mask))).
Fixpoint M_bloc (t : tb) (mask : list (list bool)) (start : Z) (n : nat) : list (Z * Z * A) :=
  match t with
  | [] => []
  | b :: r => let w := length (b_cols b) in
              bloc_block (b_cols b) (firstn w mask) start n ++ M_bloc r (skipn w mask) (start + Z.of_nat w) n
  end.
(* specification: column by column, down the rows *)
Definition S_bloc (cols : list column) (mask : list (list bool)) : list (Z * Z * A) :=
  flat_map (fun jc : Z * (column * list bool) => flat_map (fun ix : Z * (A * bool) => if snd (snd ix) then [(fst ix, fst jc, fst (snd ix))] else [])
                               (indexed (combine (snd (fst (snd jc))) (snd (snd jc)))))
           (indexed (combine cols mask)).

(* =====================================================================================================
   10. TypeBlocks.dropna_to_keep_locations(axis=1) (type_blocks.py:3040-3070): the isna blocks are all Boolean,
       consolidate_blocks yields ONE array; a lone 1-D block (yielded by reference, still 1-D) is reshaped to one
       column (since fix 35bd018); the condition is applied down every column
   ===================================================================================================== *)
Definition M_dropna_keep_columns (na : A -> bool) (cond : list bool -> bool) (t : tb) : list bool :=
  match t with
  | [b] => map (fun c => negb (cond (map na c))) (b_cols b)            (* the block itself, 1-D reshaped to (n, 1) *)
  | _ => map (fun c => negb (cond (map na c))) (flat_map b_cols t)      (* _concatenate_blocks of the isna blocks *)
  end.
Definition S_dropna_keep_columns (na : A -> bool) (cond : list bool -> bool) (cols : list column) : list bool :=
  map (fun c => negb (cond (map na (snd c)))) cols.

(* =====================================================================================================
   11. TypeBlocks.clip with Frame bounds (type_blocks.py:2465-2577; Frame.clip passes the bound frames' block lists)
       a bound is None (no bound on that side) or the stack of the bound frame's blocks (cells only: the bounds
       are assumed to have the receiver's column dtypes, so np.clip keeps the block dtype)
   ===================================================================================================== *)
Section Clip.
Variable clipc : A -> option A -> option A -> A.          (* np.clip on one cell: minimum(maximum(x, lo), hi) *)

Definition bound_stack := option (list (list (list A))).   (* blocks -> columns -> cells *)
Definition bound_cols := option (list (list A)).

Definition take_bound (s : bound_stack) (w : nat) : option (bound_cols * bound_stack) :=
  match s with
  | None => Some (None, None)                     (* is_element: the same (absent) bound for every block *)
  | Some st => match take_cols st w with
               | Some (cols, st') => Some (Some cols, Some st')
               | None => None
               end
  end.

Definition pop1 (s : bound_cols) : option (option (list A) * bound_cols) :=
  match s with
  | None => Some (None, None)
  | Some [] => None
  | Some (x :: r) => Some (Some x, Some r)
  end.
Definition head_cell (l : option (list A)) : option A := match l with Some (y :: _) => Some y | _ => None end.
Fixpoint clip_column (c : list A) (l h : option (list A)) : list A :=
  match c with
  | [] => []
  | x :: c' => clipc x (head_cell l) (head_cell h) :: clip_column c' (option_map (@tl A) l) (option_map (@tl A) h)
  end.
(* np.clip(block, lb, ub) column by column: column k of the block against column k of each bound *)
Fixpoint clip_cols (cs : list (list A)) (lo hi : bound_cols) : res (list (list A)) :=
  match cs with
  | [] => Ok []
  | c :: r => match pop1 lo, pop1 hi with
              | Some (l, lo'), Some (h, hi') =>
                  match clip_cols r lo' hi' with
                  | Ok out => Ok (clip_column c l h :: out)
                  | Err e => Err e
                  end
              | _, _ => Err "IndexError"
              end
  end.

Fixpoint clip_go (t : tb) (lo hi : bound_stack) : res tb :=
  match t with
  | [] => Ok []
  | b :: r =>
      let w := length (b_cols b) in
      match take_bound lo w, take_bound hi w with
      | Some (lc, lo'), Some (hc, hi') =>
          match clip_cols (b_cols b) lc hc with
          | Err e => Err e
          | Ok cs' => match clip_go r lo' hi' with
                      | Ok r' => Ok (mk_block (b_dtype b) (b_1d b) cs' :: r')
                      | Err e => Err e
                      end
          end
      | _, _ => Err "IndexError"
      end
  end.
Definition M_clip (t : tb) (lo hi : bound_stack) : res tb :=
  match clip_go t lo hi with
  | Err e => Err e
  | Ok bs => from_blocks_gen bs
  end.

(* specification: column j clipped with column j of each bound *)
Definition S_clip (cols : list column) (lo hi : bound_cols) : res (list column) :=
  match clip_cols (map snd cols) lo hi with
  | Ok out => Ok (combine (map fst cols) out)
  | Err e => Err e
  end.
Definition stack_cols (s : bound_stack) : bound_cols := option_map (@concat (list A)) s.
End Clip.

(* =====================================================================================================
   12. Binary operator with a 1-D array applied along the rows (type_blocks.py: _block_shape_slices 2320-2327,
       _ufunc_binary_operator 2372-2376): `other[s] for s in self._block_shape_slices()` -- the array is chopped
       to the width of every block, column k of a block meets element k of its chop
   ===================================================================================================== *)
Section BinopRow.
Context {B : Type}.
Variable opc : A -> B -> A.            (* the operator on one cell *)
Variable fd : dtype -> dtype.          (* result dtype of a block of a dtype *)

Definition binop_block (b : block) (part : list B) : block :=
  mk_block (fd (b_dtype b)) (b_1d b) (map (fun co => map (fun x => opc x (snd co)) (fst co)) (combine (b_cols b) part)).
Fixpoint binop_row_go (t : tb) (start : nat) (other : list B) : tb :=
  match t with
  | [] => []
  | b :: r => let stop := (start + length (b_cols b))%nat in       (* slice(start, end) *)
              binop_block b (firstn (stop - start) (skipn start other)) :: binop_row_go r stop other
  end.
Definition M_binop_row (t : tb) (other : list B) : res tb :=
  if negb (Z.of_nat (length other) =? tb_column_count t) then Err "NotImplementedError"
  else from_blocks_gen (binop_row_go t 0 other).
Definition S_binop_row (cols : list column) (other : list B) : res (list column) :=
  if negb (Nat.eqb (length other) (length cols)) then Err "NotImplementedError"
  else Ok (map (fun co => (fd (fst (fst co)), map (fun x => opc x (snd co)) (snd (fst co)))) (combine cols other)).
End BinopRow.

End Ops.

Arguments frame : clear implicits.
Arguments tb_state : clear implicits.
