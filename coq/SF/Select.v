(* C04 -- selection on Frames and Series: the 2-D specification S_extract on the observed frame, the
   implementation model M_extract of Frame._extract over TypeBlocks._extract/_slice_blocks, and the
   label -> position translation (Index._loc_to_iloc, LocMap, key_from_container_key).
   Models only, no proofs (Proofs/Select*.v).

   Not static-frame (oracles, assumed): NumPy indexing of one array by a row key (b[rk], b[rk, slc] =
   the rows of the key on every column alike, 1-D/2-D/element result shapes as documented), the
   FrozenAutoMap dictionary (label -> first position), np.datetime64 unit conversion (SF/SelectDt.v). *)
Require Import SF.Prelude SF.PySlice SF.Dtype SF.Blocks.

(* the outcomes of the Frame._extract decision tree (shared with the regenerated Gen/Gen_c04.v) *)
Inductive xsrc := SrcFirstBlock | SrcRow0.     (* column_1d_filter(blocks._blocks[0]) or EMPTY_ARRAY  /  blocks.values[0] *)
Inductive xaxis := AxIndex | AxColumns.        (* index=index  /  index=immutable_index_filter(columns) *)
Inductive xname := NameRow | NameColumn.       (* name=name_row  /  name=name_column *)
Inductive xdec := DecSeries (src : xsrc) (idx : xaxis) (name : xname) | DecFrame.

(* the classes of row key TypeBlocks._slice_blocks tells apart when it decides single_row (shared with Gen/Gen_c04.v) *)
Inductive rkkind := RNull | RInt | RSlice | RMask | RIter.
Definition rkkind_eqb (a b : rkkind) : bool :=
  match a, b with
  | RNull, RNull | RInt, RInt | RSlice, RSlice | RMask, RMask | RIter, RIter => true
  | _, _ => false
  end.

Section Select.
Context {A L : Type}.
Variable leqb : L -> L -> bool.          (* label equality (dictionary key equality) *)
Variable rdt : list dtype -> dtype.      (* util.resolve_dtype_iter on >= 2 dtypes *)

(* ------------------------------------------------------------------------------------------------
   observed containers and results *)
Record sframe := mk_sframe {
  sf_index : list L; sf_columns : list L; sf_cols : list (dtype * list A); sf_name : L }.

(* the frame as the implementation holds it: blocks + shape[0] *)
Record mframe := mk_mframe {
  mf_index : list L; mf_columns : list L; mf_blocks : tb A; mf_rows : Z; mf_name : L }.

Definition abs_frame (f : mframe) : sframe :=
  mk_sframe (mf_index f) (mf_columns f) (flatten (mf_blocks f)) (mf_name f).

Inductive xres :=
| XElem (a : A)
| XSeries (idx : list L) (vals : list A) (dt : dtype) (name : L)
| XFrame (idx cols : list L) (data : list (dtype * list A)) (name : L).

(* ------------------------------------------------------------------------------------------------
   one axis: what a positional key denotes *)
Inductive sel := SOne (i : Z) | SMany (ps : list Z).

Definition sel_positions (s : sel) : list Z := match s with SOne i => [i] | SMany ps => ps end.

Definition ckey_sel (k : ckey) (n : Z) : res sel :=
  match k with
  | CInt i => match norm_index i n with Some j => Ok (SOne j) | None => Err "IndexError" end
  | _ => match key_positions k n with Ok ps => Ok (SMany ps) | Err e => Err e end
  end.

(* Index(labels): labels must be unique *)
Fixpoint nodupb (l : list L) : bool :=
  match l with [] => true | x :: r => negb (existsb (leqb x) r) && nodupb r end.
Definition new_index (labels : list L) : res (list L) :=
  if nodupb labels then Ok labels else Err "ErrorInitIndex".

Definition take_rows (rp : list Z) (c : dtype * list A) : option (dtype * list A) :=
  match take_positions (snd c) rp with Some v => Some (fst c, v) | None => None end.

(* dtype of a row taken across columns *)
Definition row_dtype (ds : list dtype) : dtype :=
  match ds with [] => DFlt 8 | [d] => d | _ => rdt ds end.

(* ================================================================================================
   SPECIFICATION.  The cells at (row position, column position) for the addressed positions, in key
   order, each with its labels; a scalar key on an axis removes that axis. *)
Definition S_extract_sel (f : sframe) (rs cs : sel) : res xres :=
  match take_positions (sf_index f) (sel_positions rs),
        take_positions (sf_columns f) (sel_positions cs),
        take_positions (sf_cols f) (sel_positions cs) with
  | Some ridx, Some cidx, Some cols =>
      match opt_all (map (take_rows (sel_positions rs)) cols) with
      | None => Err "IndexError"
      | Some data =>
          match rs, cs with
          | SOne _, SOne _ =>
              match data with [(_, [a])] => Ok (XElem a) | _ => Err "IndexError" end
          | SOne _, SMany _ =>
              cidx' <- new_index cidx;;
              Ok (XSeries cidx' (concat (map snd data)) (row_dtype (map fst data)) (hd (sf_name f) ridx))
          | SMany _, SOne _ =>
              ridx' <- new_index ridx;;
              match data with
              | [(d, v)] => Ok (XSeries ridx' v d (hd (sf_name f) cidx))
              | _ => Err "IndexError"
              end
          | SMany _, SMany _ =>
              ridx' <- new_index ridx;; cidx' <- new_index cidx;;
              Ok (XFrame ridx' cidx' data (sf_name f))
          end
      end
  | _, _, _ => Err "IndexError"
  end.

Definition S_extract (f : sframe) (rk ck : ckey) : res xres :=
  cs <- ckey_sel ck (Z.of_nat (length (sf_cols f)));;
  rs <- ckey_sel rk (Z.of_nat (length (sf_index f)));;
  S_extract_sel f rs cs.

(* ================================================================================================
   IMPLEMENTATION MODEL *)

(* ---- TypeBlocks._slice_blocks: single_row (type_blocks.py:1976-1995) ---- *)
Fixpoint count_true (m : list bool) : Z :=
  match m with [] => 0 | true :: r => 1 + count_true r | false :: r => count_true r end.

(* the decision as a function of the key class and the quantity each class looks at: shape[0], the length of the
   range the slice denotes, mask.sum(), len(key)  (Proofs/SelectDecision.v: equal to the chain REGENERATED from the source into Gen/Gen_c04.v) *)
Definition single_row_dec (kind : rkkind) (rows range_n count len : Z) : bool :=
  match kind with
  | RNull => rows =? 1
  | RInt => true
  | RSlice => range_n =? 1
  | RMask => count =? 1
  | RIter => len =? 1
  end.

Definition single_row (rk : ckey) (nrows : Z) : res bool :=
  match rk with
  | CAll => Ok (nrows =? 1)
  | CInt _ => Ok true
  | CSlice s => match slice_indices s nrows with
                | None => Err "ValueError"
                | Some (a, b, st) => Ok (range_len a b st =? 1)
                end
  | CMask m => Ok (count_true m =? 1)
  | CList l => Ok (Z.of_nat (length l) =? 1)
  end.

(* ---- NumPy: what b[row_key] / b[row_key, slc] returns (ORACLE) ----
   an element, a 1-D array, or a 2-D array given by its columns *)
Inductive sliced := SElem (a : A) | SVec (v : list A) | SMat (cols : list (list A)).

Definition np_rows_1d (rk : ckey) (col : list A) (nrows : Z) : res sliced :=
  match rk with
  | CAll => Ok (SVec col)                         (* row_key_null: block_sliced = b *)
  | CInt i => match py_nth col i with Some a => Ok (SElem a) | None => Err "IndexError" end
  | _ => rp <- key_positions rk nrows;;
         match take_positions col rp with Some v => Ok (SVec v) | None => Err "IndexError" end
  end.

Definition np_rows_2d (rk : ckey) (cols : list (list A)) (nrows : Z) : res sliced :=
  match rk with
  | CAll => Ok (SMat cols)                        (* b[NULL_SLICE, slc] *)
  | CInt i => match norm_index i nrows with    (* validated against shape[0], whatever the width *)
              | None => Err "IndexError"
              | Some j => match opt_all (map (fun c => nth_z c j) cols) with
                          | Some v => Ok (SVec v)  (* one row across the sliced columns: 1-D *)
                          | None => Err "IndexError"
                          end
              end
  | _ => rp <- key_positions rk nrows;;
         match opt_all (map (fun c => take_positions c rp) cols) with
         | Some cs => Ok (SMat cs)
         | None => Err "IndexError"
         end
  end.

Definition mat_rows (cols : list (list A)) : Z :=
  match cols with c :: _ => Z.of_nat (length c) | [] => 0 end.

(* the re-shaping after slicing (type_blocks.py:2010-2022) *)
Definition reshape (sr : bool) (s : sliced) : sliced :=
  match s with
  | SElem a => SVec [a]                                        (* np.array((element,), dtype) *)
  | SVec v => if sr then SMat (map (fun x => [x]) v) else SVec v   (* reshape(1, n) *)
  | SMat cols => if (mat_rows cols =? 1) && negb sr
                 then SVec (concat (map (firstn 1) cols))      (* block_sliced[0] *)
                 else SMat cols
  end.

(* an array as a block of the new TypeBlocks *)
Definition to_block (d : dtype) (s : sliced) : block A :=
  match s with
  | SElem a => mk_block d true [[a]]
  | SVec v => mk_block d true [v]
  | SMat cols => mk_block d false cols
  end.

Definition row_apply (rk : ckey) (sr : bool) (nrows : Z) (b : block A) : res (block A) :=
  s <- (if b_1d b
        then match b_cols b with
             | [col] => np_rows_1d rk col nrows
             | _ => Err "ErrorInitTypeBlocks"          (* not a 1-D array: excluded by wf_tb *)
             end
        else np_rows_2d rk (b_cols b) nrows);;
  Ok (to_block (b_dtype b) (reshape sr s)).

(* ---- TypeBlocks.from_blocks over an iterable of arrays (type_blocks.py:126-166) ---- *)
Record tbr := mk_tbr { tbr_blocks : tb A; tbr_rows : Z; tbr_ncols : Z }.

Definition block_rows (b : block A) : Z := mat_rows (b_cols b).

Definition from_blocks (bs : tb A) (ref_rows : Z) : res tbr :=
  let bs' := filter (fun b => negb (width b =? 0)) bs in       (* c == 0: continue *)
  match bs' with
  | [] => Ok (mk_tbr [] ref_rows 0)                            (* row_count = shape_reference[0] *)
  | b :: r =>
      if forallb (fun b' => block_rows b' =? block_rows b) r
      then Ok (mk_tbr bs' (block_rows b) (Z.of_nat (length (flatten bs'))))
      else Err "ErrorInitTypeBlocks"                           (* mismatched row count *)
  end.

(* ---- TypeBlocks._indices_to_contiguous_pairs as repaired by fix ecbc9f2 (type_blocks.py:1030-1062) ----
   a bundle is contiguous only while it keeps its direction: (x, x+1, x) is two bundles, not one.
   (SF.Blocks.contiguous_go models the rule before the fix and is kept there for the other properties.)
   state: (block, col) of the previous pair, the direction of the bundle once it has two columns,
   the columns collected so far *)
Fixpoint contiguous_go_dir (last_b last_c : Z) (dir : option Z) (bundle_rev : list Z) (rest : list (Z * Z))
  : list (Z * list Z) :=
  match rest with
  | [] => [(last_b, rev bundle_rev)]
  | (bi, col) :: rest' =>
      if (last_b =? bi) && (Z.abs (col - last_c) =? 1) &&
         (match dir with None => true | Some d => col - last_c =? d end)   (* len(bundle) == 1 or same direction *)
      then contiguous_go_dir bi col (Some (col - last_c)) (col :: bundle_rev) rest'
      else (last_b, rev bundle_rev) :: contiguous_go_dir bi col None [col] rest'
  end.

Definition contiguous_bundles_dir (pairs : list (Z * Z)) : list (Z * list Z) :=
  match pairs with
  | [] => []
  | (bi, col) :: rest => contiguous_go_dir bi col None [col] rest
  end.

Definition contiguous_pairs_dir (pairs : list (Z * Z)) : list (Z * slice) :=
  map (fun p => (fst p, cols_to_slice_t (snd p))) (contiguous_bundles_dir pairs).

(* TypeBlocks._key_to_block_slices (retain_key_order) and the column walk over the repaired bundling.
   A Python list of Booleans is a CMask: _slice_blocks turns it into a Boolean array first (fix b1181bc). *)
Definition key_to_block_slices_dir (t : tb A) (k : ckey) : res (list (Z * slice)) :=
  match k with
  | CAll => Ok (all_block_slices t)
  | _ =>
    match key_positions k (Z.of_nat (length (tb_index t))) with
    | Err e => Err e
    | Ok ps =>
        match opt_all (map (nth_z (tb_index t)) ps) with
        | Some pairs => Ok (contiguous_pairs_dir pairs)
        | None => Err "IndexError"
        end
    end
  end.

Definition M_select_columns_dir (t : tb A) (k : ckey) : res (tb A) :=
  match key_to_block_slices_dir t k with
  | Err e => Err e
  | Ok pairs => match slice_blocks t pairs with
                | Some t' => Ok t'
                | None => Err "IndexError"
                end
  end.

(* ---- TypeBlocks._extract (type_blocks.py:2088-2123) ---- *)
Inductive tb_or_elem := TElem (a : A) | TBlocks (t : tbr).

Definition one_column (d : dtype) (v : list A) : tbr :=
  mk_tbr [mk_block d true [v]] (Z.of_nat (length v)) 1.

Definition M_tb_extract (t : tb A) (nrows : Z) (rk ck : ckey) : res tb_or_elem :=
  match ck with
  | CInt c =>
      (* integer column key: one block is touched, no walk *)
      match py_nth (tb_index t) c with
      | None => Err "IndexError"
      | Some (bi, j) =>
          match nth_z t bi with
          | None => Err "IndexError"
          | Some b =>
              match (if b_1d b then nth_z (b_cols b) 0 else nth_z (b_cols b) j) with
              | None => Err "IndexError"
              | Some col =>
                  match rk with
                  | CAll => Ok (TBlocks (one_column (b_dtype b) col))
                  | CInt r => match py_nth col r with
                              | Some a => Ok (TElem a)
                              | None => Err "IndexError"
                              end
                  | _ => rp <- key_positions rk nrows;;
                         match take_positions col rp with
                         | Some v => Ok (TBlocks (one_column (b_dtype b) v))
                         | None => Err "IndexError"
                         end
                  end
              end
          end
      end
  | _ =>
      (* from_blocks(_slice_blocks(row_key, column_key), shape_reference=(rows, ncols)).
         (The code counts the selected rows and computes single_row before walking the column key; the
         order is only visible when BOTH keys are malformed, which the correspondence does not generate.) *)
      match M_select_columns_dir t ck with
      | Err e => Err e
      | Ok t' =>
          sr <- single_row rk nrows;;
          bs <- res_all (map (row_apply rk sr nrows) t');;
          (* shape_reference: the number of rows the key selects (fix dfbaa1d), binding when no block is yielded *)
          ref <- match rk with
                 | CAll | CInt _ => Ok nrows
                 | _ => rp <- key_positions rk nrows;; Ok (Z.of_nat (length rp))
                 end;;
          r <- from_blocks bs ref;;
          Ok (TBlocks r)
      end
  end.

(* ---- Index._extract_iloc (index.py:1010-1033) ---- *)
Inductive axis_out := AxOne (x : L) | AxMany (labels : list L).

Definition axis_extract (labels : list L) (k : ckey) : res axis_out :=
  match k with
  | CAll => Ok (AxMany labels)
  | CInt i => match py_nth labels i with Some x => Ok (AxOne x) | None => Err "IndexError" end
  | _ => ps <- key_positions k (Z.of_nat (length labels));;
         match take_positions labels ps with
         | Some ls => ls' <- new_index ls;; Ok (AxMany ls')
         | None => Err "IndexError"
         end
  end.

Definition is_int (k : ckey) : bool := match k with CInt _ => true | _ => false end.

(* Series(values, index=, name=) and Frame(blocks, index=, columns=, name=): final shape checks *)
Definition mk_series (dv : dtype * list A) (ax : axis_out) (name : L) : res xres :=
  match ax with
  | AxOne _ => Err "ErrorInitSeries"
  | AxMany idx => if (length (snd dv) =? length idx)%nat then Ok (XSeries idx (snd dv) (fst dv) name)
                  else Err "ErrorInitSeries"
  end.

Definition mk_frame (t : tbr) (ri ci : axis_out) (name : L) : res xres :=
  match ri, ci with
  | AxMany idx, AxMany cols =>
      if (Z.of_nat (length idx) =? tbr_rows t) && (Z.of_nat (length cols) =? tbr_ncols t)
      then Ok (XFrame idx cols (flatten (tbr_blocks t)) name)
      else Err "ErrorInitFrame"
  | _, _ => Err "ErrorInitFrame"
  end.

Definition ax_name (ax : axis_out) (d : L) : L := match ax with AxOne x => x | AxMany _ => d end.

(* blocks.values[0]: the first row across all blocks *)
Definition values_row0 (t : tbr) : dtype * list A :=
  let cols := flatten (tbr_blocks t) in
  (row_dtype (map fst cols), concat (map (fun c => firstn 1 (snd c)) cols)).

(* column_1d_filter(blocks._blocks[0]) if blocks._blocks else EMPTY_ARRAY *)
Definition first_block_1d (t : tbr) : dtype * list A :=
  match tbr_blocks t with
  | b :: _ => (b_dtype b, match b_cols b with c :: _ => c | [] => [] end)
  | [] => (DFlt 8, [])
  end.

(* ---- Frame._extract (frame.py:3787-3869) ----
   the decision on the shape of the extracted blocks and on which keys were scalars (axis_nm):
   which array becomes the Series values, which index labels it, which label names it -- or a Frame.
   (Proofs/SelectDecision.v: equal to the tree REGENERATED from the source text into Gen/Gen_c04.v) *)
Definition extract_decision (r c : Z) (nm0 nm1 : bool) : xdec :=
  if (r =? 0) || (c =? 0) then
    if nm0 then DecSeries SrcFirstBlock AxColumns NameRow
    else if nm1 then DecSeries SrcFirstBlock AxIndex NameColumn
    else DecFrame
  else if (r =? 1) && (c =? 1) then
    if nm0 then DecSeries SrcRow0 AxColumns NameRow
    else if nm1 then DecSeries SrcRow0 AxIndex NameColumn
    else DecFrame
  else if r =? 1 then
    if nm0 then DecSeries SrcRow0 AxColumns NameRow else DecFrame
  else if c =? 1 then
    if nm1 then DecSeries SrcFirstBlock AxIndex NameColumn else DecFrame
  else DecFrame.

Definition M_extract (f : mframe) (rk ck : ckey) : res xres :=
  te <- M_tb_extract (mf_blocks f) (mf_rows f) rk ck;;
  match te with
  | TElem a => Ok (XElem a)
  | TBlocks t =>
      ri <- axis_extract (mf_index f) rk;;
      ci <- axis_extract (mf_columns f) ck;;
      (* _extract_axis_not_multi: a key that is not None and not slice / list / ndarray *)
      match extract_decision (tbr_rows t) (tbr_ncols t) (is_int rk) (is_int ck) with
      | DecFrame => mk_frame t ri ci (mf_name f)
      | DecSeries src ax nm =>
          mk_series (match src with SrcFirstBlock => first_block_1d t | SrcRow0 => values_row0 t end)
                    (match ax with AxIndex => ri | AxColumns => ci end)
                    (match nm with NameRow => ax_name ri (mf_name f) | NameColumn => ax_name ci (mf_name f) end)
      end
  end.

(* ================================================================================================
   LABEL KEYS *)
Inductive lkey :=
| LLabel (x : L)
| LList (xs : list L)                       (* list / array / Index of labels *)
| LSlice (a b : option L) (st : option Z)   (* label slice, stop inclusive *)
| LMask (m : list bool)                     (* Boolean array *)
| LBoolSeries (ps : list (L * bool))        (* Boolean Series: aligned by label *)
| LILoc (k : ckey).                         (* ILoc[...] inside a loc key *)

(* the dictionary: first position of a label *)
Fixpoint find_pos (x : L) (labels : list L) (i : Z) : option Z :=
  match labels with
  | [] => None
  | y :: r => if leqb x y then Some i else find_pos x r (i + 1)
  end.

Fixpoint assoc_bool (x : L) (ps : list (L * bool)) : bool :=
  match ps with
  | [] => false                              (* reindex(fill_value=False) *)
  | (y, v) :: r => if leqb x y then v else assoc_bool x r
  end.

(* ---- SPECIFICATION of a label key: the positions of the labels it names ---- *)
Definition inclusive_range (pa pb : option Z) (st : option Z) (n : Z) : res (list Z) :=
  (* positions from label position pa to label position pb INCLUSIVE, walking by st *)
  let step := match st with None => 1 | Some v => v end in
  if step =? 0 then Err "ValueError"
  else if step >? 0 then
    let a := match pa with Some a => a | None => 0 end in
    let b := match pb with Some b => b | None => n - 1 end in
    Ok (range_list a step (Z.to_nat (range_len a (b + 1) step)))
  else
    let a := match pa with Some a => a | None => n - 1 end in
    let b := match pb with Some b => b | None => 0 end in
    Ok (range_list a step (Z.to_nat (range_len a (b - 1) step))).

Definition find_opt (o : option L) (labels : list L) : res (option Z) :=
  match o with
  | None => Ok None
  | Some x => match find_pos x labels 0 with Some i => Ok (Some i) | None => Err "KeyError" end
  end.

Definition S_loc (labels : list L) (k : lkey) : res sel :=
  let n := Z.of_nat (length labels) in
  match k with
  | LLabel x => match find_pos x labels 0 with Some i => Ok (SOne i) | None => Err "KeyError" end
  | LList xs => match opt_all (map (fun x => find_pos x labels 0) xs) with
                | Some ps => Ok (SMany ps)
                | None => Err "KeyError"
                end
  | LSlice a b st => pa <- find_opt a labels;; pb <- find_opt b labels;;
                     ps <- inclusive_range pa pb st n;; Ok (SMany ps)
  | LMask m => ckey_sel (CMask m) n
  | LBoolSeries ps => Ok (SMany (mask_positions (map (fun l => assoc_bool l ps) labels) 0))
  | LILoc k' => ckey_sel k' n
  end.

(* ---- IMPLEMENTATION: Index._loc_to_iloc (index.py:904-970) ---- *)
(* util.slice_to_inclusive_slice, typed (Proofs/SelectIncl.v: equal to the regenerated kernel).
   Walking up the inclusive stop is one position higher; walking down one lower, and "below 0" is None *)
Definition step_up (st : option Z) : bool := match st with None => true | Some s => s >? 0 end.

Definition incl_stop (b : Z) (st : option Z) (offset : Z) : option Z :=
  if step_up st then Some (b + 1 + offset)
  else if b - 1 + offset <? 0 then None else Some (b - 1 + offset).

Definition incl_typed (k : slice) (offset : Z) : slice :=
  mk_slice (match s_start k with None => None | Some a => Some (a + offset) end)
           (match s_stop k with None => None | Some b => incl_stop b (s_step k) offset end)
           (s_step k).

(* key_from_container_key (container_util.py:837-878): Boolean Series -> reindexed Boolean array *)
Definition unpack_key (labels : list L) (k : lkey) : lkey :=
  match k with
  | LBoolSeries ps => LMask (map (fun l => assoc_bool l ps) labels)
  | _ => k
  end.

(* LocMap.loc_to_iloc with a dictionary (index.py:200-265), offset None *)
Definition M_loc_map (labels : list L) (k : lkey) : res ckey :=
  match unpack_key labels k with
  | LILoc k' => Ok k'
  | LSlice None None None => Ok CAll
  | LSlice a b st =>
      (* map_slice_args: label_to_pos on start and stop, stop made inclusive (+1 walking up, -1 walking down), step untouched *)
      match find_opt a labels with
      | Err _ => Err "KeyError"              (* LocInvalid *)
      | Ok pa => match find_opt b labels with
                 | Err _ => Err "KeyError"
                 | Ok pb => Ok (CSlice (mk_slice pa (match pb with Some p => incl_stop p st 0 | None => None end) st))
                 end
      end
  | LMask m => (* positions[key]: an integer array *)
      if Z.of_nat (length m) =? Z.of_nat (length labels) then Ok (CList (mask_positions m 0))
      else Err "IndexError"
  | LList xs => match opt_all (map (fun x => find_pos x labels 0) xs) with
                | Some ps => Ok (CList ps)
                | None => Err "KeyError"
                end
  | LLabel x => match find_pos x labels 0 with Some i => Ok (CInt i) | None => Err "KeyError" end
  | LBoolSeries _ => Err "unreachable"
  end.

(* the loc_is_iloc fast path for auto-integer indices (index.py:934-957, validated since fix 231a672):
   the labels are exactly 0..len-1; an integer outside that range, or a non-integer, is not a label *)
Variable as_z : L -> option Z.            (* the integer a label / key element is, if it is one *)

Definition auto_label (n : Z) (x : L) : option Z :=
  match as_z x with Some z => if (0 <=? z) && (z <? n) then Some z else None | None => None end.

Definition auto_end (n : Z) (o : option L) : res (option Z) :=
  match o with
  | None => Ok None
  | Some x => match as_z x with
              | None => Err "TypeError"             (* 0 <= attr < size on a non-number *)
              | Some z => if (0 <=? z) && (z <? n) then Ok (Some z) else Err "KeyError"   (* LocInvalid *)
              end
  end.

Definition M_loc_auto (labels : list L) (k : lkey) : res ckey :=
  let n := Z.of_nat (length labels) in
  match unpack_key labels k with
  | LILoc k' => Ok k'
  | LSlice a b st =>
      za <- auto_end n a;; zb <- auto_end n b;;
      match za, zb, st with
      | None, None, None => Ok CAll
      | _, _, _ => Ok (CSlice (incl_typed (mk_slice za zb st) 0))
      end
  | LMask m => Ok (CMask m)
  | LList xs => match opt_all (map (auto_label n) xs) with
                | Some zs => Ok (CList zs)
                | None => Err "KeyError"
                end
  | LLabel x => match auto_label n x with Some z => Ok (CInt z) | None => Err "KeyError" end
  | LBoolSeries _ => Err "unreachable"
  end.

Inductive axkind := KMap | KAuto.

(* Which translation the index of a DERIVED container uses.  Index._extract_iloc builds a new Index from the
   selected labels -- self.__class__(labels=labels, name=...) -- which always gets a dictionary; only
   Frame._extract with a null key (None / [:]) hands the source index on unchanged.  Series._extract_iloc
   always goes through Index.iloc.  (Gen/Gen_c04.v: the constructor call is re-read from the source.) *)
Definition is_all (k : ckey) : bool := match k with CAll => true | _ => false end.
Definition derived_kind (is_frame : bool) (k : ckey) (src : axkind) : axkind :=
  if is_frame && is_all k then src else KMap.

Definition M_loc (kind : axkind) (labels : list L) (k : lkey) : res ckey :=
  match kind with KMap => M_loc_map labels k | KAuto => M_loc_auto labels k end.

(* ---- Frame.loc / Frame[] / Frame.iloc with ILoc: _compound_loc_to_iloc (frame.py:3880-3896) ---- *)
Definition M_extract_loc (kr kc : axkind) (f : mframe) (rkey ckey_ : lkey) : res xres :=
  ck <- M_loc kc (mf_columns f) ckey_;;
  rk <- M_loc kr (mf_index f) rkey;;
  M_extract f rk ck.

Definition S_extract_loc (f : sframe) (rkey ckey_ : lkey) : res xres :=
  cs <- S_loc (sf_columns f) ckey_;;
  rs <- S_loc (sf_index f) rkey;;
  S_extract_sel f rs cs.

(* ---- Series (series.py:1382-1412): values[key], index.iloc[key] ---- *)
Record sseries := mk_sseries { ss_index : list L; ss_values : list A; ss_dtype : dtype; ss_name : L }.

Definition S_series_sel (s : sseries) (rs : sel) : res xres :=
  match take_positions (ss_index s) (sel_positions rs), take_positions (ss_values s) (sel_positions rs) with
  | Some idx, Some vals =>
      match rs with
      | SOne _ => match vals with [a] => Ok (XElem a) | _ => Err "IndexError" end
      | SMany _ => idx' <- new_index idx;; Ok (XSeries idx' vals (ss_dtype s) (ss_name s))
      end
  | _, _ => Err "IndexError"
  end.

Definition S_series_iloc (s : sseries) (k : ckey) : res xres :=
  rs <- ckey_sel k (Z.of_nat (length (ss_index s)));; S_series_sel s rs.
Definition S_series_loc (s : sseries) (k : lkey) : res xres :=
  rs <- S_loc (ss_index s) k;; S_series_sel s rs.
(* the implementation hands the translated key to NumPy (values[iloc_key]) and to Index.iloc *)
Definition M_series_loc (kind : axkind) (s : sseries) (k : lkey) : res xres :=
  ik <- M_loc kind (ss_index s) k;; S_series_iloc s ik.

(* ---- Frame.bloc (frame.py:3900-3909, type_blocks.py:2131-2185) ----
   key: one Boolean column per frame column.  The implementation walks block by block (row-major
   inside a 2-D block); the specification is the set of addressed cells with their label pairs. *)
Fixpoint zip_sel {B} (m : list bool) (l : list B) : list B :=
  match m, l with
  | true :: m', x :: l' => x :: zip_sel m' l'
  | false :: m', _ :: l' => zip_sel m' l'
  | _, _ => []
  end.

(* S: column by column *)
Definition S_bloc (f : sframe) (key : list (list bool)) : list ((L * L) * A) :=
  concat (map (fun p => let '(cl, (c, m)) := p in
                        map (fun ra => ((fst ra, cl), snd ra)) (zip_sel m (combine (sf_index f) (snd c))))
              (combine (sf_columns f) (combine (sf_cols f) key))).

(* M: per block, row-major: for every row, the selected cells of that row *)
Fixpoint transpose_rows {B} (nrows : nat) (cols : list (list B)) : list (list B) :=
  match nrows with
  | O => []
  | S n => concat (map (firstn 1) cols) :: transpose_rows n (map (fun c => skipn 1 c) cols)
  end.

Fixpoint M_bloc_blocks (idx : list L) (t : tb A) (cls : list L) (key : list (list bool)) : list ((L * L) * A) :=
  match t with
  | [] => []
  | b :: r =>
      let w := length (b_cols b) in
      let cl := firstn w cls in
      let km := firstn w key in
      let rows_v := transpose_rows (length idx) (b_cols b) in
      let rows_k := transpose_rows (length idx) km in
      concat (map (fun p => let '(rl, (vs, ks)) := p in
                            map (fun ca => ((rl, fst ca), snd ca)) (zip_sel ks (combine cl vs)))
                  (combine idx (combine rows_v rows_k)))
      ++ M_bloc_blocks idx r (skipn w cls) (skipn w key)
  end.

Definition M_bloc (f : mframe) (key : list (list bool)) : list ((L * L) * A) :=
  M_bloc_blocks (mf_index f) (mf_blocks f) (mf_columns f) key.

End Select.

Arguments sframe : clear implicits.
Arguments mframe : clear implicits.
Arguments sseries : clear implicits.
Arguments xres : clear implicits.
Arguments lkey : clear implicits.
Arguments axis_out : clear implicits.
Arguments tbr : clear implicits.
Arguments tb_or_elem : clear implicits.
Arguments sliced : clear implicits.
