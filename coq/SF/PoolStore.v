(* C18 -- zipped stores with worker pools (store_zip.py:95-176) and the alignment of worker settings
   in StoreConfigMap (store.py:319-389).  Executable models, no proofs.  The two `multiprocess`
   decisions and the aligned-attribute tuple come from Gen/Gen_c18.v, regenerated from the source on
   every run. *)
Require Import SF.Prelude SF.Pool Gen.Gen_c18.

Section ZipStore.
  Context {L F Y : Type}.                  (* labels, frames, member bytes *)
  Variable label_eqb : L -> L -> bool.
  Variable to_bytes : (L * F) -> res Y.    (* _payload_to_bytes(payload)[1]; the label rides inside the payload *)
  Variable of_bytes : (L * Y) -> res F.    (* _payload_to_frame / _build_frame(src, name=label, config, constructor) *)

  Definition archive := list (L * Y).      (* members of the zip in the order written *)

  Definition write_job (p : L * F) : res (L * Y) :=
    match to_bytes p with Ok y => Ok (fst p, y) | Err e => Err e end.

  (* write, serial: (self._payload_to_bytes(x) for x in gen()) *)
  Definition S_zip_write (items : list (L * F)) : res archive := seq_map write_job items.

  (* ProcessPoolExecutor(max_workers=None) sizes itself to the machine; any positive number will do *)
  Definition default_workers : Z := 4.
  Definition pool_size (w : option Z) : Z := match w with Some k => k | None => default_workers end.

  (* write: multiprocess (generated decision) ? executor.map(_payload_to_bytes, gen(), chunksize) : serial *)
  Definition M_zip_write (workers : option Z) (c : Z) (pi : list nat) (items : list (L * F)) : res archive :=
    if c18_write_multiprocess workers then exec_map write_job Procs (pool_size workers) c pi items
    else seq_map write_job items.

  Fixpoint zf_read (l : L) (z : archive) : res Y :=
    match z with
    | [] => Err "KeyError"
    | (l', y) :: t => if label_eqb l l' then Ok y else zf_read l t
    end.

  Definition read_payload (z : archive) (l : L) : res (L * Y) :=
    match zf_read l z with Ok y => Ok (l, y) | Err e => Err e end.

  (* read_many, serial: for label in labels: src = zf.read(label); yield _build_frame(src, label) *)
  Definition S_zip_read_many (z : archive) (labels : list L) : res (list F) :=
    seq_map (fun l => match read_payload z l with Ok p => of_bytes p | Err e => Err e end) labels.

  (* read_many, multiprocess: the pool is created, map() checks chunksize, then consumes the payload
     generator gen() (member bytes are read in the parent), the workers build the frames *)
  Definition M_zip_read_many (workers : option Z) (c : Z) (pi : list nat) (z : archive) (labels : list L)
    : res (list F) :=
    if c18_read_multiprocess workers then
      let k := pool_size workers in
      if (k <=? 0) || (c <? 1) then Err "ValueError"
      else match seq_map (read_payload z) labels with
           | Err e => Err e
           | Ok payloads => exec_map of_bytes Procs k c pi payloads
           end
    else S_zip_read_many z labels.
End ZipStore.

(* ------------------------------------------------------------------ StoreConfigMap (store.py:356-389) *)
(* the attributes that matter here; encoders/decoders are identified by a number *)
Record wcfg := mk_wcfg {
  w_label_encoder : Z;
  w_label_decoder : Z;
  w_read_max_workers : option Z;
  w_read_chunksize : Z;
  w_write_max_workers : option Z;
  w_write_chunksize : Z
}.

Definition oz_eqb := option_eqb Z.eqb.

(* getattr(config, attr) != getattr(default, attr), attribute by name; an attribute this model does
   not know compares equal (it cannot make the constructor fail here) *)
Definition attr_differs (attr : string) (a b : wcfg) : bool :=
  if String.eqb attr "label_encoder" then negb (w_label_encoder a =? w_label_encoder b)
  else if String.eqb attr "label_decoder" then negb (w_label_decoder a =? w_label_decoder b)
  else if String.eqb attr "read_max_workers" then negb (oz_eqb (w_read_max_workers a) (w_read_max_workers b))
  else if String.eqb attr "read_chunksize" then negb (w_read_chunksize a =? w_read_chunksize b)
  else if String.eqb attr "write_max_workers" then negb (oz_eqb (w_write_max_workers a) (w_write_max_workers b))
  else if String.eqb attr "write_chunksize" then negb (w_write_chunksize a =? w_write_chunksize b)
  else false.

Record config_map {L : Type} := mk_config_map { cm_default : wcfg; cm_map : list (L * wcfg) }.
Arguments config_map L : clear implicits.

Definition config_aligned (default cfg : wcfg) : bool :=
  forallb (fun attr => negb (attr_differs attr cfg default)) c18_align_with_default_attrs.

(* StoreConfigMap(config_map, default=default): every per-label config is checked against the default *)
Definition config_map_init {L} (default : wcfg) (m : list (L * wcfg)) : res (config_map L) :=
  if forallb (fun p => config_aligned default (snd p)) m then Ok (mk_config_map L default m)
  else Err "ErrorInitStoreConfig".

(* config_map[label]: self._map.get(key, self._default) *)
Fixpoint cm_find {L} (eqb : L -> L -> bool) (l : L) (m : list (L * wcfg)) : option wcfg :=
  match m with
  | [] => None
  | (l', c) :: t => if eqb l l' then Some c else cm_find eqb l t
  end.
Definition cm_get {L} (eqb : L -> L -> bool) (cm : config_map L) (l : L) : wcfg :=
  match cm_find eqb l (cm_map cm) with Some c => c | None => cm_default cm end.

(* the attribute of a config that a pool setting name denotes *)
Definition pool_attr_differs (attrs : list string) (a b : wcfg) : bool :=
  existsb (fun attr => attr_differs attr a b) attrs.

(* ------------------------------------------------------------------ argument shapes (regenerated from node_iter.py) *)
(* the positional arguments the applied function receives for one (key, value) item *)
Definition shape_args {K V : Type} (sh : c18_shape) (k : K) (v : V) : list (K + V) :=
  match sh with
  | ShV => [inr v]
  | ShK => [inl k]
  | ShKV => [inl k; inr v]
  | ShVK => [inr v; inl k]
  end.
