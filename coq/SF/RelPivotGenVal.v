(* C20 -- the model side of Frame.pivot at observed values: it reads the two decisions REGENERATED from the
   source (Gen/Gen_c20.v).  Kept apart from SF/RelPivotVal.v so that the specification checkers do not depend
   on the generated file. *)
Require Import SF.Prelude SF.Dtype SF.Value Gen.Gen_c20 SF.RelJoinVal SF.RelStack SF.RelStackVal SF.RelPivot SF.RelPivotVal.

Definition M_pivot_v (fill : val) (show_d show_f : bool) (dnames : list val) (funcs : list nfunc) (rows : list vprow) : vsframe :=
  pivot_view show_d show_f dnames
    (M_pivot tup_eqb tup_eqb sort_tups sort_tups apply_nfunc gen_pivot_single_row_bypasses_func gen_pivot_unique_group_takes_raw fill (length dnames) funcs rows).

Definition M_pivot0_v (fill : val) (show_f : bool) (dnames : list val) (funcs : list nfunc) (rows : list vprow) : vsframe :=
  pivot0_view show_f dnames (M_pivot0 tup_eqb sort_tups apply_nfunc gen_pivot_single_row_bypasses_func fill (length dnames) funcs rows).

(* has_cols = false: no columns_fields *)
Definition pivot_m_ok (has_cols : bool) (fill : val) (show_d show_f : bool) (dnames : list val) (funcs : list nfunc)
                      (rows : list vprow) (obs : res vsframe) : bool :=
  match obs with
  | Ok o => vsframe_eqb (if has_cols then M_pivot_v fill show_d show_f dnames funcs rows
                         else M_pivot0_v fill show_f dnames funcs rows) o
  | Err _ => false
  end.
