(* C09 -- the grow-only models instantiated at the observed value type `val`, and the functions
   that compare a recorded history of the implementation with the model M and the specification S.
   (Executable definitions only.) *)
Require Import SF.Prelude SF.Dtype SF.Value SF.PyDyn SF.GrowOnly Gen.Gen_util.

(* Python equality of labels *)
Definition lab_eq : val -> val -> bool := py_val_eq.

(* isinstance(label, INT_TYPES): int and bool (a subclass of int) *)
Definition val_as_pos (v : val) : option Z :=
  match v with
  | VInt z => Some z
  | VBool b => Some (if b then 1 else 0)
  | _ => None
  end.

(* a cell stored into an array of dtype d: ints and bools become floats in a float array *)
Definition cast_val (d : dtype) (v : val) : val :=
  match d, v with
  | DFlt _, VInt z => VFlt z 1
  | DFlt _, VBool b => VFlt (if b then 1 else 0) 1
  | _, _ => v
  end.

(* util.resolve_dtype as REGENERATED from /repo (Gen/Gen_util.v) *)
Definition v_resolve (a b : dtype) : dtype :=
  match resolve_dtype (PDtype a) (PDtype b) with
  | PDtype d => d
  | _ => DObj
  end.

Notation vigo := (igo val).
Notation vfgo := (fgo val val).
Notation vsfr := (sfr val val).
Notation viop := (iop val).
Notation vgop := (gop val val).
Notation vblk := (blk val).

Definition vM_istep := M_istep val lab_eq val_as_pos.
Definition vS_istep := S_istep val lab_eq.
Definition vM_step := M_step val val lab_eq val_as_pos cast_val v_resolve.
Definition vS_step := S_step val val lab_eq cast_val v_resolve.

Definition outcome_eqb (a b : outcome) : bool :=
  match a, b with
  | Ok _, Ok _ => true
  | Err x, Err y => String.eqb x y
  | _, _ => false
  end.
Definition okness_eqb (a b : outcome) : bool := Bool.eqb (is_ok a) (is_ok b).

Definition labs_eqb := list_eqb lab_eq.
Definition locs_eqb := list_eqb (option_eqb Z.eqb).
Definition col_eqb' (a b : dtype * list val) : bool := dtype_eqb (fst a) (fst b) && list_eqb val_eqb (snd a) (snd b).
Definition cols_eqb := list_eqb col_eqb'.

(* ---------------------------------------------------------------- IndexGO histories *)
(* one recorded step: the call, its outcome, and (when the harness looked) what was seen after it *)
Definition istep_rec := (viop * outcome * option (iobs val))%type.

Definition iobs_eqb (a b : iobs val) : bool :=
  labs_eqb (io_labels a) (io_labels b) && (io_npos a =? io_npos b) && locs_eqb (io_locs a) (io_locs b).

Fixpoint check_igo_M_from (s : vigo) (h : list istep_rec) : bool :=
  match h with
  | [] => true
  | (op, out, seen) :: r =>
      let '(s1, o) := vM_istep s op in
      outcome_eqb o out &&
      match seen with
      | None => check_igo_M_from s1 r
      | Some ob => iobs_eqb (M_iobserve val lab_eq val_as_pos s1) ob &&
                   check_igo_M_from (M_refresh s1) r
      end
  end.

Definition igo_init (auto : bool) (labels : list val) : res vigo :=
  if auto then Ok (M_inew_auto val labels) else M_inew val lab_eq labels.

Definition check_igo_M (auto : bool) (labels : list val) (h : list istep_rec) : bool :=
  match igo_init auto labels with
  | Ok s => check_igo_M_from s h
  | Err _ => false
  end.

Fixpoint check_igo_S (l : list val) (h : list istep_rec) : bool :=
  match h with
  | [] => true
  | (op, out, seen) :: r =>
      let '(l1, o) := vS_istep l op in
      okness_eqb o out &&
      match seen with
      | None => true
      | Some ob => iobs_eqb (S_iobserve val l1) ob
      end && check_igo_S l1 r
  end.

(* ---------------------------------------------------------------- FrameGO histories *)
Record fseen := mk_fseen {
  fs_labels : list val;
  fs_npos : Z;
  fs_cols : list (dtype * list val);
  fs_shape : Z * Z;
  fs_layout : list (Z * bool);        (* (width, is 2-D) of every block, for M only *)
  fs_readable : list bool             (* reading by label i gives data column i, for S only *)
}.

Definition fstep_rec := (vgop * outcome * option fseen)%type.

Definition layout_of (t : tb val) : list (Z * bool) :=
  map (fun b => (blk_width b, b_2d b)) (t_blocks t).

Definition layout_eqb := list_eqb (fun a b : Z * bool => (fst a =? fst b) && Bool.eqb (snd a) (snd b)).

Definition fobs_M_eqb (f : vfgo) (ob : fseen) : bool :=
  let m := M_fobserve val val lab_eq val_as_pos f in
  labs_eqb (fo_labels m) (fs_labels ob) && (fo_npos m =? fs_npos ob) &&
  cols_eqb (fo_cols m) (fs_cols ob) &&
  (fst (fo_shape m) =? fst (fs_shape ob)) && (snd (fo_shape m) =? snd (fs_shape ob)) &&
  layout_eqb (layout_of (f_tb f)) (fs_layout ob).

Fixpoint check_fgo_M_from (f : vfgo) (h : list fstep_rec) : bool :=
  match h with
  | [] => true
  | (op, out, seen) :: r =>
      let '(f1, o) := vM_step f op in
      outcome_eqb o out &&
      match seen with
      | None => check_fgo_M_from f1 r
      | Some ob => fobs_M_eqb f1 ob &&
                   check_fgo_M_from (mk_fgo (f_rows f1) (M_refresh (f_cols f1)) (f_tb f1)) r
      end
  end.

Definition fgo_init (auto : bool) (rows labels : list val) (blocks : list vblk) : res vfgo :=
  match igo_init auto labels with
  | Ok c => Ok (mk_fgo rows c (tb_of_blocks val (zlen rows) blocks))
  | Err e => Err e
  end.

Definition check_fgo_M (auto : bool) (rows labels : list val) (blocks : list vblk) (h : list fstep_rec) : bool :=
  match fgo_init auto rows labels blocks with
  | Ok f => fgo_wfb val val lab_eq val_as_pos f && check_fgo_M_from f h
  | Err _ => false
  end.

Definition fobs_S_eqb (f : vsfr) (ob : fseen) : bool :=
  let m := S_fobserve val val f in
  labs_eqb (fo_labels m) (fs_labels ob) && (fo_npos m =? fs_npos ob) &&
  cols_eqb (fo_cols m) (fs_cols ob) &&
  (fst (fo_shape m) =? fst (fs_shape ob)) && (snd (fo_shape m) =? snd (fs_shape ob)) &&
  list_eqb Bool.eqb (fo_readable m) (fs_readable ob).

Fixpoint check_fgo_S_from (f : vsfr) (h : list fstep_rec) : bool :=
  match h with
  | [] => true
  | (op, out, seen) :: r =>
      let '(f1, o) := vS_step f op in
      okness_eqb o out &&
      match seen with
      | None => true
      | Some ob => fobs_S_eqb f1 ob
      end && check_fgo_S_from f1 r
  end.

Definition check_fgo_S (rows labels : list val) (blocks : list vblk) (h : list fstep_rec) : bool :=
  check_fgo_S_from (mk_sfr rows labels (flat_map blk_flat blocks)) h.
