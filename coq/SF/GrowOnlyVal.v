(* C09 -- the world model (which follows the REGENERATED sharing tables) compared with recorded worlds.
   Everything else that compares recorded histories with M and S is in SF/GrowOnlySpec.v. *)
Require Import SF.Prelude SF.Dtype SF.Value SF.PyDyn SF.GrowOnly SF.GrowOnlyHier SF.GrowOnlyShare SF.GrowOnlySpec
  Gen.Gen_util Gen.Gen_c09 SF.GrowOnlyWorld.

Notation vworld := (world val val).
Notation vwop := (wop val val).

Definition wstep_rec := (vwop * outcome * wseen)%type.

Definition zpairs_eqb := list_eqb (fun a b : Z * Z => (fst a =? fst b) && (snd a =? snd b)).

Definition w_views (w : vworld) : list fview :=
  flat_map (fun j => match w_observe val val w j with
                     | Some (k, _, labels, cols) => [(k, labels, cols)]
                     | None => []
                     end) (seq 0 (length (w_frames w))).

Fixpoint pairs_from (i : nat) (x : nat) (rest : list nat) (j : nat) : list (Z * Z) :=
  match rest with
  | [] => []
  | y :: r => (if Nat.eqb x y then [(Z.of_nat i, Z.of_nat j)] else []) ++ pairs_from i x r (S j)
  end.
Fixpoint same_pairs (l : list nat) (i : nat) : list (Z * Z) :=
  match l with
  | [] => []
  | x :: r => pairs_from i x r (S i) ++ same_pairs r (S i)
  end.

Definition w_seen_eqb (w : vworld) (ob : wseen) : bool :=
  list_eqb fview_eqb (w_views w) (ws_frames ob) &&
  zpairs_eqb (same_pairs (map fr_cols (w_frames w)) 0) (ws_same_columns ob) &&
  zpairs_eqb (same_pairs (map fr_tb (w_frames w)) 0) (ws_same_blocks ob).

Fixpoint check_world_M_from (w : vworld) (hist : list wstep_rec) : bool :=
  match hist with
  | [] => true
  | (op, out, seen) :: r =>
      let '(w1, o) := wstep val val lab_eq val_as_pos cast_val v_resolve w op in
      outcome_eqb o out && w_seen_eqb w1 seen && check_world_M_from w1 r
  end.

Definition check_world_M (k : fcls) (auto : bool) (rows labels : list val) (blocks : list vblk) (hist : list wstep_rec) : bool :=
  match igo_init auto labels with
  | Ok c => check_world_M_from (mk_world [(negb (cls_go k), c)] [tb_of_blocks val v_resolve (zlen rows) blocks] [mk_frm k rows 0%nat 0%nat]) hist
  | Err _ => false
  end.

