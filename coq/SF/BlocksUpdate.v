(* C08 -- IMPLEMENTATION MODELS of the block walks behind drop / mask / astype / assign / insert
   (static_frame/core/type_blocks.py).  Each walk enumerates the blocks once and consumes an iterator of
   (block index, slice) targets produced by _key_to_block_slices; a target that does not belong to the
   current block stays pending (so targets that are NOT ascending are silently skipped -- the model keeps
   that behaviour).  Models only, no proofs (Proofs/BlocksUpdate*.v).

   Row keys are NumPy's business (np.delete / a[row_key] = v on every block alike): they appear as
   functions on one column that are mapped over the columns. *)
Require Import SF.Prelude SF.PySlice SF.Dtype SF.Blocks.
(* which walks ask for ascending targets: constants REGENERATED from the source on every run *)
Require Import Gen.Gen_c08.

(* ---- util.slice_to_ascending_slice, typed (Proofs/BlocksUpdateKey.v: equal to Proofs.AscSliceRefine.asc_typed,
   which is proved equal to the kernel REGENERATED from the source) ---- *)
Definition asc_tail_t (k : slice) (st n : Z) : slice :=
  let stop' := match s_start k with None => None | Some a => Some (a + 1) end in
  if st =? -1 then mk_slice (match s_stop k with None => None | Some b => Some (b + 1) end) stop' (Some 1)
  else
    let s := Z.abs st in
    let a := match s_start k with None => n - 1 | Some a => Z.min (n - 1) a end in
    let a' := match s_stop k with None => a - s * (a / s) | Some b => a - s * ((a - b - 1) / s) end in
    mk_slice (Some a') stop' (Some s).

Definition neg_bound_t (k : slice) : bool :=
  match s_start k with Some a => a <? 0 | None => false end ||
  match s_stop k with Some b => b <? 0 | None => false end.

Definition asc_slice_t (k : slice) (n : Z) : slice :=
  match s_step k with
  | None => k
  | Some st =>
    if st >? 0 then k else
    if neg_bound_t k then
      let a := adj_bound (s_start k) n st true in
      let b := adj_bound (s_stop k) n st false in
      if a <? 0 then mk_slice (Some 0) (Some 0) None
      else asc_tail_t (mk_slice (Some a) (if b <? 0 then None else Some b) (Some st)) st n
    else asc_tail_t k st n
  end.

(* np.sort of a Boolean array: the False entries first *)
Definition sort_bools (m : list bool) : list bool :=
  filter negb m ++ filter (fun b => b) m.

(* a negative position counts from the end (normalised before sorting since fixes c80a0ec) *)
Definition norm_pos (n x : Z) : Z := if (- n <=? x) && (x <? 0) then x + n else x.

(* how a key is made ascending: slices through slice_to_ascending_slice, lists / integer arrays through sorted() /
   np.sort -- of the positions with negatives normalised when `normalise`, of the raw integers otherwise
   (the behaviour before fix c80a0ec); integers, masks and the null slice are ascending already *)
Definition asc_key_with (normalise : bool) (k : ckey) (n : Z) : ckey :=
  match k with
  | CSlice s => CSlice (asc_slice_t s n)
  | CList l => CList (sort_z (if normalise then map (norm_pos n) l else l))
  | _ => k
  end.

(* TypeBlocks._key_to_block_slices(retain_key_order=False); the flag is REGENERATED from the source (Gen_c08) *)
Definition asc_key (k : ckey) (n : Z) : ckey := asc_key_with block_slices_sorted_normalises_negatives k n.

(* container_util.key_to_ascending_key (used by FrameAssignILoc); `as_array` says the key is an ndarray, not a list.
   The flags are REGENERATED from the source: a Boolean array is returned unchanged (before fix dc30af2 it went
   through np.sort like an array of positions) *)
Definition ascending_key (k : ckey) (n : Z) (as_array : bool) : ckey :=
  match k with
  | CMask m => if as_array && negb ascending_key_boolean_array_unchanged then CMask (sort_bools m) else k
  | _ => asc_key_with (if as_array then ascending_key_array_normalises_negatives
                       else ascending_key_list_normalises_negatives) k n
  end.

(* GUARD of the refinement theorems: a list key denotes pairwise different positions (after normalisation of the
   negative ones) and a slice step is not 0 *)
Fixpoint nodupb (l : list Z) : bool :=
  match l with
  | [] => true
  | x :: r => negb (existsb (Z.eqb x) r) && nodupb r
  end.

Definition walk_dom (k : ckey) (n : Z) : bool :=
  match k with
  | CList l => nodupb (map (norm_pos n) l)
  | CSlice s => match s_step s with Some st => negb (st =? 0) | None => true end   (* step 0 is a ValueError *)
  | _ => true
  end.

Section BlocksUpdate.
Context {A : Type}.
Notation block := (block A).
Notation tb := (tb A).

Definition ncols (t : tb) : Z := Z.of_nat (length (tb_index t)).

Definition block_slices_asc (t : tb) (k : ckey) : res (list (Z * slice)) :=
  key_to_block_slices t (asc_key k (ncols t)).

(* _key_to_block_slices(key, retain_key_order=retain) *)
Definition block_slices_for (retain : bool) (t : tb) (k : ckey) : res (list (Z * slice)) :=
  if retain then key_to_block_slices t k else block_slices_asc t k.

(* b[:, s] of a 2-D block *)
Definition cols_slice (b : block) (s : slice) : option block :=
  match slice_list (b_cols b) s with
  | Some cols => Some (mk_block (b_dtype b) false cols)
  | None => None
  end.

Definition block_map_rows (f : list A -> list A) (b : block) : block :=
  mk_block (b_dtype b) (b_1d b) (map f (b_cols b)).

(* TypeBlocks.from_blocks skips arrays with 0 columns *)
Definition from_blocks (bs : list block) : tb := filter (fun b => 0 <? width b) bs.

Definition is_nil {B} (l : list B) : bool := match l with [] => true | _ => false end.

(* ... and cannot derive a row count when it is handed no array at all and no shape_reference *)
Definition from_blocks_strict (bs : list block) : res tb :=
  if is_nil bs then Err "ErrorInitTypeBlocks" else Ok (from_blocks bs).

(* ============ TypeBlocks._drop_blocks (type_blocks.py:1342-1433 at e1c1c73) ============ *)
(* the `while targets_remain` loop for one block: returns (targets still pending, parts, drop_block,
   part_start_last) *)
Fixpoint drop_inner (b : block) (bi : Z) (ts : list (Z * slice)) (drop : bool) (psl : Z)
  : res (list (Z * slice) * list block * bool * Z) :=
  match ts with
  | [] => Ok ([], [], drop, psl)                              (* StopIteration: targets_remain = False *)
  | (tbi, sl) :: ts' =>
    if negb (bi =? tbi) then Ok (ts, [], drop, psl)           (* need to advance blocks *)
    else if b_1d b || (width b =? 1) then Ok (ts', [], true, 1)
    else match s_start sl, s_stop sl with
         | Some t0, Some t1 =>
           if (t0 =? 0) && (t1 =? width b) then drop_inner b bi ts' true t1
           else if t0 >? psl then
             match cols_slice b (mk_slice (Some psl) (Some t0) None), drop_inner b bi ts' drop t1 with
             | Some p, Ok (rest, parts, d, l) => Ok (rest, p :: parts, d, l)
             | None, _ => Err "IndexError"
             | _, Err e => Err e
             end
           else drop_inner b bi ts' drop t1
         | _, _ => Err "AssertionError"
         end
  end.

Fixpoint drop_walk (bi : Z) (t : tb) (ts : list (Z * slice)) : res (list block) :=
  match t with
  | [] => Ok []
  | b :: r =>
    match drop_inner b bi ts false 0 with
    | Err e => Err e
    | Ok (ts', parts, drop, psl) =>
      let parts' := if negb (b_1d b) && (0 <? psl) && (psl <? width b)
                    then match cols_slice b (mk_slice (Some psl) None None) with
                         | Some p => parts ++ [p]
                         | None => parts
                         end
                    else parts in
      let out := if is_nil parts' then (if drop then [] else [b]) else parts' in
      match drop_walk (bi + 1) r ts' with
      | Ok rest => Ok (out ++ rest)
      | Err e => Err e
      end
    end
  end.

(* column_key None = drop no column (NOT the null slice) *)
Definition M_drop_blocks (t : tb) (ck : option ckey) (rowf : list A -> list A) : res tb :=
  match (match ck with
         | None => Ok []
         | Some k => if is_nil t then Err "IndexError" else block_slices_for retain_key_order_drop_blocks t k
         end) with
  | Err e => Err e
  | Ok ts => match drop_walk 0 t ts with
             | Ok bs => Ok (from_blocks (map (block_map_rows rowf) bs))
             | Err e => Err e
             end
  end.

(* ============ TypeBlocks._mask_blocks (type_blocks.py:1112-1153) ============ *)
Fixpoint set_flags (flags : list bool) (j : Z) (js : list Z) : list bool :=
  match flags with
  | [] => []
  | f :: r => (f || existsb (Z.eqb j) js) :: set_flags r (j + 1) js
  end.

Fixpoint mask_inner (b : block) (bi : Z) (ts : list (Z * slice)) (flags : list bool)
  : res (list (Z * slice) * list bool) :=
  match ts with
  | [] => Ok ([], flags)
  | (tbi, sl) :: ts' =>
    if negb (bi =? tbi) then Ok (ts, flags)
    else if b_1d b then mask_inner b bi ts' (map (fun _ => true) flags)      (* mask[row_key] = True *)
    else match positions sl (width b) with                                   (* mask[row_key, target_slice] = True *)
         | Some js => mask_inner b bi ts' (set_flags flags 0 js)
         | None => Err "ValueError"
         end
  end.

Fixpoint mask_walk (bi : Z) (t : tb) (ts : list (Z * slice)) (on off : list A) : res (list block) :=
  match t with
  | [] => Ok []
  | b :: r =>
    match mask_inner b bi ts (map (fun _ => false) (b_cols b)) with
    | Err e => Err e
    | Ok (ts', flags) =>
      match mask_walk (bi + 1) r ts' on off with
      | Ok rest => Ok (mk_block DBool (b_1d b) (map (fun f : bool => if f then on else off) flags) :: rest)
      | Err e => Err e
      end
    end
  end.

Definition M_mask_blocks (t : tb) (k : ckey) (on off : list A) : res tb :=
  match block_slices_for retain_key_order_mask_blocks t k with
  | Err e => Err e
  | Ok ts => match mask_walk 0 t ts on off with
             | Ok bs => from_blocks_strict bs
             | Err e => Err e
             end
  end.

(* ============ TypeBlocks._astype_blocks (type_blocks.py:1155-1225) ============
   `conv d cells` is NumPy's cells.astype(dtype) for cells of dtype d *)
Section AsType.
Variable dt : dtype.
Variable conv : dtype -> list A -> list A.
Variable int_key : bool.      (* an integer column key: the target b[:, i] is a 1-D array *)

Definition astype_block (b : block) : block :=
  mk_block dt (b_1d b || int_key) (map (conv (b_dtype b)) (b_cols b)).

Fixpoint astype_inner (b : block) (bi : Z) (ts : list (Z * slice)) (psl : Z)
  : res (list (Z * slice) * list block * Z) :=
  match ts with
  | [] => Ok ([], [], psl)
  | (tbi, sl) :: ts' =>
    if negb (bi =? tbi) then Ok (ts, [], psl)
    else if dtype_eqb dt (b_dtype b) then astype_inner b bi ts' psl        (* nothing to do for this target *)
    else if b_1d b then Ok (ts', [astype_block b], 1)
    else match s_start sl, s_stop sl with
         | Some t0, Some t1 =>
           match cols_slice b sl, astype_inner b bi ts' t1 with
           | Some tgt, Ok (rest, parts, l) =>
             let pre := if t0 >? psl
                        then match cols_slice b (mk_slice (Some psl) (Some t0) None) with Some p => [p] | None => [] end
                        else [] in
             Ok (rest, pre ++ astype_block tgt :: parts, l)
           | None, _ => Err "IndexError"
           | _, Err e => Err e
           end
         | _, _ => Err "AssertionError"
         end
  end.

Fixpoint astype_walk (bi : Z) (t : tb) (ts : list (Z * slice)) : res (list block) :=
  match t with
  | [] => Ok []
  | b :: r =>
    match astype_inner b bi ts 0 with
    | Err e => Err e
    | Ok (ts', parts, psl) =>
      let parts' := if negb (b_1d b) && (psl <? width b)
                    then match cols_slice b (mk_slice (Some psl) None None) with
                         | Some p => parts ++ [p]
                         | None => parts
                         end
                    else parts in
      let out := if is_nil parts' then [b] else parts' in
      match astype_walk (bi + 1) r ts' with
      | Ok rest => Ok (out ++ rest)
      | Err e => Err e
      end
    end
  end.

Definition M_astype_blocks (t : tb) (k : ckey) : res tb :=
  match block_slices_for retain_key_order_astype_blocks t k with
  | Err e => Err e
  | Ok ts => match astype_walk 0 t ts with
             | Ok bs => from_blocks_strict bs
             | Err e => Err e
             end
  end.
End AsType.

(* ============ TypeBlocks._assign_from_iloc_by_unit (type_blocks.py:1574-1683), column part ============
   The column key was made ascending by the caller (FrameAssignILoc: key_to_ascending_key) and is walked with
   retain_key_order=True.  `is_slice` = the targets are slices (False only for an integer column key);
   `sliceable` = the value has a length and is not a string, so that a piece of it is cut off for every slice
   target.  `newdt d` = dtype of an assigned region cut from a block of dtype d; `cells v old` = the old cells
   with value column number v written into the addressed rows (NumPy's part). *)
Section AssignUnit.
Variable is_slice sliceable : bool.
Variable newdt : dtype -> dtype.
Variable cells : Z -> list A -> list A.

Fixpoint assign_cols (voff : Z) (cols : list (list A)) : list (list A) :=
  match cols with
  | [] => []
  | c :: r => cells voff c :: assign_cols (if is_slice && sliceable then voff + 1 else voff) r
  end.

(* returns (pending targets, emitted blocks, assigned_stop, value offset) *)
Fixpoint assign_inner (b : block) (bi : Z) (ts : list (Z * slice)) (astop voff : Z)
  : res (list (Z * slice) * list block * Z * Z) :=
  match ts with
  | [] => Ok ([], [], astop, voff)
  | (tbi, sl) :: ts' =>
    if negb (bi =? tbi) then Ok (ts, [], astop, voff)
    else
      let is_col := b_1d b || (width b =? 1) in
      match s_start sl with
      | None => Err "TypeError"
      | Some start =>
        match (if is_slice && negb is_col
               then match s_stop sl with Some stop => Ok (stop - start) | None => Err "TypeError" end
               else Ok 1) with
        | Err e => Err e
        | Ok t_width =>
          let pre := if start >? astop
                     then match cols_slice b (mk_slice (Some astop) (Some start) None) with Some p => [p] | None => [] end
                     else [] in
          (* the region being replaced: the whole block when it is a single column, else b[:, target] *)
          match (if is_col then Some (b_cols b) else slice_list (b_cols b) sl) with
          | None => Err "IndexError"
          | Some old =>
            let v_width := if is_col then 1 else Z.of_nat (length old) in
            let tgt := mk_block (newdt (b_dtype b)) (negb is_slice || is_col) (assign_cols voff old) in
            let voff' := if is_slice && sliceable then voff + v_width else voff in
            match assign_inner b bi ts' (start + t_width) voff' with
            | Ok (rest, parts, l, v) => Ok (rest, pre ++ tgt :: parts, l, v)
            | Err e => Err e
            end
          end
        end
      end
  end.

Fixpoint assign_walk (bi : Z) (t : tb) (ts : list (Z * slice)) (voff : Z) : res (list block) :=
  match t with
  | [] => Ok []
  | b :: r =>
    match assign_inner b bi ts 0 voff with
    | Err e => Err e
    | Ok (ts', parts, astop, voff') =>
      let out := parts ++
                 (if astop =? 0 then [b]
                  else if b_1d b && (astop =? 1) then []
                  else if negb (b_1d b) && (astop <? width b)
                       then match cols_slice b (mk_slice (Some astop) None None) with
                            | Some p => [p]
                            | None => []
                            end
                       else []) in
      match assign_walk (bi + 1) r ts' voff' with
      | Ok rest => Ok (out ++ rest)
      | Err e => Err e
      end
    end
  end.

(* `k` is the key AFTER key_to_ascending_key *)
Definition M_assign_unit_blocks (t : tb) (k : ckey) : res tb :=
  match block_slices_for retain_key_order_assign_from_iloc_by_unit t k with
  | Err e => Err e
  | Ok ts => match assign_walk 0 t ts 0 with
             | Ok bs => from_blocks_strict bs
             | Err e => Err e
             end
  end.
End AssignUnit.

(* ============ Frame._insert (frame.py:6106-6165), block part ============
   _slice_blocks(column_key=slice(0, key)) ++ inserted blocks ++ _slice_blocks(column_key=slice(key, None)) *)
Definition M_insert_blocks (t : tb) (key : Z) (ins : tb) : res tb :=
  match M_select_columns t (CSlice (mk_slice (Some 0) (Some key) None)),
        M_select_columns t (CSlice (mk_slice (Some key) None None)) with
  | Ok a, Ok b => Ok (from_blocks (a ++ ins ++ b))
  | Err e, _ => Err e
  | _, Err e => Err e
  end.

End BlocksUpdate.

(* ============ TypeBlocks._assign_from_bloc_by_unit (type_blocks.py: 2-D Boolean selector, element / array value) ============
   One pass over the blocks; `masks` holds one Boolean column (down the rows) per frame column and is consumed block
   by block.  A block without any True comes out as it is; otherwise THE WHOLE BLOCK is cast to `newdt` of its dtype
   and every column gets its addressed cells written (`cells j m old`: value column j at the rows where m is True). *)
Section BlocUnit.
Context {A : Type}.
Variable newdt : dtype -> dtype.
Variable cells : Z -> list bool -> list A -> list A.

Definition any_true (ms : list (list bool)) : bool := existsb (existsb (fun b : bool => b)) ms.

Fixpoint cells_zip (j : Z) (ms : list (list bool)) (cs : list (list A)) : list (list A) :=
  match ms, cs with
  | m :: ms', c :: cs' => cells j m c :: cells_zip (j + 1) ms' cs'
  | _, _ => []
  end.

Fixpoint bloc_walk (j : Z) (t : tb A) (masks : list (list bool)) : tb A :=
  match t with
  | [] => []
  | b :: r =>
      let w := length (b_cols b) in
      let ms := firstn w masks in
      (if any_true ms then mk_block (newdt (b_dtype b)) (b_1d b) (cells_zip j ms (b_cols b)) else b)
      :: bloc_walk (j + Z.of_nat w) r (skipn w masks)
  end.

(* SPECIFICATION of the cells: column by column, no blocks in sight *)
Definition S_bloc_cells (masks : list (list bool)) (cols : list (list A)) : list (list A) := cells_zip 0 masks cols.

(* SPECIFICATION of the dtypes as the property demands them: a column changes dtype only if one of ITS cells is addressed *)
Fixpoint S_bloc_dtypes (masks : list (list bool)) (dts : list dtype) : list dtype :=
  match masks, dts with
  | m :: ms', d :: ds' => (if existsb (fun b : bool => b) m then newdt d else d) :: S_bloc_dtypes ms' ds'
  | _, _ => []
  end.
End BlocUnit.
