(* C08 -- SPECIFICATION side of the Frame / Series level of the functional update interfaces, over observed
   values (SF.Value.val): S_frame_* / S_series_* are cell maps on the flattened frame; plus the comparators the
   correspondence cases use.  This file does NOT depend on the regenerated constants Gen/Gen_c08.v (nor on the block-walk
   models), so the specification can still be evaluated when the regeneration fails closed.  Row keys, label deletion
   and cell conversion are NumPy's (np.delete, a[k] = v, astype): simple list functions.  Models only, no proofs. *)
Require Import SF.Prelude SF.PySlice SF.Dtype SF.Value SF.Blocks SF.UpdateSpec.

Definition zlen {B} (l : list B) : Z := Z.of_nat (length l).
Definition zrange (n : Z) : list Z := map Z.of_nat (seq 0 (Z.to_nat n)).

(* ---------- frames with a block layout ---------- *)
Definition layout := list (Z * bool).          (* (width, is 2-D) per block *)

Definition layout_of (t : tb val) : layout := map (fun b => (width b, negb (b_1d b))) t.
Definition layout_eqb : layout -> layout -> bool := list_eqb (pair_eqb Z.eqb Bool.eqb).

(* ---------- comparing an outcome with the observed one ---------- *)
Definition res_agree {B C} (eqb : B -> C -> bool) (a : res B) (b : res C) : bool :=
  match a, b with
  | Ok x, Ok y => eqb x y
  | Err _, Err _ => true            (* the property does not fix the exception class *)
  | _, _ => false
  end.

Definition res_same {B C} (eqb : B -> C -> bool) (a : res B) (b : res C) : bool :=
  match a, b with
  | Ok x, Ok y => eqb x y
  | Err e1, Err e2 => String.eqb e1 e2
  | _, _ => false
  end.

Definition ofl_eqb (a b : oframe * layout) : bool := oframe_eqb (fst a) (fst b) && layout_eqb (snd a) (snd b).
Definition of_eqb_ofl (a : oframe) (b : oframe * layout) : bool := oframe_eqb a (fst b).

(* same frame up to the name (mask does not propagate the name: Series._extract_iloc_mask docstring, series.py:1450) *)
Definition oframe_eqb_noname (a b : oframe) : bool :=
  vlist_eqb (of_index a) (of_index b) && vlist_eqb (of_columns a) (of_columns b) &&
  list_eqb col_eqb (of_cols a) (of_cols b).
Definition ofl_eqb_noname (a b : oframe * layout) : bool := oframe_eqb_noname (fst a) (fst b) && layout_eqb (snd a) (snd b).
Definition of_eqb_ofl_noname (a : oframe) (b : oframe * layout) : bool := oframe_eqb_noname a (fst b).

Definition all_positions (k : option ckey) (n : Z) : res (list Z) :=
  match k with None => Ok (zrange n) | Some k => key_positions k n end.

(* =================== drop =================== *)
Definition S_frame_drop (f : oframe) (rk ck : option ckey) : res oframe :=
  match drop_positions rk (zlen (of_index f)), drop_positions ck (zlen (of_columns f)) with
  | Ok rps, Ok cps =>
      Ok (mk_oframe (S_drop_at (of_index f) rps) (S_drop_at (of_columns f) cps)
                    (map (fun c => (fst c, S_drop_at (snd c) rps)) (S_drop_at (of_cols f) cps))
                    (of_name f))
  | Err e, _ => Err e
  | _, Err e => Err e
  end.

Definition S_series_drop (s : oseries) (k : option ckey) : res oseries :=
  match drop_positions k (zlen (os_index s)) with
  | Ok ps => Ok (mk_oseries (S_drop_at (os_index s) ps) (S_drop_at (os_values s) ps) (os_dtype s) (os_name s))
  | Err e => Err e
  end.

(* =================== mask =================== *)
Definition row_pattern (rps : list Z) (n : Z) : list val := map (fun i => VBool (memz i rps)) (zrange n).
Definition all_false (n : Z) : list val := map (fun _ => VBool false) (zrange n).

Definition S_frame_mask (f : oframe) (rk ck : option ckey) : res oframe :=
  let nr := zlen (of_index f) in
  match all_positions rk nr, all_positions ck (zlen (of_columns f)) with
  | Ok rps, Ok cps =>
      Ok (mk_oframe (of_index f) (of_columns f)
            (map (fun j => (DBool, map (fun i => VBool (memz i rps && memz j cps)) (zrange nr)))
                 (zrange (zlen (of_cols f))))
            VNone)
  | Err e, _ => Err e
  | _, Err e => Err e
  end.

Definition S_series_mask (s : oseries) (k : ckey) : res oseries :=
  let n := zlen (os_index s) in
  match key_positions k n with
  | Ok ps => Ok (mk_oseries (os_index s) (row_pattern ps n) DBool VNone)
  | Err e => Err e
  end.

(* =================== assign =================== *)
(* Python == on cells, with the missing markers equal to themselves *)
Definition cell_same (a b : val) : bool := val_eqb a b || py_val_eq a b.

(* the supplied value *)
Inductive aval :=
| AElem (v : val)                                   (* scalar: broadcast to every addressed cell *)
| AMat (m : list (list val))                        (* unlabelled, already broadcast by NumPy to the selection:
                                                       m[j][i] = cell for the j-th addressed column (ascending) and
                                                       the i-th element of the row key *)
| ARows (idx vals : list val)                       (* Series aligned on the row labels (one addressed column) *)
| ACols (idx vals : list val)                       (* Series aligned on the column labels (one addressed row) *)
| AFrame (ridx cidx : list val) (cols : list (list val)).   (* Frame aligned on both *)

Fixpoint lookup_label (l : val) (idx : list val) (vals : list val) : option val :=
  match idx, vals with
  | i :: ir, v :: vr => if val_eqb l i then Some v else lookup_label l ir vr
  | _, _ => None
  end.

Fixpoint lookup_col (l : val) (idx : list val) (cols : list (list val)) : option (list val) :=
  match idx, cols with
  | i :: ir, c :: cr => if val_eqb l i then Some c else lookup_col l ir cr
  | _, _ => None
  end.

Definition nthz {B} (l : list B) (i : Z) (d : B) : B := match nth_z l i with Some x => x | None => d end.

(* the value supplied for cell (row position i, column position j); rps / cps in the order the spec pairs them *)
Definition supplied (v : aval) (fill : val) (rlabels clabels : list val) (rps cps : list Z) (i j : Z) : val :=
  match v with
  | AElem x => x
  | AMat m => match rankz j cps, rankz i rps with
              | Some cj, Some ri => nthz (nthz m cj []) ri fill
              | _, _ => fill
              end
  | ARows idx vals => match lookup_label (nthz rlabels i VNone) idx vals with Some x => x | None => fill end
  | ACols idx vals => match lookup_label (nthz clabels j VNone) idx vals with Some x => x | None => fill end
  | AFrame ridx cidx cols =>
      match lookup_col (nthz clabels j VNone) cidx cols with
      | Some c => match lookup_label (nthz rlabels i VNone) ridx c with Some x => x | None => fill end
      | None => fill
      end
  end.

(* SPEC as a relation on the observed result: labels and name kept; unaddressed columns identical (dtype and
   cells); in addressed columns the unaddressed cells keep their value and the addressed cells hold the supplied
   value (up to Python ==, the dtype of an addressed column being C07's business) *)
Definition S_frame_assign_ok (f : oframe) (rk ck : option ckey) (v : aval) (fill : val) (out : oframe) : bool :=
  let nr := zlen (of_index f) in
  let nc := zlen (of_columns f) in
  match all_positions rk nr, all_positions ck nc with
  | Ok rps, Ok cps0 =>
      let cps := sort_z cps0 in
      vlist_eqb (of_index f) (of_index out) && vlist_eqb (of_columns f) (of_columns out) &&
      val_eqb (of_name f) (of_name out) && (zlen (of_cols out) =? nc) &&
      forallb (fun j =>
        let old := nthz (of_cols f) j (DObj, []) in
        let new := nthz (of_cols out) j (DObj, []) in
        if memz j cps
        then (zlen (snd new) =? nr) &&
             forallb (fun i => cell_same (nthz (snd new) i VNone)
                                 (if memz i rps then supplied v fill (of_index f) (of_columns f) rps cps i j
                                  else nthz (snd old) i VNone)) (zrange nr)
        else col_eqb old new) (zrange nc)
  | _, _ => false
  end.

Definition S_series_assign_ok (s : oseries) (k : ckey) (v : aval) (fill : val) (out : oseries) : bool :=
  let n := zlen (os_index s) in
  match key_positions k n with
  | Ok ps =>
      vlist_eqb (os_index s) (os_index out) && val_eqb (os_name s) (os_name out) && (zlen (os_values out) =? n) &&
      forallb (fun i => cell_same (nthz (os_values out) i VNone)
                          (if memz i ps then supplied v fill (os_index s) [] ps [0] i 0
                           else nthz (os_values s) i VNone)) (zrange n)
  | Err _ => false
  end.

(* comparison for assign results: labels, layout, dtypes exact; cells up to Python == *)
Definition col_same (a b : dtype * list val) : bool :=
  dtype_eqb (fst a) (fst b) && list_eqb cell_same (snd a) (snd b).
Definition ofl_same (a b : oframe * layout) : bool :=
  vlist_eqb (of_index (fst a)) (of_index (fst b)) && vlist_eqb (of_columns (fst a)) (of_columns (fst b)) &&
  list_eqb col_same (of_cols (fst a)) (of_cols (fst b)) && val_eqb (of_name (fst a)) (of_name (fst b)) &&
  layout_eqb (snd a) (snd b).

(* =================== astype =================== *)
(* oracle: NumPy astype on cells for the conversions the generators use (int/bool -> float, bool -> int,
   anything -> object keeps the Python object, anything -> str is not generated) *)
Definition conv_val (d : dtype) (v : val) : val :=
  match d, v with
  | DFlt _, VInt z => VFlt z 1
  | DFlt _, VBool b => VFlt (if b then 1 else 0) 1
  | DInt _ _, VBool b => VInt (if b then 1 else 0)
  | DBool, VInt z => VBool (negb (z =? 0))
  | _, _ => v
  end.

Definition S_frame_astype (f : oframe) (ck : ckey) (d : dtype) : res oframe :=
  match S_astype_columns (of_cols f) ck d (fun _ => map (conv_val d)) with
  | Ok cols => Ok (mk_oframe (of_index f) (of_columns f) cols (of_name f))
  | Err e => Err e
  end.

(* =================== insert_before / insert_after =================== *)
Definition S_frame_insert (f : oframe) (key : Z) (labels : list val) (cols : list (dtype * list val)) : oframe :=
  mk_oframe (of_index f) (S_insert_at (of_columns f) key labels) (S_insert_at (of_cols f) key cols) (of_name f).

Definition S_series_insert (s : oseries) (key : Z) (labels vals : list val) : list val * list val :=
  (S_insert_at (os_index s) key labels, S_insert_at (os_values s) key vals).

(* =================== bloc assignment (2-D Boolean selector) =================== *)
(* kmask[j][i] = the key, mask[j][i] = the key restricted to the cells the (labelled) value has, vals[j][i] for
   column j, row i; SPEC as a relation: labels and name kept, a cell holds vals where the mask is True and its old
   value elsewhere; a column without any True in the KEY is identical, dtype included *)
Definition S_frame_bloc_ok (f : oframe) (kmask mask : list (list bool)) (vals : list (list val)) (out : oframe) : bool :=
  let nr := zlen (of_index f) in
  let nc := zlen (of_columns f) in
  vlist_eqb (of_index f) (of_index out) && vlist_eqb (of_columns f) (of_columns out) &&
  val_eqb (of_name f) (of_name out) && (zlen (of_cols out) =? nc) &&
  forallb (fun j =>
    let old := nthz (of_cols f) j (DObj, []) in
    let new := nthz (of_cols out) j (DObj, []) in
    let mk := nthz mask j [] in
    if existsb (fun b : bool => b) (nthz kmask j [])
    then (zlen (snd new) =? nr) &&
         forallb (fun i => cell_same (nthz (snd new) i VNone)
                             (if nthz mk i false then nthz (nthz vals j []) i VNone else nthz (snd old) i VNone)) (zrange nr)
    else col_eqb old new) (zrange nc).

(* =================== insert, as a relation (the dtype of an inserted, label-aligned column is not fixed) =================== *)
Definition S_frame_insert_ok (f : oframe) (key : Z) (labels : list val) (ins : list (list val)) (out : oframe) : bool :=
  let k := Z.to_nat key in
  let n := length labels in
  vlist_eqb (of_index f) (of_index out) && val_eqb (of_name f) (of_name out) &&
  vlist_eqb (S_insert_at (of_columns f) key labels) (of_columns out) &&
  list_eqb col_eqb (firstn k (of_cols f)) (firstn k (of_cols out)) &&
  list_eqb (list_eqb cell_same) ins (map snd (firstn n (skipn k (of_cols out)))) &&
  list_eqb col_eqb (skipn k (of_cols f)) (skipn (k + n) (of_cols out)).

Definition S_series_insert_ok (s : oseries) (key : Z) (labels vals : list val) (out : oseries) : bool :=
  vlist_eqb (S_insert_at (os_index s) key labels) (os_index out) &&
  list_eqb cell_same (S_insert_at (os_values s) key vals) (os_values out) && val_eqb (os_name s) (os_name out).

(* Series results up to the dtype / up to the name *)
Definition oseries_same (a b : oseries) : bool :=
  vlist_eqb (os_index a) (os_index b) && list_eqb cell_same (os_values a) (os_values b) && val_eqb (os_name a) (os_name b).
Definition oseries_eqb_noname (a b : oseries) : bool :=
  vlist_eqb (os_index a) (os_index b) && vlist_eqb (os_values a) (os_values b) && dtype_eqb (os_dtype a) (os_dtype b).

(* =================== kernel-level comparisons =================== *)
Definition ckey_eqb (a b : ckey) : bool :=
  match a, b with
  | CAll, CAll => true
  | CInt x, CInt y => x =? y
  | CSlice s, CSlice t => slice_eqb s t
  | CList l, CList m => list_eqb Z.eqb l m
  | CMask l, CMask m => list_eqb Bool.eqb l m
  | _, _ => false
  end.

Definition targets_eqb : list (Z * slice) -> list (Z * slice) -> bool := list_eqb (pair_eqb Z.eqb slice_eqb).

