(* C20 -- relational join (static_frame/core/frame.py Frame._join, 5737-5922).  Models only, no proofs.

   A table is a list of rows; a row carries its index label, its key (the tuple of key cells that
   arrays_from_index_frame extracts from columns and/or index depths) and its cells.

   S_join   the specification: nested loop over row pairs + the unmatched rows of the preserved side(s).
   M_join   the implementation model: match discovery by position (map_iloc), the is_many switch,
            Pair / PairLeft / PairRight composite labels, rows fetched back BY LABEL through the two
            indices (left_index._loc_to_iloc, other.loc[label, col]), the reindex that makes room for
            PairRight rows, and the non-composite path that looks a result label up in EITHER index. *)
Require Import SF.Prelude.

Inductive jtype := JInner | JLeft | JRight | JOuter.
Definition keeps_left (jt : jtype) : bool := match jt with JLeft | JOuter => true | _ => false end.
Definition keeps_right (jt : jtype) : bool := match jt with JRight | JOuter => true | _ => false end.

Section Join.
Context {L K A : Type}.
Variable leqb : L -> L -> bool.        (* label equality (hash + ==) *)
Variable keqb : K -> K -> bool.        (* (row_left == target_right).all(axis=1): no law assumed (NaN keys match nothing) *)

Record trow := mk_trow { lab : L; key : K; cells : list A }.

(* ------------------------------------------------------------------ specification *)
Inductive jrow := JB (l r : trow) | JL (l : trow) | JR (r : trow).

Definition matches (l r : trow) : bool := keqb (key l) (key r).

Definition S_pairs (Lt Rt : list trow) : list jrow :=
  flat_map (fun l => map (JB l) (filter (matches l) Rt)) Lt.
Definition S_only_left (Lt Rt : list trow) : list jrow :=
  map JL (filter (fun l => negb (existsb (matches l) Rt)) Lt).
Definition S_only_right (Lt Rt : list trow) : list jrow :=
  map JR (filter (fun r => negb (existsb (fun l => matches l r) Lt)) Rt).

Definition S_join (jt : jtype) (Lt Rt : list trow) : list jrow :=
  S_pairs Lt Rt ++ (if keeps_left jt then S_only_left Lt Rt else [])
                ++ (if keeps_right jt then S_only_right Lt Rt else []).

(* what an output row shows: the cells of its left source row then of its right source row,
   the fill value where a side is absent *)
Definition jcells (fill : A) (lw rw : nat) (x : jrow) : list A :=
  match x with
  | JB l r => cells l ++ cells r
  | JL l => cells l ++ repeat fill rw
  | JR r => repeat fill lw ++ cells r
  end.

(* composite labels: Pair(left label, right label), PairLeft(left, cifv), PairRight(cifv, right) *)
Inductive clabel := CP (l r : L) | CL (l : L) | CR (r : L).
Definition as_tuple (cifv : L) (c : clabel) : L * L :=
  match c with CP l r => (l, r) | CL l => (l, cifv) | CR r => (cifv, r) end.
Definition jlabel (x : jrow) : clabel :=
  match x with JB l r => CP (lab l) (lab r) | JL l => CL (lab l) | JR r => CR (lab r) end.

(* column-major view of a list of rows of width w *)
Definition cols_of (w : nat) (d : A) (rows : list (list A)) : list (list A) :=
  map (fun j => map (fun r => nth j r d) rows) (seq 0 w).

(* result: index labels (a plain label on the non-composite path, the tuple view of a composite
   label otherwise), column names, columns *)
Record jframe := mk_jframe { jf_index : list (L + L * L); jf_names : list string; jf_cols : list (list A) }.

(* template renaming: '<prefix>{}<suffix>'.format(column label) *)
Definition tmpl := (string * string)%type.
Definition fmt (t : tmpl) (c : string) : string := (fst t ++ c ++ snd t)%string.
Definition out_names (lt rt : tmpl) (lcols rcols : list string) : list string :=
  map (fmt lt) lcols ++ map (fmt rt) rcols.

Definition S_frame (jt : jtype) (cifv : L) (fill : A) (lt rt : tmpl) (lcols rcols : list string)
                   (Lt Rt : list trow) : jframe :=
  let rows := S_join jt Lt Rt in
  let lw := length lcols in let rw := length rcols in
  mk_jframe (map (fun x => inr (as_tuple cifv (jlabel x))) rows)
            (out_names lt rt lcols rcols)
            (cols_of (lw + rw) fill (map (jcells fill lw rw) rows)).

(* the cardinality class of the key relation: some row has two partners *)
Definition S_is_many (Lt Rt : list trow) : bool :=
  existsb (fun l => 1 <? Z.of_nat (length (filter (matches l) Rt))) Lt ||
  existsb (fun r => 1 <? Z.of_nat (length (filter (fun l => matches l r) Lt))) Rt.

Fixpoint nodupb {X} (eqb : X -> X -> bool) (l : list X) : bool :=
  match l with
  | [] => true
  | x :: r => negb (existsb (eqb x) r) && nodupb eqb r
  end.

(* a refusal (exception) is within the property only where the documented interface refuses:
   composite_index=False on a one-to-many / many-to-many relation, or colliding output column names *)
Definition S_refusal_ok (composite : bool) (lt rt : tmpl) (lcols rcols : list string) (Lt Rt : list trow) : bool :=
  (negb composite && S_is_many Lt Rt) || negb (nodupb String.eqb (out_names lt rt lcols rcols)).

(* ------------------------------------------------------------------ implementation model *)
Definition enumerate {X} (l : list X) : list (nat * X) := combine (seq 0 (length l)) l.

(* np.flatnonzero((row_left == target_right).all(axis=1)), with the rows kept beside their positions *)
Definition matched (k : K) (Rt : list trow) : list (nat * trow) :=
  filter (fun jr => keqb k (key (snd jr))) (enumerate Rt).

Definition is_nil {X} (l : list X) : bool := match l with [] => true | _ => false end.

(* map_iloc: left position -> matched right positions, entries only for left rows with a match *)
Definition map_iloc (Lt Rt : list trow) : list ((nat * trow) * list (nat * trow)) :=
  filter (fun e => negb (is_nil (snd e)))
         (map (fun il => (il, matched (key (snd il)) Rt)) (enumerate Lt)).

(* the is_many switch (frame.py:5774-5797): starts as composite_index, flips on a left row with two
   matches or on a right position matched a second time *)
Definition many_step (st : bool * list nat) (e : (nat * trow) * list (nat * trow)) : bool * list nat :=
  let '(many, seen) := st in
  if many then (true, seen) else
  match snd e with
  | [] => (false, seen)
  | [jr] => (existsb (Nat.eqb (fst jr)) seen, fst jr :: seen)
  | _ => (true, seen)
  end.
Definition is_many (composite : bool) (mi : list ((nat * trow) * list (nat * trow))) : bool :=
  fst (fold_left many_step mi (composite, [])).

Definition mem (x : L) (s : list L) : bool := existsb (leqb x) s.

(* Index._loc_to_iloc followed by the positional fetch: first row carrying the label *)
Fixpoint lookup_cells (T : list trow) (x : L) : option (list A) :=
  match T with
  | [] => None
  | r :: rest => if leqb x (lab r) then Some (cells r) else lookup_cells rest x
  end.
Definition fetch (T : list trow) (x : L) : res (list A) :=
  match lookup_cells T x with Some c => Ok c | None => Err "KeyError" end.

Definition tup_eqb (a b : L * L) : bool := leqb (fst a) (fst b) && leqb (snd a) (snd b).

Fixpoint find_pos {X} (p : X -> bool) (l : list X) : option nat :=
  match l with
  | [] => None
  | x :: r => if p x then Some 0%nat else option_map S (find_pos p r)
  end.

Definition leftish (c : clabel) : bool := match c with CR _ => false | _ => true end.
Definition left_of (cifv : L) (c : clabel) : L := fst (as_tuple cifv c).

Definition final_index_many (jt : jtype) (mi : list ((nat * trow) * list (nat * trow))) (Lt Rt : list trow) : list clabel :=
  let many_loc := flat_map (fun e => map (fun jr => CP (lab (snd (fst e))) (lab (snd jr))) (snd e)) mi in
  let left_loc_set := map (fun e => lab (snd (fst e))) mi in
  let right_loc_set := flat_map (fun e => map (fun jr => lab (snd jr)) (snd e)) mi in
  let ext_l := map CL (filter (fun x => negb (mem x left_loc_set)) (map lab Lt)) in
  let ext_r := map CR (filter (fun x => negb (mem x right_loc_set)) (map lab Rt)) in
  many_loc ++ (if keeps_left jt then ext_l else []) ++ (if keeps_right jt then ext_r else []).

Definition name_check (names : list string) (k : jframe) : res jframe :=
  if nodupb String.eqb names then Ok k else Err "RuntimeError".

(* the composite (is_many) path, frame.py:5881-5922 *)
Definition M_join_many (jt : jtype) (cifv : L) (fill : A) (lt rt : tmpl) (lcols rcols : list string)
                       (Lt Rt : list trow) : res jframe :=
  let lw := length lcols in let rw := length rcols in
  let mi := map_iloc Lt Rt in
  let fi := final_index_many jt mi Lt Rt in
  let tups := map (as_tuple cifv) fi in
  if negb (nodupb tup_eqb tups) then Err "ErrorInitIndex" else       (* Index(chain(...)) *)
  let fil := filter leftish fi in
  (* row_key: left_index._loc_to_iloc(p[0]); tb._extract(row_key=row_key) *)
  lrows0 <- res_all (map (fun p => fetch Lt (left_of cifv p)) fil) ;;
  (* final.reindex(final_index, fill_value) only when PairRight labels exist *)
  let lrows :=
    if (length fil <? length fi)%nat
    then map (fun p => match find_pos (tup_eqb (as_tuple cifv p)) (map (as_tuple cifv) fil) with
                       | Some q => nth q lrows0 (repeat fill lw)
                       | None => repeat fill lw
                       end) fi
    else lrows0 in
  (* right columns: other.loc[loc_right, col] for Pair and PairRight, fill for PairLeft *)
  rrows <- res_all (map (fun p => match p with
                                  | CL _ => Ok (repeat fill rw)
                                  | CP _ r | CR r => fetch Rt r
                                  end) fi) ;;
  name_check (out_names lt rt lcols rcols)
    (mk_jframe (map inr tups) (out_names lt rt lcols rcols)
               (cols_of lw fill lrows ++ cols_of rw fill rrows)).

(* the non-composite path, frame.py:5861-5879 *)
Definition final_index_single (jt : jtype) (mi : list ((nat * trow) * list (nat * trow))) (Lt Rt : list trow) : list L :=
  match jt with
  | JInner => map (fun e => lab (snd (fst e))) mi
  | JLeft => map lab Lt
  | JRight => map lab Rt
  | JOuter => map lab Lt ++ filter (fun x => negb (mem x (map lab Lt))) (map lab Rt)  (* union; order not modelled *)
  end.

(* "if loc in left_index and left_index._loc_to_iloc(loc) in map_iloc": the right row matched to the
   left row labelled loc; "elif loc in right_index": the right row LABELLED loc; else fill *)
Definition mi_by_label (mi : list ((nat * trow) * list (nat * trow))) (Lt : list trow) (x : L) : option (list (nat * trow)) :=
  match find_pos (fun r => leqb x (lab r)) Lt with
  | None => None
  | Some i => match find (fun e => Nat.eqb (fst (fst e)) i) mi with
              | Some e => Some (snd e)
              | None => None
              end
  end.

Definition right_values_single (fill : A) (rw : nat) (mi : list ((nat * trow) * list (nat * trow)))
                               (Lt Rt : list trow) (x : L) : list A :=
  match mi_by_label mi Lt x with
  | Some (jr :: _) => cells (snd jr)
  | _ => match lookup_cells Rt x with
         | Some c => c
         | None => repeat fill rw
         end
  end.

Definition M_join_single (jt : jtype) (fill : A) (lt rt : tmpl) (lcols rcols : list string)
                         (Lt Rt : list trow) : res jframe :=
  let lw := length lcols in let rw := length rcols in
  let mi := map_iloc Lt Rt in
  let fi := final_index_single jt mi Lt Rt in
  (* final.extend(self.relabel(columns=...), fill_value): the left frame reindexed BY LABEL *)
  let lrows := map (fun x => match lookup_cells Lt x with Some c => c | None => repeat fill lw end) fi in
  let rrows := map (right_values_single fill rw mi Lt Rt) fi in
  name_check (out_names lt rt lcols rcols)
    (mk_jframe (map inl fi) (out_names lt rt lcols rcols)
               (cols_of lw fill lrows ++ cols_of rw fill rrows)).

Definition M_join (jt : jtype) (composite : bool) (cifv : L) (fill : A) (lt rt : tmpl)
                  (lcols rcols : list string) (Lt Rt : list trow) : res jframe :=
  let many := is_many composite (map_iloc Lt Rt) in
  if negb composite && many then Err "RuntimeError"       (* 'A composite index is required in this join.' *)
  else if many then M_join_many jt cifv fill lt rt lcols rcols Lt Rt
  else M_join_single jt fill lt rt lcols rcols Lt Rt.

(* what the non-composite path shows, per the property: one row per S_join row; label = the left label
   (inner, left), the right label (right); on the outer join the label of whichever side is present *)
Definition S_frame_single_rows (jt : jtype) (fill : A) (lw rw : nat) (Lt Rt : list trow) : list (list A) :=
  map (jcells fill lw rw) (S_join jt Lt Rt).

End Join.

Arguments trow : clear implicits.
Arguments jrow : clear implicits.
Arguments jframe : clear implicits.
Arguments clabel : clear implicits.
