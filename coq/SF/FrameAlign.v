(* C06 -- Frame re-indexing through the block manager.  Models only (no proofs).

   M_resize_blocks : TypeBlocks.resize_blocks (type_blocks.py:672-776, after fix 658b4ce) as it walks the
       blocks: the four (index_ic, columns_ic) branches, the no-common single fill block, the unified +
       subset fancy selection, the per-destination-column walk through the (block, column) directory, the
       per-block full_for_fill + fancy assignment guarded by has_common on each axis.
   S_resize_cols   : the same as a function of the flattened columns only (no block structure).

   Cells V, fill value and dtype coercions are abstract. *)
Require Import SF.Prelude SF.Dtype SF.SetAlg SF.LabelAlign.

Section FrameAlign.
Variable V : Type.
Variable fill : V.
Variable castf : dtype -> V -> V.   (* a kept cell of a block of dtype d, stored into full_for_fill(d, ., fill) *)
Variable fdt : dtype -> dtype.      (* dtype of full_for_fill(d, ., fill) *)
Variable fill_dtype : dtype.        (* dtype of full_for_fill(None, ., fill) *)

(* one block, column-major; a 1-D block has exactly one column *)
Record blk := mk_blk { k_dtype : dtype; k_1d : bool; k_cols : list (list V) }.
Definition col : Type := dtype * list V.

Definition blk_columns (b : blk) : list col := map (pair (k_dtype b)) (k_cols b).
(* ABSTRACTION: the frame's columns, left to right *)
Definition flatten (t : list blk) : list col := flat_map blk_columns t.

Definition wf_blk (b : blk) : Prop :=
  (1 <= length (k_cols b))%nat /\ (k_1d b = true -> length (k_cols b) = 1%nat).

(* TypeBlocks._index as from_blocks builds it *)
Fixpoint dir_from (k : nat) (t : list blk) : list (nat * nat) :=
  match t with
  | [] => []
  | b :: r => map (pair k) (seq 0 (length (k_cols b))) ++ dir_from (S k) r
  end.
Definition directory (t : list blk) : list (nat * nat) := dir_from 0 t.

Definition dflt_blk : blk := mk_blk fill_dtype true [[]].
Definition dflt_col : col := (fill_dtype, []).

(* block_idx, block_col = self._index[i]; b = self._blocks[block_idx]; b if b.ndim == 1 else b[:, block_col] *)
Definition column_at (t : list blk) (p : nat * nat) : col :=
  let b := nth (fst p) t dflt_blk in (k_dtype b, nth (snd p) (k_cols b) []).

(* dict(zip(iloc_dst, iloc_src)).get(j): a later pair overrides an earlier one *)
Definition dict_step (j : nat) (acc : option nat) (p : nat * nat) : option nat :=
  if Nat.eqb j (fst p) then Some (snd p) else acc.
Definition dict_get (j : nat) (dst src : list nat) : option nat :=
  fold_left (dict_step j) (combine dst src) None.

Definition take_cols (cols : list (list V)) (pos : list nat) : list (list V) := map (fun i => nth i cols []) pos.

Definition is_single (t : list blk) : bool := match t with [_] => true | [] => true | _ => false end.

(* rows of one column through an index correspondence (the body shared by the index-only branch) *)
Definition rows_dtype (i : icorr) (d : dtype) : dtype := if ic_is_subset i then d else fdt d.
Definition rows_vals (i : icorr) (d : dtype) (c : list V) : list V := M_reindex_values V i c fill (castf d).

Definition M_resize_blocks (t : list blk) (nrows : nat) (ic cc : option icorr) : res (list blk) :=
  match cc, ic with
  | None, None => Ok t
  | None, Some i =>
      Ok (map (fun b => mk_blk (rows_dtype i (k_dtype b)) (k_1d b) (map (rows_vals i (k_dtype b)) (k_cols b))) t)
  | Some c, None =>
      if negb (ic_has_common c) then Ok [mk_blk fill_dtype false (repeat (repeat fill nrows) (ic_size c))]
      else if is_single t && ic_is_subset c then
        match t with
        | [b] => if k_1d b then Ok [b] else Ok [mk_blk (k_dtype b) false (take_cols (k_cols b) (ic_src c))]
        | _ => Err "IndexError"
        end
      else
        Ok (map (fun j => match dict_get j (ic_dst c) (ic_src c) with
                          | Some s => let cl := column_at t (nth s (directory t) (0, 0)%nat) in
                                      mk_blk (fst cl) true [snd cl]
                          | None => mk_blk fill_dtype true [repeat fill nrows]
                          end) (seq 0 (ic_size c)))
  | Some c, Some i =>
      if negb (ic_has_common c) && negb (ic_has_common i)
      then Ok [mk_blk fill_dtype false (repeat (repeat fill (ic_size i)) (ic_size c))]
      else if is_single t && ic_is_subset i && ic_is_subset c then
        match t with
        | [b] => if k_1d b
                 then Ok [mk_blk (k_dtype b) true (map (fun cl => take V cl (ic_src i) fill) (k_cols b))]
                 else Ok [mk_blk (k_dtype b) false
                            (map (fun cl => take V cl (ic_src i) fill) (take_cols (k_cols b) (ic_src c)))]
        | _ => Err "IndexError"
        end
      else
        (* columns_dst_to_src = dict(zip(iloc_dst, iloc_src)) if columns_ic.has_common else {} *)
        let cdict := fun j => if ic_has_common c then dict_get j (ic_dst c) (ic_src c) else None in
        Ok (map (fun j => match cdict j with
                          | Some s =>
                              let p := nth s (directory t) (0, 0)%nat in
                              let b := nth (fst p) t dflt_blk in
                              (* subset: b[iloc_src(, block_col)]; else full_for_fill(b.dtype, size, fill) and,
                                 if index_ic.has_common, values[iloc_dst] = b[iloc_src(, block_col)] *)
                              mk_blk (rows_dtype i (k_dtype b)) true
                                     [rows_vals i (k_dtype b) (nth (snd p) (k_cols b) [])]
                          | None => mk_blk fill_dtype true [repeat fill (ic_size i)]
                          end) (seq 0 (ic_size c)))
  end.

(* ---- the same on the flattened columns ---- *)
Definition S_col_rows (ic : option icorr) (c : col) : col :=
  match ic with
  | None => c
  | Some i => (rows_dtype i (fst c), rows_vals i (fst c) (snd c))
  end.

Definition rows_out (nrows : nat) (ic : option icorr) : nat :=
  match ic with None => nrows | Some i => ic_size i end.

Definition S_resize_cols (cols : list col) (nrows : nat) (ic cc : option icorr) : list col :=
  match cc with
  | None => map (S_col_rows ic) cols
  | Some c => map (fun j => match dict_get j (ic_dst c) (ic_src c) with
                            | Some s => S_col_rows ic (nth s cols dflt_col)
                            | None => (fill_dtype, repeat fill (rows_out nrows ic))
                            end) (seq 0 (ic_size c))
  end.

End FrameAlign.

(* ---- Frame.reindex (frame.py:3001-3067): labels -> index correspondences -> resize_blocks ---- *)
Section FrameReindex.
Variable A V : Type.
Variable eqb : A -> A -> bool.
Variable leb : A -> A -> bool.
Variable sortable : list A -> bool.
Variable fill : V.
Variable castf : dtype -> V -> V.
Variable fdt : dtype -> dtype.
Variable fill_dtype : dtype.

(* Index.equals (values only) *)
Definition idx_eq (a b : list A) : bool :=
  (Z.of_nat (length a) =? Z.of_nat (length b)) && list_eqb eqb a b.

(* the target labels of an axis that really is re-indexed (absent, or equal to the present ones: not) *)
Definition reindexes (src : list A) (dst : option (list A)) : option (list A) :=
  match dst with
  | Some d => if idx_eq src d then None else Some d
  | None => None
  end.

(* index_ic / columns_ic; the outer None is a KeyError inside from_correspondence *)
Definition axis_ic (objpath : bool) (src : list A) (dst : option (list A)) : option (option icorr) :=
  match reindexes src dst with
  | None => Some None
  | Some d => match M_from_correspondence A eqb leb sortable objpath src d with
              | Some c => Some (Some c)
              | None => None
              end
  end.

Definition M_frame_reindex_g (objpath_i objpath_c : bool) (index columns : list A) (t : list (blk V))
  (new_index new_columns : option (list A)) : res (list (blk V)) :=
  match axis_ic objpath_i index new_index, axis_ic objpath_c columns new_columns with
  | Some ic, Some cc => M_resize_blocks V fill castf fdt fill_dtype t (length index) ic cc
  | _, _ => Err "KeyError"
  end.

(* ---- specification on labelled columns: a (row label, column label) lookup.
   The column dtype is kept exactly when every (and at least one) destination row label is present. ---- *)
Definition S_row (index : list A) (new_index : option (list A)) (c : col V) : col V :=
  match reindexes index new_index with
  | None => c
  | Some d => (if covers A eqb index d && negb (is_nil A d) then fst c else fdt (fst c),
               S_reindex A V eqb index (snd c) d fill (castf (fst c)))
  end.

Definition rows_after (index : list A) (new_index : option (list A)) : nat :=
  match reindexes index new_index with Some d => length d | None => length index end.

Definition S_frame_reindex (index columns : list A) (cols : list (col V))
  (new_index new_columns : option (list A)) : list (col V) :=
  match reindexes columns new_columns with
  | None => map (S_row index new_index) cols
  | Some dc => map (fun l => match get A (col V) eqb columns cols l with
                             | Some c => S_row index new_index c
                             | None => (fill_dtype, repeat fill (rows_after index new_index))
                             end) dc
  end.

Definition touches (src dst : list A) : bool := existsb (fun x => mem A eqb x src) dst.

End FrameReindex.

(* ---- TypeBlocks._ufunc_binary_operator with a TypeBlocks operand (type_blocks.py:2325-2345, after fix
   e1c1c73): block_compatible -> block by block; equal shape and reblock_compatible -> on the consolidated
   blocks; otherwise column by column (axis_values(0)).  Cells V, results R, the operator abstract. ---- *)
Section TbBinop.
Variable V R : Type.
Variable f : V -> V -> R.

Definition bwidth (b : blk V) : nat := length (k_cols V b).
Definition columns_of (t : list (blk V)) : list (list V) := flat_map (k_cols V) t.
Definition total_bwidth (t : list (blk V)) : nat := length (columns_of t).

Definition nat_list_eqb := list_eqb Nat.eqb.

(* block_compatible(axis=None): pairwise equal block shapes (a 1-D block is (rows, 1)) *)
Definition block_compatible (a b : list (blk V)) : bool := nat_list_eqb (map bwidth a) (map bwidth b).

(* _reblock_signature: widths of the runs of equal dtype *)
Fixpoint sig_go (cur : dtype) (n : nat) (t : list (blk V)) : list nat :=
  match t with
  | [] => [n]
  | b :: r => if dtype_eqb (k_dtype V b) cur then sig_go cur (n + bwidth b)%nat r
              else n :: sig_go (k_dtype V b) (bwidth b) r
  end.
Definition reblock_sig (t : list (blk V)) : list nat :=
  match t with [] => [] | b :: r => sig_go (k_dtype V b) (bwidth b) r end.

Definition reblock_compatible (a b : list (blk V)) : bool :=
  Nat.eqb (total_bwidth a) (total_bwidth b) && nat_list_eqb (reblock_sig a) (reblock_sig b).

(* consolidate_blocks: a run of one block is passed through, longer runs are concatenated (2-D) *)
Fixpoint reblock_go (cur : dtype) (grp : list (blk V)) (t : list (blk V)) : list (blk V) :=
  let emit := match grp with
              | [g] => g
              | _ => mk_blk V cur false (columns_of grp)
              end in
  match t with
  | [] => [emit]
  | b :: r => if dtype_eqb (k_dtype V b) cur then reblock_go cur (grp ++ [b]) r
              else emit :: reblock_go (k_dtype V b) [b] r
  end.
Definition reblock (t : list (blk V)) : list (blk V) :=
  match t with [] => [] | b :: r => reblock_go (k_dtype V b) [b] r end.

(* the operator on two lists of columns, pairwise, cell by cell *)
Definition op_cols (a b : list (list V)) : list (list R) :=
  map2 (list V) (list R) (map2 V R f) a b.

(* block pairs -> result columns *)
Fixpoint op_blocks (a b : list (blk V)) : list (list R) :=
  match a, b with
  | x :: xt, y :: yt => op_cols (k_cols V x) (k_cols V y) ++ op_blocks xt yt
  | _, _ => []
  end.

Definition M_tb_binop_g (a b : list (blk V)) : res (list (list R)) :=
  if block_compatible a b then Ok (op_blocks a b)
  else if Nat.eqb (total_bwidth a) (total_bwidth b) then
    if reblock_compatible a b then Ok (op_blocks (reblock a) (reblock b))
    else Ok (op_cols (columns_of a) (columns_of b))        (* axis_values(0) of both operands *)
  else Err "NotImplementedError".

(* specification: the operator applied column by column to the flattened operands *)
Definition S_tb_binop (a b : list (blk V)) : list (list R) := op_cols (columns_of a) (columns_of b).

(* ---- a 1-D (or scalar) operand (type_blocks.py:2362-2400; container_util.apply_binary_operator_blocks /
   _columnar).  Scalar or one-element operand: the same value against every block.  axis 0: the operand is
   chopped to the block widths (other[s] for s in _block_shape_slices()), a 1-D block meets its single
   element, a 2-D block broadcasts its slice over the rows.  axis 1 (columnar): every column of every block
   against the whole operand, position by position. ---- *)
Definition col_with (c : list V) (o : V) : list R := map (fun x => f x o) c.

Fixpoint rowwise_blocks (t : list (blk V)) (other : list V) : list (list R) :=
  match t with
  | [] => []
  | b :: r => map (fun p => col_with (fst p) (snd p)) (combine (k_cols V b) (firstn (bwidth b) other))
              ++ rowwise_blocks r (skipn (bwidth b) other)
  end.

Definition M_tb_rowwise_g (t : list (blk V)) (other : list V) : list (list R) :=
  match other with
  | [o] => flat_map (fun b => map (fun c => col_with c o) (k_cols V b)) t
  | _ => rowwise_blocks t other
  end.

Definition M_tb_colwise_g (t : list (blk V)) (other : list V) : list (list R) :=
  match other with
  | [o] => flat_map (fun b => map (fun c => col_with c o) (k_cols V b)) t
  | _ => flat_map (fun b => map (fun c => map2 V R f c other) (k_cols V b)) t
  end.

(* specifications on the flattened columns *)
Definition S_tb_rowwise (t : list (blk V)) (other : list V) : list (list R) :=
  map (fun p => col_with (fst p) (snd p))
      (combine (columns_of t) (match other with [o] => repeat o (total_bwidth t) | _ => other end)).

Definition S_tb_colwise (t : list (blk V)) (other : list V) : list (list R) :=
  map (fun c => match other with [o] => col_with c o | _ => map2 V R f c other end) (columns_of t).

End TbBinop.
