(* Shared header: stdlib only, lia deciding boolean comparisons, floor div/mod. *)
From Coq Require Export String Ascii.
From Coq Require Export ZArith List Bool Lia ZifyBool Permutation Sorted.
Export ListNotations.
Global Open Scope Z_scope.

Ltac Zify.zify_post_hook ::= Z.to_euclidean_division_equations.

(* Results of modelled operations: a value or an error class (small enum of strings). *)
Inductive res (A : Type) : Type :=
| Ok (a : A)
| Err (e : string).
Arguments Ok {A} a.
Arguments Err {A} e.

Definition res_bind {A B} (r : res A) (f : A -> res B) : res B :=
  match r with Ok a => f a | Err e => Err e end.
Definition res_map {A B} (f : A -> B) (r : res A) : res B :=
  match r with Ok a => Ok (f a) | Err e => Err e end.

Notation "x <- r ;; k" := (res_bind r (fun x => k)) (at level 61, r at next level, right associativity).

Fixpoint res_all {A} (l : list (res A)) : res (list A) :=
  match l with
  | [] => Ok []
  | r :: rs => match r with
               | Err e => Err e
               | Ok a => match res_all rs with Ok xs => Ok (a :: xs) | Err e => Err e end
               end
  end.

Definition res_eqb {A} (eqb : A -> A -> bool) (a b : res A) : bool :=
  match a, b with
  | Ok x, Ok y => eqb x y
  | Err e1, Err e2 => String.eqb e1 e2
  | _, _ => false
  end.

Fixpoint list_eqb {A} (eqb : A -> A -> bool) (a b : list A) : bool :=
  match a, b with
  | [], [] => true
  | x :: xs, y :: ys => eqb x y && list_eqb eqb xs ys
  | _, _ => false
  end.

Definition option_eqb {A} (eqb : A -> A -> bool) (a b : option A) : bool :=
  match a, b with
  | None, None => true
  | Some x, Some y => eqb x y
  | _, _ => false
  end.

Definition pair_eqb {A B} (ea : A -> A -> bool) (eb : B -> B -> bool) (a b : A * B) : bool :=
  ea (fst a) (fst b) && eb (snd a) (snd b).

Lemma list_eqb_eq {A} (eqb : A -> A -> bool) :
  (forall x y, eqb x y = true <-> x = y) ->
  forall a b, list_eqb eqb a b = true <-> a = b.
Proof.
  intros H a; induction a as [|x xs IH]; intros [|y ys]; cbn; split; intro E;
    try reflexivity; try discriminate.
  - apply andb_true_iff in E as [E1 E2]. apply H in E1. apply IH in E2. congruence.
  - injection E as -> ->. apply andb_true_iff; split; [apply H | apply IH]; reflexivity.
Qed.

(* Indices of failing cases: used by the generated cases_*.v files. *)
Definition failing (cs : list (Z * bool)) : list Z :=
  map fst (filter (fun p => negb (snd p)) cs).
