(* C11 -- concatenation and overlay (frame.py:327-601, series.py:211-338, type_blocks.py:214-254,
   type_blocks.py:672-772, container_util.py:883-976, util.py:477-507, 1593-1689, 1914-1949,
   index_correspondence.py:36-117).  Models only, no proofs (Proofs/Concat*.v).

   Two families of definitions:
     S_*  the specification: results described through LABELS -- the cell at (row label, column
          label) is the cell of the input that holds that row label, or the fill value;
     M_*  the implementation model: what the code does -- set operations with their order-preserving
          shortcuts, IndexCorrespondence + resize_blocks (three column paths), the
          block_compatible / reblock_compatible flags and the three vstack strategies,
          concat_resolved with its dtype fold, from_blocks dropping 0-width blocks.

   Parameters (Section variables): label type L with equality leqb and the order lleb NumPy sorts
   by; cell type A with cast (what storing a cell in an array of another dtype does to it) and
   resolve (util.resolve_dtype; instantiated with the kernel REGENERATED from /repo in ConcatVal.v). *)
Require Import SF.Prelude SF.Dtype SF.Blocks.

Section Concat.
Context {L A : Type}.
Variable leqb : L -> L -> bool.
Variable lleb : L -> L -> bool.
Variable cast : dtype -> A -> A.
Variable resolve : dtype -> dtype -> dtype.
Variable auto : Z -> L.                (* label n of an auto-integer index *)

(* ------------------------------------------------------------------ labels *)
Definition lmem (x : L) (l : list L) : bool := existsb (leqb x) l.

Fixpoint find_pos (x : L) (l : list L) : option nat :=
  match l with
  | [] => None
  | y :: r => if leqb x y then Some O else option_map S (find_pos x r)
  end.

Fixpoint nodupb (l : list L) : bool :=
  match l with
  | [] => true
  | x :: r => negb (lmem x r) && nodupb r
  end.

(* keep the first occurrence of every label *)
Fixpoint dedup_acc (seen : list L) (l : list L) : list L :=
  match l with
  | [] => []
  | x :: r => if lmem x seen then dedup_acc seen r else x :: dedup_acc (x :: seen) r
  end.
Definition dedup (l : list L) : list L := dedup_acc [] l.

Definition labels_eqb (a b : list L) : bool := list_eqb leqb a b.

(* SPECIFICATION of the aligned axis: union = every label of any input, once (first-appearance
   order; the property does not fix the order); intersection = labels of the first input that all
   inputs hold *)
Definition S_union (ls : list (list L)) : list L := dedup (concat ls).
Definition S_intersection (ls : list (list L)) : list L :=
  match ls with
  | [] => []
  | l :: r => filter (fun x => forallb (lmem x) r) l
  end.
Definition S_aligned (union : bool) (ls : list (list L)) : list L :=
  if union then S_union ls else S_intersection ls.

(* IMPLEMENTATION: util._ufunc_set_1d (util.py:1593-1689) with assume_unique=True.
   np.union1d = sorted unique of the concatenation; np.intersect1d(assume_unique) = sorted common *)
Fixpoint insert_label (x : L) (l : list L) : list L :=
  match l with
  | [] => [x]
  | y :: r => if lleb x y then x :: l else y :: insert_label x r
  end.
Definition sort_labels (l : list L) : list L := fold_right insert_label [] l.

Definition np_union1d (a b : list L) : list L := sort_labels (dedup (a ++ b)).
Definition np_intersect1d (a b : list L) : list L := sort_labels (filter (fun x => lmem x b) a).

Definition is_nil {X} (l : list X) : bool := match l with [] => true | _ => false end.

Definition M_set_1d (union : bool) (a b : list L) : list L :=
  if negb union && (is_nil a || is_nil b) then []            (* 1625-1630 *)
  else if union && is_nil a then b                            (* 1640-1641 *)
  else if union && is_nil b then a                            (* 1642-1643 *)
  else if (length a =? length b)%nat && labels_eqb a b then a   (* 1648-1662: order retained *)
  else if union then np_union1d a b else np_intersect1d a b.

(* util.ufunc_set_iter (1914-1949): left fold; the break on an empty intersection only skips work *)
Fixpoint M_set_fold (union : bool) (acc : list L) (rest : list (list L)) : list L :=
  match rest with
  | [] => acc
  | l :: r =>
      let acc' := M_set_1d union acc l in
      if negb union && is_nil acc' then acc' else M_set_fold union acc' r
  end.

(* container_util.index_many_set (883-976): empty iterable -> empty index *)
Definition M_index_many_set (union : bool) (ls : list (list L)) : list L :=
  match ls with
  | [] => []
  | l :: r => M_set_fold union l r
  end.

(* ------------------------------------------------------------------ dtypes and columns *)
(* util.concat_resolved (477-507): dt = first.dtype; for the others: if dt != object: dt = resolve(a.dtype, dt) *)
Fixpoint M_resolve_fold (dt : dtype) (rest : list dtype) : dtype :=
  match rest with
  | [] => dt
  | d :: r => M_resolve_fold (if dtype_eqb dt DObj then dt else resolve d dt) r
  end.
(* specification form: the plain fold *)
Definition S_resolve_fold (dt : dtype) (rest : list dtype) : dtype :=
  fold_left (fun acc d => resolve d acc) rest dt.

Definition resolve_parts (f : dtype -> list dtype -> dtype) (dts : list dtype) : dtype :=
  match dts with
  | [] => DFlt 8          (* unreachable: concat_resolved of nothing raises; np.empty default *)
  | d :: r => f d r
  end.

(* a column: dtype and cells down the rows *)
Definition column := (dtype * list A)%type.

(* stack column parts (one per input) vertically: resolved dtype, every cell stored in it *)
Definition stack_col_with (f : dtype -> list dtype -> dtype) (parts : list column) : column :=
  let d := resolve_parts f (map fst parts) in
  (d, flat_map (fun p => map (cast d) (snd p)) parts).
Definition S_stack_col := stack_col_with S_resolve_fold.

(* position-wise regrouping: the k-th element of every list (ragged tails ignored) *)
Definition heads {X} (ls : list (list X)) : list X :=
  flat_map (fun l => match l with [] => [] | x :: _ => [x] end) ls.
Fixpoint transpose {X} (n : nat) (ls : list (list X)) : list (list X) :=
  match n with
  | O => []
  | S n' => heads ls :: transpose n' (map (@tl X) ls)
  end.

(* SPECIFICATION of vertical stacking, no blocks in sight: column j of the result is the stack of
   column j of every input *)
Definition S_vstack (w : nat) (inputs : list (list column)) : list column :=
  map S_stack_col (transpose w inputs).

(* ------------------------------------------------------------------ vstack through the blocks *)
Definition bwidth (b : block A) : nat := length (b_cols b).
Definition widths (t : tb A) : list nat := map bwidth t.
Definition total_width (t : tb A) : nat := length (flatten t).

(* TypeBlocks.block_compatible(axis=1) (568-591) *)
Definition M_block_compatible (a b : tb A) : bool :=
  (total_width a =? total_width b)%nat && list_eqb Nat.eqb (widths a) (widths b).

(* TypeBlocks._reblock_signature (542-566): (dtype, columns) of every run of adjacent equal dtypes *)
Fixpoint sig_go (gd : dtype) (gc : nat) (rest : tb A) : list (dtype * nat) :=
  match rest with
  | [] => if (0 <? gc)%nat then [(gd, gc)] else []
  | b :: r => if dtype_eqb (b_dtype b) gd then sig_go gd (gc + bwidth b) r
              else (gd, gc) :: sig_go (b_dtype b) (bwidth b) r
  end.
Definition M_reblock_signature (t : tb A) : list (dtype * nat) :=
  match t with
  | [] => []
  | b :: r => sig_go (b_dtype b) (bwidth b) r
  end.
(* TypeBlocks.reblock_compatible (593-603): only the sizes are compared *)
Definition M_reblock_compatible (a b : tb A) : bool :=
  (total_width a =? total_width b)%nat &&
  list_eqb Nat.eqb (map snd (M_reblock_signature a)) (map snd (M_reblock_signature b)).

(* TypeBlocks.consolidate_blocks (620-657): a run of one block is passed through unchanged,
   a longer run becomes one 2-D block *)
Definition emit_group (gd : dtype) (group : list (block A)) : block A :=
  match group with
  | [b] => b
  | _ => mk_block gd false (flat_map (@b_cols A) group)
  end.
Fixpoint consolidate_go (gd : dtype) (group_rev : list (block A)) (rest : tb A) : tb A :=
  match rest with
  | [] => [emit_group gd (rev group_rev)]
  | b :: r => if dtype_eqb (b_dtype b) gd then consolidate_go gd (b :: group_rev) r
              else emit_group gd (rev group_rev) :: consolidate_go (b_dtype b) [b] r
  end.
Definition M_consolidate (t : tb A) : tb A :=
  match t with
  | [] => []
  | b :: r => consolidate_go (b_dtype b) [b] r
  end.

(* the flags as Frame.from_concat computes them (frame.py:423-443): consecutive pairs *)
Fixpoint all_consecutive (p : tb A -> tb A -> bool) (prev : tb A) (rest : list (tb A)) : bool :=
  match rest with
  | [] => true
  | t :: r => p t prev && all_consecutive p t r
  end.
Definition flag_of (p : tb A -> tb A -> bool) (ts : list (tb A)) : bool :=
  match ts with
  | [] => true
  | t :: r => all_consecutive p t r
  end.

(* one output block of the block-wise strategies: concat_resolved of the 2-D views of the parts *)
Definition stack_block (parts : list (block A)) : block A :=
  let d := resolve_parts M_resolve_fold (map (@b_dtype A) parts) in
  let w := match parts with [] => O | b :: _ => bwidth b end in
  mk_block d false
    (map (fun colparts => flat_map (map (cast d)) colparts) (transpose w (map (@b_cols A) parts))).

Fixpoint vstack_blockwise (n : nat) (protos : list (tb A)) : tb A :=
  match n with
  | O => []
  | S n' => stack_block (heads protos) :: vstack_blockwise n' (map (@tl (block A)) protos)
  end.

(* the per-column strategy: _extract_array(column_key=i) of every input, 1-D results *)
Definition vstack_columnwise (w : nat) (ts : list (tb A)) : tb A :=
  map (fun parts => let c := stack_col_with M_resolve_fold parts in mk_block (fst c) true [snd c])
      (transpose w (map (@flatten A) ts)).

(* TypeBlocks.vstack_blocks_to_blocks (214-254) with the flags passed in *)
Definition M_vstack_flags (bc rc : bool) (ts : list (tb A)) : tb A :=
  match ts with
  | [] => []                   (* IndexError in Python; from_concat never passes no frames *)
  | t0 :: _ =>
      if bc || rc then
        let protos := if negb bc && rc then map M_consolidate ts else ts in
        vstack_blockwise (length (hd [] protos)) protos
      else vstack_columnwise (total_width t0) ts
  end.
Definition M_vstack (ts : list (tb A)) : tb A :=
  M_vstack_flags (flag_of M_block_compatible ts) (flag_of M_reblock_compatible ts) ts.

(* ------------------------------------------------------------------ frames *)
Record frame := mk_frame { f_index : list L; f_columns : list L; f_blocks : tb A }.

Definition f_rows (f : frame) : nat := length (f_index f).
Definition f_cols (f : frame) : list column := flatten (f_blocks f).

(* TypeBlocks.from_blocks drops 0-width blocks (type_blocks.py:144-146) *)
Definition drop_empty (t : tb A) : tb A := filter (fun b => negb (is_nil (b_cols b))) t.

(* IndexCorrespondence.from_correspondence (index_correspondence.py:36-117), what resize_blocks uses *)
Definition ic_common (src dst : list L) : list L := filter (fun x => lmem x dst) src.
Definition ic_has_common (src dst : list L) : bool := negb (is_nil (ic_common src dst)).
Definition ic_is_subset (src dst : list L) : bool :=
  ic_has_common src dst && (length (ic_common src dst) =? length dst)%nat.

Definition fill_column (filldt : dtype) (fill : A) (rows : nat) : column := (filldt, repeat fill rows).

(* SPECIFICATION of column alignment: by label *)
Definition lookup_col (f : frame) (c : L) : option column :=
  match find_pos c (f_columns f) with
  | Some j => nth_error (f_cols f) j
  | None => None
  end.
Definition S_aligned_col (filldt : dtype) (fill : A) (f : frame) (c : L) : column :=
  match lookup_col f c with
  | Some col => col
  | None => fill_column filldt fill (f_rows f)
  end.
Definition S_reindex_columns (filldt : dtype) (fill : A) (f : frame) (cols : list L) : list column :=
  map (S_aligned_col filldt fill f) cols.

(* IMPLEMENTATION: Frame.reindex(columns=...) -> TypeBlocks.resize_blocks, columns_ic only (697-726) *)
Definition col_block (c : column) : block A := mk_block (fst c) true [snd c].
Definition M_reindex_columns (filldt : dtype) (fill : A) (f : frame) (cols : list L) : frame :=
  if labels_eqb (f_columns f) cols then f                                     (* frame.py:430 / 3043 *)
  else
    let blocks :=
      if negb (ic_has_common (f_columns f) cols) then                          (* 698-702 *)
        [mk_block filldt false (repeat (repeat fill (f_rows f)) (length cols))]
      else if (length (f_blocks f) <=? 1)%nat && ic_is_subset (f_columns f) cols then   (* 704-709 *)
        match f_blocks f with
        | [b] => if b_1d b then [b]
                 else [mk_block (b_dtype b) false
                         (flat_map (fun c => match find_pos c (f_columns f) with
                                             | Some j => match nth_error (b_cols b) j with Some x => [x] | None => [] end
                                             | None => [] end) cols)]
        | _ => []
        end
      else                                                                     (* 711-726 *)
        map (fun c => col_block (S_aligned_col filldt fill f c)) cols
    in mk_frame (f_index f) cols (drop_empty blocks).

(* SPECIFICATION of row alignment of one column: by label.  When some target row is absent the
   column is stored in resolve(dtype, fill dtype) (full_for_fill) *)
Definition pick_rows (src : list L) (dst : list L) (fill : A) (vs : list A) : list A :=
  map (fun r => match find_pos r src with
                | Some i => nth i vs fill
                | None => fill
                end) dst.
Definition S_reindex_rows_col (filldt : dtype) (fill : A) (src dst : list L) (c : column) : column :=
  if labels_eqb src dst then c
  else if ic_is_subset src dst then (fst c, pick_rows src dst fill (snd c))
  else let d := resolve (fst c) filldt in (d, map (cast d) (pick_rows src dst fill (snd c))).

(* IMPLEMENTATION: resize_blocks, index_ic only (684-695): block by block *)
Definition M_reindex_rows (filldt : dtype) (fill : A) (f : frame) (idx : list L) : frame :=
  if labels_eqb (f_index f) idx then f
  else
    let src := f_index f in
    mk_frame idx (f_columns f)
      (map (fun b =>
              if ic_is_subset src idx
              then mk_block (b_dtype b) (b_1d b) (map (pick_rows src idx fill) (b_cols b))
              else let d := resolve (b_dtype b) filldt in
                   mk_block d (b_1d b) (map (fun vs => map (cast d) (pick_rows src idx fill vs)) (b_cols b)))
           (f_blocks f)).

(* ------------------------------------------------------------------ Frame.from_concat *)
Inductive ixarg := IxNone | IxAuto | IxGiven (l : list L).

Definition auto_labels (n : nat) : list L := map (fun i => auto (Z.of_nat i)) (seq 0 n).

(* labels along the concatenation axis: index_many_concat + the Index constructor's uniqueness
   check (frame.py:374-384 / 404-411), or the replacement *)
Definition M_concat_labels (arg : ixarg) (ls : list (list L)) (n : nat) : res (list L) :=
  match arg with
  | IxAuto => Ok (auto_labels n)
  | IxNone => if nodupb (concat ls) then Ok (concat ls) else Err "ErrorInitFrame"
  | IxGiven l => if (length l =? n)%nat then Ok l else Err "ErrorInitFrame"
  end.
Definition M_aligned_labels (arg : ixarg) (union : bool) (ls : list (list L)) : res (list L) :=
  match arg with
  | IxAuto => Err "ErrorInitFrame"                  (* frame.py:386-387 / 413-414 *)
  | IxNone => Ok (M_index_many_set union ls)
  | IxGiven l => Ok l
  end.

(* TypeBlocks.from_blocks over a generator that yields nothing has no row count (155-164) *)
Definition M_from_blocks (t : tb A) : res (tb A) :=
  match drop_empty t with
  | [] => Err "ErrorInitTypeBlocks"
  | t' => Ok t'
  end.

Definition sum_rows (fs : list frame) : nat := fold_right (fun f n => (f_rows f + n)%nat) O fs.

(* axis = 0: stack rows, align columns *)
Definition M_concat0 (union : bool) (ixa cola : ixarg) (filldt : dtype) (fill : A) (fs : list frame) : res frame :=
  match fs with
  | [] => match ixa, cola with
          | IxGiven _, _ | _, IxGiven _ => Err "unmodelled"
          | _, _ => Ok (mk_frame [] [] [])
          end
  | _ =>
    _ <- (match ixa with
          | IxNone => if nodupb (concat (map f_index fs)) then Ok tt else Err "ErrorInitFrame"
          | _ => Ok tt
          end) ;;
    cols <- M_aligned_labels cola union (map f_columns fs) ;;
    let fs' := map (fun f => M_reindex_columns filldt fill f cols) fs in
    t <- M_from_blocks (M_vstack (map f_blocks fs')) ;;
    idx <- M_concat_labels ixa (map f_index fs) (sum_rows fs) ;;
    Ok (mk_frame idx cols t)
  end.

(* axis = 1: chain blocks, align rows *)
Definition M_concat1 (union : bool) (ixa cola : ixarg) (filldt : dtype) (fill : A) (fs : list frame) : res frame :=
  match fs with
  | [] => match ixa, cola with
          | IxGiven _, _ | _, IxGiven _ => Err "unmodelled"
          | _, _ => Ok (mk_frame [] [] [])
          end
  | _ =>
    _ <- (match cola with
          | IxNone => if nodupb (concat (map f_columns fs)) then Ok tt else Err "ErrorInitFrame"
          | _ => Ok tt
          end) ;;
    idx <- M_aligned_labels ixa union (map f_index fs) ;;
    let fs' := map (fun f => M_reindex_rows filldt fill f idx) fs in
    t <- M_from_blocks (flat_map f_blocks fs') ;;
    cols <- M_concat_labels cola (map f_columns fs) (length (flatten t)) ;;
    Ok (mk_frame idx cols t)
  end.

(* ------------------------------------------------------------------ specification of from_concat *)
(* the result as a plain table: labels and columns, no blocks *)
Record table := mk_table { t_index : list L; t_columns : list L; t_cols : list column }.

(* axis 0, for given aligned labels `cols`: column c of the result is the stack, in input order, of
   every input's column c (or its fill column) *)
Definition S_concat0_cols (filldt : dtype) (fill : A) (fs : list frame) (cols : list L) : list column :=
  map (fun c => S_stack_col (map (fun f => S_aligned_col filldt fill f c) fs)) cols.

(* axis 1, for given aligned labels `idx`: the columns of every input, each aligned by row label *)
Definition S_concat1_cols (filldt : dtype) (fill : A) (fs : list frame) (idx : list L) : list column :=
  flat_map (fun f => map (S_reindex_rows_col filldt fill (f_index f) idx) (f_cols f)) fs.

(* the cell at a pair of labels of a table *)
Definition t_cell (t : table) (r c : L) : option A :=
  match find_pos c (t_columns t), find_pos r (t_index t) with
  | Some j, Some i => match nth_error (t_cols t) j with
                      | Some col => nth_error (snd col) i
                      | None => None
                      end
  | _, _ => None
  end.
Definition f_table (f : frame) : table := mk_table (f_index f) (f_columns f) (f_cols f).

(* the first input holding row label r *)
Fixpoint holder (r : L) (fs : list frame) : option frame :=
  match fs with
  | [] => None
  | f :: rest => if lmem r (f_index f) then Some f else holder r rest
  end.

(* ------------------------------------------------------------------ Series.from_concat (series.py:211-261) *)
Definition series := (list L * column)%type.

Definition M_series_concat (arg : ixarg) (ss : list series) : res series :=
  match ss with
  | [] => match arg with
          | IxGiven _ => Err "unmodelled"
          | _ => Ok ([], (DFlt 8, []))                        (* cls(EMPTY_TUPLE, index=index) *)
          end
  | _ =>
    let col := stack_col_with M_resolve_fold (map snd ss) in   (* concat_resolved *)
    let n := length (snd col) in
    match arg with
    | IxNone => if nodupb (concat (map fst ss)) then Ok (concat (map fst ss), col) else Err "ErrorInitIndex"
    | IxAuto => Ok (auto_labels n, col)
    | IxGiven l => if (length l =? n)%nat then Ok (l, col) else Err "ErrorInitSeries"
    end
  end.

(* SPECIFICATION: labels and cells are the inputs', in input order *)
Definition S_series_labels (ss : list series) : list L := concat (map fst ss).
Definition S_series_cells (ss : list series) : list A := flat_map (fun s => snd (snd s)) ss.

(* ------------------------------------------------------------------ the items forms *)
Variable pair_label : L -> L -> L.          (* the two-level label (outer key, inner label) *)

(* SPECIFICATION: [(k, l) | (k, labels) <- items, l <- labels] *)
Definition S_item_labels (kls : list (L * list L)) : list L :=
  flat_map (fun kl => map (pair_label (fst kl)) (snd kl)) kls.

(* IndexHierarchy.from_index_items (index_hierarchy.py:304-342): one IndexLevel per item (a
   zero-length inner index is rejected by the IndexLevel constructor), then the outer Index
   over the keys (rejects duplicates) *)
Definition M_index_items (kls : list (L * list L)) : res (list L) :=
  if existsb (fun kl => is_nil (snd kl)) kls then Err "ErrorInitIndex"
  else if nodupb (map fst kls) then Ok (S_item_labels kls)
  else Err "ErrorInitIndex".

(* Frame.from_concat_items (frame.py:467-515): the hierarchy is passed to from_concat as the
   explicit index (axis 0) / columns (axis 1) *)
Definition M_concat_items (axis1 union : bool) (filldt : dtype) (fill : A) (kfs : list (L * frame)) : res frame :=
  match kfs with
  | [] => Ok (mk_frame [] [] [])
  | _ =>
    labels <- M_index_items (map (fun kf => (fst kf, if axis1 then f_columns (snd kf) else f_index (snd kf))) kfs) ;;
    if axis1 then M_concat1 union IxNone (IxGiven labels) filldt fill (map snd kfs)
    else M_concat0 union (IxGiven labels) IxNone filldt fill (map snd kfs)
  end.

(* Series.from_concat_items (series.py:263-295) *)
Definition M_series_concat_items (kss : list (L * series)) : res series :=
  match kss with
  | [] => Ok ([], (DFlt 8, []))
  | _ =>
    labels <- M_index_items (map (fun ks => (fst ks, fst (snd ks))) kss) ;;
    Ok (labels, stack_col_with M_resolve_fold (map (fun ks => snd (snd ks)) kss))
  end.

(* ------------------------------------------------------------------ overlay *)
Variable isna : A -> bool.
Variable na_of : dtype -> dtype * A.   (* util.dtype_kind_to_na of the dtype's kind: (dtype of that NA alone, the NA) *)

(* SPECIFICATION (cell level): the first non-missing value, in input order, among the inputs
   that have the cell; None when there is none (the result is then some missing marker) *)
Definition S_overlay_cell (fs : list frame) (r c : L) : option A :=
  find (fun v => negb (isna v))
       (flat_map (fun f => match t_cell (f_table f) r c with Some v => [v] | None => [] end) fs).

(* the fold the implementation performs on one cell *)
Definition overlay_step (acc v : A) : A := if isna acc then v else acc.

(* TypeBlocks._row_dtype: resolve_dtype_iter over the blocks (util.py:460-473) *)
Definition M_row_dtype (t : tb A) : option dtype :=
  match t with
  | [] => None
  | b :: r => Some (fold_left (fun acc b' => if dtype_eqb acc DObj then acc else resolve acc (b_dtype b')) r (b_dtype b))
  end.

(* Frame.reindex(index=, columns=) (frame.py:3001-3067) -> resize_blocks; the both-axes path is
   type_blocks.py:728-772 (has_common consulted per axis since fix 658b4ce). *)
Definition M_reindex_both (filldt : dtype) (fill : A) (f : frame) (idx cols : list L) : frame :=
  let ieq := labels_eqb (f_index f) idx in
  let ceq := labels_eqb (f_columns f) cols in
  if ieq && ceq then mk_frame idx cols (f_blocks f)
  else if ceq then M_reindex_rows filldt fill f idx
  else if ieq then M_reindex_columns filldt fill f cols
  else
    let src := f_index f in
    let isub := ic_is_subset src idx in
    let blocks :=
      if negb (ic_has_common (f_columns f) cols) && negb (ic_has_common src idx) then
        [mk_block filldt false (repeat (repeat fill (length idx)) (length cols))]
      else if (length (f_blocks f) <=? 1)%nat && isub && ic_is_subset (f_columns f) cols then
        match f_blocks f with
        | [b] => if b_1d b then [mk_block (b_dtype b) true (map (pick_rows src idx fill) (b_cols b))]
                 else [mk_block (b_dtype b) false
                         (flat_map (fun c => match find_pos c (f_columns f) with
                                             | Some j => match nth_error (b_cols b) j with
                                                         | Some x => [pick_rows src idx fill x] | None => [] end
                                             | None => [] end) cols)]
        | _ => []
        end
      else
        map (fun c => match lookup_col f c with
                      | Some col =>
                          if isub then col_block (fst col, pick_rows src idx fill (snd col))
                          else let d := resolve (fst col) filldt in
                               col_block (d, map (cast d) (pick_rows src idx fill (snd col)))
                      | None => col_block (fill_column filldt fill (length idx))
                      end) cols
    in mk_frame idx cols (drop_empty blocks).

(* SPECIFICATION of TypeBlocks.fillna_by_values on one column *)
Definition S_fillna_col (c v : column) : column :=
  if negb (existsb isna (snd c)) then c
  else if forallb isna (snd c) then v
  else let d := resolve (fst v) (fst c) in
       (d, map (fun xv => if isna (fst xv) then cast d (snd xv) else cast d (fst xv)) (combine (snd c) (snd v))).

(* IMPLEMENTATION: _assign_from_boolean_blocks_by_blocks (type_blocks.py:1737-1788): a block
   without missing cells is passed through whole; otherwise it is split into 1-D columns *)
Fixpoint M_fillna_blocks (t : tb A) (vals : list column) : tb A :=
  match t with
  | [] => []
  | b :: r =>
      let w := bwidth b in
      (if existsb (existsb isna) (b_cols b)
       then map (fun cv => col_block (S_fillna_col (b_dtype b, fst cv) (snd cv))) (combine (b_cols b) (firstn w vals))
       else [b])
      ++ M_fillna_blocks r (skipn w vals)
  end.

(* the aligned columns of one later container (frame.py:570-586) *)
Definition M_overlay_values (post : frame) (f : frame) : list column :=
  map (fun cd : L * column =>
         match lookup_col f (fst cd) with
         | None => let na := na_of (fst (snd cd)) in (fst na, repeat (snd na) (length (f_index post)))
         | Some col => let na := na_of (fst col) in
                       S_reindex_rows_col (fst na) (snd na) (f_index f) (f_index post) col
         end)
      (combine (f_columns post) (f_cols post)).

Fixpoint M_overlay_fold (post : frame) (rest : list frame) : res frame :=
  match rest with
  | [] => Ok post
  | f :: r =>
      t <- M_from_blocks (M_fillna_blocks (f_blocks post) (M_overlay_values post f)) ;;
      (* `if not post.isna().any().any(): break` (frame.py:598): the reduction raises on a frame without rows
         held in a single block (TypeBlocks.ufunc_axis_skipna, unified path, type_blocks.py:860-863) *)
      if is_nil (f_index post) && (length t =? 1)%nat then Err "AttributeError"
      else M_overlay_fold (mk_frame (f_index post) (f_columns post) t) r
  end.

Definition opt_labels (arg : option (list L)) (union : bool) (ls : list (list L)) : list L :=
  match arg with Some l => l | None => M_index_many_set union ls end.

(* Frame.from_overlay (frame.py:517-601); the early exit once nothing is missing only skips work
   (a block without missing cells is passed through by every later step) *)
Definition M_overlay (union : bool) (ixa cola : option (list L)) (fs : list frame) : res frame :=
  match fs with
  | [] => Err "StopIteration"
  | f0 :: rest =>
      let idx := opt_labels ixa union (map f_index fs) in
      let cols := opt_labels cola union (map f_columns fs) in
      match M_row_dtype (f_blocks f0) with
      | None => Err "AttributeError"
      | Some rd => let na := na_of rd in
                   M_overlay_fold (M_reindex_both (fst na) (snd na) f0 idx cols) rest
      end
  end.

(* Series.fillna(other Series) (series.py:971-1016) and Series.from_overlay (297-338) *)
Definition M_series_fillna (s o : series) : series :=
  let sel := map (fun lv : L * A => isna (snd lv) && lmem (fst lv) (fst o)) (combine (fst s) (snd (snd s))) in
  if negb (existsb (fun b => b) sel) then s
  else
    let d := resolve (fst (snd o)) (fst (snd s)) in
    (fst s, (d, map (fun lvb : (L * A) * bool =>
                       let l := fst (fst lvb) in let v := snd (fst lvb) in
                       if snd lvb then match find_pos l (fst o) with
                                       | Some i => cast d (nth i (snd (snd o)) v)
                                       | None => cast d v
                                       end
                       else cast d v)
                    (combine (combine (fst s) (snd (snd s))) sel))).

Definition M_series_overlay (union : bool) (ixa : option (list L)) (ss : list series) : res series :=
  match ss with
  | [] => Err "StopIteration"
  | s0 :: rest =>
      let idx := opt_labels ixa union (map fst ss) in
      let na := na_of (fst (snd s0)) in
      let post := (idx, S_reindex_rows_col (fst na) (snd na) (fst s0) idx (snd s0)) in
      Ok (fold_left M_series_fillna rest post)
  end.

(* SPECIFICATION for Series: cell by label *)
Definition S_series_overlay_cell (ss : list series) (r : L) : option A :=
  find (fun v => negb (isna v))
       (flat_map (fun s : series => match find_pos r (fst s) with
                                    | Some i => match nth_error (snd (snd s)) i with Some v => [v] | None => [] end
                                    | None => [] end) ss).

End Concat.

Arguments frame : clear implicits.
Arguments table : clear implicits.
Arguments ixarg : clear implicits.
