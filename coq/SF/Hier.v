(* C05 -- hierarchical index: executable models (NO proofs here).

   level            the IndexLevel tree (index_level.py:46): every node has an offset RELATIVE TO ITS
                    PARENT, the labels of its Index, and (inner nodes) one child per label (`targets`).
   S_* (spec)       work on the flat list of label tuples only (grouping of consecutive rows).
   M_* (impl model) the algorithms the code runs: deque walks (`bfs`), stored offsets, LocMap lookups with
                    `partial_selection`, the GO mutation along the LAST edge -- bugs included.          *)
Require Import SF.Prelude SF.PySlice.

(* ------------------------------------------------------------------ generic deque walk *)
Section BFS.
  Variables (N R : Type).
  Variable step : N -> list R * list N.      (* what a popped entry yields, what it appends to the deque *)

  (* `levels = deque((root,)); while levels: x = levels.popleft(); ...; levels.extend(kids)` *)
  Fixpoint bfs (fuel : nat) (q : list N) : res (list R) :=
    match q with
    | [] => Ok []
    | x :: q' =>
        match fuel with
        | O => Err "OutOfFuel"
        | S f => match bfs f (q' ++ snd (step x)) with
                 | Ok r => Ok (fst (step x) ++ r)
                 | Err e => Err e
                 end
        end
    end.
  (* number of pops the walk makes below an entry of height h (level by level); used as the fuel *)
  Fixpoint bfs_cost (h : nat) (x : N) : nat :=
    match h with
    | O => 1
    | S h' => S (list_sum (map (bfs_cost h') (snd (step x))))
    end.
End BFS.
Arguments bfs {N R} step fuel q.
Arguments bfs_cost {N R} step h x.

Definition zlen {B} (l : list B) : Z := Z.of_nat (length l).

Fixpoint res_concat {B} (l : list (res (list B))) : res (list B) :=
  match l with
  | [] => Ok []
  | Err e :: _ => Err e
  | Ok x :: l' => match res_concat l' with Ok r => Ok (x ++ r) | Err e => Err e end
  end.

Fixpoint zrange (a : Z) (n : nat) : list Z := match n with O => [] | S n' => a :: zrange (a + 1) n' end.

(* apply f to the LAST element only (the edge node the GO mutation / the builder descends into) *)
Definition map_last {B} (f : B -> res B) : list B -> res (list B) :=
  fix go (l : list B) : res (list B) :=
    match l with
    | [] => Err "IndexError"
    | c :: l' =>
        match l' with
        | [] => match f c with Ok c' => Ok [c'] | Err e => Err e end
        | _ => match go l' with Ok r => Ok (c :: r) | Err e => Err e end
        end
    end.

Section Hier.
  Variable A : Type.
  Variable eqb : A -> A -> bool.

  Inductive level : Type :=
  | Leaf (off : Z) (labels : list A)
  | Node (off : Z) (labels : list A) (kids : list level).

  Definition lv_off (t : level) : Z := match t with Leaf o _ | Node o _ _ => o end.
  Definition lv_labels (t : level) : list A := match t with Leaf _ l | Node _ l _ => l end.
  Definition set_off (o : Z) (t : level) : level :=
    match t with Leaf _ l => Leaf o l | Node _ l k => Node o l k end.

  (* IndexLevel._get_length (index_level.py:230): sum of the leaf index lengths *)
  Fixpoint lv_len (t : level) : Z :=
    match t with
    | Leaf _ ls => zlen ls
    | Node _ ls ks =>
        match ks with
        | [] => zlen ls
        | _ => (fix go (l : list level) : Z := match l with [] => 0 | k :: l' => lv_len k + go l' end) ks
        end
    end.

  (* IndexLevel._get_depth (index_level.py:207): follow the first child *)
  Fixpoint lv_depth (t : level) : nat :=
    match t with
    | Leaf _ _ => 1
    | Node _ _ ks => S (match ks with [] => 0 | k :: _ => lv_depth k end)
    end.

  Fixpoint node_count (t : level) : nat :=
    match t with
    | Leaf _ _ => 1
    | Node _ _ ks => S ((fix go (l : list level) : nat := match l with [] => O | k :: l' => (node_count k + go l')%nat end) ks)
    end.

  (* ================================================================ specification side: the tuples *)
  (* the sequence of label tuples a tree denotes (depth-first) *)
  Fixpoint flatten (t : level) : list (list A) :=
    match t with
    | Leaf _ ls => map (fun l => [l]) ls
    | Node _ ls ks =>
        (fix go (ks : list level) (ls : list A) {struct ks} : list (list A) :=
           match ks, ls with
           | k :: ks', l :: ls' => map (cons l) (flatten k) ++ go ks' ls'
           | _, _ => []
           end) ks ls
    end.

  Fixpoint index_of (x : A) (l : list A) : option nat :=
    match l with
    | [] => None
    | y :: l' => if eqb x y then Some O else option_map S (index_of x l')
    end.
  Definition mem (x : A) (l : list A) : bool := match index_of x l with Some _ => true | None => false end.

  Definition row_eqb : list A -> list A -> bool := list_eqb eqb.
  Fixpoint row_index (r : list A) (rows : list (list A)) : option nat :=
    match rows with
    | [] => None
    | y :: l' => if row_eqb r y then Some O else option_map S (row_index r l')
    end.

  Definition S_contains (rows : list (list A)) (key : list A) : bool :=
    match row_index key rows with Some _ => true | None => false end.
  Definition S_lookup (rows : list (list A)) (key : list A) : res Z :=
    match row_index key rows with Some i => Ok (Z.of_nat i) | None => Err "KeyError" end.
  Definition S_column (rows : list (list A)) (d : nat) : list A :=
    flat_map (fun r => match nth_error r d with Some x => [x] | None => [] end) rows.

  (* ---- per-level selectors of an HLoc *)
  Inductive sel : Type :=
  | SAll                                   (* `:` *)
  | SOne (l : A)                           (* a label *)
  | SList (ls : list A)                    (* a list of labels *)
  | SSlice (a b : option A)                (* a label slice, both ends inclusive, step None *)
  | SMask (bs : list bool)                 (* a Boolean array over ALL positions of the index *)
  | SStep (a b : option A) (k : Z).        (* a label slice with a step k <> 0: both ends inclusive; k < 0 walks down *)

  Definition sel_multiple (s : sel) : bool := match s with SOne _ => false | _ => true end.
  Definition sel_at (key : list sel) (d : nat) : sel := nth d key SAll.    (* HLoc.__getitem__ (hloc.py:38) *)

  Definition heads (rows : list (list A)) : list A :=
    flat_map (fun r => match r with h :: _ => [h] | [] => [] end) rows.

  (* consecutive rows with the same head form one group: (label, tails) *)
  Fixpoint group_runs (rows : list (list A)) : list (A * list (list A)) :=
    match rows with
    | [] => []
    | [] :: rows' => group_runs rows'
    | (h :: t) :: rows' =>
        match group_runs rows' with
        | (h', ts) :: gs => if eqb h h' then (h, t :: ts) :: gs else (h, [t]) :: (h', ts) :: gs
        | [] => [(h, [t])]
        end
    end.

  Fixpoint pick_labels (ls : list A) (want : list A) : list nat :=
    match want with
    | [] => []
    | w :: want' => match index_of w ls with Some i => i :: pick_labels ls want' | None => pick_labels ls want' end
    end.

  Definition step_idx (i k : Z) (cnt : nat) : list nat :=
    map (fun t => Z.to_nat (i + Z.of_nat t * k)) (seq 0 cnt).

  (* which members (local position, in result order) of a sibling group with labels `ls` a selector picks;
     `base` = absolute position of the group's first row (masks are over absolute positions) *)
  Definition S_pick (inner : bool) (base : Z) (ls : list A) (s : sel) : res (list nat) :=
    match s with
    | SAll => Ok (seq 0 (length ls))
    | SOne l => Ok (match index_of l ls with Some i => [i] | None => [] end)
    | SList want => Ok (pick_labels ls want)
    | SSlice a b =>
        match (match a with None => Some O | Some x => index_of x ls end),
              (match b with None => Some (length ls) | Some x => option_map S (index_of x ls) end) with
        | Some i, Some j => Ok (seq i (j - i))
        | _, _ => Err "KeyError"        (* an end point that is no label of this group: as for a flat Index *)
        end
    | SMask bs =>
        if inner
        then Ok (filter (fun i => nth (Z.to_nat (base + Z.of_nat i)) bs false) (seq 0 (length ls)))
        else Err "OutsideClaim"
    | SStep a b k =>
        (* every |k|-th label from the start label to the stop label, both inclusive; an open end is the first /
           last label of THIS sibling group (for k < 0: start at the last, stop at the first) *)
        if negb inner then Err "OutsideClaim"
        else if k =? 0 then Err "ValueError"
        else
          let n := Z.of_nat (length ls) in
          let bound (x : option A) (dflt : Z) : option Z :=
              match x with None => Some dflt | Some l => option_map Z.of_nat (index_of l ls) end in
          if 0 <? k then
            match bound a 0, bound b (n - 1) with
            | Some i, Some j => Ok (step_idx i k (if i <=? j then Z.to_nat ((j - i) / k + 1) else O))
            | _, _ => Err "KeyError"
            end
          else
            match bound a (n - 1), bound b 0 with
            | Some i, Some j => Ok (step_idx i k (if j <=? i then Z.to_nat ((i - j) / (- k) + 1) else O))
            | _, _ => Err "KeyError"
            end
    end.

  (* absolute position of the first row of each group *)
  Fixpoint group_bases (base : Z) (gs : list (A * list (list A))) : list Z :=
    match gs with [] => [] | g :: gs' => base :: group_bases (base + zlen (snd g)) gs' end.

  (* the nested loop over rows of depth D; key[d] is the selector of the outermost remaining depth *)
  Fixpoint S_select (D : nat) (rows : list (list A)) (base : Z) (key : list sel) (d : nat) : res (list Z) :=
    match D with
    | O => Ok []
    | S D' =>
        match D' with
        | O => match S_pick true base (heads rows) (sel_at key d) with
               | Ok picked => Ok (map (fun i => base + Z.of_nat i) picked)
               | Err e => Err e
               end
        | S _ =>
            let gs := group_runs rows in
            match S_pick false base (map fst gs) (sel_at key d) with
            | Err e => Err e
            | Ok picked =>
                res_concat (map (fun i => match nth_error (combine gs (group_bases base gs)) i with
                                          | Some (g, b) => S_select D' (snd g) b key (S d)
                                          | None => Ok []
                                          end) picked)
            end
        end
    end.

  Definition rows_depth (rows : list (list A)) : nat := match rows with [] => O | r :: _ => length r end.

  (* HLoc selection: (single position?, positions); empty selections are outside the claim *)
  Definition S_hloc (rows : list (list A)) (key : list sel) : res (bool * list Z) :=
    let D := rows_depth rows in
    match S_select D rows 0 key O with
    | Err e => Err e
    | Ok [] => Err "KeyError"
    | Ok ps => Ok (Nat.eqb (length key) D && forallb (fun s => negb (sel_multiple s)) key, ps)
    end.

  (* a Boolean array as the whole key *)
  Definition S_mask (bs : list bool) : list Z :=
    map Z.of_nat (filter (fun i => nth i bs false) (seq 0 (length bs))).

  (* ================================================================ implementation side *)
  (* ---- IndexLevel.__iter__ (index_level.py:606): deque of (level, row_previous) *)
  Definition iter_step (x : level * list A) : list (list A) * list (level * list A) :=
    match fst x with
    | Leaf _ ls => (map (fun v => snd x ++ [v]) ls, [])
    | Node _ ls ks => ([], map (fun lk => (snd lk, snd x ++ [fst lk])) (combine ls ks))
    end.
  Definition M_iter (t : level) : res (list (list A)) :=
    bfs iter_step (bfs_cost iter_step (pred (lv_depth t)) (t, [])) [(t, [])].

  (* ---- label_widths_at_depth / index_array_at_depth (index_level.py:255, 334): deque of (level, depth) *)
  Definition at_depth_step {R} (emit : level -> list R) (target : nat) (x : level * nat)
    : list R * list (level * nat) :=
    if Nat.eqb (snd x) target then (emit (fst x), [])
    else match fst x with
         | Leaf _ _ => ([], [])
         | Node _ _ ks => ([], map (fun k => (k, S (snd x))) ks)
         end.

  (* get_widths: uses the offset of the NEXT sibling; the last sibling's width is its length *)
  Fixpoint widths_go (ls : list A) (ks : list level) (trav : Z) : list (A * Z) :=
    match ls, ks with
    | l :: ls', k :: ks' =>
        match ks' with
        | knext :: _ =>
            let delta := if lv_off knext >? 0 then lv_off knext - trav else lv_len k in
            (l, delta) :: widths_go ls' ks' (trav + delta)
        | [] => (l, lv_len k) :: widths_go ls' [] trav
        end
    | _, _ => []
    end.
  Definition get_widths (t : level) : list (A * Z) :=
    match t with
    | Leaf _ ls => map (fun l => (l, 1)) ls
    | Node _ ls ks => widths_go ls ks 0
    end.

  Definition walk_at_depth {R} (emit : level -> list R) (t : level) (d : nat) : res (list R) :=
    bfs (at_depth_step emit d) (bfs_cost (at_depth_step emit d) d (t, O)) [(t, O)].

  Definition M_widths (t : level) (d : nat) : res (list (A * Z)) := walk_at_depth get_widths t d.

  (* IndexLevel.labels_at_depth (index_level.py:297-331), behind IndexHierarchy.iter_label(depth) while the
     2-D table is not built: its own copy of the width logic (get_labels), each label repeated by its width *)
  Definition get_labels (t : level) : list A :=
    flat_map (fun lw => repeat (fst lw) (Z.to_nat (snd lw))) (get_widths t).
  Definition M_labels_at_depth (t : level) (d : nat) : res (list A) :=
    match walk_at_depth get_labels t d with Ok ls => Ok ls | Err e => Err e end.

  (* IndexLevel.values_at_depth (index_level.py:631) *)
  Definition M_values_at_depth (t : level) (d : nat) : res (list A) :=
    if Nat.eqb (S d) (lv_depth t)
    then match walk_at_depth (fun n => [lv_labels n]) t d with
         | Ok arrays => Ok (concat arrays)
         | Err e => Err e
         end
    else match M_widths t d with
         | Ok ws => Ok (flat_map (fun lw => repeat (fst lw) (Z.to_nat (snd lw))) ws)
         | Err e => Err e
         end.

  (* IndexLevel.to_type_blocks (index_level.py:787): one array per depth -- the `_blocks` cache *)
  Definition M_blocks (t : level) : res (list (list A)) :=
    res_all (map (M_values_at_depth t) (seq 0 (lv_depth t))).

  (* ---- IndexLevel.__contains__ (index_level.py:426); a leaf label is a member only if the key ends there
          (`return key_depth == key_depth_max`, fix 248eb88) *)
  Fixpoint M_contains (key : list A) (t : level) : bool :=
    match key with
    | [] => false
    | k :: key' =>
        match index_of k (lv_labels t) with
        | None => false
        | Some i =>
            match t with
            | Leaf _ _ => match key' with [] => true | _ => false end
            | Node _ _ ks => match nth_error ks i with Some c => M_contains key' c | None => false end
            end
        end
    end.

  (* ---- IndexLevel.leaf_loc_to_iloc (index_level.py:446) *)
  Fixpoint M_leaf_loc (key : list A) (t : level) (pos : Z) : res Z :=
    match key with
    | [] => Err "KeyError"
    | k :: key' =>
        match t with
        | Node _ ls ks =>
            match index_of k ls with
            | None => Err "KeyError"
            | Some i => match nth_error ks i with
                        | Some c => M_leaf_loc key' c (pos + lv_off c)
                        | None => Err "IndexError"
                        end
            end
        | Leaf _ ls =>
            match index_of k ls with
            | None => Err "KeyError"
            | Some i => match key' with [] => Ok (pos + Z.of_nat i) | _ => Err "KeyError" end
            end
        end
    end.

  (* ---- LocMap.loc_to_iloc (index.py:194) as called with partial_selection=True *)
  Inductive part : Type := PInt (z : Z) | PSlice (a b : option Z) | PList (l : list Z) | PStep (a b : option Z) (k : Z).

  Definition slice_bound (ls : list A) (x : option A) (shift : Z) : res (option Z) :=
    match x with
    | None => Ok None
    | Some l => match index_of l ls with
                | Some i => Ok (Some (Z.of_nat i + shift))
                | None => Err "LocInvalid"
                end
    end.

  Definition M_locmap (ls : list A) (s : sel) (offset : option Z) : res part :=
    let o := match offset with Some o => o | None => 0 end in
    let null := match offset with
                | Some o => Ok (PSlice (Some o) (Some (zlen ls + o)))
                | None => Ok (PSlice None None)
                end in
    match s with
    | SAll => null
    | SSlice None None => null
    | SSlice a b =>
        match slice_bound ls a o with
        | Err e => Err e
        | Ok sa => match slice_bound ls b (o + 1) with
                   | Err e => Err e
                   | Ok sb =>
                       (* open ends are bounded by this index's own extent when an offset applies (fix cc33791) *)
                       match offset with
                       | Some o' => Ok (PSlice (match sa with None => Some o' | _ => sa end)
                                               (match sb with None => Some (zlen ls + o') | _ => sb end))
                       | None => Ok (PSlice sa sb)
                       end
                   end
        end
    | SOne l => match index_of l ls with Some i => Ok (PInt (Z.of_nat i + o)) | None => Err "KeyError" end
    | SList want => Ok (PList (map (fun i => Z.of_nat i + o) (pick_labels ls want)))
    | SMask bs =>
        if Nat.eqb (length bs) (length ls)
        then Ok (PList (map (fun i => Z.of_nat i + o) (filter (fun i => nth i bs false) (seq 0 (length ls)))))
        else Err "IndexError"
    | SStep a b k =>
        (* LocMap.map_slice_args (index.py:115-190), generic (non-datetime64) branch: the offset is added right
           after the label lookup; the inclusive stop is pos + 1 going up, pos - 1 (None below 0) going down (fix
           c6f9ada); LocMap.loc_to_iloc then bounds open ends by this index's extent only for k > 0 (fix cc33791) *)
        match offset with
        | None => Err "OutsideModel"
        | Some o' =>
            if k =? 0 then Err "ValueError"
            else
              match slice_bound ls a o' with
              | Err e => Err e
              | Ok sa =>
                  match slice_bound ls b o' with
                  | Err e => Err e
                  | Ok sb0 =>
                      let sb := match sb0 with
                                | None => None
                                | Some p => if 0 <? k then Some (p + 1) else if p - 1 <? 0 then None else Some (p - 1)
                                end in
                      if 0 <? k
                      then Ok (PStep (match sa with None => Some o' | _ => sa end)
                                     (match sb with None => Some (zlen ls + o') | _ => sb end) k)
                      else Ok (PStep sa sb k)
                  end
              end
        end
    end.

  Definition nth_kid (ks : list level) (z : Z) : list level :=
    if z <? 0 then [] else match nth_error ks (Z.to_nat z) with Some k => [k] | None => [] end.

  (* level.targets[iloc] *)
  Definition select_kids (ks : list level) (p : part) : list level :=
    match p with
    | PInt z => nth_kid ks z
    | PList zs => flat_map (nth_kid ks) zs
    | PSlice a b =>
        let lo := match a with Some z => Z.to_nat z | None => O end in
        let hi := match b with Some z => Z.to_nat z | None => length ks end in
        skipn lo (firstn hi ks)
    | PStep _ _ _ => []          (* stepped slices are modelled at the innermost depth only *)
    end.

  (* ---- IndexLevel.loc_to_iloc, HLoc branch (index_level.py:499-563): deque of (level, depth, offset) *)
  Definition hloc_step (key : list sel) (x : level * nat * Z) : list (option part) * list (level * nat * Z) :=
    let t := fst (fst x) in
    let d := snd (fst x) in
    let next := snd x + lv_off t in
    let dk := match sel_at key d with
              | SMask bs => SMask (firstn (Z.to_nat (lv_len t)) (skipn (Z.to_nat next) bs))
              | s => s
              end in
    (* `except KeyError: pass`; LocInvalid (a slice end that is no label here) propagates: None *)
    let skip_or_raise (e : string) : list (option part) * list (level * nat * Z) :=
        if String.eqb e "KeyError" then ([], []) else ([None], []) in
    match t with
    | Leaf _ ls =>
        match M_locmap ls dk (Some next) with
        | Ok p => ([Some p], [])
        | Err e => skip_or_raise e
        end
    | Node _ ls ks =>
        match dk with
        | SMask _ => ([None], [])      (* Boolean array at an outer depth: outside the claim, not modelled *)
        | SStep _ _ _ => ([None], [])  (* stepped label slice at an outer depth: not modelled *)
        | _ =>
            match M_locmap ls dk None with
            | Ok p => ([], map (fun k => (k, S d, next)) (select_kids ks p))
            | Err e => skip_or_raise e
            end
        end
    end.

  Definition part_flat (total : Z) (p : part) : res (list Z) :=
    match p with
    | PInt z => Ok [z]
    | PList l => Ok l
    | PSlice a b => match positions (mk_slice a b None) total with
                    | Some ps => Ok ps
                    | None => Err "ValueError"
                    end
    | PStep a b k => match positions (mk_slice a b (Some k)) total with
                     | Some ps => Ok ps
                     | None => Ok []          (* k = 0 never gets here: rejected by M_locmap *)
                     end
    end.

  Definition is_none {B} (o : option B) : bool := match o with None => true | Some _ => false end.
  Definition somes {B} (l : list (option B)) : list B :=
    flat_map (fun o => match o with Some x => [x] | None => [] end) l.

  (* what the collected parts become: `iloc_count == 0 -> KeyError`, one part and no multiple key -> as is,
     else the flat list (the range of part.indices(len) for slices) *)
  Definition hloc_finish (total : Z) (key : list sel) (outs : list (option part)) : res (bool * list Z) :=
    if existsb is_none outs then Err "KeyError"
    else
      let parts := somes outs in
      match parts with
      | [] => Err "KeyError"
      | _ =>
          match res_concat (map (part_flat total) parts) with
          | Err e => Err e
          | Ok ps =>
              Ok (match parts with
                  | [PInt _] => negb (existsb sel_multiple key)
                  | _ => false
                  end, ps)
          end
      end.

  Definition M_hloc (t : level) (key : list sel) : res (bool * list Z) :=
    match bfs (hloc_step key) (bfs_cost (hloc_step key) (pred (lv_depth t)) (t, O, 0)) [(t, O, 0)] with
    | Err e => Err e
    | Ok outs => hloc_finish (lv_len t) key outs
    end.

  (* ---- the guard of the refinement theorem hloc_exact (what the property's quantifier admits and the
          code handles): Boolean arrays only at the innermost depth and of the index length; no more selectors
          than depths *)
  Definition sel_guard (inner : bool) (total : nat) (s : sel) : bool :=
    match s with
    | SMask bs => inner && Nat.eqb (length bs) total
    | SStep a b k =>
        (* innermost depth only; walking down with an open end is finding C05-hloc-open-neg-step-slice *)
        inner && negb (k =? 0) &&
        ((0 <? k) || match a, b with Some _, Some _ => true | _, _ => false end)
    | _ => true
    end.
  Definition key_guard (D total : nat) (key : list sel) : bool :=
    forallb (fun d => sel_guard (Nat.eqb (S d) D) total (sel_at key d)) (seq 0 D) && (length key <=? D)%nat.

  (* ---- grow-only mutation *)
  (* the single-path subtree created for the not-yet-present tail of a key *)
  Fixpoint chain (key : list A) : level :=
    match key with
    | [] => Leaf 0 []
    | k :: key' => match key' with [] => Leaf 0 [k] | _ => Node 0 [k] [chain key'] end
    end.

  Definition last_is (k : A) (ls : list A) : bool :=
    match rev ls with l :: _ => eqb k l | [] => false end.

  (* strict = true : the tree builder of IndexHierarchy.from_labels / _from_type_blocks
                     (index_hierarchy.py:259-301, 437-475): a label that is present but is not the LAST
                     one of its sibling group is rejected (`observed_last`).
     strict = false: IndexLevelGO.append (index_level.py:853-945): the same rule since fix 5320f59 (a present
                     label that is not the last one of its level raises RuntimeError before any mutation);
                     only the error class differs. *)
  Fixpoint ins (strict : bool) (t : level) (key : list A) {struct t} : res level :=
    let bad : string := (if strict then "ErrorInitIndex" else "RuntimeError")%string in
    match t with
    | Leaf o ls =>
        match key with
        | [k] => if mem k ls then Err bad else Ok (Leaf o (ls ++ [k]))
        | _ => Err bad
        end
    | Node o ls ks =>
        match key with
        | k :: ((_ :: _) as key') =>
            if mem k ls then
              if negb (last_is k ls) then Err bad
              else
                match map_last (fun c => ins strict c key') ks with
                | Ok ks' => Ok (Node o ls ks')
                | Err e => Err e
                end
            else Ok (Node o (ls ++ [k]) (ks ++ [set_off (lv_len t) (chain key')]))
        | _ => Err bad
        end
    end.

  Definition M_append (t : level) (key : list A) : res level :=
    if Nat.eqb (length key) (lv_depth t) then ins false t key else Err "RuntimeError".

  Definition M_from_labels (rows : list (list A)) : res level :=
    match rows with
    | [] => Err "Empty"
    | r :: rest =>
        if (length r <? 2)%nat then Err "ErrorInitIndex"
        else fold_left (fun acc row => match acc with
                                       | Ok t => if Nat.eqb (length row) (length r) then ins true t row
                                                 else Err "ErrorInitIndex"      (* `Inconsistent label depth` *)
                                       | Err e => Err e
                                       end)
                       rest (Ok (chain r))
    end.

  (* IndexLevelGO.extend (index_level.py:819): only the offsets of the adopted top-level children change *)
  Fixpoint reoffset (base : Z) (ks : list level) : list level :=
    match ks with [] => [] | k :: ks' => set_off base k :: reoffset (base + lv_len k) ks' end.

  Definition M_extend (t u : level) : res level :=
    match t, u with
    | Node o ls ks, Node _ ls' ks' =>
        if negb (Nat.eqb (lv_depth t) (lv_depth u)) then Err "RuntimeError"
        else if existsb (fun l => mem l ls) ls' then Err "KeyError"
        else Ok (Node o (ls ++ ls') (ks ++ reoffset (lv_len t) ks'))
    | _, _ => Err "RuntimeError"
    end.

  (* specification of dropping the innermost depth: every tuple loses its last component; consecutive equal tuples
     (the rows of one former leaf) collapse into one *)
  Fixpoint dedup_adj (rows : list (list A)) : list (list A) :=
    match rows with
    | [] => []
    | r :: rest =>
        match rest with
        | [] => [r]
        | r2 :: _ => if row_eqb r r2 then dedup_adj rest else r :: dedup_adj rest
        end
    end.
  Definition S_drop_inner (rows : list (list A)) : list (list A) := dedup_adj (map (@removelast A) rows).

  (* ---- IndexHierarchy.level_drop(-1) (index_hierarchy.py:1599-1612): every node whose first child is a leaf loses its
          targets and becomes a leaf; the offsets of the remaining nodes are NOT recomputed (they still count the
          dropped labels): finding C05-level-drop-inner-offsets *)
  Fixpoint M_drop_inner (t : level) : level :=
    match t with
    | Leaf o ls => Leaf o ls
    | Node o ls ks =>
        match ks with
        | Leaf _ _ :: _ => Leaf o ls
        | _ => Node o ls (map M_drop_inner ks)
        end
    end.

  (* ---- IndexHierarchyGO state: tree + lazily synchronised `_blocks` cache (None = `_recache`) *)
  Record ihgo : Type := mk_ihgo { g_tree : level; g_cache : option (res (list (list A))) }.

  Inductive op : Type := OAppend (k : list A) | OExtend (u : level) | ORead.

  Definition go_step (st : ihgo) (o : op) : ihgo :=
    match o with
    | OAppend k => match M_append (g_tree st) k with
                   | Ok t' => mk_ihgo t' None
                   | Err _ => st
                   end
    | OExtend u => match M_extend (g_tree st) u with
                   | Ok t' => mk_ihgo t' None
                   | Err _ => st
                   end
    | ORead => match g_cache st with
               | Some _ => st
               | None => mk_ihgo (g_tree st) (Some (M_blocks (g_tree st)))     (* _update_array_cache *)
               end
    end.

  (* IndexHierarchy.__init__(levels=<IndexHierarchy>) (index_hierarchy.py:504-513) -- Series/Frame construction
     with index=ihgo, IndexHierarchy(ihgo), IndexHierarchyGO(ihgo), rename, FrameGO.to_frame all go through it:
     the cached blocks are handed over only `if not levels._recache`, i.e. exactly when the model state holds a
     cache; the tree is taken over (deep-copied for a GO source) *)
  Definition M_derive (st : ihgo) : ihgo := mk_ihgo (g_tree st) (g_cache st).

  (* what `values_at_depth` answers in a state: its own refresh decision is `if self._recache: self._update_array_cache()`
     (index_hierarchy.py:959-960; regenerated fact gen_ih_values_at_depth_refreshes_iff_recache, and the same guard on every
     other self-refreshing read: gen_ih_every_cache_refresh_guarded_by_recache) -- the cache is used exactly when present *)
  Definition go_blocks (st : ihgo) : res (list (list A)) :=
    match g_cache st with Some c => c | None => M_blocks (g_tree st) end.

  (* ---- well-formedness (what every constructor establishes) *)
  Fixpoint uniform (h : nat) (t : level) {struct t} : bool :=
    match t with
    | Leaf _ ls => Nat.eqb h 0 && negb (Nat.eqb (length ls) 0)
    | Node _ ls ks =>
        match h with
        | O => false
        | S h' => Nat.eqb (length ls) (length ks) && negb (Nat.eqb (length ks) 0) && forallb (uniform h') ks
        end
    end.

  Fixpoint offsets_from (base : Z) (ks : list level) : bool :=
    match ks with [] => true | k :: ks' => (lv_off k =? base) && offsets_from (base + lv_len k) ks' end.

  Fixpoint offsets_ok (t : level) : bool :=
    match t with
    | Leaf _ _ => true
    | Node _ _ ks => offsets_from 0 ks && forallb offsets_ok ks
    end.

  Fixpoint nodupb (l : list A) : bool :=
    match l with [] => true | x :: l' => negb (mem x l') && nodupb l' end.

  Fixpoint labels_ok (t : level) : bool :=
    match t with
    | Leaf _ ls => nodupb ls
    | Node _ ls ks => nodupb ls && forallb labels_ok ks
    end.

  Definition wf (h : nat) (t : level) : bool :=
    (lv_off t =? 0) && uniform h t && offsets_ok t && labels_ok t.

  (* ---- growth: every append is covered (admitted -> exact, rejected -> state unchanged); an extension operand
          must be a well-formed tree (it always is: it comes out of an IndexHierarchy) *)
  Definition is_ok {B} (r : res B) : bool := match r with Ok _ => true | Err _ => false end.
  Definition op_dom (h : nat) (o : op) : bool :=
    match o with
    | OExtend u => uniform h u && offsets_ok u && labels_ok u
    | _ => true
    end.
  (* the tuples an operation adds in a given state: none when it is rejected *)
  Definition step_rows (t : level) (o : op) : list (list A) :=
    match o with
    | OAppend k => if is_ok (M_append t k) then [k] else []
    | OExtend u => if is_ok (M_extend t u) then flatten u else []
    | ORead => []
    end.
  Fixpoint hist_rows (st : ihgo) (ops : list op) : list (list A) :=
    match ops with
    | [] => []
    | o :: ops' => step_rows (g_tree st) o ++ hist_rows (go_step st o) ops'
    end.
End Hier.

Arguments Leaf {A} off labels.
Arguments Node {A} off labels kids.
Arguments SAll {A}.
Arguments SOne {A} l.
Arguments SList {A} ls.
Arguments SSlice {A} a b.
Arguments SMask {A} bs.
Arguments SStep {A} a b k.
Arguments OAppend {A} k.
Arguments OExtend {A} u.
Arguments ORead {A}.
Arguments lv_off {A} t.
Arguments lv_labels {A} t.
Arguments set_off {A} o t.
Arguments lv_len {A} t.
Arguments lv_depth {A} t.
Arguments node_count {A} t.
Arguments flatten {A} t.
Arguments heads {A} rows.
Arguments rows_depth {A} rows.
Arguments sel_multiple {A} s.
Arguments sel_at {A} key d.
Arguments S_column {A} rows d.
Arguments iter_step {A} x.
Arguments M_iter {A} t.
Arguments at_depth_step {A R} emit target x.
Arguments widths_go {A} ls ks trav.
Arguments get_widths {A} t.
Arguments M_widths {A} t d.
Arguments get_labels {A} t.
Arguments M_labels_at_depth {A} t d.
Arguments walk_at_depth {A R} emit t d.
Arguments M_values_at_depth {A} t d.
Arguments M_blocks {A} t.
Arguments select_kids {A} ks p.
Arguments nth_kid {A} ks z.
Arguments chain {A} key.
Arguments reoffset {A} base ks.
Arguments mk_ihgo {A} g_tree g_cache.
Arguments g_tree {A} i.
Arguments g_cache {A} i.
Arguments go_blocks {A} st.
Arguments offsets_from {A} base ks.
Arguments offsets_ok {A} t.
Arguments uniform {A} h t.
