(* C05 -- the hierarchical-index models instantiated at SF.Value.val, plus the Boolean comparators the
   correspondence cases use (observed literal vs model / specification output).  No proofs here. *)
Require Import SF.Prelude SF.PySlice SF.Dtype SF.Value SF.Hier.

Definition vlevel := level val.
Definition vsel := sel val.
Definition rows_eqb : list (list val) -> list (list val) -> bool := list_eqb (list_eqb val_eqb).
Definition zlist_eqb : list Z -> list Z -> bool := list_eqb Z.eqb.

Fixpoint level_eqb (a b : vlevel) : bool :=
  match a, b with
  | Leaf o1 l1, Leaf o2 l2 => (o1 =? o2) && list_eqb val_eqb l1 l2
  | Node o1 l1 k1, Node o2 l2 k2 =>
      (o1 =? o2) && list_eqb val_eqb l1 l2 &&
      (fix go (x y : list vlevel) : bool :=
         match x, y with
         | [], [] => true
         | u :: us, v :: vs => level_eqb u v && go us vs
         | _, _ => false
         end) k1 k2
  | _, _ => false
  end.

Definition hres_eqb : res (bool * list Z) -> res (bool * list Z) -> bool :=
  res_eqb (pair_eqb Bool.eqb zlist_eqb).

(* `S makes no demand` (empty selection, malformed selector) is encoded as: any observation agrees *)
Definition agrees {B} (eqb : B -> B -> bool) (spec : res B) (obs : res B) : bool :=
  match spec with
  | Err _ => true
  | Ok x => match obs with Ok y => eqb x y | Err _ => false end
  end.

(* an error demanded by the specification: the observation must be an error of that class *)
Definition both_err {B} (spec obs : res B) : bool :=
  match spec, obs with
  | Err a, Err b => String.eqb a b
  | _, _ => false
  end.

(* ---- views *)
Definition M_rows (t : vlevel) : res (list (list val)) := M_iter t.
Definition check_iter_M (t : vlevel) (obs : list (list val)) : bool := res_eqb rows_eqb (M_iter t) (Ok obs).
Definition check_col_M (t : vlevel) (d : nat) (obs : list val) : bool :=
  res_eqb (list_eqb val_eqb) (M_values_at_depth t d) (Ok obs).
Definition check_labels_M (t : vlevel) (d : nat) (obs : list val) : bool :=
  res_eqb (list_eqb val_eqb) (M_labels_at_depth t d) (Ok obs).
Definition check_col_S (rows : list (list val)) (d : nat) (obs : list val) : bool :=
  list_eqb val_eqb (S_column rows d) obs.
Definition check_widths_M (t : vlevel) (d : nat) (obs : list (val * Z)) : bool :=
  res_eqb (list_eqb (pair_eqb val_eqb Z.eqb)) (M_widths t d) (Ok obs).

(* run-length encoding of a column = what label_widths_at_depth must report for tree-ordered rows when
   read together with the outer columns: here only the sum and the expansion are determined *)
Definition expand_widths (ws : list (val * Z)) : list val :=
  flat_map (fun lw => repeat (fst lw) (Z.to_nat (snd lw))) ws.
Definition check_widths_S (rows : list (list val)) (d : nat) (obs : list (val * Z)) : bool :=
  list_eqb val_eqb (S_column rows d) (expand_widths obs) && forallb (fun lw => 0 <? snd lw) obs.

Definition check_contains_M (t : vlevel) (keys : list (list val)) (obs : list bool) : bool :=
  list_eqb Bool.eqb (map (fun k => M_contains val val_eqb k t) keys) obs.
Definition check_contains_S (rows : list (list val)) (keys : list (list val)) (obs : list bool) : bool :=
  list_eqb Bool.eqb (map (S_contains val val_eqb rows) keys) obs.

Definition check_lookup_M (t : vlevel) (keys : list (list val)) (obs : list (res Z)) : bool :=
  list_eqb (res_eqb Z.eqb) (map (fun k => M_leaf_loc val val_eqb k t 0) keys) obs.
Definition check_lookup_S (rows : list (list val)) (keys : list (list val)) (obs : list (res Z)) : bool :=
  list_eqb (res_eqb Z.eqb) (map (S_lookup val val_eqb rows) keys) obs.

(* ---- HLoc *)
Definition check_hloc_M (t : vlevel) (key : list vsel) (obs : res (bool * list Z)) : bool :=
  hres_eqb (M_hloc val val_eqb t key) obs.
Definition check_hloc_S (rows : list (list val)) (key : list vsel) (obs : res (bool * list Z)) : bool :=
  agrees (pair_eqb Bool.eqb zlist_eqb) (S_hloc val val_eqb rows key) obs.

(* extraction through loc / Series / Frame: the rows (labels) and the payload at the selected positions *)
Definition take_rows {B} (l : list B) (ps : list Z) : option (list B) := take_positions l ps.
Definition S_extract (rows : list (list val)) (payload : list Z) (key : list vsel)
  : res (bool * list (list val) * list Z) :=
  match S_hloc val val_eqb rows key with
  | Err e => Err e
  | Ok (single, ps) =>
      match take_rows rows ps, take_rows payload ps with
      | Some rs, Some vs => Ok (single, rs, vs)
      | _, _ => Err "IndexError"
      end
  end.
Definition check_extract_S (rows : list (list val)) (payload : list Z) (key : list vsel)
  (obs : res (bool * list (list val) * list Z)) : bool :=
  agrees (pair_eqb (pair_eqb Bool.eqb rows_eqb) zlist_eqb) (S_extract rows payload key) obs.

Definition check_mask_S (bs : list bool) (obs : list Z) : bool := zlist_eqb (S_mask bs) obs.

(* ---- construction and growth *)
Definition lres_eqb : res vlevel -> res vlevel -> bool := res_eqb level_eqb.
Definition check_from_labels_M (rows : list (list val)) (obs : res vlevel) : bool :=
  lres_eqb (M_from_labels val val_eqb rows) obs.
Definition check_append_M (t : vlevel) (key : list val) (obs : res vlevel) : bool :=
  lres_eqb (M_append val val_eqb t key) obs.
Definition check_extend_M (t u : vlevel) (obs : res vlevel) : bool :=
  lres_eqb (M_extend val val_eqb t u) obs.

Definition wf_obs (t : vlevel) : bool := wf val val_eqb (pred (lv_depth t)) t.

(* a whole GO history replayed on the model state (tree + lazily refreshed cache); the final read goes
   through the cache exactly as values_at_depth does *)
Definition check_history_M (t0 : vlevel) (ops : list (op val)) (tf : vlevel) (cols : list (list val)) : bool :=
  let st := go_step val val_eqb (fold_left (go_step val val_eqb) ops (mk_ihgo t0 None)) ORead in
  level_eqb (g_tree st) tf && res_eqb (list_eqb (list_eqb val_eqb)) (go_blocks st) (Ok cols).

(* level_drop(-1): the tree the implementation leaves behind (offsets included) *)
Definition check_drop_inner_M (t obs : vlevel) : bool := level_eqb (M_drop_inner val t) obs.
