(* C01 -- immutability.  A world of NumPy buffers, array handles and containers.

   A *buffer* is the memory of one array allocation.  A *handle* is one ndarray object: the buffer it
   reads, the buffer positions it shows (a view shares the buffer of its base) and its own
   `flags.writeable`.  A *container* (Series / Frame / Index / IndexHierarchy / TypeBlocks) is the list
   of handles stored in its array slots.  The caller of the library holds handles too.

   M_* : what static-frame 0.8.8 does (copy only when the argument is writeable, keep read-only arguments
         and views "as is", `own_data=True` freezes the argument in place, `__setstate__` re-freezes some
         slots, array_deepcopy copies the flag).
   S_* : what the property demands: value semantics -- a container holds private frozen copies, every
         array handed out is a private frozen copy.
   NumPy facts assumed (validated by the correspondence runs, listed in the check module):
     a basic-indexing view shares the buffer and inherits flags.writeable; a write through a
     non-writeable handle raises and changes nothing; copy/astype/concatenate/array()/unpickling return a
     fresh buffer.
   Both machines allocate exactly one buffer id per produced array slot (M leaves the id unused when it
   shares), so buffer ids of caller-created arrays coincide in the two runs.  NO proofs in this file. *)
Require Import SF.Prelude.

Local Open Scope nat_scope.

Record handle := mk_handle { h_buf : nat; h_sel : list nat; h_w : bool }.
Definition container := list handle.
Record world := mk_world {
  w_bufs : list (list Z);
  w_callers : list handle;
  w_conts : list container }.
Definition w0 : world := mk_world [] [] [].

Definition set_w (h : handle) (b : bool) : handle := mk_handle (h_buf h) (h_sel h) b.

Fixpoint upd {A} (l : list A) (k : nat) (x : A) : list A :=
  match l, k with
  | [], _ => []
  | _ :: t, O => x :: t
  | a :: t, S k' => a :: upd t k' x
  end.

Definition buf_get (bs : list (list Z)) (b : nat) : list Z := nth b bs [].
Definition h_content (bs : list (list Z)) (h : handle) : list Z :=
  map (fun i => nth i (buf_get bs (h_buf h)) 0%Z) (h_sel h).

(* a new allocation holding vs; the handle shows all of it *)
Definition fresh (bs : list (list Z)) (vs : list Z) (w : bool) : list (list Z) * handle :=
  (bs ++ [vs], mk_handle (length bs) (seq 0 (length vs)) w).
(* the buffer id reserved for a slot that ends up sharing an existing buffer *)
Definition dummy (bs : list (list Z)) : list (list Z) := bs ++ [[]].

Definition sel_ok (n : nat) (sel : list nat) : bool := forallb (fun i => i <? n) sel.
Definition h_view (h : handle) (sel : list nat) : handle :=
  mk_handle (h_buf h) (map (fun i => nth i (h_sel h) 0) sel) (h_w h).

Definition all_handles (w : world) : list handle := w_callers w ++ concat (w_conts w).

(* no handle anywhere in (cs, conts) can write buffer b *)
Definition buf_frozen_b (cs : list handle) (conts : list container) (b : nat) : bool :=
  forallb (fun h => negb (h_buf h =? b) || negb (h_w h)) (cs ++ concat conts).
(* ... except possibly the caller handle number k itself *)
Fixpoint others_frozen_b (cs : list handle) (k : nat) (b : nat) : bool :=
  match cs with
  | [] => true
  | h :: t => match k with
              | O => forallb (fun h' => negb (h_buf h' =? b) || negb (h_w h')) t
              | S k' => (negb (h_buf h =? b) || negb (h_w h)) && others_frozen_b t k' b
              end
  end.

(* ---- the step alphabet ---- *)
Inductive route :=
| RFilter     (* util.immutable_filter: Series(a), Index(a), TypeBlocks.from_blocks / append, Frame(a) *)
| ROwn.       (* Frame(a, own_data=True), ArrayGO(a, own_iterable=True): flags.writeable=False in place, keep *)

Inductive src :=
| FromCaller (r : route) (k : nat)     (* an ndarray argument, caller handle k *)
| FromVals (vs : list Z).              (* array built by the library from non-array data: fresh, frozen *)

Inductive dsrc :=
| DView (j : nat) (sel : list nat)     (* basic-indexing view of slot j of the parent *)
| DCopy (j : nat) (sel : list nat)     (* fresh array holding a selection of slot j, frozen before it escapes *)
| DVals (vs : list Z)                  (* fresh computed array, frozen before it escapes *)
| DDeep (j : nat)                      (* util.array_deepcopy: fresh buffer, flag copied from the source *)
| DPickle (j : nat) (refrozen : bool). (* unpickled array (writeable) then __setstate__ re-freezes it or not *)

Inductive step :=
| SNew (vs : list Z)                   (* caller: a = np.array(vs) *)
| SView (k : nat) (sel : list nat)     (* caller: v = a[basic key]; sel = positions relative to a *)
| SFreeze (k : nat)                    (* caller: a.flags.writeable = False *)
| SWrite (k i : nat) (v : Z)           (* caller: a[i] = v *)
| SConstruct (srcs : list src)         (* a constructor call; one src per array slot of the result *)
| SDerive (c : nat) (ds : list dsrc)   (* any call on container c returning a container *)
| SExpose (c j : nat)                  (* caller obtains the array object in slot j of container c *)
| SFail.                               (* a call that raised *)

(* a pickle round trip of a container: slot j comes back re-frozen or not (flags from the generated table
   Gen_c01: pickle_flags_index etc.); copy.deepcopy of a container whose slots all go through util.array_deepcopy *)
Fixpoint pickle_dsrcs_from (j : nat) (flags : list bool) : list dsrc :=
  match flags with
  | [] => []
  | f :: t => DPickle j f :: pickle_dsrcs_from (S j) t
  end.
Definition deep_dsrcs (n : nat) : list dsrc := map DDeep (seq 0 n).

(* ---- M: the implementation ---- *)
(* what util.immutable_filter does with its argument, by the argument's flags.writeable.  Gen_c01.source_filter is the same
   decision REGENERATED from the AST of util.immutable_filter; Properties/C01.v proves the two equal. *)
Inductive filter_action :=
| FCopyFreeze       (* copy, freeze the copy, return the copy *)
| FKeep             (* return the argument as is *)
| FFreezeInPlace    (* freeze the argument itself, return it (NOT what 0.8.8 does for writeable arguments) *)
| FCopy.            (* return an unfrozen copy (NOT what 0.8.8 does) *)
Definition model_filter (w : bool) : filter_action := if w then FCopyFreeze else FKeep.

Definition m_src (bs : list (list Z)) (cs : list handle) (s : src)
  : res (list (list Z) * list handle * handle) :=
  match s with
  | FromVals vs => let '(bs', h) := fresh bs vs false in Ok (bs', cs, h)
  | FromCaller r k =>
      match nth_error cs k with
      | None => Err "IndexError"
      | Some h =>
          match r with
          | RFilter =>
              match model_filter (h_w h) with
              | FCopyFreeze => let '(bs', h') := fresh bs (h_content bs h) false in Ok (bs', cs, h')
              | FKeep => Ok (dummy bs, cs, h)
              | FFreezeInPlace => Ok (dummy bs, upd cs k (set_w h false), set_w h false)
              | FCopy => let '(bs', h') := fresh bs (h_content bs h) true in Ok (bs', cs, h')
              end
          | ROwn => Ok (dummy bs, upd cs k (set_w h false), set_w h false)
          end
      end
  end.

Fixpoint m_srcs (bs : list (list Z)) (cs : list handle) (srcs : list src)
  : res (list (list Z) * list handle * list handle) :=
  match srcs with
  | [] => Ok (bs, cs, [])
  | s :: t =>
      match m_src bs cs s with
      | Err e => Err e
      | Ok (bs1, cs1, h) =>
          match m_srcs bs1 cs1 t with
          | Err e => Err e
          | Ok (bs2, cs2, hs) => Ok (bs2, cs2, h :: hs)
          end
      end
  end.

Definition m_dsrc (bs : list (list Z)) (parent : container) (d : dsrc)
  : res (list (list Z) * handle) :=
  match d with
  | DVals vs => Ok (fresh bs vs false)
  | DView j sel =>
      match nth_error parent j with
      | None => Err "IndexError"
      | Some h => if sel_ok (length (h_sel h)) sel then Ok (dummy bs, h_view h sel) else Err "IndexError"
      end
  | DCopy j sel =>
      match nth_error parent j with
      | None => Err "IndexError"
      | Some h => if sel_ok (length (h_sel h)) sel
                  then Ok (fresh bs (h_content bs (h_view h sel)) false) else Err "IndexError"
      end
  | DDeep j =>
      match nth_error parent j with
      | None => Err "IndexError"
      | Some h => Ok (fresh bs (h_content bs h) (h_w h))
      end
  | DPickle j refrozen =>
      match nth_error parent j with
      | None => Err "IndexError"
      | Some h => Ok (fresh bs (h_content bs h) (negb refrozen))
      end
  end.

Fixpoint m_dsrcs (bs : list (list Z)) (parent : container) (ds : list dsrc)
  : res (list (list Z) * list handle) :=
  match ds with
  | [] => Ok (bs, [])
  | d :: t =>
      match m_dsrc bs parent d with
      | Err e => Err e
      | Ok (bs1, h) =>
          match m_dsrcs bs1 parent t with
          | Err e => Err e
          | Ok (bs2, hs) => Ok (bs2, h :: hs)
          end
      end
  end.

Definition write_buf (bs : list (list Z)) (h : handle) (i : nat) (v : Z) : list (list Z) :=
  upd bs (h_buf h) (upd (buf_get bs (h_buf h)) (nth i (h_sel h) 0) v).

(* the caller's own NumPy operations: identical in M and S *)
Definition caller_step (w : world) (s : step) : res world :=
  match s with
  | SNew vs => let '(bs', h) := fresh (w_bufs w) vs true in
               Ok (mk_world bs' (w_callers w ++ [h]) (w_conts w))
  | SView k sel =>
      match nth_error (w_callers w) k with
      | None => Err "IndexError"
      | Some h => if sel_ok (length (h_sel h)) sel
                  then Ok (mk_world (w_bufs w) (w_callers w ++ [h_view h sel]) (w_conts w))
                  else Err "IndexError"
      end
  | SFreeze k =>
      match nth_error (w_callers w) k with
      | None => Err "IndexError"
      | Some h => Ok (mk_world (w_bufs w) (upd (w_callers w) k (set_w h false)) (w_conts w))
      end
  | SWrite k i v =>
      match nth_error (w_callers w) k with
      | None => Err "IndexError"
      | Some h => if negb (h_w h) then Err "ValueError"          (* assignment destination is read-only *)
                  else if i <? length (h_sel h)
                       then Ok (mk_world (write_buf (w_bufs w) h i v) (w_callers w) (w_conts w))
                       else Err "IndexError"
      end
  | _ => Err "NotCallerStep"
  end.

Definition M_step (w : world) (s : step) : res world :=
  match s with
  | SConstruct srcs =>
      match m_srcs (w_bufs w) (w_callers w) srcs with
      | Err e => Err e
      | Ok (bs, cs, hs) => Ok (mk_world bs cs (w_conts w ++ [hs]))
      end
  | SDerive c ds =>
      match nth_error (w_conts w) c with
      | None => Err "IndexError"
      | Some parent =>
          match m_dsrcs (w_bufs w) parent ds with
          | Err e => Err e
          | Ok (bs, hs) => Ok (mk_world bs (w_callers w) (w_conts w ++ [hs]))
          end
      end
  | SExpose c j =>
      match nth_error (w_conts w) c with
      | None => Err "IndexError"
      | Some parent =>
          match nth_error parent j with
          | None => Err "IndexError"
          | Some h => Ok (mk_world (dummy (w_bufs w)) (w_callers w ++ [h]) (w_conts w))
          end
      end
  | SFail => Err "Raised"
  | _ => caller_step w s
  end.

(* ---- S: value semantics ---- *)
Definition s_src (bs : list (list Z)) (cs : list handle) (s : src)
  : res (list (list Z) * list handle * handle) :=
  match s with
  | FromVals vs => let '(bs', h) := fresh bs vs false in Ok (bs', cs, h)
  | FromCaller r k =>
      match nth_error cs k with
      | None => Err "IndexError"
      | Some h =>
          let '(bs', h') := fresh bs (h_content bs h) false in
          match r with
          | RFilter => Ok (bs', cs, h')
          | ROwn => Ok (bs', upd cs k (set_w h false), h')    (* ownership was handed over *)
          end
      end
  end.

Fixpoint s_srcs (bs : list (list Z)) (cs : list handle) (srcs : list src)
  : res (list (list Z) * list handle * list handle) :=
  match srcs with
  | [] => Ok (bs, cs, [])
  | s :: t =>
      match s_src bs cs s with
      | Err e => Err e
      | Ok (bs1, cs1, h) =>
          match s_srcs bs1 cs1 t with
          | Err e => Err e
          | Ok (bs2, cs2, hs) => Ok (bs2, cs2, h :: hs)
          end
      end
  end.

Definition s_dsrc (bs : list (list Z)) (parent : container) (d : dsrc)
  : res (list (list Z) * handle) :=
  match d with
  | DVals vs => Ok (fresh bs vs false)
  | DView j sel | DCopy j sel =>
      match nth_error parent j with
      | None => Err "IndexError"
      | Some h => if sel_ok (length (h_sel h)) sel
                  then Ok (fresh bs (h_content bs (h_view h sel)) false) else Err "IndexError"
      end
  | DDeep j | DPickle j _ =>
      match nth_error parent j with
      | None => Err "IndexError"
      | Some h => Ok (fresh bs (h_content bs h) false)
      end
  end.

Fixpoint s_dsrcs (bs : list (list Z)) (parent : container) (ds : list dsrc)
  : res (list (list Z) * list handle) :=
  match ds with
  | [] => Ok (bs, [])
  | d :: t =>
      match s_dsrc bs parent d with
      | Err e => Err e
      | Ok (bs1, h) =>
          match s_dsrcs bs1 parent t with
          | Err e => Err e
          | Ok (bs2, hs) => Ok (bs2, h :: hs)
          end
      end
  end.

Definition S_step (w : world) (s : step) : res world :=
  match s with
  | SConstruct srcs =>
      match s_srcs (w_bufs w) (w_callers w) srcs with
      | Err e => Err e
      | Ok (bs, cs, hs) => Ok (mk_world bs cs (w_conts w ++ [hs]))
      end
  | SDerive c ds =>
      match nth_error (w_conts w) c with
      | None => Err "IndexError"
      | Some parent =>
          match s_dsrcs (w_bufs w) parent ds with
          | Err e => Err e
          | Ok (bs, hs) => Ok (mk_world bs (w_callers w) (w_conts w ++ [hs]))
          end
      end
  | SExpose c j =>
      match nth_error (w_conts w) c with
      | None => Err "IndexError"
      | Some parent =>
          match nth_error parent j with
          | None => Err "IndexError"
          | Some h => let '(bs', h') := fresh (w_bufs w) (h_content (w_bufs w) h) false in
                      Ok (mk_world bs' (w_callers w ++ [h']) (w_conts w))
          end
      end
  | SFail => Err "Raised"
  | _ => caller_step w s
  end.

(* ---- histories ---- *)
Definition next (f : world -> step -> res world) (w : world) (s : step) : world :=
  match f w s with Ok w' => w' | Err _ => w end.
Definition run (f : world -> step -> res world) (w : world) (hist : list step) : world :=
  fold_left (next f) hist w.
Definition M_run := run M_step.
Definition S_run := run S_step.

(* ---- the guard: the explicit hypotheses of the theorems (each is shown necessary in Refuted/C01.v) ----
   An ndarray argument is, at the moment it is consumed,
     RFilter: writeable (then it is copied) or a read-only array NO alias of which is writeable;
     ROwn   : an array whose every OTHER alias is read-only (the caller hands the only writeable reference over);
   and a pickled slot is one that __setstate__ re-freezes. *)
Definition src_ok (cs : list handle) (conts : list container) (s : src) : bool :=
  match s with
  | FromVals _ => true
  | FromCaller r k =>
      match nth_error cs k with
      | None => true
      | Some h =>
          match r with
          | RFilter => h_w h || buf_frozen_b cs conts (h_buf h)
          | ROwn => others_frozen_b cs k (h_buf h) && buf_frozen_b [] conts (h_buf h)
          end
      end
  end.

Fixpoint srcs_ok (bs : list (list Z)) (cs : list handle) (conts : list container) (srcs : list src) : bool :=
  match srcs with
  | [] => true
  | s :: t =>
      src_ok cs conts s &&
      match m_src bs cs s with
      | Err _ => true
      | Ok (bs1, cs1, h) => srcs_ok bs1 cs1 (conts ++ [[h]]) t
      end
  end.

Definition dsrc_ok (d : dsrc) : bool :=
  match d with DPickle _ refrozen => refrozen | _ => true end.

Definition step_ok (w : world) (s : step) : bool :=
  match s with
  | SConstruct srcs => srcs_ok (w_bufs w) (w_callers w) (w_conts w) srcs
  | SDerive _ ds => forallb dsrc_ok ds
  | _ => true
  end.

Fixpoint guarded (w : world) (hist : list step) : bool :=
  match hist with
  | [] => true
  | s :: t => step_ok w s && guarded (next M_step w s) t
  end.

(* ---- observations ---- *)
(* what can be seen through container c: per slot (content, flags.writeable) *)
Definition cont_obs (w : world) (c : nat) : option (list (list Z * bool)) :=
  match nth_error (w_conts w) c with
  | None => None
  | Some hs => Some (map (fun h => (h_content (w_bufs w) h, h_w h)) hs)
  end.
Definition conts_obs (w : world) : list (list (list Z * bool)) :=
  map (fun hs => map (fun h => (h_content (w_bufs w) h, h_w h)) hs) (w_conts w).
Definition callers_obs (w : world) : list (list Z * bool) :=
  map (fun h => (h_content (w_bufs w) h, h_w h)) (w_callers w).
(* everything the property determines *)
Definition obs (w : world) := (conts_obs w, callers_obs w).

(* does the memory seen through two handles overlap (np.shares_memory) *)
Definition h_shares (a b : handle) : bool :=
  (h_buf a =? h_buf b) && existsb (fun i => existsb (fun j => i =? j) (h_sel b)) (h_sel a).
Definition shares_obs (w : world) : list (list (list bool)) :=
  map (fun hs => map (fun h => map (h_shares h) (w_callers w)) hs) (w_conts w).

(* trace of a history: after every step, whether it raised and the whole observation *)
Fixpoint trace (f : world -> step -> res world) (w : world) (hist : list step)
  : list (bool * (list (list (list Z * bool)) * list (list Z * bool))) :=
  match hist with
  | [] => []
  | s :: t => let w' := next f w s in
              ((match f w s with Ok _ => true | Err _ => false end), obs w') :: trace f w' t
  end.

(* ---- boolean comparison of observations (for the correspondence cases) ---- *)
Definition zl_eqb := list_eqb Z.eqb.
Definition slot_eqb (a b : list Z * bool) : bool := zl_eqb (fst a) (fst b) && Bool.eqb (snd a) (snd b).
Definition obs_eqb (a b : list (list (list Z * bool)) * list (list Z * bool)) : bool :=
  list_eqb (list_eqb slot_eqb) (fst a) (fst b) && list_eqb slot_eqb (snd a) (snd b).
Definition trace_eqb := list_eqb (fun a b : bool * _ => Bool.eqb (fst a) (fst b) && obs_eqb (snd a) (snd b)).
Definition shares_eqb := list_eqb (list_eqb (list_eqb Bool.eqb)).
(* observed matrix with don't-care entries (arrays that alias static-frame's global PositionsAllocator buffer,
   which the model abstracts as private frozen arrays) *)
Fixpoint list_rel {A B} (r : A -> B -> bool) (a : list A) (b : list B) : bool :=
  match a, b with
  | [], [] => true
  | x :: xs, y :: ys => r x y && list_rel r xs ys
  | _, _ => false
  end.
Definition oshares_eqb : list (list (list bool)) -> list (list (list (option bool))) -> bool :=
  list_rel (list_rel (list_rel (fun m o => match o with None => true | Some b => Bool.eqb m b end))).
