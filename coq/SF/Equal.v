(* C10 -- models of `equals` and of the hashable (HE) variants.  NO proofs here.

   S_* : the specification, layout-free, cell by cell / label by label.
   M_* : the implementation model, the algorithm the code runs:
           TypeBlocks.equals        static_frame/core/type_blocks.py:3096-3152
             (three operand paths of TypeBlocks._ufunc_binary_operator :2325-2395: block-compatible, reblocked,
              column by column through axis_values(0);
              _reblock_signature :542-566, consolidate_blocks :621-657, the both-missing
              mask and the block walk with start/end offsets :3133-3151)
           Frame.equals             frame.py:6212-6266
           Series.equals            series.py:2235-2287
           Index.equals             index.py:1177-1228
           IndexHierarchy.equals    index_hierarchy.py:1277-1314
           IndexLevel.equals        index_level.py:681-753 (tree walk with two stacks)
           Bus.equals               bus.py:939-992
           SeriesHE/FrameHE __eq__/__ne__/__hash__   series.py:2506-2541, frame.py:7391-7430
   The operands of the both-missing mask and the keyword constants of the HE `__eq__`
   are NOT written here: they are parameters (`mcfg`, `eopts`) instantiated from
   Gen/Gen_c10.v, which is re-extracted from the source on every run. *)
Require Import SF.Prelude SF.Dtype SF.Value.

(* ------------------------------------------------------------------ scalars *)

(* Python/NumPy `==` on the scalars the harness prints: True == 1 == 1.0, NaN/NaT unequal to
   everything (themselves included), None == None.  `canon` maps ==-equal printable scalars to
   one representative (lit.val prints floats in lowest terms, so an integral float is n/1). *)
Fixpoint canon (v : val) : val :=
  match v with
  | VBool b => VInt (if b then 1 else 0)
  | VFlt n d => if d =? 1 then VInt n else v
  | VTup l => VTup (map canon l)
  | _ => v
  end.

(* missing values that are not equal to themselves: what `isna_array(.., include_none=False)` marks *)
Definition nanlike (v : val) : bool :=
  match v with VNaN | VNaT => true | _ => false end.

Definition py_eq (x y : val) : bool := negb (nanlike x) && val_eqb (canon x) (canon y).

(* isna_array(array, include_none) on a cell *)
Definition isna_cell (include_none : bool) (v : val) : bool :=
  nanlike v || (include_none && match v with VNone => true | _ => false end).

(* the specification's cell relation: equal values, or both missing when skipna is requested *)
Definition cell_eq (skipna : bool) (x y : val) : bool :=
  py_eq x y || (skipna && nanlike x && nanlike y).

(* ------------------------------------------------------------------ options *)
Record eopts := mk_eopts { o_name : bool; o_dtype : bool; o_class : bool; o_skipna : bool }.

(* which arrays the both-missing mask combines: false = self, true = other;
   and the include_none flag handed to isna *)
Record mcfg := mk_mcfg { m_left_other : bool; m_right_other : bool; m_include_none : bool;
                         m_zero_ok : bool   (* TypeBlocks.equals answers True for two tables without columns
                                               before it builds the Boolean TypeBlocks of == *) }.
Definition mcfg_correct : mcfg := mk_mcfg false true false true.
(* one mask configuration per place where the source builds a both-missing mask *)
Record mcfgs := mk_mcfgs { c_tb : mcfg; c_series : mcfg; c_index : mcfg }.
Definition mcfgs_correct : mcfgs := mk_mcfgs mcfg_correct mcfg_correct mcfg_correct.

(* ------------------------------------------------------------------ observed containers *)
(* oid: a small integer naming the Python object (identity shortcut `id(other) == id(self)`),
   cls: a small integer naming the class *)
Record eindex := mk_eindex {
  ei_oid : Z; ei_cls : Z; ei_name : val; ei_dtype : dtype; ei_labels : list val }.

Inductive lvl := Lvl (ix : eindex) (targets : list lvl).   (* [] = terminus (targets is None) *)

Record ehier := mk_ehier { eh_oid : Z; eh_cls : Z; eh_name : val; eh_tree : lvl }.

Inductive eaxis := AFlat (i : eindex) | AHier (h : ehier).

Record eseries := mk_eseries {
  es_oid : Z; es_cls : Z; es_name : val; es_dtype : dtype; es_values : list val; es_index : eaxis }.

Definition block := (dtype * list (list val))%type.     (* dtype, columns (each down the rows) *)
Record etb := mk_etb { tb_oid : Z; tb_rows : Z; tb_blocks : list block }.

Record eframe := mk_eframe {
  ef_oid : Z; ef_cls : Z; ef_name : val; ef_blocks : etb; ef_index : eaxis; ef_columns : eaxis }.

Record ebus := mk_ebus {
  eb_oid : Z; eb_cls : Z; eb_name : val; eb_index : eaxis; eb_frames : list eframe }.

(* ------------------------------------------------------------------ views *)
Definition blk_width (b : block) : Z := Z.of_nat (length (snd b)).
Definition blk_cols (b : block) : list (dtype * list val) := map (pair (fst b)) (snd b).
Definition blocks_cols (bs : list block) : list (dtype * list val) := flat_map blk_cols bs.
Definition tb_cols (t : etb) : list (dtype * list val) := blocks_cols (tb_blocks t).
Definition tb_ncols (t : etb) : Z := Z.of_nat (length (tb_cols t)).
Definition tb_dtypes (t : etb) : list dtype := map fst (tb_cols t).

Definition lvl_index (t : lvl) : eindex := match t with Lvl ix _ => ix end.
Definition lvl_targets (t : lvl) : list lvl := match t with Lvl _ ts => ts end.

(* labels of a hierarchy as tuples, in order *)
Fixpoint lvl_flat (t : lvl) : list (list val) :=
  match t with
  | Lvl ix ts =>
      match ts with
      | [] => map (fun l => [l]) (ei_labels ix)
      | _ :: _ =>
          (fix go (cs : list lvl) (ls : list val) {struct cs} : list (list val) :=
             match cs, ls with
             | c :: cs', l :: ls' => map (cons l) (lvl_flat c) ++ go cs' ls'
             | _, _ => []
             end) ts (ei_labels ix)
      end
  end.

(* index objects of the tree, preorder *)
Fixpoint lvl_nodes (t : lvl) : list eindex :=
  match t with
  | Lvl ix ts => ix :: (fix go (cs : list lvl) : list eindex :=
                          match cs with [] => [] | c :: cs' => lvl_nodes c ++ go cs' end) ts
  end.

Fixpoint lvl_depth (fuel : nat) (t : lvl) : Z :=
  match fuel with
  | O => 1
  | S f => match t with Lvl _ [] => 1 | Lvl _ (c :: _) => 1 + lvl_depth f c end
  end.

Fixpoint lvl_size (t : lvl) : nat :=
  match t with
  | Lvl _ ts => S ((fix go (cs : list lvl) : nat :=
                      match cs with [] => O | c :: cs' => (lvl_size c + go cs')%nat end) ts)
  end.

Definition hier_labels (h : ehier) : list val := map VTup (lvl_flat (eh_tree h)).
Definition hier_depth (h : ehier) : Z := lvl_depth (lvl_size (eh_tree h)) (eh_tree h).

Definition axis_labels (a : eaxis) : list val :=
  match a with AFlat i => ei_labels i | AHier h => hier_labels h end.

(* ------------------------------------------------------------------ S: specification *)
Definition opt_req (flag ok : bool) : bool := implb flag ok.

Definition labels_eq (skipna : bool) (a b : list val) : bool := list_eqb (cell_eq skipna) a b.

Definition S_index_content (o : eopts) (a b : eindex) : bool :=
  labels_eq (o_skipna o) (ei_labels a) (ei_labels b) &&
  opt_req (o_name o) (py_eq (ei_name a) (ei_name b)) &&
  opt_req (o_dtype o) (dtype_eqb (ei_dtype a) (ei_dtype b)) &&
  opt_req (o_class o) (ei_cls a =? ei_cls b).

Definition S_index_equals (o : eopts) (a b : eindex) : bool :=
  (ei_oid a =? ei_oid b) || S_index_content o a b.

Definition tuple_eq (skipna : bool) (a b : list val) : bool := list_eqb (cell_eq skipna) a b.

Definition S_hier_content (o : eopts) (a b : ehier) : bool :=
  list_eqb (tuple_eq (o_skipna o)) (lvl_flat (eh_tree a)) (lvl_flat (eh_tree b)) &&
  (hier_depth a =? hier_depth b) &&
  opt_req (o_name o) (py_eq (eh_name a) (eh_name b) &&
                      list_eqb py_eq (map ei_name (lvl_nodes (eh_tree a))) (map ei_name (lvl_nodes (eh_tree b)))) &&
  opt_req (o_dtype o) (list_eqb dtype_eqb (map ei_dtype (lvl_nodes (eh_tree a))) (map ei_dtype (lvl_nodes (eh_tree b)))) &&
  opt_req (o_class o) ((eh_cls a =? eh_cls b) &&
                       list_eqb Z.eqb (map ei_cls (lvl_nodes (eh_tree a))) (map ei_cls (lvl_nodes (eh_tree b)))).

Definition S_hier_equals (o : eopts) (a b : ehier) : bool :=
  (eh_oid a =? eh_oid b) || S_hier_content o a b.

(* an axis: same kind of index, then the kind's relation (content only: a label axis
   holds no NaN within the property's quantifier, identity adds nothing) *)
Definition S_axis_content (o : eopts) (a b : eaxis) : bool :=
  match a, b with
  | AFlat x, AFlat y => S_index_content o x y
  | AHier x, AHier y => S_hier_content o x y
  | _, _ => false
  end.

Definition col_eq (skipna : bool) (a b : dtype * list val) : bool :=
  list_eqb (cell_eq skipna) (snd a) (snd b).

(* values of a table: same shape, cells pairwise *)
Definition S_cols_content (o : eopts) (rows_a : Z) (a : list (dtype * list val))
                                      (rows_b : Z) (b : list (dtype * list val)) : bool :=
  (rows_a =? rows_b) && (Z.of_nat (length a) =? Z.of_nat (length b)) &&
  list_eqb (col_eq (o_skipna o)) a b &&
  opt_req (o_dtype o) (list_eqb dtype_eqb (map fst a) (map fst b)).

Definition S_tb_content (o : eopts) (a b : etb) : bool :=
  S_cols_content o (tb_rows a) (tb_cols a) (tb_rows b) (tb_cols b).

Definition S_tb_equals (o : eopts) (a b : etb) : bool :=
  (tb_oid a =? tb_oid b) || S_tb_content o a b.

Definition S_series_content (o : eopts) (a b : eseries) : bool :=
  list_eqb (cell_eq (o_skipna o)) (es_values a) (es_values b) &&
  S_axis_content o (es_index a) (es_index b) &&
  opt_req (o_name o) (py_eq (es_name a) (es_name b)) &&
  opt_req (o_dtype o) (dtype_eqb (es_dtype a) (es_dtype b)) &&
  opt_req (o_class o) (es_cls a =? es_cls b).

Definition S_series_equals (o : eopts) (a b : eseries) : bool :=
  (es_oid a =? es_oid b) || S_series_content o a b.

Definition S_frame_content (o : eopts) (a b : eframe) : bool :=
  S_tb_content o (ef_blocks a) (ef_blocks b) &&
  S_axis_content o (ef_index a) (ef_index b) &&
  S_axis_content o (ef_columns a) (ef_columns b) &&
  opt_req (o_name o) (py_eq (ef_name a) (ef_name b)) &&
  opt_req (o_class o) (ef_cls a =? ef_cls b).

Definition S_frame_equals (o : eopts) (a b : eframe) : bool :=
  (ef_oid a =? ef_oid b) || S_frame_content o a b.

Definition S_bus_content (o : eopts) (a b : ebus) : bool :=
  S_axis_content o (eb_index a) (eb_index b) &&
  list_eqb (S_frame_content o) (eb_frames a) (eb_frames b) &&
  opt_req (o_name o) (py_eq (eb_name a) (eb_name b)) &&
  opt_req (o_class o) (eb_cls a =? eb_cls b).

(* the frames of a Bus are objects too: a frame compared with itself is equal *)
Definition S_bus_equals (o : eopts) (a b : ebus) : bool :=
  (eb_oid a =? eb_oid b) ||
  (S_axis_content o (eb_index a) (eb_index b) &&
   list_eqb (S_frame_equals o) (eb_frames a) (eb_frames b) &&
   opt_req (o_name o) (py_eq (eb_name a) (eb_name b)) &&
   opt_req (o_class o) (eb_cls a =? eb_cls b)).

(* HE variants: == is equals with the HE options; the hash must not separate equal containers.
   `hash_key` is what the hash is a function of (labels only); two keys that are pairwise
   Python-== hash alike by Python's own contract (assumption, see the check module). *)
Definition hash_key_axis (a : eaxis) : list val := map canon (axis_labels a).
Definition S_series_hash_key (a : eseries) : list val := hash_key_axis (es_index a).
Definition S_frame_hash_key (a : eframe) : list val * list val :=
  (hash_key_axis (ef_index a), hash_key_axis (ef_columns a)).

(* ------------------------------------------------------------------ M: NumPy comparison *)
(* operand kind: object array, datetime64/timedelta64 array, anything else *)
Inductive okind := KObj | KDt | KOther.
Definition okind_of (d : dtype) : okind :=
  match d with DObj => KObj | DDt _ | DTd _ => KDt | _ => KOther end.

(* a datetime64 array compared with (or copied into) an object array turns NaT into None *)
Definition co (k other : okind) (v : val) : val :=
  match k, other, v with KDt, KObj, VNaT => VNone | _, _, _ => v end.

Definition np_eq (ka kb : okind) (x y : val) : bool := py_eq (co ka kb x) (co kb ka y).

Fixpoint map2 {A B C} (f : A -> B -> C) (l1 : list A) (l2 : list B) : list C :=
  match l1, l2 with x :: xs, y :: ys => f x y :: map2 f xs ys | _, _ => [] end.

Definition all_true (l : list bool) : bool := forallb (fun b => b) l.

(* ------------------------------------------------------------------ M: Index / Series *)
Definition name_ne (a b : val) : bool := negb (py_eq a b).

(* values == values; fill the both-missing positions; all() *)
Definition M_array_equals (c : mcfg) (skipna : bool) (da db : dtype) (a b : list val) : bool :=
  let eq := map2 (np_eq (okind_of da) (okind_of db)) a b in
  let na_a := map (isna_cell (m_include_none c)) a in
  let na_b := map (isna_cell (m_include_none c)) b in
  let both := map2 andb (if m_left_other c then na_b else na_a) (if m_right_other c then na_b else na_a) in
  all_true (if skipna then map2 orb eq both else eq).

Definition M_index_equals (cs : mcfgs) (o : eopts) (a b : eindex) : bool :=
  if ei_oid a =? ei_oid b then true
  else if o_class o && negb (ei_cls a =? ei_cls b) then false
  else if negb (Z.of_nat (length (ei_labels a)) =? Z.of_nat (length (ei_labels b))) then false
  else if o_name o && name_ne (ei_name a) (ei_name b) then false
  else if o_dtype o && negb (dtype_eqb (ei_dtype a) (ei_dtype b)) then false
  else M_array_equals (c_index cs) (o_skipna o) (ei_dtype a) (ei_dtype b) (ei_labels a) (ei_labels b).

(* IndexLevel.equals: two stacks (head = top), a set of index-object pairs already found equal *)
Definition pair_in (p : Z * Z) (s : list (Z * Z)) : bool :=
  existsb (fun q => (fst p =? fst q) && (snd p =? snd q)) s.

Fixpoint M_level_walk (fuel : nat) (c : mcfgs) (o : eopts) (seen : list (Z * Z))
                      (sa sb : list lvl) : res bool :=
  match fuel with
  | O => Err "OutOfFuel"
  | S f =>
      match sa, sb with
      | a :: ra, b :: rb =>
          let p := (ei_oid (lvl_index a), ei_oid (lvl_index b)) in
          let found := pair_in p seen in
          if negb found && negb (M_index_equals c o (lvl_index a) (lvl_index b)) then Ok false
          else
            let seen' := if found then seen else p :: seen in
            match lvl_targets a, lvl_targets b with
            | [], [] => M_level_walk f c o seen' ra rb
            | [], _ | _, [] => Ok false
            | ta, tb => M_level_walk f c o seen' (rev ta ++ ra) (rev tb ++ rb)
            end
      | [], [] => Ok true
      | _, _ => Ok false
      end
  end.

Definition lvl_len (t : lvl) : Z := Z.of_nat (length (lvl_flat t)).

Definition M_level_equals (c : mcfgs) (o : eopts) (a b : lvl) : res bool :=
  if negb (lvl_len a =? lvl_len b) then Ok false
  else if negb (lvl_depth (lvl_size a) a =? lvl_depth (lvl_size b) b) then Ok false
  else match lvl_targets a, lvl_targets b with
       | [], [] => Ok (M_index_equals c o (lvl_index a) (lvl_index b))
       | _, _ => M_level_walk (S (lvl_size a + lvl_size b)) c o [] [a] [b]
       end.

Definition M_hier_equals (c : mcfgs) (o : eopts) (a b : ehier) : res bool :=
  if eh_oid a =? eh_oid b then Ok true
  else if o_class o && negb (eh_cls a =? eh_cls b) then Ok false
  else if negb ((lvl_len (eh_tree a) =? lvl_len (eh_tree b)) && (hier_depth a =? hier_depth b)) then Ok false
  else if o_name o && name_ne (eh_name a) (eh_name b) then Ok false
  else M_level_equals c o (eh_tree a) (eh_tree b).

(* Index.equals(IndexHierarchy) and the converse fail the isinstance test *)
Definition M_axis_equals (c : mcfgs) (o : eopts) (a b : eaxis) : res bool :=
  match a, b with
  | AFlat x, AFlat y => Ok (M_index_equals c o x y)
  | AHier x, AHier y => M_hier_equals c o x y
  | _, _ => Ok false
  end.

Definition M_series_equals (c : mcfgs) (o : eopts) (a b : eseries) : res bool :=
  if es_oid a =? es_oid b then Ok true
  else if o_class o && negb (es_cls a =? es_cls b) then Ok false
  else if negb (Z.of_nat (length (es_values a)) =? Z.of_nat (length (es_values b))) then Ok false
  else if o_name o && name_ne (es_name a) (es_name b) then Ok false
  else if o_dtype o && negb (dtype_eqb (es_dtype a) (es_dtype b)) then Ok false
  else if negb (M_array_equals (c_series c) (o_skipna o) (es_dtype a) (es_dtype b) (es_values a) (es_values b)) then Ok false
  else M_axis_equals c o (es_index a) (es_index b).

(* ------------------------------------------------------------------ M: TypeBlocks *)
(* _reblock_signature: (dtype, width) of every run of adjacent blocks of one dtype *)
Fixpoint sig_go (g : option dtype) (n : Z) (bs : list block) : list (dtype * Z) :=
  match bs with
  | [] => match g with Some d => if 0 <? n then [(d, n)] else [] | None => [] end
  | b :: r =>
      match g with
      | None => sig_go (Some (fst b)) (n + blk_width b) r
      | Some d => if dtype_eqb (fst b) d then sig_go g (n + blk_width b) r
                  else (d, n) :: sig_go (Some (fst b)) (blk_width b) r
      end
  end.
Definition reblock_sig (bs : list block) : list (dtype * Z) := sig_go None 0 bs.

(* consolidate_blocks: adjacent blocks of one dtype are concatenated *)
Fixpoint consol_go (g : option block) (bs : list block) : list block :=
  match bs with
  | [] => match g with Some gb => [gb] | None => [] end
  | b :: r =>
      match g with
      | None => consol_go (Some b) r
      | Some gb => if dtype_eqb (fst b) (fst gb) then consol_go (Some (fst gb, snd gb ++ snd b)) r
                   else gb :: consol_go (Some b) r
      end
  end.
Definition reblock (bs : list block) : list block := consol_go None bs.

Definition oblock := (okind * list (list val))%type.   (* an operand array: its kind in place of a dtype *)
Definition as_oblock (b : block) : oblock := (okind_of (fst b), snd b).

(* axis_values(0): column by column, every column a 1-D array of its own dtype *)
Definition split_cols (bs : list block) : list block :=
  flat_map (fun b => map (fun col => (fst b, [col])) (snd b)) bs.

Definition list_Z_eqb := list_eqb Z.eqb.

Inductive tpath := PBlocks | PReblock | PColumns.
Definition tb_path (a b : list block) : tpath :=
  if list_Z_eqb (map blk_width a) (map blk_width b) then PBlocks
  else if list_Z_eqb (map snd (reblock_sig a)) (map snd (reblock_sig b)) then PReblock
  else PColumns.

Definition operands (a b : list block) : list oblock * list oblock :=
  match tb_path a b with
  | PBlocks => (map as_oblock a, map as_oblock b)
  | PReblock => (map as_oblock (reblock a), map as_oblock (reblock b))
  | PColumns => (map as_oblock (split_cols a), map as_oblock (split_cols b))
  end.

Definition eq_block (x y : oblock) : list (list bool) :=
  map2 (fun ca cb => map2 (np_eq (fst x) (fst y)) ca cb) (snd x) (snd y).

(* isna of the ORIGINAL blocks, as columns *)
Definition na_cols (c : mcfg) (bs : list block) : list (list bool) :=
  map (fun col => map (isna_cell (m_include_none c)) (snd col)) (blocks_cols bs).

(* the loop over eq._blocks with start/end offsets into the both-missing mask *)
Fixpoint fill_go (skipna : bool) (mask : list (list bool)) (start : nat) (eqs : list (list (list bool))) : bool :=
  match eqs with
  | [] => true
  | blk :: r =>
      let w := length blk in
      let target := firstn w (skipn start mask) in
      let blk' := if skipna then map2 (map2 orb) blk target else blk in
      forallb all_true blk' && fill_go skipna mask (start + w) r
  end.

Definition M_tb_equals (c : mcfg) (o : eopts) (a b : etb) : res bool :=
  if tb_oid a =? tb_oid b then Ok true
  else if negb ((tb_rows a =? tb_rows b) && (tb_ncols a =? tb_ncols b)) then Ok false
  else if o_dtype o && negb (list_eqb dtype_eqb (tb_dtypes a) (tb_dtypes b)) then Ok false
  else if m_zero_ok c && (tb_ncols a =? 0) then Ok true
  else
    let (xa, xb) := operands (tb_blocks a) (tb_blocks b) in
    let eqs := map2 eq_block xa xb in
    match eqs with
    | [] => Err "ErrorInitTypeBlocks"          (* from_blocks of no block: no row count *)
    | _ =>
        let na_a := na_cols c (tb_blocks a) in
        let na_b := na_cols c (tb_blocks b) in
        let mask := map2 (map2 andb) (if m_left_other c then na_b else na_a)
                                     (if m_right_other c then na_b else na_a) in
        Ok (fill_go (o_skipna o) mask 0 eqs)
    end.

Definition M_frame_equals (c : mcfgs) (o : eopts) (a b : eframe) : res bool :=
  if ef_oid a =? ef_oid b then Ok true
  else if o_class o && negb (ef_cls a =? ef_cls b) then Ok false
  else if negb ((tb_rows (ef_blocks a) =? tb_rows (ef_blocks b)) &&
                (tb_ncols (ef_blocks a) =? tb_ncols (ef_blocks b))) then Ok false
  else if o_name o && name_ne (ef_name a) (ef_name b) then Ok false
  else
    r <- M_tb_equals (c_tb c) o (ef_blocks a) (ef_blocks b) ;;
    if negb r then Ok false else
    r <- M_axis_equals c o (ef_index a) (ef_index b) ;;
    if negb r then Ok false else
    M_axis_equals c o (ef_columns a) (ef_columns b).

Fixpoint M_frames_equal (c : mcfgs) (o : eopts) (fa fb : list eframe) : res bool :=
  match fa, fb with
  | x :: xs, y :: ys =>
      r <- M_frame_equals c o x y ;;
      if negb r then Ok false else M_frames_equal c o xs ys
  | _, _ => Ok true                              (* zip stops at the shorter *)
  end.

Definition M_bus_equals (c : mcfgs) (o : eopts) (a b : ebus) : res bool :=
  if eb_oid a =? eb_oid b then Ok true
  else if o_class o && negb (eb_cls a =? eb_cls b) then Ok false
  else if negb (Z.of_nat (length (eb_frames a)) =? Z.of_nat (length (eb_frames b))) then Ok false
  else if o_name o && name_ne (eb_name a) (eb_name b) then Ok false
  else
    r <- M_axis_equals c o (eb_index a) (eb_index b) ;;
    if negb r then Ok false else M_frames_equal c o (eb_frames a) (eb_frames b).

(* ------------------------------------------------------------------ M: HE variants *)
(* hash(tuple(index.values)): a 2-D values array (hierarchy) yields rows that are arrays: unhashable *)
(* uses_values = false: hash(tuple(index)), the labels themselves (tuples for a hierarchy) *)
Definition M_hash_axis (uses_values : bool) (a : eaxis) : res (list val) :=
  match a with
  | AFlat i => Ok (map canon (ei_labels i))
  | AHier h => if uses_values then Err "TypeError" else Ok (map canon (hier_labels h))
  end.

Definition M_series_hash_key (uv : bool) (a : eseries) : res (list val) := M_hash_axis uv (es_index a).
Definition M_frame_hash_key (uv : bool) (a : eframe) : res (list val * list val) :=
  i <- M_hash_axis uv (ef_index a) ;; k <- M_hash_axis uv (ef_columns a) ;; Ok (i, k).

(* ------------------------------------------------------------------ comparison helpers for cases *)
Definition rb_eqb (a b : res bool) : bool := res_eqb Bool.eqb a b.
Definition vl_eqb (a b : list val) : bool := list_eqb val_eqb a b.

(* ------------------------------------------------------------------ HE observation record *)
Definition rz_eqb (a b : res Z) : bool := res_eqb Z.eqb a b.

Record he_obs := mk_he_obs {
  h_eq_ab : res bool; h_eq_ba : res bool; h_ne_ab : res bool; h_ne_ba : res bool;
  h_plain : bool;                 (* every ==/!= answer was exactly a Python bool *)
  h_hash_eq : res bool;           (* hash(a) == hash(b) *)
  h_set_len : res Z;              (* len({a, b}) *)
  h_in_dict : res bool }.         (* b in {a: 0} *)

(* what the model predicts for the observation: == is equals with the HE options, != its
   negation, the hash a function of the key (equal keys => equal hashes; unequal keys: not
   predicted), CPython's set/dict probe = same hash and stored == probe *)
Definition M_he_check {K} (keqb : K -> K -> bool) (eq_ab eq_ba : res bool) (ka kb : res K) (ob : he_obs) : bool :=
  rb_eqb eq_ab (h_eq_ab ob) && rb_eqb eq_ba (h_eq_ba ob) &&
  rb_eqb (res_map negb eq_ab) (h_ne_ab ob) && rb_eqb (res_map negb eq_ba) (h_ne_ba ob) &&
  match ka, kb with
  | Ok x, Ok y =>
      match h_hash_eq ob with
      | Ok he =>
          implb (keqb x y) he &&
          rz_eqb (h_set_len ob) (if he then res_map (fun e : bool => if e then 1 else 2) eq_ab else Ok 2) &&
          rb_eqb (h_in_dict ob) (if he then eq_ab else Ok false)
      | Err _ => false
      end
  | Err e, _ | _, Err e =>
      rb_eqb (h_hash_eq ob) (Err e) && rz_eqb (h_set_len ob) (Err e) && rb_eqb (h_in_dict ob) (Err e)
  end.

(* the documented meaning of HE ==: same labels, values and name; class and dtypes not compared *)
Definition he_opts_doc : eopts := mk_eopts true false false true.

(* what the property demands of the observation *)
Definition S_he_check (seq_ab seq_ba : bool) (ob : he_obs) : bool :=
  rb_eqb (Ok seq_ab) (h_eq_ab ob) && rb_eqb (Ok seq_ba) (h_eq_ba ob) &&
  rb_eqb (Ok (negb seq_ab)) (h_ne_ab ob) && rb_eqb (Ok (negb seq_ba)) (h_ne_ba ob) &&
  h_plain ob &&
  match h_hash_eq ob with Ok he => implb seq_ab he | Err _ => false end &&
  rz_eqb (h_set_len ob) (Ok (if seq_ab then 1 else 2)) &&
  rb_eqb (h_in_dict ob) (Ok seq_ab).

Definition key2_eqb (a b : list val * list val) : bool := vl_eqb (fst a) (fst b) && vl_eqb (snd a) (snd b).

(* ------------------------------------------------------------------ guards of the refinement theorems *)
(* (boolean, explicit, satisfiable; each is shown necessary by a witness in Refuted/C10.v) *)
Definition is_nat (v : val) : bool := match v with VNaT => true | _ => false end.
Definition has_nat (l : list val) : bool := existsb is_nat l.
Definition is_kdt (k : okind) : bool := match k with KDt => true | _ => false end.
Definition is_kobj (k : okind) : bool := match k with KObj => true | _ => false end.
Definition kcol (c : dtype * list val) : okind * list val := (okind_of (fst c), snd c).

(* NumPy does not rewrite NaT to None when these two arrays meet *)
Definition col_inert (x y : okind * list val) : bool :=
  negb (is_kdt (fst x) && is_kobj (fst y) && has_nat (snd x)) &&
  negb (is_kdt (fst y) && is_kobj (fst x) && has_nat (snd y)).

(* the mask the code builds at a position *)
Definition gmask (c : mcfg) (x y : val) : bool :=
  (if m_left_other c then isna_cell (m_include_none c) y else isna_cell (m_include_none c) x) &&
  (if m_right_other c then isna_cell (m_include_none c) y else isna_cell (m_include_none c) x).

(* ... marks exactly the positions where both sides are missing (needed only with skipna) *)
Definition mask_dom (c : mcfg) (skipna : bool) (a b : list (list val)) : bool :=
  negb skipna ||
  forallb all_true (map2 (map2 (fun x y => Bool.eqb (gmask c x y) (nanlike x && nanlike y))) a b).

Definition tb_vals (t : etb) : list (list val) := map snd (tb_cols t).

(* every block has a column, every column has tb_rows cells *)
Definition tb_wf (t : etb) : bool :=
  forallb (fun b => 0 <? blk_width b) (tb_blocks t) &&
  forallb (fun col => Z.of_nat (length col) =? tb_rows t) (tb_vals t).

(* NaT is never rewritten to None on the way to the comparison: no datetime64 column holding NaT faces an
   object column (every operand path compares a column with the column at the same position, each with its own
   dtype, so this does not depend on the layouts) *)
Definition nat_dom (a b : etb) : bool :=
  all_true (map2 col_inert (map kcol (tb_cols a)) (map kcol (tb_cols b))).

Definition tb_dom (c : mcfg) (o : eopts) (a b : etb) : bool :=
  tb_wf a && tb_wf b && (m_zero_ok c || (0 <? tb_ncols a)) &&
  mask_dom c (o_skipna o) (tb_vals a) (tb_vals b) && nat_dom a b.

Definition index_dom (c : mcfg) (o : eopts) (a b : eindex) : bool :=
  mask_dom c (o_skipna o) [ei_labels a] [ei_labels b] &&
  col_inert (okind_of (ei_dtype a), ei_labels a) (okind_of (ei_dtype b), ei_labels b).

(* a nested flat axis; the same index object has the same content (it has: only NaN labels
   compared without skipna could break it) *)
Definition axis_dom (c : mcfg) (o : eopts) (a b : eaxis) : bool :=
  match a, b with
  | AFlat x, AFlat y => index_dom c o x y && implb (ei_oid x =? ei_oid y) (S_index_content o x y)
  | _, _ => false
  end.

Definition series_dom (cs : mcfgs) (o : eopts) (a b : eseries) : bool :=
  mask_dom (c_series cs) (o_skipna o) [es_values a] [es_values b] &&
  col_inert (okind_of (es_dtype a), es_values a) (okind_of (es_dtype b), es_values b) &&
  axis_dom (c_index cs) o (es_index a) (es_index b).

Definition frame_dom (cs : mcfgs) (o : eopts) (a b : eframe) : bool :=
  tb_dom (c_tb cs) o (ef_blocks a) (ef_blocks b) &&
  implb (tb_oid (ef_blocks a) =? tb_oid (ef_blocks b)) (S_tb_content o (ef_blocks a) (ef_blocks b)) &&
  axis_dom (c_index cs) o (ef_index a) (ef_index b) &&
  axis_dom (c_index cs) o (ef_columns a) (ef_columns b).

(* labels free of NaN/NaT (the property's quantifier puts missing values in cells, not labels) *)
Definition axis_clean (a : eaxis) : bool :=
  negb (existsb (fun v => match v with VTup l => existsb nanlike l | _ => nanlike v end) (axis_labels a)).

Definition bus_dom (cs : mcfgs) (o : eopts) (a b : ebus) : bool :=
  axis_dom (c_index cs) o (eb_index a) (eb_index b) &&
  all_true (map2 (frame_dom cs o) (eb_frames a) (eb_frames b)).
