(* C20 -- Frame.pivot models at observed values + comparators. *)
Require Import SF.Prelude SF.Dtype SF.Value SF.RelJoinVal SF.RelStack SF.RelStackVal SF.RelPivot.

(* np.unique / sorted order of labels: ints numerically, strings by code point, tuples lexicographically *)
Definition val_cmp (a b : val) : comparison :=
  match a, b with
  | VStr x, VStr y => String.compare x y
  | VBytes x, VBytes y => String.compare x y
  | VDt _ x, VDt _ y => Z.compare x y
  | VTd _ x, VTd _ y => Z.compare x y
  | _, _ => match num_view a, num_view b with
            | Some (n1, d1), Some (n2, d2) => Z.compare (n1 * d2) (n2 * d1)
            | _, _ => Eq
            end
  end.
Fixpoint tup_cmp (a b : tup) : comparison :=
  match a, b with
  | [], [] => Eq
  | [], _ => Lt
  | _, [] => Gt
  | x :: xs, y :: ys => match val_cmp x y with Eq => tup_cmp xs ys | c => c end
  end.
Definition tup_leb (a b : tup) : bool := match tup_cmp a b with Gt => false | _ => true end.
Fixpoint insert_tup (x : tup) (l : list tup) : list tup :=
  match l with
  | [] => [x]
  | y :: r => if tup_leb x y then x :: l else y :: insert_tup x r
  end.
Definition sort_tups (l : list tup) : list tup := fold_right insert_tup [] l.

(* aggregation functions over integer cells *)
Inductive aggf := ASum | AMin | AMax | ALen | AFirst | ALast | ASumTwice.
Definition zof (v : val) : Z := match v with VInt z => z | VBool true => 1 | _ => 0 end.
Definition apply_agg (f : aggf) (vs : list val) : val :=
  match f with
  | ASum => VInt (fold_right Z.add 0 (map zof vs))
  | AMin => match vs with [] => VNone | v :: r => VInt (fold_right Z.min (zof v) (map zof r)) end
  | AMax => match vs with [] => VNone | v :: r => VInt (fold_right Z.max (zof v) (map zof r)) end
  | ALen => VInt (Z.of_nat (length vs))
  | AFirst => match vs with [] => VNone | v :: _ => v end
  | ALast => last vs VNone
  | ASumTwice => VInt (2 * fold_right Z.add 0 (map zof vs))
  end.

Definition nfunc := (val * aggf)%type.            (* (label in the function map, function) *)
Definition apply_nfunc (f : nfunc) (vs : list val) : val := apply_agg (snd f) vs.

Definition vprow := prow tup tup val.
Definition vpr (i c : tup) (d : list val) : vprow := mk_prow i c d.

(* extrapolate_column_fields: column key ++ [data field] (several data fields, or no column fields)
   ++ [function label] (a function map with several entries) *)
Definition pivot_label (show_d show_f : bool) (dnames : list val) (ckf : tup * (nat * nfunc)) : tup :=
  fst ckf ++ (if show_d then [nth (fst (snd ckf)) dnames VNone] else [])
          ++ (if show_f then [fst (snd (snd ckf))] else []).

Definition pivot_view (show_d show_f : bool) (dnames : list val) (f : sframe val tup (tup * (nat * nfunc))) : vsframe :=
  mk_sframe (sf_rows f) (map (pivot_label show_d show_f dnames) (sf_cols f)) (sf_cells f).
Definition pivot0_view (show_f : bool) (dnames : list val) (f : sframe val tup (nat * nfunc)) : vsframe :=
  mk_sframe (sf_rows f) (map (fun kf => pivot_label true show_f dnames ([], kf)) (sf_cols f)) (sf_cells f).

(* M_pivot_v / M_pivot0_v / pivot_m_ok: SF/RelPivotGenVal.v (they read the regenerated flags; this file must not) *)
Definition S_pivot_v (fill : val) (show_d show_f : bool) (dnames : list val) (funcs : list nfunc) (rows : list vprow) : vsframe :=
  pivot_view show_d show_f dnames
    (S_pivot tup_eqb tup_eqb apply_nfunc fill (length dnames) funcs rows).
Definition S_pivot0_v (fill : val) (show_f : bool) (dnames : list val) (funcs : list nfunc) (rows : list vprow) : vsframe :=
  pivot0_view show_f dnames (S_pivot0 tup_eqb apply_nfunc fill (length dnames) funcs rows).

(* has_cols = false: no columns_fields *)
Definition pivot_s_ok (has_cols : bool) (fill : val) (show_d show_f : bool) (dnames : list val) (funcs : list nfunc)
                      (rows : list vprow) (obs : res vsframe) : bool :=
  match obs with
  | Ok o => vsframe_keyed_eqb (if has_cols then S_pivot_v fill show_d show_f dnames funcs rows
                               else S_pivot0_v fill show_f dnames funcs rows) o
  | Err _ => false
  end.

(* ---- kernel level: extrapolate_column_fields (pivot.py:27-64) called directly ---- *)
Definition ecf_ok (show_d show_f : bool) (group : tup) (dnames : list val) (funcs : list nfunc) (obs : list tup) : bool :=
  list_eqb tup_eqb (map (pivot_label show_d show_f dnames) (product [group] (product (seq 0 (length dnames)) funcs))) obs.
