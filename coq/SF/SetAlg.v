(* C06 -- index set algebra.  Models only (no proofs).

   S_set     : the specification: union / intersection / difference of two label lists read as sets,
               every label once.
   M_ufunc_set : the decision procedure static_frame/core/util.py:_ufunc_set_1d (1592-1691) and
               _ufunc_set_2d (1693-1828) really run: empty-operand shortcuts, the
               assume_unique + same-length + element-wise-equal shortcut that returns the LEFT OPERAND,
               the object / set_compare path (frozenset algebra, sorted when sortable, hash order
               otherwise), and the NumPy path (np.union1d / intersect1d / setdiff1d, ORACLE models).
   M_index_set : Index._ufunc_set (index.py:645-685) / IndexHierarchy._ufunc_set
               (index_hierarchy.py:839-901): equal-operands shortcut, then operand classification
               (Index -> assume_unique, ndarray -> not, other iterable -> what iterable_to_array_1d says).

   Labels are an abstract type A with a Boolean equality [eqb] (Python ==/hash equality of labels) and
   a Boolean order [leb] (NumPy sort order / Python sorted order).  Nothing in the theorems depends on
   [leb] being an order: the set content is right for every [leb]. *)
Require Import SF.Prelude.

Section SetAlg.
Variable A : Type.
Variable eqb : A -> A -> bool.
Variable leb : A -> A -> bool.
(* Python's sorted() raises TypeError on some object label sets (int with str); then the frozenset's
   iteration (hash) order is used.  [sortable] decides which; any function is allowed. *)
Variable sortable : list A -> bool.

Fixpoint mem (x : A) (l : list A) : bool :=
  match l with
  | [] => false
  | y :: t => eqb x y || mem x t
  end.

(* every label once, first occurrences kept *)
Fixpoint dedup (l : list A) : list A :=
  match l with
  | [] => []
  | x :: t => x :: filter (fun y => negb (eqb y x)) (dedup t)
  end.

Fixpoint insert (x : A) (l : list A) : list A :=
  match l with
  | [] => [x]
  | y :: t => if leb x y then x :: l else y :: insert x t
  end.

Fixpoint isort (l : list A) : list A :=
  match l with
  | [] => []
  | x :: t => insert x (isort t)
  end.

Inductive setop := OpUnion | OpInter | OpDiff.

Definition setop_eqb (a b : setop) : bool :=
  match a, b with
  | OpUnion, OpUnion | OpInter, OpInter | OpDiff, OpDiff => true
  | _, _ => false
  end.

(* ---- specification ---- *)
Definition S_set (op : setop) (a b : list A) : list A :=
  match op with
  | OpUnion => dedup (a ++ b)
  | OpInter => filter (fun x => mem x b) (dedup a)
  | OpDiff => filter (fun x => negb (mem x b)) (dedup a)
  end.

(* what set algebra prescribes, as a proposition *)
Definition set_sem (op : setop) (a b : list A) (x : A) : Prop :=
  match op with
  | OpUnion => In x a \/ In x b
  | OpInter => In x a /\ In x b
  | OpDiff => In x a /\ ~ In x b
  end.

(* ---- ORACLE: NumPy's 1-D set routines (np.union1d, np.intersect1d, np.setdiff1d) ----
   union1d: unique(concatenate) -- sorted;
   intersect1d: sorted common values;
   setdiff1d(assume_unique=True) = ar1[~isin(ar1, ar2)]  -- keeps the order of ar1;
   setdiff1d(assume_unique=False) = the same on unique(ar1) -- sorted. *)
Definition np_set1d (op : setop) (assume_unique : bool) (a b : list A) : list A :=
  match op with
  | OpUnion => isort (dedup (a ++ b))
  | OpInter => isort (filter (fun x => mem x b) (dedup a))
  | OpDiff => if assume_unique then filter (fun x => negb (mem x b)) a
              else isort (filter (fun x => negb (mem x b)) (dedup a))
  end.

(* ---- the object / set_compare path: frozenset algebra, then sorted() inside try/except TypeError.
   Result: (order is determined?, labels).  When not sortable the order is the hash order of the
   frozenset, which the model does not predict: only the content is compared. ---- *)
Definition obj_set1d (op : setop) (a b : list A) : bool * list A :=
  let r := S_set op a b in
  if sortable r then (true, isort r) else (false, r).

Definition is_nil (l : list A) : bool := match l with [] => true | _ => false end.

(* util._ufunc_set_1d / _ufunc_set_2d.  [objpath]: the operands go through the frozenset path
   (1-D: exactly one operand is a str dtype, or resolve_dtype of the two dtypes is object;
    2-D: resolve_dtype is object). *)
Definition early_exit (op : setop) (a b : list A) : bool :=
  match op with
  | OpInter => is_nil a || is_nil b
  | OpDiff => is_nil a
  | OpUnion => false
  end.

Definition M_ufunc_set (op : setop) (assume_unique objpath : bool) (a b : list A) : bool * list A :=
  if early_exit op a b then (true, [])
  else if assume_unique && setop_eqb op OpUnion && is_nil a then (true, b)
  else if assume_unique && setop_eqb op OpUnion && is_nil b then (true, a)
  else if assume_unique && setop_eqb op OpDiff && is_nil b then (true, a)
  else if assume_unique && (Z.of_nat (length a) =? Z.of_nat (length b)) && list_eqb eqb a b
       then (true, match op with OpDiff => [] | _ => a end)
  else if objpath then obj_set1d op a b
  else (true, np_set1d op assume_unique a b).

(* how the other operand reached Index._ufunc_set *)
Inductive operand_kind :=
| OperandIndex                  (* an IndexBase: .values, assume_unique = True *)
| OperandArray                  (* an ndarray: assume_unique = False *)
| OperandIterable (unique : bool).   (* iterable_to_array_1d(other) -> (array, is_unique) *)

Definition operand_unique (k : operand_kind) : bool :=
  match k with OperandIndex => true | OperandArray => false | OperandIterable u => u end.

Definition is_index (k : operand_kind) : bool :=
  match k with OperandIndex => true | _ => false end.

(* Index._ufunc_set.  [same_dtype]: self.dtype == other.dtype (equals(compare_dtype=True)). *)
Definition M_index_set (op : setop) (k : operand_kind) (same_dtype objpath : bool) (a b : list A)
  : bool * list A :=
  if is_index k && same_dtype && (Z.of_nat (length a) =? Z.of_nat (length b)) && list_eqb eqb a b
  then (true, match op with OpDiff => [] | _ => a end)
  else M_ufunc_set op (operand_unique k) objpath a b.

(* util.ufunc_set_iter (util.py:1907-1942): fold of union / intersection over many arrays, with the
   early exit of an empty intersection *)
Fixpoint M_set_iter (union : bool) (assume_unique objpath : bool) (acc : list A) (rest : list (list A))
  : list A :=
  match rest with
  | [] => acc
  | x :: t =>
      let r := snd (M_ufunc_set (if union then OpUnion else OpInter) assume_unique objpath acc x) in
      if negb union && is_nil r then r else M_set_iter union assume_unique objpath r t
  end.

End SetAlg.

