(* C15 -- property theorems only; each closed by `exact` and followed by Print Assumptions. *)
Require Import SF.Prelude SF.Value SF.Dtype SF.Reduce Gen.Gen_c15_table.
Require Import Proofs.ReduceFold Proofs.ReduceRefine Proofs.ReduceMain Proofs.ReduceSpec Proofs.ReduceArg Proofs.ReduceDtype.
From Coq Require Import QArith.
Local Open Scope Z_scope.

(* Axis 0, several blocks: reducing every block on its own into out[pos:end] is the per-column reduction of
   the flattened columns -- every layout, every reduction function, every store into `out`. *)
Theorem C15_axis0_is_per_column :
  forall (A R : Type) (red : list A -> R) (store : R -> R) (bs : list (blk A)),
    M_axis0 red store bs = map (fun c => store (red c)) (flatten bs).
Proof. exact (@M_axis0_flatten). Qed.
Print Assumptions C15_axis0_is_per_column.

(* Axis 1, composable path: reducing every block to one column and reducing those columns again gives the
   reduction of the whole row -- for EVERY associative operation, every partition of the columns into blocks
   (any number of blocks, 1-D or 2-D, any widths), every number of rows; 1-D blocks may have been rewritten
   cell-wise in any way that keeps what each cell contributes (blk_geq). *)
Theorem C15_axis1_composable_any_layout :
  forall (A R Mo : Type) (dflt : A) (op : Mo -> Mo -> Mo),
    (forall a b c, op (op a b) c = op a (op b c)) ->
  forall (d : Mo) (g : A -> Mo) (out_of : Mo -> R) (inj : R -> A),
    (forall m, g (inj (out_of m)) = m) ->
  forall (red : list A -> R),
    (forall l, l <> [] -> red l = out_of (fold1 op d (map g l))) ->
  forall (short : bool) (r : nat) (bs' bs : list (blk A)),
    Forall2 (blk_geq g) bs' bs ->
    Forall (fun b => blk_cols b <> []) bs ->
    Forall (fun b => short = true -> blk_single b <> None -> (r <= 1)%nat) bs ->
    M_axis1_comp dflt red inj short r bs' = map red (rows_of dflt r (flatten bs)).
Proof. exact (@M_axis1_comp_rows). Qed.
Print Assumptions C15_axis1_composable_any_layout.

(* Axis 1, not composable: consolidating the blocks and reducing the rows of the 2-D array is the per-row
   reduction of the flattened columns -- every layout, every reduction function. *)
Theorem C15_noncomposable_is_per_row :
  forall (A R : Type) (dflt : A) (red : list A -> R) (r : nat) (bs : list (blk A)),
    M_axis1_cons dflt red r bs = map red (rows_of dflt r (flatten bs)).
Proof. exact (@M_axis1_cons_rows). Qed.
Print Assumptions C15_noncomposable_is_per_row.

(* The table REGENERATED from container.py: only folds of an associative operation are declared composable
   (declaring mean/median/std/var composable breaks this theorem before any input is run). *)
Theorem C15_table_composable_sound : forall f,
  fl_composable (c15_table f) = true -> In f [Fmin; Fmax; Fall; Fany; Fsum; Fprod].
Proof. exact table_composable_sound. Qed.
Print Assumptions C15_table_composable_sound.

(* ... and size_one_unity is declared only where reducing a single cell (skipna=False) gives that cell. *)
Theorem C15_table_unity_sound : forall f ddof,
  fl_unity (c15_table f) = true ->
  S_line f false ddof [None] = Ok ONaN /\
  forall q, exists q', S_line f false ddof [Some q] = Ok (ONum q') /\ (q' == q)%Q.
Proof. exact table_unity_sound. Qed.
Print Assumptions C15_table_unity_sound.

(* THE refinement: the model of TypeBlocks.ufunc_axis_skipna driven by the regenerated table computes, for every
   function of the property, both axes, skipna on/off, every ddof, every number of rows and EVERY block layout
   inside the guard (at least one column; the size_one_unity shortcut of axis 0 not taken), exactly the
   per-column / per-row specification of the flattened columns. *)
Theorem C15_refinement : forall f axis skipna ddof r bs,
  wf_frame r bs = true -> (axis = 0 \/ axis = 1) ->
  dom c15_table f axis skipna r bs = true ->
  M_frame c15_table f axis skipna ddof r bs = S_frame f axis skipna ddof r (frame_cells bs).
Proof. exact M_frame_refines. Qed.
Print Assumptions C15_refinement.

(* The answer does not depend on the block layout. *)
Theorem C15_layout_independent : forall f axis skipna ddof r bs1 bs2,
  wf_frame r bs1 = true -> wf_frame r bs2 = true -> (axis = 0 \/ axis = 1) ->
  dom c15_table f axis skipna r bs1 = true -> dom c15_table f axis skipna r bs2 = true ->
  frame_cells bs1 = frame_cells bs2 ->
  M_frame c15_table f axis skipna ddof r bs1 = M_frame c15_table f axis skipna ddof r bs2.
Proof. exact M_frame_layout_independent. Qed.
Print Assumptions C15_layout_independent.

(* With skipna the missing cells are ignored ... *)
Theorem C15_skipna_ignores_missing : forall f ddof xs,
  present xs <> [] ->
  S_line f true ddof xs = S_line f true ddof (map Some (present xs)).
Proof. exact S_skipna_ignores_missing. Qed.
Print Assumptions C15_skipna_ignores_missing.

(* ... a line of missing cells only gives the identity of the operation, or missing ... *)
Theorem C15_skipna_all_missing : forall f ddof xs,
  xs <> [] -> present xs = [] ->
  S_line f true ddof xs =
  match f with
  | Fsum => Ok (ONum 0) | Fprod => Ok (ONum 1) | Fall => Ok (ONum (qbool true)) | Fany => Ok (ONum (qbool false))
  | _ => Ok ONaN
  end.
Proof. exact S_skipna_all_missing. Qed.
Print Assumptions C15_skipna_all_missing.

(* ... without skipna a missing cell propagates, or is rejected by the logical reductions ... *)
Theorem C15_noskip_propagates_or_rejects : forall f ddof xs,
  has_missing xs = true ->
  S_line f false ddof xs = if is_logical f then Err "TypeError" else Ok ONaN.
Proof. exact S_noskip_propagates_or_rejects. Qed.
Print Assumptions C15_noskip_propagates_or_rejects.

(* ... and where nothing is missing skipna makes no difference. *)
Theorem C15_skipna_irrelevant_without_missing : forall f ddof xs,
  has_missing xs = false -> S_line f false ddof xs = S_line f true ddof xs.
Proof. exact S_skipna_irrelevant_without_missing. Qed.
Print Assumptions C15_skipna_irrelevant_without_missing.

(* Frame.values (consolidation of the blocks): its columns / rows are the lines of the flattened block columns. *)
Theorem C15_values_are_the_columns : forall axis r bs, wf_frame r bs = true ->
  values_lines axis r bs = lines None axis r (frame_cells bs).
Proof. exact values_lines_flatten. Qed.
Print Assumptions C15_values_are_the_columns.

(* iloc_min / iloc_max (util._argminmax_2d on Frame.values): line by line the position of the extreme value,
   NaN for a line with a missing cell when skipna=False -- unless a line has no non-missing cell at all. *)
Theorem C15_argminmax_refinement : forall ismin axis skipna r bs,
  wf_frame r bs = true ->
  existsb (fun l : list cell => forallb is_none l) (lines None axis r (frame_cells bs)) = false ->
  M_argframe ismin axis skipna r bs = S_argframe ismin axis skipna r (frame_cells bs).
Proof. exact M_argframe_refines. Qed.
Print Assumptions C15_argminmax_refinement.

(* cumsum / cumprod keep the shape: as many lines, each as long as the line it came from ... *)
Theorem C15_cum_keeps_shape : forall isprod axis skipna r cols,
  length (S_cumframe isprod axis skipna r cols) = length (lines None axis r cols) /\
  Forall2 (fun o l => length o = length l) (S_cumframe isprod axis skipna r cols) (lines None axis r cols).
Proof. exact S_cum_keeps_shape. Qed.
Print Assumptions C15_cum_keeps_shape.

(* ... and computing them on Frame.values is computing them per column / per row, for every layout. *)
Theorem C15_cum_refinement : forall isprod axis skipna r bs, wf_frame r bs = true ->
  M_cumframe isprod axis skipna r bs = S_cumframe isprod axis skipna r (frame_cells bs).
Proof. exact M_cumframe_refines. Qed.
Print Assumptions C15_cum_refinement.

(* What "the position of the minimum / maximum" is: the scan returns position k with value v where v is present
   at k, no present value beats v, and every present value before k is strictly worse (first position on ties);
   it returns nothing exactly when the line has no present cell. *)
Theorem C15_argminmax_first_extreme : forall ismin xs,
  match arg_go (arg_better ismin) 0 None xs with
  | Some (k, v) =>
      0 <= k /\ nth_error xs (Z.to_nat k) = Some (Some v) /\
      (forall j p, nth_error xs j = Some (Some p) -> (if ismin then Qle_bool v p else Qle_bool p v) = true) /\
      (forall j p, (j < Z.to_nat k)%nat -> nth_error xs j = Some (Some p) ->
                   (if ismin then Qle_bool p v else Qle_bool v p) = false)
  | None => forall j p, nth_error xs j <> Some (Some p)
  end.
Proof. exact arg_go_first_extreme. Qed.
Print Assumptions C15_argminmax_first_extreme.

(* loc_min / loc_max: the label is the label at the position found. *)
Theorem C15_loc_is_label_at_iloc : forall ismin axis skipna r cols index columns os,
  S_argframe ismin axis skipna r cols = Ok os ->
  S_locframe ismin axis skipna r cols index columns =
  res_all (map (loc_of (if axis =? 0 then index else columns)) os).
Proof. exact S_loc_is_label_at_iloc. Qed.
Print Assumptions C15_loc_is_label_at_iloc.

(* The two renderings of the regenerated table agree; cumsum / cumprod pass no dtype (Frame._ufunc_shape_skipna
   then computes in NumPy's own result dtype, as the model assumes). *)
Theorem C15_table_rows_agree :
  (forall f, In (rfunc_name f, c15_table f) c15_rows) /\
  (forall name fl, In (name, fl) c15_rows -> (name = "cumsum" \/ name = "cumprod")%string -> fl_dtypes fl = DsEmpty).
Proof. exact table_rows_agree. Qed.
Print Assumptions C15_table_rows_agree.

(* The regenerated table: container.py binds ddof (partial(np.var, ddof=ddof) ...) in BOTH functions of var and of
   std, so the model runs with the caller's ddof whatever skipna is. *)
Theorem C15_table_ddof_bound : forall f skipna ddof,
  c15_ddof_bound f skipna = true /\ eff_ddof c15_ddof_bound f skipna ddof = ddof.
Proof. exact table_ddof_bound. Qed.
Print Assumptions C15_table_ddof_bound.

(* The row-dtype rule inside the model (bool with anything else -> object, int + float -> float, narrow ints stay
   int, object absorbs) agrees with util.resolve_dtype REGENERATED from /repo on every pair of the seven dtypes the
   checks generate (bool, int64, int8, int16, uint8, float64, object). *)
Theorem C15_row_kind_is_resolve_dtype :
  forallb (fun d1 => forallb (kind_join_agrees d1) c15_dtypes) c15_dtypes = true.
Proof. exact kind_join_is_resolve_dtype. Qed.
Print Assumptions C15_row_kind_is_resolve_dtype.
