(* C06 -- property theorems only; each closed by `exact` and followed by Print Assumptions.
   (Proofs.LabelAlignExamples holds computed non-trivial instances of the hypotheses/conclusions.) *)
Require Import SF.Prelude SF.Dtype SF.SetAlg SF.LabelAlign SF.FrameAlign Proofs.SetAlgFacts Proofs.LabelAlignFacts Proofs.LabelAlignExamples
  Proofs.FrameAlignFacts Proofs.FrameReindexFacts Proofs.FrameAlignExamples Proofs.SourceConstantsC06 Proofs.TbBinopFacts.

(* Union / intersection / difference as Index._ufunc_set computes them -- through EVERY path of the
   decision procedure (Index.equals shortcut, empty shortcuts, the assume_unique same-length
   element-wise-equal shortcut, the frozenset path sorted or in hash order, the NumPy path), for every
   kind of other operand -- contain exactly the labels set algebra prescribes, each once. *)
Theorem C06_set_ops_exact :
  forall (A : Type) (eqb leb : A -> A -> bool) (sortable : list A -> bool),
  (forall x y, eqb x y = true <-> x = y) ->
  forall op k same_dtype objpath a b,
  NoDup a -> (operand_unique k = true -> NoDup b) ->
  let r := snd (M_index_set A eqb leb sortable op k same_dtype objpath a b) in
  NoDup r /\ forall x, In x r <-> set_sem A op a b x.
Proof. exact M_index_set_spec. Qed.
Print Assumptions C06_set_ops_exact.

(* Identical index operands keep their order: union and intersection ARE the left operand (difference
   is empty), whichever shortcut fires (equal or different dtypes). *)
Theorem C06_identical_operands_keep_order :
  forall (A : Type) (eqb leb : A -> A -> bool) (sortable : list A -> bool),
  (forall x y, eqb x y = true <-> x = y) ->
  forall op same_dtype objpath a,
  M_index_set A eqb leb sortable op OperandIndex same_dtype objpath a a =
  (true, match op with OpDiff => [] | _ => a end).
Proof. exact M_index_set_identical. Qed.
Print Assumptions C06_identical_operands_keep_order.

(* util.ufunc_set_iter over any number of repetition-free arrays is the n-ary union / intersection. *)
Theorem C06_set_iter_exact :
  forall (A : Type) (eqb leb : A -> A -> bool) (sortable : list A -> bool),
  (forall x y, eqb x y = true <-> x = y) ->
  forall union objpath rest acc,
  NoDup acc -> Forall (@NoDup A) rest ->
  let r := M_set_iter A eqb leb sortable union true objpath acc rest in
  NoDup r /\ forall x, In x r <->
    if union then In x acc \/ Exists (In x) rest else In x acc /\ Forall (In x) rest.
Proof. exact M_set_iter_spec. Qed.
Print Assumptions C06_set_iter_exact.

(* Re-indexing through IndexCorrespondence (common labels by intersect1d in any order, is_subset /
   has_common decision, positions, fancy take / fancy assignment into full(fill)) is a label lookup:
   at every destination label the source's value (coerced exactly when some destination label is
   missing from the source), else the fill value. *)
Theorem C06_reindex_is_label_lookup :
  forall (A V : Type) (eqb leb : A -> A -> bool) (sortable : list A -> bool),
  (forall x y, eqb x y = true <-> x = y) ->
  forall check_equals objpath src (vals : list V) dst fill cast,
  NoDup src -> NoDup dst -> length vals = length src ->
  exists r, M_series_reindex A V eqb leb sortable check_equals objpath src vals dst fill cast = Some r /\
            length r = length dst /\
            forall l, In l dst ->
              get A V eqb dst r l =
              Some (match get A V eqb src vals l with
                    | Some v => if covers A eqb src dst then v else cast v
                    | None => fill
                    end).
Proof. exact reindex_label_lookup. Qed.
Print Assumptions C06_reindex_is_label_lookup.

(* Series op Series pairs values by label, never by position: the result carries the union of the labels
   (each once; the left order when the indices are equal) and holds at every label the operator applied to
   what each side holds at that label -- its value or the missing marker. *)
Theorem C06_binop_aligned :
  forall (A V : Type) (eqb leb : A -> A -> bool) (sortable : list A -> bool),
  (forall x y, eqb x y = true <-> x = y) ->
  forall (R : Type) (f : V -> V -> R) same_dtype objpath na ca cb ia (va : list V) ib vb,
  NoDup ia -> NoDup ib -> length va = length ia -> length vb = length ib ->
  exists idx,
    M_series_binop A V eqb leb sortable R f same_dtype objpath na ca cb ia va ib vb =
      Some (idx, map (S_binop_at A V eqb R f na ca cb ia va ib vb) idx) /\
    NoDup idx /\ (forall l, In l idx <-> In l ia \/ In l ib) /\ (ia = ib -> idx = ia).
Proof. exact M_series_binop_aligned. Qed.
Print Assumptions C06_binop_aligned.

(* ... op(a, b) where both operands have the label ... *)
Theorem C06_binop_value_where_both :
  forall (A V : Type) (eqb : A -> A -> bool) (R : Type) (f : V -> V -> R) na ca cb ia (va : list V) ib vb l x y,
  get A V eqb ia va l = Some x -> get A V eqb ib vb l = Some y ->
  let u := S_set A eqb OpUnion ia ib in
  S_binop_at A V eqb R f na ca cb ia va ib vb l =
  f (if covers A eqb ia u then x else ca x) (if covers A eqb ib u then y else cb y).
Proof. exact S_binop_both. Qed.
Print Assumptions C06_binop_value_where_both.

(* ... and the missing marker elsewhere, for every operator that propagates it (the arithmetic ones;
   Refuted/C06.v shows comparison and logical operators do not). *)
Theorem C06_binop_missing_elsewhere :
  forall (A V : Type) (eqb : A -> A -> bool),
  (forall x y, eqb x y = true <-> x = y) ->
  forall (R : Type) (f : V -> V -> R) na nar ca cb ia (va : list V) ib vb l,
  (forall y, f na y = nar) -> (forall x, f x na = nar) ->
  ~ (In l ia /\ In l ib) ->
  length va = length ia -> length vb = length ib ->
  S_binop_at A V eqb R f na ca cb ia va ib vb l = nar.
Proof. exact S_binop_missing. Qed.
Print Assumptions C06_binop_missing_elsewhere.

(* Re-ordering the labels of either operand (values moving with their labels) leaves the label set and the
   label -> value map of the result unchanged. *)
Theorem C06_binop_permutation_invariant :
  forall (A V : Type) (eqb leb : A -> A -> bool) (sortable : list A -> bool),
  (forall x y, eqb x y = true <-> x = y) ->
  forall (R : Type) (f : V -> V -> R) sd sd' op op' na ca cb
    ia (va : list V) ib vb ia' va' ib' vb' idx rs idx' rs',
  NoDup ia -> NoDup ib ->
  length va = length ia -> length vb = length ib -> length va' = length ia' -> length vb' = length ib' ->
  Permutation (combine ia va) (combine ia' va') ->
  Permutation (combine ib vb) (combine ib' vb') ->
  M_series_binop A V eqb leb sortable R f sd op na ca cb ia va ib vb = Some (idx, rs) ->
  M_series_binop A V eqb leb sortable R f sd' op' na ca cb ia' va' ib' vb' = Some (idx', rs') ->
  (forall l, In l idx <-> In l idx') /\
  (forall l, get A R eqb idx rs l = get A R eqb idx' rs' l).
Proof. exact M_series_binop_perm_invariant. Qed.
Print Assumptions C06_binop_permutation_invariant.

(* TypeBlocks.resize_blocks (Frame.reindex, hence the alignment of every Frame operator) does not depend on
   the block layout: for EVERY partition of the columns into 1-D / 2-D blocks, any cell type, fill value
   and coercion, the re-indexed blocks flatten to a function of the flattened columns alone.
   (Unconditional since fix 658b4ce; before it the both-axes branch with exactly one axis without a common
   label decided between IndexError, ValueError, TypeError and a positional copy depending on the layout.) *)
Theorem C06_resize_blocks_layout_independent :
  forall (V : Type) (fill : V) (castf : dtype -> V -> V) (fdt : dtype -> dtype) (fill_dtype : dtype)
         (t : list (blk V)) nrows ic cc,
  Forall (wf_blk V) t ->
  match cc with
  | Some c => wf_ic c /\ Forall (fun s => (s < length (flatten V t))%nat) (ic_src c)
  | None => True
  end ->
  exists t', M_resize_blocks V fill castf fdt fill_dtype t nrows ic cc = Ok t' /\
             flatten V t' = S_resize_cols V fill castf fdt fill_dtype (flatten V t) nrows ic cc.
Proof. exact resize_blocks_layout_independent. Qed.
Print Assumptions C06_resize_blocks_layout_independent.

(* Frame.reindex -- the alignment step of every Frame operator -- composed end to end: labels ->
   IndexCorrespondence on each axis (common labels by intersect1d in any order, through every shortcut) ->
   resize_blocks over ANY block layout.  The flattened result is the (row label, column label) lookup of
   the specification: kept columns hold, per destination row label, the source's cell or the fill value;
   absent columns are fill columns. *)
Theorem C06_frame_reindex_every_layout_is_label_lookup :
  forall (A V : Type) (eqb leb : A -> A -> bool) (sortable : list A -> bool),
  (forall x y, eqb x y = true <-> x = y) ->
  forall (fill : V) (castf : dtype -> V -> V) (fdt : dtype -> dtype) (fill_dtype : dtype)
         objpath_i objpath_c index columns (t : list (blk V)) new_index new_columns,
  Forall (wf_blk V) t -> NoDup index -> NoDup columns ->
  (forall d, new_index = Some d -> NoDup d) -> (forall d, new_columns = Some d -> NoDup d) ->
  length (flatten V t) = length columns ->
  Forall (fun c : col V => length (snd c) = length index) (flatten V t) ->
  exists t', M_frame_reindex_g A V eqb leb sortable fill castf fdt fill_dtype objpath_i objpath_c
               index columns t new_index new_columns = Ok t' /\
             flatten V t' = S_frame_reindex A V eqb fill castf fdt fill_dtype index columns (flatten V t)
                              new_index new_columns.
Proof. exact frame_reindex_label_spec. Qed.
Print Assumptions C06_frame_reindex_every_layout_is_label_lookup.

(* TypeBlocks._ufunc_binary_operator between two aligned TypeBlocks does not depend on either block
   layout: the block_compatible path, the reblock (consolidation) path and the column-wise path (since fix
   e1c1c73) all equal the operator applied column by column, cell by cell, to the flattened operands. *)
Theorem C06_tb_binop_layout_independent :
  forall (V R : Type) (f : V -> V -> R) (a b : list (blk V)),
  length (columns_of V a) = length (columns_of V b) ->
  M_tb_binop_g V R f a b = Ok (S_tb_binop V R f a b).
Proof. exact tb_binop_layout_independent. Qed.
Print Assumptions C06_tb_binop_layout_independent.

(* ... and with a 1-D or scalar operand on either axis (Frame with Series / array / scalar): chopping the
   operand to the block widths (axis 0), or applying it to every column of every block (axis 1), equals the
   per-column application on the flattened columns, for every layout. *)
Theorem C06_tb_rowwise_layout_independent :
  forall (V R : Type) (f : V -> V -> R) (t : list (blk V)) (other : list V),
  M_tb_rowwise_g V R f t other = S_tb_rowwise V R f t other.
Proof. exact tb_rowwise_layout_independent. Qed.
Print Assumptions C06_tb_rowwise_layout_independent.

Theorem C06_tb_colwise_layout_independent :
  forall (V R : Type) (f : V -> V -> R) (t : list (blk V)) (other : list V),
  M_tb_colwise_g V R f t other = S_tb_colwise V R f t other.
Proof. exact tb_colwise_layout_independent. Qed.
Print Assumptions C06_tb_colwise_layout_independent.

(* The keyword constants of the source (REGENERATED into Gen/Gen_c06.v on every run: check_equals=False and
   union in Series._ufunc_binary_operator, union x4 in Frame._ufunc_binary_operator, fill_value=np.nan,
   assume_unique per operand kind in Index._ufunc_set, assume_unique=True in from_correspondence) are the
   ones the models above are written with. *)
Theorem C06_models_use_source_constants : source_constants_as_modelled.
Proof. exact source_constants_ok. Qed.
Print Assumptions C06_models_use_source_constants.
