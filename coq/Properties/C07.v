(* C07 -- property theorems only; each closed by `exact` and followed by Print Assumptions. *)
Require Import SF.Prelude SF.PySlice SF.Dtype SF.PyDyn Gen.Gen_util Gen.Gen_c07 SF.Coerce SF.CoerceDyn.
Require Import Proofs.CoerceRefine Proofs.CoerceHolds Proofs.CoercePlans Proofs.CoerceMain Proofs.CoerceBloc Proofs.CoerceOps.

(* util.resolve_dtype AS REGENERATED FROM THE SOURCE returns, for every pair of dtypes outside the explicit
   lossy pairs, a dtype whose value domain contains every value of either argument: unbounded string widths,
   every integer, every binary float, every datetime64/timedelta64 unit (a time value only under the
   side condition that its count in the finer unit does not overflow int64). *)
Theorem C07_resolve_dtype_no_loss : forall d1 d2 v,
  wf_dtype d1 = true -> wf_dtype d2 = true -> lossy_pair d1 d2 = false ->
  holds d1 v = true \/ holds d2 v = true ->
  exists r, resolve_dtype (PDtype d1) (PDtype d2) = PDtype r /\
            (time_fits r v = true -> holds r v = true).
Proof. exact gen_resolve_no_loss. Qed.
Print Assumptions C07_resolve_dtype_no_loss.

(* the call sites pass the two dtypes in either order: the regenerated kernel does not care *)
Theorem C07_resolve_dtype_comm : forall d1 d2,
  resolve_dtype (PDtype d1) (PDtype d2) = resolve_dtype (PDtype d2) (PDtype d1).
Proof. exact gen_resolve_comm. Qed.
Print Assumptions C07_resolve_dtype_comm.

(* n arrays / n blocks: the loop of util.resolve_dtype_iter (with its early return at object) and the loop of
   util.concat_resolved (with its `!= object` test and flipped arguments) both compute the left fold of the
   regenerated kernel, and that dtype holds every value of every participant -- for every number of
   participants, every order. *)
Theorem C07_nary_no_loss : forall ds acc v,
  wf_dtype acc = true -> Forall (fun d => wf_dtype d = true) ds ->
  fold_ok acc ds = true -> fold_fits acc ds v = true ->
  holds acc v = true \/ Exists (fun d => holds d v = true) ds ->
  resolve_iter_loop acc ds = fold_left gen_resolve ds acc /\
  concat_loop acc ds = fold_left gen_resolve ds acc /\
  holds (fold_left gen_resolve ds acc) v = true.
Proof. exact nary_no_loss. Qed.
Print Assumptions C07_nary_no_loss.

(* util.dtype_from_element picks a dtype that holds the element (big Python ints go to uint64, then object) *)
Theorem C07_dtype_from_element_holds : forall e, wf_elem e = true ->
  holds (elem_dtype e) (elem_val e) = true /\ wf_dtype (elem_dtype e) = true.
Proof. exact elem_dtype_holds. Qed.
Print Assumptions C07_dtype_from_element_holds.

(* one element meets a column (full_for_fill, assignment, fillna, shift, reindex): every cell of the column and the
   element survive in the dtype resolve_dtype(column dtype, dtype_from_element(element)) *)
Theorem C07_fill_no_loss : forall d e,
  wf_dtype d = true -> wf_elem e = true -> lossy_pair d (elem_dtype e) = false ->
  let dr := resolve d (elem_dtype e) in
  (forall v, holds d v = true -> time_fits dr v = true -> to_object_ok d v = true -> survives dr (FromArr d v) = true) /\
  (time_fits dr (elem_val e) = true -> survives dr (FromElem e) = true).
Proof. exact fill_no_loss. Qed.
Print Assumptions C07_fill_no_loss.

(* the flag loop of util.prepare_iter_for_array (with its break) decides object exactly for: a tuple/list, a str next
   to a non-str, a big Python int next to a Python float/complex; then every element is kept as it is *)
Theorem C07_iter_flags_spec : forall es, f_obj (iter_flags es) = iter_object_spec es.
Proof. exact iter_flags_spec. Qed.
Print Assumptions C07_iter_flags_spec.

Theorem C07_iter_object_no_loss : forall es cells,
  iter_object_spec es = true ->
  exists dr, plan_dtype (PIter es) = Ok dr /\ forall e, In (FromElem e) cells -> survives dr (FromElem e) = true.
Proof. exact iter_object_no_loss. Qed.
Print Assumptions C07_iter_object_no_loss.

(* the `resolved = object` condition and the big-int threshold READ FROM THE SOURCE are the model's, and an int
   below the threshold is exact in float64 *)
Theorem C07_iter_object_cond_source : forall t s n i b,
  gen_iter_object_cond t false s n i b = t || (s && n) || (b && i).
Proof. exact gen_iter_object_cond_eq. Qed.
Print Assumptions C07_iter_object_cond_source.

Theorem C07_big_int_threshold_exact : forall z,
  INT_MAX_COERCIBLE_TO_FLOAT = GEN_INT_MAX_COERCIBLE_TO_FLOAT /\
  (Z.abs z <= GEN_INT_MAX_COERCIBLE_TO_FLOAT -> holds (DFlt 8) (XInt z) = true).
Proof. exact gen_threshold_exact. Qed.
Print Assumptions C07_big_int_threshold_exact.

(* util.dtype_to_fill_value (regenerated): the dummy fill value belongs to the dtype it is computed for *)
Theorem C07_fill_value_held : forall d, wf_dtype d = true -> (forall n, d <> DBytes n) ->
  exists e, decode_elem (dtype_to_fill_value (PDtype d)) = Some e /\ holds d (elem_val e) = true.
Proof. exact gen_fill_value_held. Qed.
Print Assumptions C07_fill_value_held.

(* an observation accepted by the implementation model M satisfies the specification S whenever the plan's dtype
   keeps the supplied cells (which the theorems above establish under their guards) *)
Theorem C07_model_sound : forall p cells od obs dr,
  plan_dtype p = Ok dr -> (forall s, In s cells -> survives dr s = true) ->
  M_check p cells od obs = true -> S_cells cells obs = true /\ od = dr.
Proof. exact model_sound. Qed.
Print Assumptions C07_model_sound.

(* element assignment by Boolean targets (assign.bloc, fillna): for EVERY block layout in which no block mixes
   targeted and untargeted columns the block-by-block algorithm gives each column the dtype the per-column
   specification demands (untargeted columns keep theirs) *)
Theorem C07_bloc_untouched_dtype : forall blocks hits vd,
  length hits = total_width blocks -> bloc_uniform blocks hits vd = true ->
  M_bloc blocks hits vd = S_bloc (expand_blocks blocks) hits vd.
Proof. exact bloc_refines. Qed.
Print Assumptions C07_bloc_untouched_dtype.

(* OPERATION level, every arrangement and every number of cells: an observation that M accepts for "one element e
   meets a column of dtype d" (reindex / shift / assign / insert with full_for_fill; fillna / IndexGO.append with the
   arguments flipped) stores every kept cell of the column and the element unchanged, in the dtype
   resolve(d, dtype_from_element e) *)
Theorem C07_fill_operation_lossless : forall d e cells od obs,
  wf_dtype d = true -> wf_elem e = true -> lossy_pair d (elem_dtype e) = false ->
  (forall s, In s cells -> fill_cell_ok d e (resolve d (elem_dtype e)) s) ->
  M_check (PFill d e) cells od obs = true ->
  S_cells cells obs = true /\ od = resolve d (elem_dtype e).
Proof. exact fill_operation_lossless. Qed.
Print Assumptions C07_fill_operation_lossless.

Theorem C07_fillr_operation_lossless : forall d e cells od obs,
  wf_dtype d = true -> wf_elem e = true -> lossy_pair d (elem_dtype e) = false ->
  (forall s, In s cells -> fill_cell_ok d e (resolve d (elem_dtype e)) s) ->
  M_check (PFillR d e) cells od obs = true ->
  S_cells cells obs = true /\ od = resolve d (elem_dtype e).
Proof. exact fillr_operation_lossless. Qed.
Print Assumptions C07_fillr_operation_lossless.

(* concatenation of any number of arrays (util.concat_resolved) and consolidation of a row over any number of
   blocks (util.resolve_dtype_iter): every cell of every participant is stored unchanged *)
Theorem C07_concat_operation_lossless : forall d ds cells od obs,
  wf_dtype d = true -> Forall (fun x => wf_dtype x = true) ds -> fold_ok d ds = true ->
  (forall s, In s cells -> merge_cell_ok d ds s) ->
  M_check (PConcat d ds) cells od obs = true ->
  S_cells cells obs = true /\ od = resolve_all d ds.
Proof. exact concat_operation_lossless. Qed.
Print Assumptions C07_concat_operation_lossless.

Theorem C07_row_operation_lossless : forall d ds cells od obs,
  wf_dtype d = true -> Forall (fun x => wf_dtype x = true) ds -> fold_ok d ds = true ->
  (forall s, In s cells -> merge_cell_ok d ds s) ->
  M_check (PIterDt d ds) cells od obs = true ->
  S_cells cells obs = true /\ od = resolve_all d ds.
Proof. exact row_operation_lossless. Qed.
Print Assumptions C07_row_operation_lossless.

(* a FrameGO grown block by block (setitem / extend / extend_items, TypeBlocks.append): the cached row dtype is the
   blocks' dtype when they all agree and object otherwise, so consolidating a row (values, iter_array, transpose ...)
   keeps every cell -- for every number and order of appended blocks *)
Theorem C07_grown_row_no_loss : forall d ds d' v,
  In d' (d :: ds) -> holds d' v = true -> to_object_ok d' v = true ->
  survives (grown_loop d ds) (FromArr d' v) = true.
Proof. exact grown_row_no_loss. Qed.
Print Assumptions C07_grown_row_no_loss.

(* TypeBlocks.append's update of the cached row dtype, READ FROM THE SOURCE AST on every run, is the step the model
   folds in C07_grown_row_no_loss *)
Theorem C07_grown_step_source : forall acc d, gen_grown_step acc d = grown_step acc d.
Proof. exact gen_grown_step_eq. Qed.
Print Assumptions C07_grown_step_source.
