(* C07 -- property theorems only; each closed by `exact` and followed by Print Assumptions. *)
Require Import SF.Prelude SF.PySlice SF.Dtype SF.PyDyn Gen.Gen_util SF.Coerce.
Require Import Proofs.CoerceRefine Proofs.CoerceHolds Proofs.CoerceMain.

(* util.resolve_dtype AS REGENERATED FROM THE SOURCE returns, for every pair of dtypes outside the explicit
   lossy pairs, a dtype whose value domain contains every value of either argument: unbounded string widths,
   every integer, every binary float, every datetime64/timedelta64 unit (a time value only under the
   side condition that its count in the finer unit does not overflow int64). *)
Theorem C07_resolve_dtype_no_loss : forall d1 d2 v,
  wf_dtype d1 = true -> wf_dtype d2 = true -> lossy_pair d1 d2 = false ->
  holds d1 v = true \/ holds d2 v = true ->
  exists r, resolve_dtype (PDtype d1) (PDtype d2) = PDtype r /\
            (time_fits r v = true -> holds r v = true).
Proof. exact gen_resolve_no_loss. Qed.
Print Assumptions C07_resolve_dtype_no_loss.
