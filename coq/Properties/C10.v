(* C10 -- property theorems only; each closed by `exact` and followed by Print Assumptions.
   S_* = specification, M_* = implementation model (SF/Equal.v); c10_* = constants re-extracted
   from the source on every run (Gen/Gen_c10.v). *)
Require Import SF.Prelude SF.Dtype SF.Value SF.Equal Gen.Gen_c10.
Require Import Proofs.EqualSpec Proofs.EqualRefine Proofs.EqualBlocks Proofs.EqualHE Proofs.EqualFuel.

(* equals is symmetric: every kind of container, every option setting *)
Theorem C10_equals_sym : forall o,
  (forall a b, S_index_equals o a b = S_index_equals o b a) /\
  (forall a b, S_hier_equals o a b = S_hier_equals o b a) /\
  (forall a b, S_series_equals o a b = S_series_equals o b a) /\
  (forall a b, S_tb_equals o a b = S_tb_equals o b a) /\
  (forall a b, S_frame_equals o a b = S_frame_equals o b a) /\
  (forall a b, S_bus_equals o a b = S_bus_equals o b a).
Proof.
  exact (fun o => conj (S_index_equals_sym o) (conj (S_hier_equals_sym o) (conj (S_series_equals_sym o)
        (conj (fun a b => f_equal2 orb (Z.eqb_sym (tb_oid a) (tb_oid b)) (S_tb_content_sym o a b))
        (conj (S_frame_equals_sym o) (S_bus_equals_sym o)))))).
Qed.
Print Assumptions C10_equals_sym.

(* equals is transitive on contents: every kind, every option setting *)
Theorem C10_equals_trans : forall o,
  (forall a b c, S_index_content o a b = true -> S_index_content o b c = true -> S_index_content o a c = true) /\
  (forall a b c, S_hier_content o a b = true -> S_hier_content o b c = true -> S_hier_content o a c = true) /\
  (forall a b c, S_series_content o a b = true -> S_series_content o b c = true -> S_series_content o a c = true) /\
  (forall a b c, S_tb_content o a b = true -> S_tb_content o b c = true -> S_tb_content o a c = true) /\
  (forall a b c, S_frame_content o a b = true -> S_frame_content o b c = true -> S_frame_content o a c = true) /\
  (forall a b c, S_bus_content o a b = true -> S_bus_content o b c = true -> S_bus_content o a c = true).
Proof.
  exact (fun o => conj (S_index_content_trans o) (conj (S_hier_content_trans o) (conj (S_series_content_trans o)
        (conj (S_tb_content_trans o) (conj (S_frame_content_trans o) (S_bus_content_trans o)))))).
Qed.
Print Assumptions C10_equals_trans.

(* reflexive: with skipna on contents (NaN cells included); always on the same object *)
Theorem C10_frame_equals_refl : forall o a,
  o_skipna o = true -> name_ok (ef_name a) = true ->
  flat_axis_ok (ef_index a) = true -> flat_axis_ok (ef_columns a) = true -> S_frame_content o a a = true.
Proof. exact S_frame_content_refl. Qed.
Print Assumptions C10_frame_equals_refl.

Theorem C10_series_equals_refl : forall o a,
  o_skipna o = true -> name_ok (es_name a) = true -> flat_axis_ok (es_index a) = true -> S_series_content o a a = true.
Proof. exact S_series_content_refl. Qed.
Print Assumptions C10_series_equals_refl.

Theorem C10_equals_same_object : forall o,
  (forall a, S_index_equals o a a = true) /\ (forall a, S_hier_equals o a a = true) /\
  (forall a, S_series_equals o a a = true) /\ (forall a, S_tb_equals o a a = true) /\
  (forall a, S_frame_equals o a a = true) /\ (forall a, S_bus_equals o a a = true).
Proof. exact S_equals_same_object. Qed.
Print Assumptions C10_equals_same_object.

(* with the default options: exactly same shape, same labels in order, cells pairwise equal
   (two NaN/NaT at one position equal iff skipna) *)
Theorem C10_frame_default_exactly : forall sk a b,
  S_frame_content (mk_eopts false false false sk) a b = true <->
  tb_rows (ef_blocks a) = tb_rows (ef_blocks b) /\
  length (tb_cols (ef_blocks a)) = length (tb_cols (ef_blocks b)) /\
  list_eqb (col_eq sk) (tb_cols (ef_blocks a)) (tb_cols (ef_blocks b)) = true /\
  S_axis_content (mk_eopts false false false sk) (ef_index a) (ef_index b) = true /\
  S_axis_content (mk_eopts false false false sk) (ef_columns a) (ef_columns b) = true.
Proof. exact frame_default_exactly. Qed.
Print Assumptions C10_frame_default_exactly.

(* ... and those are the defaults of the source, for every kind *)
Theorem C10_defaults_in_source :
  c10_default_frame = mk_eopts false false false true /\ c10_default_series = mk_eopts false false false true /\
  c10_default_index = mk_eopts false false false true /\ c10_default_hier = mk_eopts false false false true /\
  c10_default_bus = mk_eopts false false false true /\ c10_default_tb = mk_eopts false false false true.
Proof. exact (conj eq_refl (conj eq_refl (conj eq_refl (conj eq_refl (conj eq_refl eq_refl))))). Qed.
Print Assumptions C10_defaults_in_source.

(* compare_name / compare_dtype / compare_class each add exactly their clause *)
Theorem C10_frame_options_add_exactly : forall o a b,
  S_frame_content o a b =
  S_frame_content (base_opts o) a b &&
  opt_req (o_name o) (frame_names_eq a b) && opt_req (o_dtype o) (frame_dtypes_eq a b) &&
  opt_req (o_class o) (frame_classes_eq a b).
Proof. exact frame_options_add_exactly. Qed.
Print Assumptions C10_frame_options_add_exactly.

Theorem C10_series_options_add_exactly : forall o a b,
  S_series_content o a b =
  S_series_content (base_opts o) a b &&
  opt_req (o_name o) (series_names_eq a b) && opt_req (o_dtype o) (series_dtypes_eq a b) &&
  opt_req (o_class o) (series_classes_eq a b).
Proof. exact series_options_add_exactly. Qed.
Print Assumptions C10_series_options_add_exactly.

(* the source combines the mask of self with the mask of other, without None, in TypeBlocks/Series/Index.equals,
   and TypeBlocks.equals answers two column-less tables before it builds == (re-extracted on every run) *)
Theorem C10_masks_in_source :
  c10_cfg_tb = mcfg_correct /\ c10_cfg_series = mcfg_correct /\ c10_cfg_index = mcfg_correct.
Proof. exact (conj eq_refl (conj eq_refl eq_refl)). Qed.
Print Assumptions C10_masks_in_source.

(* MAIN: TypeBlocks.equals AS THE SOURCE HAS IT NOW computes the specification for every pair of block layouts,
   any number of columns (none included), any placement of NaN/NaT/None -- three operand paths, mask, block walk.
   Hypotheses: the tables are rectangular (tb_wf) and no datetime64 column holding NaT faces an object column
   (nat_dom, layout-free: NumPy rewrites that NaT to None, so NaT "equals" None there -- a pair of different
   missing values, which the property does not determine). *)
Theorem C10_tb_refines : forall o a b,
  tb_wf a && tb_wf b && nat_dom a b = true ->
  M_tb_equals c10_cfg_tb o a b = Ok (S_tb_equals o a b).
Proof.
  exact (fun o a b H => tb_refines mcfg_correct o a b
    (match andb_prop _ _ H with conj H1 H2 =>
       andb_true_intro (conj (andb_true_intro (conj (andb_true_intro (conj H1 eq_refl))
         (mask_dom_correct (o_skipna o) (tb_vals a) (tb_vals b)))) H2) end)).
Qed.
Print Assumptions C10_tb_refines.

(* hence TypeBlocks.equals of the source is symmetric *)
Theorem C10_tb_equals_impl_sym : forall o a b,
  tb_wf a && tb_wf b && nat_dom a b = true -> tb_wf b && tb_wf a && nat_dom b a = true ->
  M_tb_equals c10_cfg_tb o a b = M_tb_equals c10_cfg_tb o b a.
Proof. exact tb_impl_sym. Qed.
Print Assumptions C10_tb_equals_impl_sym.

(* for ANY mask configuration the model equals S under tb_dom (whose mask clause says: the mask built marks exactly
   the positions where both sides are missing) *)
Theorem C10_tb_refines_any_mask : forall c o a b,
  tb_dom c o a b = true -> M_tb_equals c o a b = Ok (S_tb_equals o a b).
Proof. exact tb_refines. Qed.
Print Assumptions C10_tb_refines_any_mask.

(* the answer of the source's TypeBlocks.equals depends on the columns only, not on the block layout of either operand *)
Theorem C10_tb_layout_independent : forall o a b a' b',
  tb_wf a && tb_wf b && tb_wf a' && tb_wf b' = true -> nat_dom a b = true ->
  tb_cols a = tb_cols a' -> tb_cols b = tb_cols b' -> tb_rows a = tb_rows a' -> tb_rows b = tb_rows b' ->
  (tb_oid a =? tb_oid b) = (tb_oid a' =? tb_oid b') ->
  M_tb_equals c10_cfg_tb o a b = M_tb_equals c10_cfg_tb o a' b'.
Proof. exact tb_layout_independent_correct. Qed.
Print Assumptions C10_tb_layout_independent.

Theorem C10_frame_refines : forall o a b,
  frame_dom c10_cfgs o a b = true -> M_frame_equals c10_cfgs o a b = Ok (S_frame_equals o a b).
Proof. exact (frame_refines c10_cfgs). Qed.
Print Assumptions C10_frame_refines.

Theorem C10_bus_refines : forall o a b,
  bus_dom c10_cfgs o a b = true -> M_bus_equals c10_cfgs o a b = Ok (S_bus_equals o a b).
Proof. exact (bus_refines c10_cfgs). Qed.
Print Assumptions C10_bus_refines.

(* Series.equals / Index.equals: their mask guard is void (C10_masks_in_source); what remains is the NaT->None
   rewriting of NumPy *)
Theorem C10_index_refines : forall o a b,
  col_inert (okind_of (ei_dtype a), ei_labels a) (okind_of (ei_dtype b), ei_labels b) = true ->
  M_index_equals c10_cfgs o a b = S_index_equals o a b.
Proof.
  exact (fun o a b H => index_refines c10_cfgs o a b
    (andb_true_intro (conj (mask_dom_correct (o_skipna o) [ei_labels a] [ei_labels b]) H))).
Qed.
Print Assumptions C10_index_refines.

Theorem C10_series_refines : forall o a b ia ib,
  es_index a = AFlat ia -> es_index b = AFlat ib -> series_dom c10_cfgs o a b = true ->
  M_series_equals c10_cfgs o a b = Ok (S_series_equals o a b).
Proof. exact (series_refines c10_cfgs). Qed.
Print Assumptions C10_series_refines.

(* IndexHierarchy.equals of the source decides by identity, class, shape, name and then the walk over the levels
   (M_hier_equals); it never consults the cached label table, whose freshness depends on what was read before
   (re-extracted on every run: a fast path added there breaks this theorem) *)
Theorem C10_hier_equals_walks_levels :
  c10_hier_reads_cached_table = false /\
  c10_hier_equals_steps =
    ["if id(other) == id(self)";
     "if compare_class and self.__class__ != other.__class__ | elif not isinstance(other, IndexHierarchy)";
     "if self.shape != other.shape";
     "if compare_name and self.name != other.name";
     "return self._levels.equals(other._levels, compare_name, compare_dtype, compare_class, skipna)"]%string.
Proof. exact (conj eq_refl eq_refl). Qed.
Print Assumptions C10_hier_equals_walks_levels.

(* Index / Series / Frame.equals of the source decide by identity, class, length/shape, name, dtype, values and then
   the nested indexes with the SAME options; no equals method looks at how an index came about (auto-supplied indexes:
   no label map / loc_is_iloc / IndexAutoFactory), so M_index_equals & co., which know nothing of it, describe them
   (re-extracted on every run: a shortcut for auto-supplied indexes breaks this theorem) *)
Theorem C10_equals_decisions_in_source :
  c10_equals_consults_auto = false /\
  c10_index_equals_steps =
    ["if id(other) == id(self)";
     "if compare_class and self.__class__ != other.__class__ | elif not isinstance(other, Index)";
     "if self._recache";
     "if len(self) != len(other)";
     "if compare_name and self.name != other.name";
     "if compare_dtype and self.dtype != other.dtype";
     "Assign: eq = self.values == other.values";
     "if eq is False";
     "if skipna";
     "if not eq.all()";
     "return True"]%string /\
  c10_series_equals_steps =
    ["if id(other) == id(self)";
     "if compare_class and self.__class__ != other.__class__ | elif not isinstance(other, Series)";
     "if len(self.values) != len(other.values)";
     "if compare_name and self._name != other._name";
     "if compare_dtype and self.values.dtype != other.values.dtype";
     "Assign: eq = self.values == other.values";
     "if eq is False";
     "if skipna";
     "if not eq.all()";
     "return self._index.equals(other._index, compare_name, compare_dtype, compare_class, skipna)"]%string /\
  c10_frame_equals_steps =
    ["if id(other) == id(self)";
     "if compare_class and self.__class__ != other.__class__ | elif not isinstance(other, Frame)";
     "if self._blocks.shape != other._blocks.shape";
     "if compare_name and self._name != other._name";
     "if not self._blocks.equals(other._blocks, compare_dtype=compare_dtype, compare_class=compare_class, skipna=skipna)";
     "if not self._index.equals(other._index, compare_name=compare_name, compare_dtype=compare_dtype, compare_class=compare_class, skipna=skipna)";
     "if not self._columns.equals(other._columns, compare_name=compare_name, compare_dtype=compare_dtype, compare_class=compare_class, skipna=skipna)";
     "return True"]%string.
Proof. exact (conj eq_refl (conj eq_refl (conj eq_refl eq_refl))). Qed.
Print Assumptions C10_equals_decisions_in_source.

(* Bus.equals and IndexLevel.equals of the source: their top-level decisions in order, the body of the walk loop included
   (M_bus_equals, M_level_equals / M_level_walk follow them; re-extracted on every run) *)
Theorem C10_bus_level_decisions_in_source :
  c10_bus_equals_steps =
    ["if id(other) == id(self)";
     "if compare_class and self.__class__ != other.__class__ | elif not isinstance(other, Bus)";
     "if len(self._series) != len(other._series)";
     "if compare_name and self._series._name != other._series._name";
     "if not self._series.index.equals(other._series.index, compare_name=compare_name, compare_dtype=compare_dtype, compare_class=compare_class, skipna=skipna)";
     "for ((_, frame_self), (_, frame_other)) in zip(self.items(), other.items()): if not frame_self.equals(frame_other, compare_name=compare_name, compare_dtype=compare_dtype, compare_class=compare_class, skipna=skipna)";
     "return True"]%string /\
  c10_level_equals_steps =
    ["if id(other) == id(self)";
     "if compare_class and self.__class__ != other.__class__ | elif not isinstance(other, IndexLevel)";
     "if self.__len__() != other.__len__()";
     "if self.depth != other.depth";
     "Assign: kwargs = dict(compare_name=compare_name, compare_dtype=compare_dtype, compare_class=compare_class, skipna=skipna)";
     "if (self.targets is None or len(self.targets) == 0) and (other.targets is None or len(other.targets) == 0)";
     "Assign: equal_pairs = set()";
     "Assign: levels_self = [self]";
     "Assign: levels_other = [other]";
     "while levels_self and levels_other: level_self = levels_self.pop() ; level_other = levels_other.pop() ; pair = (id(level_self.index), id(level_other.index)) ; pair_found = pair in equal_pairs ; if not pair_found and (not level_self.index.equals(level_other.index, **kwargs)) ; if not pair_found ; if level_self.targets is not None and level_other.targets is not None ; if level_self.targets is None and level_other.targets is None ; if level_self.targets is None or level_other.targets is None";
     "if not levels_self and (not levels_other)";
     "return False"]%string.
Proof. exact (conj eq_refl eq_refl). Qed.
Print Assumptions C10_bus_level_decisions_in_source.

(* the model of the IndexLevel.equals tree walk recurses on fuel; the fuel it is given always suffices: for every pair of
   trees (any shape, any depth) the model answers a Boolean, never Err "OutOfFuel" *)
Theorem C10_level_walk_fuel_suffices : forall o,
  (forall a b, exists r, M_level_equals c10_cfgs o a b = Ok r) /\
  (forall a b, exists r, M_hier_equals c10_cfgs o a b = Ok r).
Proof. exact (fun o => conj (level_equals_total c10_cfgs o) (hier_equals_total c10_cfgs o)). Qed.
Print Assumptions C10_level_walk_fuel_suffices.

(* HE variants: == is equals with the keyword constants of the source; it is symmetric; equal
   containers hash the same labels; the model of __hash__ hashes exactly that key *)
Theorem C10_he_options_in_source :
  c10_he_frame = mk_eopts true false false true /\ c10_he_series = mk_eopts true false false true.
Proof. exact (conj eq_refl eq_refl). Qed.
Print Assumptions C10_he_options_in_source.

Theorem C10_he_eq_sym :
  (forall a b, S_frame_equals c10_he_frame a b = S_frame_equals c10_he_frame b a) /\
  (forall a b, S_series_equals c10_he_series a b = S_series_equals c10_he_series b a).
Proof. exact (conj (S_frame_equals_sym c10_he_frame) (S_series_equals_sym c10_he_series)). Qed.
Print Assumptions C10_he_eq_sym.

Theorem C10_he_frame_eq_hash : forall a b,
  axis_clean (ef_index a) = true -> axis_clean (ef_columns a) = true ->
  S_frame_content c10_he_frame a b = true -> S_frame_hash_key a = S_frame_hash_key b.
Proof. exact (frame_eq_hash_key c10_he_frame). Qed.
Print Assumptions C10_he_frame_eq_hash.

Theorem C10_he_series_eq_hash : forall a b,
  axis_clean (es_index a) = true -> S_series_content c10_he_series a b = true -> S_series_hash_key a = S_series_hash_key b.
Proof. exact (series_eq_hash_key c10_he_series). Qed.
Print Assumptions C10_he_series_eq_hash.

Theorem C10_he_hash_model_is_key :
  (forall a, c10_hash_values_frame = false \/ ((exists i, ef_index a = AFlat i) /\ (exists c, ef_columns a = AFlat c)) ->
             M_frame_hash_key c10_hash_values_frame a = Ok (S_frame_hash_key a)) /\
  (forall a, c10_hash_values_series = false \/ (exists i, es_index a = AFlat i) ->
             M_series_hash_key c10_hash_values_series a = Ok (S_series_hash_key a)).
Proof. exact (conj (M_hash_is_key_frame c10_hash_values_frame) (M_hash_is_key_series c10_hash_values_series)). Qed.
Print Assumptions C10_he_hash_model_is_key.
