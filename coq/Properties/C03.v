(* C03 -- block manager transparency and structural coherence: property theorems only; each closed by
   `exact` and followed by Print Assumptions.  Models: SF/Blocks.v, SF/BlocksOps.v. *)
Require Import SF.Prelude SF.PySlice SF.Dtype SF.Value SF.PyDyn SF.Blocks SF.BlocksOps SF.BlocksOpsVal Gen.Gen_util Gen.Gen_type_blocks.
Require Import Proofs.BlocksSelect Proofs.BlocksRefine Proofs.BlocksOps Proofs.BlocksOpsRow Proofs.BlocksOpsResolve Proofs.BlocksOpsResolveGen Proofs.BlocksOpsFill Proofs.BlocksOpsClip Proofs.BlocksOpsExamples.

(* Column selection through the blocks (directory, contiguous bundles, per-block slices) equals selection on
   the flattened columns, same error class, for every layout and every duplicate-free key (coordinator's core). *)
Theorem C03_select_columns_layout_independent : forall (A : Type) (t1 t2 : tb A) (k : ckey),
  wf_tb t1 -> wf_tb t2 -> flatten t1 = flatten t2 -> key_nodup k (Z.of_nat (length (flatten t1))) ->
  res_map flatten (M_select_columns t1 k) = res_map flatten (M_select_columns t2 k).
Proof. exact (@select_columns_layout_independent). Qed.
Print Assumptions C03_select_columns_layout_independent.

(* TypeBlocks._cols_to_slice REGENERATED from /repo equals the typed function the selection theorem is about. *)
Theorem C03_cols_to_slice_translated : forall l : list Z, l <> [] ->
  cols_to_slice (of_zlist l) = of_slice (cols_to_slice_t l).
Proof. exact cols_to_slice_refines. Qed.
Print Assumptions C03_cols_to_slice_translated.

(* Every per-block cellwise operation (isna, notna, unary operators, scalar binary operators, astype, isin:
   `for b in blocks: yield g(b)`) equals the per-column operation on the flattened columns -- result
   dtypes, cells and the raised error class -- whatever the layout. *)
Theorem C03_map_blocks_refines : forall (A B : Type) (f : cellfun B) (t : tb A), wf_tb t -> t <> [] ->
  res_map (@flatten B) (M_map_blocks f t) = S_map_columns f (flatten t).
Proof. exact (@map_blocks_refines). Qed.
Print Assumptions C03_map_blocks_refines.

Theorem C03_map_blocks_layout_independent : forall (A B : Type) (f : cellfun B) (t1 t2 : tb A),
  wf_tb t1 -> wf_tb t2 -> flatten t1 = flatten t2 ->
  res_map (@flatten B) (M_map_blocks f t1) = res_map (@flatten B) (M_map_blocks f t2).
Proof. exact (@map_blocks_layout_independent). Qed.
Print Assumptions C03_map_blocks_layout_independent.

(* Reading through the directory _index: column iteration (axis_values(0), both directions), a column by
   (possibly negative) position, one element -- each is `nth` on the flattened columns. *)
Theorem C03_axis_values_refines : forall (A : Type) (t : tb A) (reverse : bool), wf_tb t ->
  M_axis_values0 t reverse = Some (S_axis_values0 (flatten t) reverse).
Proof. exact (@axis_values0_refines). Qed.
Print Assumptions C03_axis_values_refines.

Theorem C03_column_refines : forall (A : Type) (t : tb A) (j : Z), wf_tb t ->
  M_column t j = S_column (flatten t) j.
Proof. exact (@column_refines). Qed.
Print Assumptions C03_column_refines.

Theorem C03_element_refines : forall (A : Type) (t : tb A) (i j : Z), wf_tb t ->
  M_element t i j = S_element (flatten t) i j.
Proof. exact (@element_refines). Qed.
Print Assumptions C03_element_refines.

(* Consolidation does not change the external view; its blocks are exactly the maximal runs of equal
   dtype of the column list (a canonical form: it depends on the columns only, not on the input layout). *)
Theorem C03_consolidate_flatten : forall (A : Type) (t : tb A), flatten (consolidate_blocks t) = flatten t.
Proof. exact (@consolidate_flatten). Qed.
Print Assumptions C03_consolidate_flatten.

Theorem C03_consolidate_groups : forall (A : Type) (t : tb A), wf_tb t ->
  map block_sig (consolidate_blocks t) = S_group_columns (flatten t).
Proof. exact (@consolidate_groups). Qed.
Print Assumptions C03_consolidate_groups.

Theorem C03_consolidate_canonical : forall (A : Type) (t1 t2 : tb A), wf_tb t1 -> wf_tb t2 ->
  flatten t1 = flatten t2 -> map block_sig (consolidate_blocks t1) = map block_sig (consolidate_blocks t2).
Proof. exact (@consolidate_canonical). Qed.
Print Assumptions C03_consolidate_canonical.

Theorem C03_consolidate_maximal : forall (A : Type) (t : tb A), wf_tb t ->
  adjacent_distinct (map b_dtype (consolidate_blocks t)) /\ wf_tb (consolidate_blocks t).
Proof. exact (fun A t H => conj (@consolidate_maximal A t H) (@consolidate_wf A t H)). Qed.
Print Assumptions C03_consolidate_maximal.

(* For every history of append/extend calls the incrementally maintained directory (_index, _dtypes,
   column count) is the one from_blocks computes from scratch, and the view is the concatenation. *)
Theorem C03_extend_directory : forall (A : Type) (bs : list (block A)) (t : tb A),
  M_extend (state_of t) bs = state_of (t ++ filter nonempty_block bs) /\
  flatten (st_blocks (M_extend (state_of t) bs)) = flatten t ++ flatten bs.
Proof. exact (fun A bs t => conj (@extend_state A bs t) (@extend_flatten A bs t)). Qed.
Print Assumptions C03_extend_directory.

(* ---- row dtype: util.resolve_dtype REGENERATED from /repo equals the typed function the theorems below use *)
Theorem C03_resolve_dtype_translated : forall a b : dtype,
  resolve_dtype (PDtype a) (PDtype b) = PDtype (resolve_dtype_t a b).
Proof. exact resolve_dtype_refines. Qed.
Print Assumptions C03_resolve_dtype_translated.

(* The row dtype TypeBlocks computes from its BLOCK dtypes is the resolution of the COLUMN dtypes. *)
Theorem C03_row_dtype_layout_independent : forall (A : Type) (t : tb A), wf_tb t -> real_dtypes t ->
  M_row_dtype resolve_dtype_t t = S_row_dtype resolve_dtype_t (flatten t).
Proof.
  exact (fun A t Hwf Hok => @row_dtype_refines A resolve_dtype_t (fun _ _ x => x) (fun d => dtype_pos d = true)
           resolve_t_idem resolve_t_obj resolve_t_closed resolve_t_absorb t Hwf Hok).
Qed.
Print Assumptions C03_row_dtype_layout_independent.

(* .values (consolidation into one 2-D array of the row dtype) and transpose, for every layout *)
Theorem C03_values_refines : forall (A : Type) (cast : dtype -> dtype -> A -> A) (t : tb A), wf_tb t -> real_dtypes t ->
  M_values resolve_dtype_t cast t = S_values resolve_dtype_t cast (flatten t).
Proof.
  exact (fun A cast t Hwf Hok => @values_refines A resolve_dtype_t cast (fun d => dtype_pos d = true)
           resolve_t_idem resolve_t_obj resolve_t_closed resolve_t_absorb t Hwf Hok).
Qed.
Print Assumptions C03_values_refines.

Theorem C03_transpose_refines : forall (A : Type) (cast : dtype -> dtype -> A -> A) (t : tb A) (nrows : nat),
  wf_tb t -> real_dtypes t -> t <> [] ->
  res_map (@flatten A) (M_transpose resolve_dtype_t cast t nrows) = S_transpose resolve_dtype_t cast (flatten t) nrows.
Proof.
  exact (fun A cast t n Hwf Hok Hne => @transpose_refines A resolve_dtype_t cast (fun d => dtype_pos d = true)
           resolve_t_idem resolve_t_obj resolve_t_closed resolve_t_absorb t n Hwf Hok Hne).
Qed.
Print Assumptions C03_transpose_refines.

Theorem C03_rows_of_transposes : forall (A : Type) (n : nat) (cols : list (list A)) i j c x,
  Forall (fun c => length c = n) cols -> nth_error cols j = Some c -> nth_error c i = Some x ->
  exists row, nth_error (rows_of n cols) i = Some row /\ nth_error row j = Some x.
Proof. exact (@rows_of_transposes). Qed.
Print Assumptions C03_rows_of_transposes.

(* Frame.roll: the walk that starts inside a block (splitting it at the start column) is the rotation of the
   column list, for every layout, every shift (any sign, any size) and every non-empty shape. *)
Theorem C03_roll_refines : forall (A : Type) (t : tb A) (nrows ncols row_shift col_shift : Z) (rowf : list A -> list A),
  wf_tb t -> 0 < nrows -> 0 < ncols -> ncols = Z.of_nat (length (flatten t)) ->
  res_map (@flatten A) (M_roll t nrows ncols row_shift col_shift rowf)
  = Ok (S_roll (flatten t) nrows ncols row_shift col_shift rowf).
Proof. exact (@roll_refines). Qed.
Print Assumptions C03_roll_refines.

Theorem C03_roll_permutes_columns : forall (A : Type) (cols : list (dtype * list A)) nrows ncols cs rowf,
  Permutation (S_roll cols nrows ncols 0 cs rowf) cols.
Proof. exact (@S_roll_permutation). Qed.
Print Assumptions C03_roll_permutes_columns.

(* Structural coherence: an accepted Frame has one row per index label, one data column per column label, every
   column as long as the index; any mismatch is rejected with ErrorInitFrame. *)
Theorem C03_frame_coherent : forall (A L : Type) (index columns : list L) (t : tb A) (rows : Z) (f : frame A L),
  wf_tb t -> rows_ok t rows -> mk_frame_checked index columns t rows = Ok f ->
  frame_shape f = (Z.of_nat (length (f_index f)), Z.of_nat (length (f_columns f))) /\
  length (flatten (f_blocks f)) = length (f_columns f) /\
  Forall (fun c => length (snd c) = length (f_index f)) (flatten (f_blocks f)).
Proof. exact (@frame_coherent). Qed.
Print Assumptions C03_frame_coherent.

Theorem C03_frame_rejects : forall (A L : Type) (index columns : list L) (t : tb A) (rows : Z),
  (rows <> Z.of_nat (length index) \/ Z.of_nat (length (flatten t)) <> Z.of_nat (length columns)) ->
  mk_frame_checked index columns t rows = Err "ErrorInitFrame"%string.
Proof. exact (@frame_rejects). Qed.
Print Assumptions C03_frame_rejects.

(* Read routes agree: the cell iloc[i, j] / element iteration returns (with the column's own dtype) is the cell of
   column iteration, of the column by position, and -- converted to the row dtype -- of .values. *)
Theorem C03_readers_agree : forall (A : Type) (cast : dtype -> dtype -> A -> A) (t : tb A) (i j : Z) d x,
  wf_tb t -> real_dtypes t -> 0 <= i -> 0 <= j -> M_element t i j = Ok (d, x) ->
  exists c, nth_z (flatten t) j = Some (d, c) /\ nth_z c i = Some x /\
            M_column t j = Ok (d, c) /\
            (exists cols, M_axis_values0 t false = Some cols /\ nth_z cols j = Some (d, c)) /\
            (exists rd vcols vc, M_values resolve_dtype_t cast t = Some (rd, vcols) /\ M_row_dtype resolve_dtype_t t = Some rd /\
                                 nth_z vcols j = Some vc /\
                                 nth_z vc i = Some (if dtype_eqb d rd then x else cast d rd x)).
Proof.
  exact (fun A cast t i j d x => @readers_agree A resolve_dtype_t cast (fun d => dtype_pos d = true) t i j d x
           resolve_t_idem resolve_t_obj resolve_t_closed resolve_t_absorb).
Qed.
Print Assumptions C03_readers_agree.

Theorem C03_to_pairs_refines : forall (A L : Type) (f : frame A L), wf_tb (f_blocks f) ->
  frame_to_pairs f = Some (map (fun lc => (fst lc, fst (snd lc), combine (f_index f) (snd (snd lc))))
                               (combine (f_columns f) (flatten (f_blocks f)))).
Proof. exact (@to_pairs_refines). Qed.
Print Assumptions C03_to_pairs_refines.

(* Block-wise decisions that ARE observable, under the guard that makes them unobservable (Refuted/C03.v has
   the witnesses that the guards are needed). *)
Theorem C03_fillna_refines_when_fits : forall (A : Type) resolve cast (na : A -> bool) fill fill_dt (t : tb A),
  fill_fits resolve fill_dt t ->
  flatten (M_fillna resolve cast na fill fill_dt t) = S_fillna resolve cast na fill fill_dt (flatten t).
Proof. exact (@fillna_refines). Qed.
Print Assumptions C03_fillna_refines_when_fits.

Theorem C03_dropna_keep_refines : forall (A : Type) (na : A -> bool) (cond : list bool -> bool) (t : tb A),
  M_dropna_keep_columns na cond t = S_dropna_keep_columns na cond (flatten t).
Proof. exact (@dropna_keep_refines). Qed.
Print Assumptions C03_dropna_keep_refines.

(* ---- get_block_match (clip, assign by blocks): the stack of source arrays.  One request of width `need`
   gets exactly the next `need` source columns and leaves exactly the rest (split remainder pushed back);
   a sequence of requests hands out the source columns in order, piece k of width ws[k]; it fails only when
   the source has fewer columns than requested. *)
Theorem C03_take_cols_spec : forall (X : Type) (src : list (list X)) (need : nat),
  match take_cols src need with
  | Some (cols, src') => cols = firstn need (concat src) /\ concat src' = skipn need (concat src) /\
                         length cols = need /\ (need <= length (concat src))%nat
  | None => (length (concat src) < need)%nat
  end.
Proof. exact (@take_cols_spec). Qed.
Print Assumptions C03_take_cols_spec.

Theorem C03_take_many_spec : forall (X : Type) (ws : list nat) (src : list (list X)),
  match take_many src ws with
  | Some (pieces, rest) => concat pieces ++ concat rest = concat src /\ map (@length X) pieces = ws
  | None => (length (concat src) < fold_right Nat.add 0%nat ws)%nat
  end.
Proof. exact (@take_many_spec). Qed.
Print Assumptions C03_take_many_spec.

(* TypeBlocks.clip with Frame bounds: for EVERY receiver layout and EVERY layout of each bound frame the result is
   the column-by-column clip (column j against column j of each bound), same error when a bound is too narrow. *)
Theorem C03_clip_refines : forall (A : Type) (clipc : A -> option A -> option A -> A) (t : tb A) (lo hi : bound_stack),
  wf_tb t -> t <> [] ->
  res_map (@flatten A) (M_clip clipc t lo hi) = S_clip clipc (flatten t) (stack_cols lo) (stack_cols hi).
Proof. exact (@clip_refines). Qed.
Print Assumptions C03_clip_refines.

Theorem C03_clip_layout_independent : forall (A : Type) (clipc : A -> option A -> option A -> A)
  (t1 t2 : tb A) (lo1 hi1 lo2 hi2 : bound_stack), wf_tb t1 -> wf_tb t2 -> t1 <> [] -> t2 <> [] ->
  flatten t1 = flatten t2 -> stack_cols lo1 = stack_cols lo2 -> stack_cols hi1 = stack_cols hi2 ->
  res_map (@flatten A) (M_clip clipc t1 lo1 hi1) = res_map (@flatten A) (M_clip clipc t2 lo2 hi2).
Proof. exact (@clip_layout_independent). Qed.
Print Assumptions C03_clip_layout_independent.

(* A 1-D operand applied along the rows: chopping it to the width of every block (_block_shape_slices) equals pairing
   column j with element j, for every layout; a wrong length is rejected alike. *)
Theorem C03_binop_row_refines : forall (A B : Type) (opc : A -> B -> A) (fd : dtype -> dtype) (t : tb A) (other : list B),
  wf_tb t -> t <> [] ->
  res_map (@flatten A) (M_binop_row opc fd t other) = S_binop_row opc fd (flatten t) other.
Proof. exact (@binop_row_refines). Qed.
Print Assumptions C03_binop_row_refines.
