(* C18 (part 2 of 2) -- property theorems stated over definitions REGENERATED from the source on every run
   (Gen/Gen_c18.v: the chunksize Batch._apply_pool_except accepts, the `multiprocess` decisions of
   _StoreZip.read_many/write, the pool-argument names, StoreConfigMap._ALIGN_WITH_DEFAULT_ATTRS).
   Only `Theorem ... exact ...` + Print Assumptions. *)
Require Import SF.Prelude SF.Pool SF.PoolStore Gen.Gen_c18 Proofs.PoolExec Proofs.PoolApply Proofs.PoolStore.

(* Batch.apply_except / apply_items_except through a pool = the sequential try/except loop
   (at the one chunksize the code accepts, read from the source on every run). *)
Theorem C18_batch_except_eq_sequential : forall (L F R : Type) (f : L * F -> res R) (listed : string -> bool)
    k pi (items : list (L * F)),
  1 <= k ->
  M_batch_pool_except f listed c18_except_chunksize k c18_except_chunksize pi items = S_batch_apply_except f listed items.
Proof. exact @batch_except_eq_sequential_src. Qed.
Print Assumptions C18_batch_except_eq_sequential.

(* ... and it skips exactly the failing items: the survivors keep their own labels and order. *)
Theorem C18_except_skips_exactly_failing : forall (L F R : Type) (f : L * F -> res R) (listed : string -> bool)
    k pi (items : list (L * F)),
  1 <= k ->
  (forall p e, In p items -> f p = Err e -> listed e = true) ->
  M_batch_pool_except f listed c18_except_chunksize k c18_except_chunksize pi items = Ok (successes f items).
Proof. exact @batch_except_skips_exactly_failing_src. Qed.
Print Assumptions C18_except_skips_exactly_failing.

(* ... and never swallows an exception outside the listed class. *)
Theorem C18_except_unlisted_surfaces : forall (L F R : Type) (f : L * F -> res R) (listed : string -> bool)
    k pi (items : list (L * F)) p e,
  1 <= k -> In p items -> f p = Err e -> listed e = false ->
  exists e', M_batch_pool_except f listed c18_except_chunksize k c18_except_chunksize pi items = Err e' /\ listed e' = false.
Proof. exact @batch_except_unlisted_surfaces_src. Qed.
Print Assumptions C18_except_unlisted_surfaces.

(* Zipped stores, write: whatever write_max_workers / write_chunksize / schedule, the archive (member
   labels, order, bytes) is the serially written one, and a failing export is an error.  The
   `multiprocess` decision inside M_zip_write is the expression regenerated from store_zip.py. *)
Theorem C18_store_write_parallel_eq_serial : forall (L F Y : Type) (to_bytes : L * F -> res Y)
    workers c pi (items : list (L * F)),
  1 <= c -> M_zip_write to_bytes workers c pi items = S_zip_write to_bytes items.
Proof. exact @zip_write_parallel_eq_serial. Qed.
Print Assumptions C18_store_write_parallel_eq_serial.

(* read_many with workers: the frames of the requested labels, in request order (any order, repeats),
   exactly as the serial loop -- when every requested member exists ... *)
Theorem C18_store_read_parallel_eq_serial : forall (L F Y : Type) (label_eqb : L -> L -> bool) (of_bytes : L * Y -> res F)
    workers c pi (z : list (L * Y)) (labels : list L),
  (forall k, workers = Some k -> 1 <= k) -> 1 <= c ->
  (forall l, In l labels -> exists y, zf_read label_eqb l z = Ok y) ->
  M_zip_read_many label_eqb of_bytes workers c pi z labels = S_zip_read_many label_eqb of_bytes z labels.
Proof. exact @zip_read_parallel_eq_serial. Qed.
Print Assumptions C18_store_read_parallel_eq_serial.

(* ... and in general (missing or corrupt members): equal frames or an error on both sides. *)
Theorem C18_store_read_parallel_agrees : forall (L F Y : Type) (label_eqb : L -> L -> bool) (of_bytes : L * Y -> res F)
    workers c pi (z : list (L * Y)) (labels : list L),
  (forall k, workers = Some k -> 1 <= k) -> 1 <= c ->
  match M_zip_read_many label_eqb of_bytes workers c pi z labels, S_zip_read_many label_eqb of_bytes z labels with
  | Ok a, Ok b => a = b
  | Err _, Err _ => True
  | _, _ => False
  end.
Proof. exact @zip_read_parallel_agrees. Qed.
Print Assumptions C18_store_read_parallel_agrees.

(* Written with any pool configuration and read back with any other, in any selection order: every
   label gets the frame it was written with (given a faithful per-frame codec and unique labels). *)
Theorem C18_store_roundtrip_parallel : forall (L F Y : Type) (label_eqb : L -> L -> bool)
    (to_bytes : L * F -> res Y) (of_bytes : L * Y -> res F),
  (forall a b, label_eqb a b = true <-> a = b) ->
  (forall l fr y, to_bytes (l, fr) = Ok y -> of_bytes (l, y) = Ok fr) ->
  forall ww wc wpi rw rc rpi (items sel : list (L * F)) z,
  1 <= wc -> 1 <= rc -> (forall k, rw = Some k -> 1 <= k) ->
  NoDup (map fst items) -> incl sel items ->
  M_zip_write to_bytes ww wc wpi items = Ok z ->
  M_zip_read_many label_eqb of_bytes rw rc rpi z (map fst sel) = Ok (map snd sel).
Proof. exact @zip_roundtrip_parallel. Qed.
Print Assumptions C18_store_roundtrip_parallel.

(* StoreConfigMap: an accepted map answers every label with the default's worker settings (so the one
   decision taken on config_map.default is the decision each per-label config asks for); a map with a
   per-label config that differs in a pool setting is rejected.  Both are proved against the attribute
   tuple and the pool-argument names regenerated from store.py / store_zip.py. *)
Theorem C18_config_map_worker_settings_uniform : forall (L : Type) (eqb : L -> L -> bool) default (m : list (L * wcfg)) cm l,
  config_map_init default m = Ok cm ->
  w_read_max_workers (cm_get eqb cm l) = w_read_max_workers (cm_default cm) /\
  w_read_chunksize (cm_get eqb cm l) = w_read_chunksize (cm_default cm) /\
  w_write_max_workers (cm_get eqb cm l) = w_write_max_workers (cm_default cm) /\
  w_write_chunksize (cm_get eqb cm l) = w_write_chunksize (cm_default cm).
Proof. exact @config_map_worker_settings_uniform. Qed.
Print Assumptions C18_config_map_worker_settings_uniform.

Theorem C18_config_map_rejects_misaligned : forall (L : Type) default (m : list (L * wcfg)) l c,
  In (l, c) m -> pool_attr_differs (c18_read_pool_attrs ++ c18_write_pool_attrs) c default = true ->
  config_map_init default m = Err "ErrorInitStoreConfig".
Proof. exact @config_map_rejects_misaligned. Qed.
Print Assumptions C18_config_map_rejects_misaligned.

(* apply_pool = apply with the argument shapes READ FROM THE SOURCE: what arg_gen() yields to the pool (VALUES: v, ITEMS: (k, v)) are
   the positional arguments apply_iter_items passes sequentially, for both yield types; a change of either side breaks this proof. *)
Theorem C18_pool_eq_sequential_source_shapes : forall (K V B : Type) (f : list (K + V) -> res B) (items_form : bool)
    kind k c pi (items : list (K * V)),
  1 <= k -> (kind = Procs -> 1 <= c) ->
  M_apply_pool (shape_args (c18_pool_shape items_form)) f kind k c pi items
  = S_apply (shape_args (c18_seq_shape items_form)) f items.
Proof. exact @apply_pool_eq_sequential_src. Qed.
Print Assumptions C18_pool_eq_sequential_source_shapes.
