(* C04 -- property theorems only (selection returns exactly the addressed columns, for every block layout). *)
Require Import SF.Prelude SF.PySlice SF.Dtype SF.PyDyn SF.Blocks Gen.Gen_type_blocks
  Proofs.SliceFacts Proofs.BlocksSelect Proofs.BlocksRefine.

(* Column selection as TypeBlocks performs it -- directory lookup, bundling of adjacent columns of one
   block into slices (_indices_to_contiguous_pairs, _cols_to_slice), slicing each block -- returns,
   for EVERY block layout and every key (int, slice, integer list, Boolean mask, all), exactly the
   columns at the key's positions, in key order, each with its own dtype; and the same error otherwise. *)
Theorem C04_select_columns_exact : forall (A : Type) (t : tb A) (k : ckey), wf_tb t ->
  key_nodup k (Z.of_nat (length (flatten t))) ->
  res_map flatten (M_select_columns t k) = S_select_columns (flatten t) k.
Proof. exact @select_columns_refines. Qed.
Print Assumptions C04_select_columns_exact.

(* The typed bundling kernel the theorem above is about IS the source text of TypeBlocks._cols_to_slice
   (regenerated from /repo on every run). *)
Theorem C04_cols_to_slice_is_source : forall l : list Z, l <> [] ->
  cols_to_slice (of_zlist l) = of_slice (cols_to_slice_t l).
Proof. exact cols_to_slice_refines. Qed.
Print Assumptions C04_cols_to_slice_is_source.
