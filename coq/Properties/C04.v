(* C04 -- property theorems only (selection returns exactly the addressed rows/columns with their labels,
   for every block layout).  The models follow /repo after the fix commits c6f9ada, 231a672, ecbc9f2,
   b1181bc, b79f40c, dfbaa1d; no theorem below carries a guard for a known finding any more. *)
Require Import SF.Prelude SF.PySlice SF.Dtype SF.PyDyn SF.Value SF.Blocks SF.Select SF.SelectDt
  Gen.Gen_util Gen.Gen_type_blocks Gen.Gen_c04
  Proofs.SliceFacts Proofs.BlocksSelect Proofs.BlocksRefine Proofs.SelectBundles Proofs.SelectFacts
  Proofs.SelectExtract Proofs.SelectLoc Proofs.SelectLocExtract Proofs.SelectIncl Proofs.SelectSpec
  Proofs.SelectDecision.

(* Column selection as TypeBlocks performs it -- directory lookup, bundling of adjacent columns of one
   block into slices while the bundle keeps its direction (_indices_to_contiguous_pairs as repaired by
   ecbc9f2, _cols_to_slice), slicing each block -- returns, for EVERY block layout and EVERY key (int,
   slice, integer list WITH REPEATED POSITIONS, Boolean mask, all), exactly the columns at the key's
   positions, in key order, each with its own dtype; and the same error otherwise.  No uniqueness guard. *)
Theorem C04_select_columns_exact : forall (A : Type) (t : tb A) (k : ckey), wf_tb t ->
  res_map flatten (M_select_columns_dir t k) = S_select_columns (flatten t) k.
Proof. exact @select_columns_dir_refines. Qed.
Print Assumptions C04_select_columns_exact.

(* on keys that do not repeat a position the repaired bundling selects what the rule before the fix
   (SF.Blocks.M_select_columns, still used by other properties' models) selected *)
Theorem C04_select_columns_agrees_with_old_rule : forall (A : Type) (t : tb A) (k : ckey), wf_tb t ->
  key_nodup k (Z.of_nat (length (flatten t))) ->
  res_map flatten (M_select_columns_dir t k) = res_map flatten (M_select_columns t k).
Proof. exact @select_columns_dir_agrees_with_old. Qed.
Print Assumptions C04_select_columns_agrees_with_old_rule.

(* The typed bundling kernel the theorems are about IS the source text of TypeBlocks._cols_to_slice
   (regenerated from /repo on every run). *)
Theorem C04_cols_to_slice_is_source : forall l : list Z, l <> [] ->
  cols_to_slice (of_zlist l) = of_slice (cols_to_slice_t l).
Proof. exact cols_to_slice_refines. Qed.
Print Assumptions C04_cols_to_slice_is_source.

(* THE 2-D SELECTION.  Frame._extract as the code runs it -- TypeBlocks._extract (integer-column fast path,
   or _key_to_block_slices + per-block NumPy slicing + the single_row re-shaping + from_blocks with the
   selected row count as shape reference), the extraction of both indices, and the Frame / Series /
   element decision tree on the resulting shape -- returns, for EVERY block layout, EVERY row key and
   EVERY column key, exactly what the specification says on the flattened frame: the cells at (row
   position, column position) for the key's positions in key order, each with its own row and column
   label, a scalar key removing its axis; the same error class otherwise (a key repeating a position:
   ErrorInitIndex, labels are unique).  The only hypothesis is the Frame invariant. *)
Theorem C04_extract_refines : forall (A L : Type) (leqb : L -> L -> bool) (rdt : list dtype -> dtype)
  (f : mframe A L) (rk ck : ckey),
  wf_mframe leqb f ->
  M_extract leqb rdt f rk ck = S_extract leqb rdt (abs_frame f) rk ck.
Proof. exact @extract_refines. Qed.
Print Assumptions C04_extract_refines.

(* the Frame / Series / which-index / which-name decision inside M_extract IS the source text of
   Frame._extract (frame.py:3823-3869), regenerated on every run: a change to that chain (a swapped axis,
   another shape test, another values expression) breaks this theorem before any case is run *)
Theorem C04_decision_is_source : forall (r c : Z) (nm0 nm1 : bool),
  extract_decision r c nm0 nm1 = extract_decision_src r c nm0 nm1.
Proof. exact decision_is_source. Qed.
Print Assumptions C04_decision_is_source.

(* WHAT THE SPECIFICATION SAYS, cell by cell.  A selection with two non-scalar keys is a Frame whose cell
   (i, j) is the cell of the source at (i-th position of the row key, j-th position of the column key),
   whose i-th row label / j-th column label are the source's labels at those positions (key order,
   original labels), column dtypes kept, name kept. *)
Theorem C04_extract_exact : forall (A L : Type) (leqb : L -> L -> bool) (rdt : list dtype -> dtype)
  (f : sframe A L) (rp cp : list Z) (r : xres A L),
  S_extract_sel leqb rdt f (SMany rp) (SMany cp) = Ok r ->
  exists ridx cidx data,
    r = XFrame ridx cidx data (sf_name f) /\
    length ridx = length rp /\ length cidx = length cp /\ length data = length cp /\
    (forall i p, nth_error rp i = Some p -> nth_error ridx i = nth_z (sf_index f) p /\ nth_z (sf_index f) p <> None) /\
    (forall j q, nth_error cp j = Some q ->
       nth_error cidx j = nth_z (sf_columns f) q /\ nth_z (sf_columns f) q <> None /\
       exists d col v, nth_z (sf_cols f) q = Some (d, col) /\ nth_error data j = Some (d, v) /\
                       length v = length rp /\
                       forall i p, nth_error rp i = Some p -> nth_error v i = cell f p q /\ cell f p q <> None).
Proof. exact @extract_exact. Qed.
Print Assumptions C04_extract_exact.

(* A scalar key removes its axis: both scalar -> the element; scalar row -> a Series over the selected
   columns named by the row label; scalar column -> a Series over the selected rows named by the column
   label and keeping the column's dtype; every value still the addressed cell with its label. *)
Theorem C04_scalar_reduces : forall (A L : Type) (leqb : L -> L -> bool) (rdt : list dtype -> dtype)
  (f : sframe A L) (i j : Z) (rp cp : list Z),
  (forall r, S_extract_sel leqb rdt f (SOne i) (SOne j) = Ok r -> exists a, r = XElem a /\ cell f i j = Some a) /\
  (forall r, S_extract_sel leqb rdt f (SOne i) (SMany cp) = Ok r ->
     exists cidx vals dt name, r = XSeries cidx vals dt name /\ nth_z (sf_index f) i = Some name /\
       length cidx = length cp /\ length vals = length cp /\
       forall k q, nth_error cp k = Some q ->
         nth_error cidx k = nth_z (sf_columns f) q /\ nth_error vals k = cell f i q /\ cell f i q <> None) /\
  (forall r, S_extract_sel leqb rdt f (SMany rp) (SOne j) = Ok r ->
     exists ridx vals dt name col, r = XSeries ridx vals dt name /\ nth_z (sf_columns f) j = Some name /\
       nth_z (sf_cols f) j = Some (dt, col) /\ length ridx = length rp /\ length vals = length rp /\
       forall k p, nth_error rp k = Some p ->
         nth_error ridx k = nth_z (sf_index f) p /\ nth_error vals k = cell f p j /\ cell f p j <> None).
Proof. exact @scalar_reduces. Qed.
Print Assumptions C04_scalar_reduces.

(* LABEL SELECTION = POSITIONAL SELECTION AT THE LABEL POSITIONS.  For an index with a dictionary
   (LocMap.loc_to_iloc: label, list, inclusive slice walking up or down, Boolean array, Boolean Series
   reindexed with False, ILoc) the positional key the code builds denotes exactly the positions the
   specification assigns to the label key -- EVERY label key; same error otherwise. *)
Theorem C04_loc_map_refines : forall (L : Type) (leqb : L -> L -> bool),
  (forall x y, leqb x y = true <-> x = y) ->
  forall (labels : list L) (k : lkey L),
  (ck <- M_loc_map leqb labels k;; ckey_sel ck (Z.of_nat (length labels))) = S_loc leqb labels k.
Proof. exact @loc_map_refines. Qed.
Print Assumptions C04_loc_map_refines.

(* The auto-integer index (loc_is_iloc fast path as validated by fix 231a672, with the regenerated
   slice_to_inclusive_slice): labels are 0..n-1; integers outside that range and non-integers are rejected
   as absent labels.  Only hypothesis on the key: the ends of a slice are numbers (the code raises TypeError
   instead of a lookup error for 'a':'b' on an auto index). *)
Theorem C04_loc_auto_refines : forall (L : Type) (leqb : L -> L -> bool),
  (forall x y, leqb x y = true <-> x = y) ->
  forall (as_z : L -> option Z) (of_z : Z -> L),
  (forall z, as_z (of_z z) = Some z) -> (forall x z, as_z x = Some z -> x = of_z z) ->
  forall (n : nat) (k : lkey L), auto_slice_ints as_z k ->
  (ck <- M_loc_auto leqb as_z (auto_labels of_z n) k;; ckey_sel ck (Z.of_nat n)) = S_loc leqb (auto_labels of_z n) k.
Proof. exact @loc_auto_refines. Qed.
Print Assumptions C04_loc_auto_refines.

(* END TO END.  Frame.loc[rkey, ckey] / Frame[ckey] as the code runs them -- both label keys translated by
   LocMap (column key first), then Frame._extract over the blocks -- equal the specification: positional
   selection at the positions of the labels, for every block layout.  Only guard: not both keys malformed
   (which error comes first is not modelled). *)
Theorem C04_extract_loc_refines : forall (A L : Type) (leqb : L -> L -> bool) (rdt : list dtype -> dtype)
  (as_z : L -> option Z),
  (forall x y, leqb x y = true <-> x = y) ->
  forall (f : mframe A L) (rkey ckey_ : lkey L),
  wf_mframe leqb f ->
  ((exists rk, M_loc_map leqb (mf_index f) rkey = Ok rk) \/
   (forall ck, M_loc_map leqb (mf_columns f) ckey_ = Ok ck ->
      exists cs, ckey_sel ck (Z.of_nat (length (mf_columns f))) = Ok cs)) ->
  M_extract_loc leqb rdt as_z KMap KMap f rkey ckey_ = S_extract_loc leqb rdt (abs_frame f) rkey ckey_.
Proof. exact @extract_loc_refines. Qed.
Print Assumptions C04_extract_loc_refines.

(* Series.loc / Series[]: the translated key handed to NumPy and to Index.iloc selects the labels' positions *)
Theorem C04_series_loc_refines : forall (A L : Type) (leqb : L -> L -> bool) (as_z : L -> option Z),
  (forall x y, leqb x y = true <-> x = y) ->
  forall (s : sseries A L) (k : lkey L),
  M_series_loc leqb as_z KMap s k = S_series_loc leqb s k.
Proof. exact @series_loc_refines. Qed.
Print Assumptions C04_series_loc_refines.

(* the label-equality hypothesis of the theorems above holds at the instance the correspondence evaluates *)
Theorem C04_label_equality_at_val : forall x y : val, val_eqb x y = true <-> x = y.
Proof. exact val_eqb_spec. Qed.
Print Assumptions C04_label_equality_at_val.

(* the typed kernel the label-translation models use IS util.slice_to_inclusive_slice (regenerated every run) ... *)
Theorem C04_inclusive_slice_is_source : forall (k : slice) (off : Z),
  slice_to_inclusive_slice (of_slice k) (PInt off) = of_slice (incl_typed k off).
Proof. exact incl_typed_refines. Qed.
Print Assumptions C04_inclusive_slice_is_source.

(* ... and it includes the stop: positions a .. b with b selected, walking up and walking down *)
Theorem C04_inclusive_slice_includes_stop : forall a b n : Z, 0 <= a < n -> 0 <= b < n ->
  (a <= b -> exists ps, positions (incl_typed (mk_slice (Some a) (Some b) None) 0) n = Some ps /\
                        In b ps /\ (forall p, In p ps <-> a <= p <= b)) /\
  (b <= a -> exists ps, positions (incl_typed (mk_slice (Some a) (Some b) (Some (-1))) 0) n = Some ps /\
                        In b ps /\ (forall p, In p ps <-> b <= p <= a)).
Proof. exact inclusive_slice_includes_stop. Qed.
Print Assumptions C04_inclusive_slice_includes_stop.

(* label slices include their stop label: exactly the positions from the start label's through the stop
   label's, every step-th *)
Theorem C04_label_slice_inclusive : forall (L : Type) (leqb : L -> L -> bool),
  (forall x y, leqb x y = true <-> x = y) ->
  forall (labels : list L) (a b : L) (st : option Z) (pa pb : Z) (ps : list Z),
  find_pos leqb a labels 0 = Some pa -> find_pos leqb b labels 0 = Some pb ->
  (match st with Some s => 0 < s | None => True end) ->
  S_loc leqb labels (LSlice (Some a) (Some b) st) = Ok (SMany ps) ->
  let s := match st with Some s => s | None => 1 end in
  (forall p, In p ps <-> pa <= p <= pb /\ (p - pa) mod s = 0) /\
  (pa <= pb -> (pb - pa) mod s = 0 -> In pb ps).
Proof. exact @label_slice_inclusive. Qed.
Print Assumptions C04_label_slice_inclusive.

(* an absent label raises a lookup error -- as a single label, inside a list, as a slice end -- in the
   specification and in the dictionary model alike *)
Theorem C04_absent_label_raises : forall (L : Type) (leqb : L -> L -> bool),
  (forall x y, leqb x y = true <-> x = y) ->
  forall (labels : list L) (x : L), ~ In x labels ->
  S_loc leqb labels (LLabel x) = Err "KeyError" /\
  M_loc_map leqb labels (LLabel x) = Err "KeyError" /\
  (forall xs, In x xs -> S_loc leqb labels (LList xs) = Err "KeyError" /\ M_loc_map leqb labels (LList xs) = Err "KeyError") /\
  (forall b st, S_loc leqb labels (LSlice (Some x) b st) = Err "KeyError" /\
                M_loc_map leqb labels (LSlice (Some x) b st) = Err "KeyError").
Proof. exact @absent_label_raises. Qed.
Print Assumptions C04_absent_label_raises.

(* Boolean Series keys are aligned by label (not by position); labels the Series lacks count as False *)
Theorem C04_bool_series_aligned : forall (L : Type) (leqb : L -> L -> bool),
  (forall x y, leqb x y = true <-> x = y) ->
  forall (labels : list L) (ps : list (L * bool)),
  exists qs, S_loc leqb labels (LBoolSeries ps) = Ok (SMany qs) /\
    (forall i, In i qs <-> exists l, nth_z labels i = Some l /\ assoc_bool leqb l ps = true) /\
    increasing qs.
Proof. exact @bool_series_aligned. Qed.
Print Assumptions C04_bool_series_aligned.

(* datetime indices: a key of a coarser unit selects every label inside that period, and only those *)
Theorem C04_period_select : forall (labels : list val) (u : tunit) (c : Z),
  exists ps, S_loc_dt labels (DPeriod u c) = Ok (SMany ps) /\
    (forall i, In i ps <-> exists l, nth_z labels i = Some l /\ in_period u c l = true) /\
    increasing ps.
Proof. exact period_select. Qed.
Print Assumptions C04_period_select.

(* select, then select by label on the result: the index of the derived container is constructed WITHOUT
   loc_is_iloc (re-read from Index._extract_iloc on every run), so its labels are looked up in its own
   dictionary -- the model decision derived_kind the api:select-then-loc stratum evaluates *)
Theorem C04_derived_index_has_dictionary :
  derived_index_passes_loc_is_iloc_src = false /\
  forall (is_frame : bool) (k : ckey) (src : axkind), is_all k = false -> derived_kind is_frame k src = KMap.
Proof. exact derived_index_has_dictionary. Qed.
Print Assumptions C04_derived_index_has_dictionary.

(* single_row -- whether the row key selects exactly one row, which decides the re-shaping of every sliced block -- is, per
   class of row key (null / integer / slice / Boolean array / list), the if/elif chain of TypeBlocks._slice_blocks regenerated
   from /repo on every run; SF.Select.single_row (used by M_extract) is that decision applied to the key's own quantity *)
Theorem C04_single_row_is_source :
  (forall kind rows range_n count len, single_row_dec kind rows range_n count len = single_row_src kind rows range_n count len) /\
  (forall rk n, single_row rk n =
     match rk with
     | CAll => Ok (single_row_dec RNull n 0 0 0)
     | CInt _ => Ok (single_row_dec RInt n 0 0 0)
     | CSlice s => match slice_indices s n with
                   | None => Err "ValueError"
                   | Some (a, b, st) => Ok (single_row_dec RSlice n (range_len a b st) 0 0)
                   end
     | CMask m => Ok (single_row_dec RMask n 0 (count_true m) 0)
     | CList l => Ok (single_row_dec RIter n 0 0 (Z.of_nat (length l)))
     end).
Proof. exact single_row_decision. Qed.
Print Assumptions C04_single_row_is_source.
