(* C01 -- property theorems only; each closed by `exact` and followed by Print Assumptions.
   World / steps / M_step (implementation model) / S_step (value-semantics specification) / guarded / observations are
   defined in SF/Heap.v; Gen/Gen_c01.v is regenerated from the source of /repo on every run. *)
Require Import SF.Prelude SF.Heap SF.HeapAudit SF.HeapGrow Gen.Gen_c01 Proofs.HeapFrozen Proofs.HeapRefine Proofs.HeapRound Proofs.HeapGrowFacts.
Local Open Scope nat_scope.

(* After ANY guarded history (constructions through immutable_filter / own_data, derivations by view or by
   fresh array, exposures, caller views / freezes / writes, pickle and deepcopy round trips, failing calls)
   no buffer a container can see has a writeable handle anywhere, and buffer ids are well formed. *)
Theorem C01_frozen_invariant : forall hist, guarded w0 hist = true -> Inv (M_run w0 hist).
Proof. exact frozen_run. Qed.
Print Assumptions C01_frozen_invariant.

(* Immutability over every history: what is seen through an existing container (content and flags of every
   array slot) never changes, whatever is done afterwards. *)
Theorem C01_immutability : forall h1 h2 c,
  guarded w0 (h1 ++ h2) = true ->
  c < length (w_conts (M_run w0 h1)) ->
  cont_obs (M_run w0 (h1 ++ h2)) c = cont_obs (M_run w0 h1) c.
Proof. exact immutability. Qed.
Print Assumptions C01_immutability.

(* REFINEMENT: on every guarded history the implementation model (copy only writeable arguments, share read-only
   arguments, views and exposed arrays) is observationally equal to value semantics (every slot and every exposed
   array a private frozen copy): same outcome of every step, same content and flags of every container slot and of
   every caller array after every step. *)
Theorem C01_refines_value_semantics : forall hist, guarded w0 hist = true ->
  trace M_step w0 hist = trace S_step w0 hist /\ obs (M_run w0 hist) = obs (S_run w0 hist).
Proof. exact refinement. Qed.
Print Assumptions C01_refines_value_semantics.

(* Every array the caller holds that sees memory of a container is read-only; writing through it raises. *)
Theorem C01_exposed_readonly : forall hist k h hc,
  guarded w0 hist = true ->
  nth_error (w_callers (M_run w0 hist)) k = Some h ->
  In hc (concat (w_conts (M_run w0 hist))) -> h_buf h = h_buf hc ->
  h_w h = false /\ forall i v, M_step (M_run w0 hist) (SWrite k i v) = Err "ValueError".
Proof. exact exposed_readonly. Qed.
Print Assumptions C01_exposed_readonly.

Theorem C01_container_arrays_readonly : forall hist hc,
  guarded w0 hist = true -> In hc (concat (w_conts (M_run w0 hist))) -> h_w hc = false.
Proof. exact container_arrays_readonly. Qed.
Print Assumptions C01_container_arrays_readonly.

(* A caller array that is still writeable shares no buffer with any container. *)
Theorem C01_caller_isolation : forall hist k h hc,
  guarded w0 hist = true ->
  nth_error (w_callers (M_run w0 hist)) k = Some h -> h_w h = true ->
  In hc (concat (w_conts (M_run w0 hist))) -> h_buf h <> h_buf hc.
Proof. exact caller_isolation. Qed.
Print Assumptions C01_caller_isolation.

(* Pickle round trip of a container all of whose array slots __setstate__ re-freezes: same content, every array
   read-only, on buffers nothing else refers to. *)
Theorem C01_pickle_roundtrip : forall hist c hs flags,
  guarded w0 hist = true ->
  nth_error (w_conts (M_run w0 hist)) c = Some hs ->
  length flags = length hs -> forallb (fun b => b) flags = true ->
  exists w', M_step (M_run w0 hist) (SDerive c (pickle_dsrcs_from 0 flags)) = Ok w' /\
    step_ok (M_run w0 hist) (SDerive c (pickle_dsrcs_from 0 flags)) = true /\
    cont_obs w' (length (w_conts (M_run w0 hist))) = cont_obs (M_run w0 hist) c /\
    (exists hs', nth_error (w_conts w') (length (w_conts (M_run w0 hist))) = Some hs' /\
                 Forall (fun h => length (w_bufs (M_run w0 hist)) <= h_buf h /\ h_w h = false) hs').
Proof. exact pickle_roundtrip. Qed.
Print Assumptions C01_pickle_roundtrip.

(* ... and, read off the CURRENT source (Gen_c01, regenerated from the AST on every run): __setstate__ of every class that owns
   ndarray slots re-freezes all of them -- TypeBlocks._blocks, Series.values, Index._labels and _positions, ArrayGO._array -- so the
   hypothesis of C01_pickle_roundtrip holds for TypeBlocks of any width, Index, Series and one-block Frames. *)
Theorem C01_setstate_refreezes_every_array_slot : forall n,
  forallb (fun b => b) (repeat pickle_flag_block n) = true /\
  forallb (fun b => b) pickle_flags_index = true /\
  forallb (fun b => b) pickle_flags_series = true /\
  forallb (fun b => b) pickle_flags_frame1 = true /\
  pickle_flag_arraygo = true /\
  forallb (fun e => forallb (fun s => snd s) (snd e)) setstate_refreezes = true.
Proof.
  exact (fun n => conj (proj2 (forallb_forall _ _) (fun b H => eq_trans (repeat_spec n _ b H) eq_refl))
                       (conj eq_refl (conj eq_refl (conj eq_refl (conj eq_refl eq_refl))))).
Qed.
Print Assumptions C01_setstate_refreezes_every_array_slot.

Theorem C01_deepcopy_roundtrip : forall hist c hs,
  guarded w0 hist = true ->
  nth_error (w_conts (M_run w0 hist)) c = Some hs ->
  exists w', M_step (M_run w0 hist) (SDerive c (deep_dsrcs (length hs))) = Ok w' /\
    cont_obs w' (length (w_conts (M_run w0 hist))) = cont_obs (M_run w0 hist) c /\
    (exists hs', nth_error (w_conts w') (length (w_conts (M_run w0 hist))) = Some hs' /\
                 Forall (fun h => length (w_bufs (M_run w0 hist)) <= h_buf h /\ h_w h = false) hs').
Proof. exact deepcopy_roundtrip. Qed.
Print Assumptions C01_deepcopy_roundtrip.

(* Non-vacuity: a guarded history with a construction from a writeable view, an invisible caller write, a view
   derivation, an exposure, a rejected write, a shared read-only argument, both round trips and own_data. *)
Theorem C01_guarded_history_exists :
  guarded w0 example_history = true /\
  conts_obs (M_run w0 example_history) =
    [ [([30; 20; 10]%Z, false); ([0; 1; 2]%Z, false)];
      [([20; 10]%Z, false); ([0; 1]%Z, false)];
      [([20; 10]%Z, false)];
      [([20; 10]%Z, false)];
      [([30; 20; 10]%Z, false); ([0; 1; 2]%Z, false)];
      [([1; 2]%Z, false)] ] /\
  callers_obs (M_run w0 example_history) =
    [ ([-7; 20; 30]%Z, true); ([30; 20; -7]%Z, true); ([20; 10]%Z, false); ([1; 2]%Z, false) ].
Proof. exact example_guarded. Qed.
Print Assumptions C01_guarded_history_exists.

(* Static tripwire over the ~160 freeze sites (census regenerated from the source on every run, bound = the pinned
   table SF/HeapAudit.expected_protect): no function has lost a `flags.writeable = False` statement or an
   immutable_filter call, and the only function that makes an array writeable again is the whitelisted one. *)
Theorem C01_no_protect_site_lost : census_covers freeze_census expected_protect = true.
Proof. exact (eq_refl true). Qed.
Print Assumptions C01_no_protect_site_lost.

Theorem C01_thaw_sites_whitelisted : thaw_sites freeze_census = thaw_whitelist.
Proof. exact (eq_refl thaw_whitelist). Qed.
Print Assumptions C01_thaw_sites_whitelisted.

(* util.PositionsAllocator (the process-wide positions array every Index hands out as .positions): read off the current source,
   every (re)allocation of the shared array is frozen before it is published -- also in the regrow branch, which no small input reaches. *)
Theorem C01_positions_allocator_publishes_frozen : positions_allocator_publishes_frozen = true.
Proof. exact (eq_refl true). Qed.
Print Assumptions C01_positions_allocator_publishes_frozen.

(* GROWABLE MEMBERS (SF/HeapGrow.v: the block list of a TypeBlocks, the label list of an IndexGO / IndexHierarchyGO).  Whatever is
   built from whatever through routes that keep member lists only between two static containers, and however often any grow-only
   container is grown afterwards (setitem / append / extend), what is seen through a static container never changes. *)
Theorem C01_growing_a_source_never_changes_a_static_container : forall h1 h2 c k,
  gguarded gw0 (h1 ++ h2) = true ->
  nth_error (gw_conts (grun gM_step gw0 h1)) c = Some k -> g_static k = true ->
  gobs_at (grun gM_step gw0 (h1 ++ h2)) c = gobs_at (grun gM_step gw0 h1) c.
Proof. exact static_never_changes. Qed.
Print Assumptions C01_growing_a_source_never_changes_a_static_container.

(* ... and on such histories keeping the member lists is indistinguishable from copying them (value semantics): same outcome of
   every step, same members seen through every container after every step. *)
Theorem C01_grow_refines_value_semantics : forall hist, gguarded gw0 hist = true ->
  gtrace gM_step gw0 hist = gtrace gS_step gw0 hist.
Proof. exact grow_refinement. Qed.
Print Assumptions C01_grow_refines_value_semantics.

(* util.immutable_filter AS WRITTEN IN THE SOURCE (Gen_c01.source_filter, regenerated from its AST on every run) is the dispatch the
   implementation model M uses for every filtered argument (Heap.model_filter inside m_src): copy-and-freeze a writeable argument, keep a
   read-only one.  Freezing a writeable argument in place, or returning an unfrozen copy, changes source_filter and breaks this theorem. *)
Theorem C01_immutable_filter_matches_model : forall w, source_filter w = model_filter w.
Proof. exact (fun w => match w with true => eq_refl | false => eq_refl end). Qed.
Print Assumptions C01_immutable_filter_matches_model.

(* ... and every array-taking entry point sends an ndarray argument through it (own_data=True: frozen in place and kept), as the model's
   constructor routes say: Series.__init__, Index._extract_labels, TypeBlocks.from_blocks, TypeBlocks.append, Frame.__init__. *)
Theorem C01_constructor_routes_match_source :
  [route_series_init; route_index_labels; route_tb_from_blocks; route_tb_append; route_frame_init; route_frame_init_own_data]
  = [RFilter; RFilter; RFilter; RFilter; RFilter; ROwn].
Proof. exact eq_refl. Qed.
Print Assumptions C01_constructor_routes_match_source.
