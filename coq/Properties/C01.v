(* C01 -- property theorems only; each closed by `exact` and followed by Print Assumptions.
   World / steps / M_step / guarded / cont_obs are defined in SF/Heap.v. *)
Require Import SF.Prelude SF.Heap Proofs.HeapFrozen.
Local Open Scope nat_scope.

(* After ANY guarded history (constructions through immutable_filter / own_data, derivations by view or by
   fresh array, exposures, caller views / freezes / writes, pickle and deepcopy round trips, failing calls)
   no buffer a container can see has a writeable handle anywhere, and buffer ids are well formed. *)
Theorem C01_frozen_invariant : forall hist, guarded w0 hist = true -> Inv (M_run w0 hist).
Proof. exact frozen_run. Qed.
Print Assumptions C01_frozen_invariant.

(* Immutability over every history: what is seen through an existing container (content and flags of every
   array slot) never changes, whatever is done afterwards. *)
Theorem C01_immutability : forall h1 h2 c,
  guarded w0 (h1 ++ h2) = true ->
  c < length (w_conts (M_run w0 h1)) ->
  cont_obs (M_run w0 (h1 ++ h2)) c = cont_obs (M_run w0 h1) c.
Proof. exact immutability. Qed.
Print Assumptions C01_immutability.

(* Every array the caller holds that sees memory of a container is read-only; writing through it raises. *)
Theorem C01_exposed_readonly : forall hist k h hc,
  guarded w0 hist = true ->
  nth_error (w_callers (M_run w0 hist)) k = Some h ->
  In hc (concat (w_conts (M_run w0 hist))) -> h_buf h = h_buf hc ->
  h_w h = false /\ forall i v, M_step (M_run w0 hist) (SWrite k i v) = Err "ValueError".
Proof. exact exposed_readonly. Qed.
Print Assumptions C01_exposed_readonly.

Theorem C01_container_arrays_readonly : forall hist hc,
  guarded w0 hist = true -> In hc (concat (w_conts (M_run w0 hist))) -> h_w hc = false.
Proof. exact container_arrays_readonly. Qed.
Print Assumptions C01_container_arrays_readonly.

(* A caller array that is still writeable shares no buffer with any container. *)
Theorem C01_caller_isolation : forall hist k h hc,
  guarded w0 hist = true ->
  nth_error (w_callers (M_run w0 hist)) k = Some h -> h_w h = true ->
  In hc (concat (w_conts (M_run w0 hist))) -> h_buf h <> h_buf hc.
Proof. exact caller_isolation. Qed.
Print Assumptions C01_caller_isolation.
