(* C20 -- property theorems only; each closed by `exact` and followed by Print Assumptions. *)
Require Import SF.Prelude SF.RelJoin SF.RelShift SF.RelStack SF.RelPivot.
Require Import Gen.Gen_c20 Proofs.RelJoinDefaults Proofs.RelStackGen.
Require Import Proofs.RelJoinSpec Proofs.RelJoinRefine Proofs.RelJoinSingle Proofs.RelShiftFacts Proofs.RelStackFacts Proofs.RelStackRefine Proofs.RelPivotFacts.

(* ===================================================================== joins *)
(* join_rows: the specification holds exactly the matching row pairs ... *)
Theorem C20_join_rows_pairs : forall (L K A : Type) (keqb : K -> K -> bool) jt (Lt Rt : list (trow L K A)) l r,
  In (JB l r) (S_join keqb jt Lt Rt) <-> In l Lt /\ In r Rt /\ matches keqb l r = true.
Proof. exact (@join_rows_pairs). Qed.
Print Assumptions C20_join_rows_pairs.

(* ... plus the unmatched rows of the preserved side(s), and nothing else *)
Theorem C20_join_rows_left : forall (L K A : Type) (keqb : K -> K -> bool) jt (Lt Rt : list (trow L K A)) l,
  In (JL l) (S_join keqb jt Lt Rt) <->
  keeps_left jt = true /\ In l Lt /\ forall r, In r Rt -> matches keqb l r = false.
Proof. exact (@join_rows_left). Qed.
Print Assumptions C20_join_rows_left.

Theorem C20_join_rows_right : forall (L K A : Type) (keqb : K -> K -> bool) jt (Lt Rt : list (trow L K A)) r,
  In (JR r) (S_join keqb jt Lt Rt) <->
  keeps_right jt = true /\ In r Rt /\ forall l, In l Lt -> matches keqb l r = false.
Proof. exact (@join_rows_right). Qed.
Print Assumptions C20_join_rows_right.

(* every pair / unmatched row once: one-to-one, one-to-many and many-to-many alike *)
Theorem C20_join_rows_nodup : forall (L K A : Type) (keqb : K -> K -> bool) jt (Lt Rt : list (trow L K A)),
  NoDup Lt -> NoDup Rt -> NoDup (S_join keqb jt Lt Rt).
Proof. exact (@join_rows_nodup). Qed.
Print Assumptions C20_join_rows_nodup.

Theorem C20_join_pairs_count : forall (L K A : Type) (keqb : K -> K -> bool) (Lt Rt : list (trow L K A)),
  length (S_pairs keqb Lt Rt) = fold_right (fun l n => (length (filter (matches keqb l) Rt) + n)%nat) 0%nat Lt.
Proof. exact (@join_pairs_count). Qed.
Print Assumptions C20_join_pairs_count.

(* join_values_carried + template renaming, as a refinement: the composite path of Frame._join
   (positions, Pair labels, rows fetched back by label, reindex for PairRight, right columns by
   other.loc[label, col]) IS the frame of the relational definition, for all four join types, all
   cardinalities, all sizes *)
Theorem C20_join_many_refines : forall (L K A : Type) (leqb : L -> L -> bool) (keqb : K -> K -> bool),
  (forall a b, leqb a b = true <-> a = b) ->
  forall jt cifv (fill : A) lt rt lcols rcols (Lt Rt : list (trow L K A)),
  NoDup (map lab Lt) -> NoDup (map lab Rt) ->
  Forall (fun l => length (cells l) = length lcols) Lt ->
  Forall (fun r => length (cells r) = length rcols) Rt ->
  ~ In cifv (map lab Lt) -> ~ In cifv (map lab Rt) ->
  nodupb String.eqb (out_names lt rt lcols rcols) = true ->
  M_join_many leqb keqb jt cifv fill lt rt lcols rcols Lt Rt
  = Ok (S_frame keqb jt cifv fill lt rt lcols rcols Lt Rt).
Proof. exact (@join_many_refines). Qed.
Print Assumptions C20_join_many_refines.

Theorem C20_join_composite_refines : forall (L K A : Type) (leqb : L -> L -> bool) (keqb : K -> K -> bool),
  (forall a b, leqb a b = true <-> a = b) ->
  forall jt cifv (fill : A) lt rt lcols rcols (Lt Rt : list (trow L K A)),
  NoDup (map lab Lt) -> NoDup (map lab Rt) ->
  Forall (fun l => length (cells l) = length lcols) Lt ->
  Forall (fun r => length (cells r) = length rcols) Rt ->
  ~ In cifv (map lab Lt) -> ~ In cifv (map lab Rt) ->
  nodupb String.eqb (out_names lt rt lcols rcols) = true ->
  M_join leqb keqb jt true cifv fill lt rt lcols rcols Lt Rt
  = Ok (S_frame keqb jt cifv fill lt rt lcols rcols Lt Rt).
Proof. exact (@join_composite_refines). Qed.
Print Assumptions C20_join_composite_refines.

(* about the text REGENERATED from frame.py on every run: a join called without composite_index takes the
   composite path (whatever entry point), so the default join is the relational join *)
Theorem C20_join_default_refines : forall (L K A : Type) (leqb : L -> L -> bool) (keqb : K -> K -> bool),
  (forall a b, leqb a b = true <-> a = b) ->
  forall name b, In (name, b) gen_join_composite_default ->
  forall jt cifv (fill : A) lt rt lcols rcols (Lt Rt : list (trow L K A)),
  NoDup (map lab Lt) -> NoDup (map lab Rt) ->
  Forall (fun l => length (cells l) = length lcols) Lt ->
  Forall (fun r => length (cells r) = length rcols) Rt ->
  ~ In cifv (map lab Lt) -> ~ In cifv (map lab Rt) ->
  nodupb String.eqb (out_names lt rt lcols rcols) = true ->
  M_join leqb keqb jt b cifv fill lt rt lcols rcols Lt Rt
  = Ok (S_frame keqb jt cifv fill lt rt lcols rcols Lt Rt).
Proof. exact (@join_default_refines). Qed.
Print Assumptions C20_join_default_refines.

Theorem C20_join_entry_points :
  map fst gen_join_composite_default = ["_join"; "join_inner"; "join_left"; "join_right"; "join_outer"]%string /\
  gen_join_dispatch = [("join_inner", "INNER"); ("join_left", "LEFT"); ("join_right", "RIGHT"); ("join_outer", "OUTER")]%string /\
  forallb (fun p => snd p) gen_join_cifv_default_is_none = true /\
  forallb (fun p => String.eqb (fst (snd p)) "{}" && String.eqb (snd (snd p)) "{}") gen_join_templates_default = true.
Proof. exact join_entry_points. Qed.
Print Assumptions C20_join_entry_points.

(* composite_index=False on a one-to-one relation: the inner join is the relational definition (left
   labels, left order) with no further condition ... *)
Theorem C20_join_single_inner : forall (L K A : Type) (leqb : L -> L -> bool) (keqb : K -> K -> bool),
  (forall a b, leqb a b = true <-> a = b) ->
  forall (fill : A) lt rt lcols rcols (Lt Rt : list (trow L K A)),
  NoDup (map lab Lt) -> one_to_one keqb Lt Rt ->
  Forall (fun l => length (cells l) = length lcols) Lt ->
  nodupb String.eqb (out_names lt rt lcols rcols) = true ->
  M_join_single leqb keqb JInner fill lt rt lcols rcols Lt Rt =
  Ok (mk_jframe (map (fun x => inl (match x with JB l _ | JL l => lab l | JR r => lab r end)) (S_join keqb JInner Lt Rt))
        (out_names lt rt lcols rcols)
        (cols_of (length lcols + length rcols) fill (map (jcells fill (length lcols) (length rcols)) (S_join keqb JInner Lt Rt)))).
Proof. exact (@join_single_inner). Qed.
Print Assumptions C20_join_single_inner.

(* ... the left join only under the guard "no unmatched left row's label exists in the right index"
   (necessity: Refuted/C20.v join_noncomposite_label_clash_refuted) *)
Theorem C20_join_single_left : forall (L K A : Type) (leqb : L -> L -> bool) (keqb : K -> K -> bool),
  (forall a b, leqb a b = true <-> a = b) ->
  forall (fill : A) lt rt lcols rcols (Lt Rt : list (trow L K A)),
  NoDup (map lab Lt) -> one_to_one keqb Lt Rt ->
  Forall (fun l => length (cells l) = length lcols) Lt ->
  nodupb String.eqb (out_names lt rt lcols rcols) = true ->
  (forall l, In l Lt -> filter (matches keqb l) Rt = [] -> ~ In (lab l) (map lab Rt)) ->
  M_join_single leqb keqb JLeft fill lt rt lcols rcols Lt Rt =
  Ok (mk_jframe (map (fun l => inl (lab l)) Lt) (out_names lt rt lcols rcols)
        (cols_of (length lcols + length rcols) fill (map (jcells fill (length lcols) (length rcols)) (map (single_row keqb Rt) Lt)))).
Proof. exact (@join_single_left). Qed.
Print Assumptions C20_join_single_left.

Theorem C20_join_single_left_rows : forall (L K A : Type) (keqb : K -> K -> bool) (Lt Rt : list (trow L K A)),
  one_to_one keqb Lt Rt ->
  Permutation (map (single_row keqb Rt) Lt) (S_join keqb JLeft Lt Rt).
Proof. exact (@join_single_left_rows). Qed.
Print Assumptions C20_join_single_left_rows.

Theorem C20_join_noncomposite_dispatch : forall (L K A : Type) (leqb : L -> L -> bool) (keqb : K -> K -> bool)
  jt cifv (fill : A) lt rt lcols rcols (Lt Rt : list (trow L K A)),
  M_join leqb keqb jt false cifv fill lt rt lcols rcols Lt Rt =
  if is_many false (map_iloc keqb Lt Rt) then Err "RuntimeError"%string
  else M_join_single leqb keqb jt fill lt rt lcols rcols Lt Rt.
Proof. exact (@join_noncomposite_dispatch). Qed.
Print Assumptions C20_join_noncomposite_dispatch.

(* ===================================================================== set_index / shifts *)
Theorem C20_shift_in_preserves : forall (N A : Type) (neqb : N -> N -> bool) (aeqb : A -> A -> bool),
  (forall a b, neqb a b = true <-> a = b) ->
  forall d keys (t t' : lframe N A),
  NoDup keys -> NoDup (map fst (lf_cols t)) ->
  M_shift_in neqb aeqb d keys t = Ok t' ->
  exists sel, lf_levels t' = lf_levels t ++ sel /\ map fst sel = keys /\
              Permutation (sel ++ lf_cols t') (lf_cols t) /\ lf_rows t' = lf_rows t.
Proof. exact (@shift_in_preserves). Qed.
Print Assumptions C20_shift_in_preserves.

Theorem C20_shift_in_out_roundtrip : forall (N A : Type) (neqb : N -> N -> bool) (aeqb : A -> A -> bool)
  (auto_level : nat -> N * list A),
  (forall a b, neqb a b = true <-> a = b) ->
  forall d keys (t t1 : lframe N A),
  NoDup keys -> keys <> [] -> NoDup (map fst (lf_cols t)) ->
  lf_levels t <> [] -> index_okb aeqb (lf_rows t) d (lf_levels t) = true ->
  M_shift_in neqb aeqb d keys t = Ok t1 ->
  exists t2, M_shift_out neqb aeqb auto_level d (seq (length (lf_levels t)) (length keys)) t1 = Ok t2 /\
             lf_levels t2 = lf_levels t /\ Permutation (lf_cols t2) (lf_cols t) /\ lf_rows t2 = lf_rows t.
Proof. exact (@shift_in_out_roundtrip). Qed.
Print Assumptions C20_shift_in_out_roundtrip.

Theorem C20_set_unset_roundtrip : forall (N A : Type) (neqb : N -> N -> bool) (aeqb : A -> A -> bool)
  (auto_level : nat -> N * list A),
  (forall a b, neqb a b = true <-> a = b) ->
  forall d keys (t t1 : lframe N A),
  NoDup keys -> NoDup (map fst (lf_cols t)) ->
  M_set_index neqb aeqb d keys true t = Ok t1 ->
  exists t2, M_unset_index neqb auto_level [] t1 = Ok t2 /\
             lf_levels t2 = [auto_level (lf_rows t)] /\ Permutation (lf_cols t2) (lf_cols t) /\
             map fst (lf_levels t1) = keys.
Proof. exact (@set_unset_roundtrip). Qed.
Print Assumptions C20_set_unset_roundtrip.

Theorem C20_set_index_keeps_data : forall (N A : Type) (neqb : N -> N -> bool) (aeqb : A -> A -> bool),
  (forall a b, neqb a b = true <-> a = b) ->
  forall d keys (t t1 : lframe N A),
  M_set_index neqb aeqb d keys false t = Ok t1 ->
  lf_cols t1 = lf_cols t /\ (forall lv, In lv (lf_levels t1) -> In lv (lf_cols t)) /\ map fst (lf_levels t1) = keys.
Proof. exact (@set_index_keeps_data). Qed.
Print Assumptions C20_set_index_keeps_data.

(* ===================================================================== pivot_stack / pivot_unstack *)
Theorem C20_stack_cells : forall (R G T A : Type) (reqb : R -> R -> bool) (geqb : G -> G -> bool) (teqb : T -> T -> bool),
  (forall a b, reqb a b = true <-> a = b) -> (forall a b, geqb a b = true <-> a = b) -> (forall a b, teqb a b = true <-> a = b) ->
  forall fill (f : sframe A R (G * T)) r t g,
  In r (sf_rows f) -> In t (targets_of teqb f) -> In g (groups_of geqb f) ->
  get_of (gt_eqb reqb teqb) geqb (S_stack reqb geqb teqb fill f) fill (r, t) g =
  if existsb (gt_eqb geqb teqb (g, t)) (sf_cols f) then get_of reqb (gt_eqb geqb teqb) f fill r (g, t) else fill.
Proof. exact (@stack_cells). Qed.
Print Assumptions C20_stack_cells.

Theorem C20_unstack_cells : forall (G T C A : Type) (geqb : G -> G -> bool) (teqb : T -> T -> bool) (ceqb : C -> C -> bool),
  (forall a b, geqb a b = true <-> a = b) -> (forall a b, teqb a b = true <-> a = b) -> (forall a b, ceqb a b = true <-> a = b) ->
  forall fill (f : sframe A (G * T) C) g c t,
  In g (uniq geqb (map fst (sf_rows f))) -> In c (sf_cols f) -> In t (uniq teqb (map snd (sf_rows f))) ->
  get_of geqb (ct_eqb teqb ceqb) (S_unstack geqb teqb ceqb fill f) fill g (c, t) =
  if existsb (gt_eqb' geqb teqb (g, t)) (sf_rows f) then get_of (gt_eqb' geqb teqb) ceqb f fill (g, t) c else fill.
Proof. exact (@unstack_cells). Qed.
Print Assumptions C20_unstack_cells.

(* stack_unstack_roundtrip: same rows, the rectangle groups x targets of columns, every original cell
   back at its labels, the fill value exactly where the original column set was ragged *)
Theorem C20_stack_unstack_roundtrip : forall (R G T A : Type) (reqb : R -> R -> bool) (geqb : G -> G -> bool) (teqb : T -> T -> bool),
  (forall a b, reqb a b = true <-> a = b) -> (forall a b, geqb a b = true <-> a = b) -> (forall a b, teqb a b = true <-> a = b) ->
  forall fill (f : sframe A R (G * T)),
  NoDup (sf_rows f) -> sf_rows f <> [] -> sf_cols f <> [] ->
  let h := unstack_stack reqb geqb teqb fill f in
  sf_rows h = sf_rows f /\
  sf_cols h = product (groups_of geqb f) (targets_of teqb f) /\
  (forall r g t, In r (sf_rows f) -> In (g, t) (sf_cols f) ->
     get_of reqb (gt_eqb geqb teqb) h fill r (g, t) = get_of reqb (gt_eqb geqb teqb) f fill r (g, t)) /\
  (forall r g t, In r (sf_rows f) -> In (g, t) (sf_cols h) -> ~ In (g, t) (sf_cols f) ->
     get_of reqb (gt_eqb geqb teqb) h fill r (g, t) = fill).
Proof. exact (@stack_unstack_roundtrip). Qed.
Print Assumptions C20_stack_unstack_roundtrip.

(* the dictionary-and-position algorithms of the code are these cell maps *)
Theorem C20_stack_refines : forall (R G T A : Type) (reqb : R -> R -> bool) (geqb : G -> G -> bool) (teqb : T -> T -> bool),
  (forall a b, reqb a b = true <-> a = b) -> (forall a b, geqb a b = true <-> a = b) -> (forall a b, teqb a b = true <-> a = b) ->
  forall fill (f : sframe A R (G * T)),
  NoDup (sf_rows f) -> NoDup (sf_cols f) -> length (sf_rows f) = length (sf_cells f) ->
  M_stack geqb teqb fill f = S_stack reqb geqb teqb fill f.
Proof. exact (@stack_refines). Qed.
Print Assumptions C20_stack_refines.

(* over the flag REGENERATED from frame.py (false since /repo 8198989): unconditional in the fill value and in
   whatever NumPy does when casting it; reverting the repair breaks this obligation *)
Theorem C20_unstack_refines : forall (G T C A : Type) (geqb : G -> G -> bool) (teqb : T -> T -> bool) (ceqb : C -> C -> bool),
  (forall a b, geqb a b = true <-> a = b) -> (forall a b, teqb a b = true <-> a = b) -> (forall a b, ceqb a b = true <-> a = b) ->
  forall (fill : A) castfill (f : sframe A (G * T) C),
  NoDup (sf_rows f) -> NoDup (sf_cols f) ->
  M_unstack geqb teqb gen_unstack_dtype_from_last_group fill castfill f = Ok (S_unstack geqb teqb ceqb fill f).
Proof. exact (@unstack_refines_regenerated). Qed.
Print Assumptions C20_unstack_refines.

(* ===================================================================== pivot *)
(* pivot_cells.  bypass / raw are the two shortcuts of the code (a group of one row never reaches func; a column group
   with unique index labels is taken raw): with neither, M = S for every function; with either, for f [v] = v *)
Theorem C20_pivot_cell_refines : forall (I C A F : Type) (ieqb : I -> I -> bool) (ceqb : C -> C -> bool) (apply : F -> list A -> A),
  (forall a b, ieqb a b = true <-> a = b) ->
  forall bypass raw fill (rows : list (prow I C A)) i c k fn, shortcut_guard apply bypass raw fn ->
  M_pivot_cell ieqb ceqb apply bypass raw fill rows i c k fn = S_pivot_cell ieqb ceqb apply fill rows i c k fn.
Proof. exact (@pivot_cell_refines). Qed.
Print Assumptions C20_pivot_cell_refines.

Theorem C20_pivot_refines : forall (I C A F : Type) (ieqb : I -> I -> bool) (ceqb : C -> C -> bool)
  (isort : list I -> list I) (csort : list C -> list C) (apply : F -> list A -> A),
  (forall a b, ieqb a b = true <-> a = b) ->
  forall bypass raw fill nd funcs (rows : list (prow I C A)),
  (forall fn, In fn funcs -> shortcut_guard apply bypass raw fn) ->
  M_pivot ieqb ceqb isort csort apply bypass raw fill nd funcs rows =
  mk_sframe (isort (index_keys ieqb rows)) (pivot_columns ceqb csort rows nd funcs)
    (tab (isort (index_keys ieqb rows)) (pivot_columns ceqb csort rows nd funcs)
         (fun i ckf => S_pivot_cell ieqb ceqb apply fill rows i (fst ckf) (fst (snd ckf)) (snd (snd ckf)))).
Proof. exact (@pivot_refines). Qed.
Print Assumptions C20_pivot_refines.

(* over the two decisions as REGENERATED from pivot.py / frame.py on every run: what the guard is for the code as it stands *)
Theorem C20_pivot_refines_regenerated : forall (I C A F : Type) (ieqb : I -> I -> bool) (ceqb : C -> C -> bool)
  (isort : list I -> list I) (csort : list C -> list C) (apply : F -> list A -> A),
  (forall a b, ieqb a b = true <-> a = b) ->
  forall fill nd funcs (rows : list (prow I C A)),
  (forall fn, In fn funcs -> shortcut_guard apply gen_pivot_single_row_bypasses_func gen_pivot_unique_group_takes_raw fn) ->
  M_pivot ieqb ceqb isort csort apply gen_pivot_single_row_bypasses_func gen_pivot_unique_group_takes_raw fill nd funcs rows =
  mk_sframe (isort (index_keys ieqb rows)) (pivot_columns ceqb csort rows nd funcs)
    (tab (isort (index_keys ieqb rows)) (pivot_columns ceqb csort rows nd funcs)
         (fun i ckf => S_pivot_cell ieqb ceqb apply fill rows i (fst ckf) (fst (snd ckf)) (snd (snd ckf)))).
Proof. intros I C A F ieqb ceqb isort csort apply H. exact (@pivot_refines I C A F ieqb ceqb isort csort apply H gen_pivot_single_row_bypasses_func gen_pivot_unique_group_takes_raw). Qed.
Print Assumptions C20_pivot_refines_regenerated.

(* pivot_shape: one row per distinct index-field value, one column per distinct column-field value
   x data field x function *)
Theorem C20_pivot_shape : forall (I C A F : Type) (ieqb : I -> I -> bool) (ceqb : C -> C -> bool)
  (isort : list I -> list I) (csort : list C -> list C) (apply : F -> list A -> A),
  (forall a b, ieqb a b = true <-> a = b) -> (forall a b, ceqb a b = true <-> a = b) ->
  forall bypass raw fill nd funcs (rows : list (prow I C A)),
  (forall l, Permutation (isort l) l) -> (forall l, Permutation (csort l) l) ->
  let m := M_pivot ieqb ceqb isort csort apply bypass raw fill nd funcs rows in
  NoDup (sf_rows m) /\ (forall i, In i (sf_rows m) <-> exists r, In r rows /\ p_i r = i) /\
  (NoDup funcs -> NoDup (sf_cols m)) /\
  (forall c k fn, In (c, (k, fn)) (sf_cols m) <-> (exists r, In r rows /\ p_c r = c) /\ (k < nd)%nat /\ In fn funcs).
Proof. exact (@pivot_shape). Qed.
Print Assumptions C20_pivot_shape.

(* the rows that feed a cell are exactly the source rows with that pair *)
Theorem C20_pivot_cell_sources : forall (I C A : Type) (ieqb : I -> I -> bool) (ceqb : C -> C -> bool),
  (forall a b, ieqb a b = true <-> a = b) -> (forall a b, ceqb a b = true <-> a = b) ->
  forall (rows : list (prow I C A)) i c r,
  In r (filter (fun r => ieqb i (p_i r) && ceqb c (p_c r)) rows) <-> In r rows /\ p_i r = i /\ p_c r = c.
Proof. exact (@pivot_cell_sources). Qed.
Print Assumptions C20_pivot_cell_sources.
