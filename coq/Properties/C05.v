(* C05 -- property theorems only; each closed by `exact` and followed by Print Assumptions.
   A is any label type with a Boolean equality that decides equality; `level A` is the IndexLevel tree
   (labels, parent-relative offsets, children); flatten t is the sequence of label tuples it denotes. *)
Require Import SF.Prelude SF.PySlice SF.Hier.
Require Import Gen.Gen_c05.
Require Import Proofs.HierBfs Proofs.HierViews Proofs.HierHloc Proofs.HierCols Proofs.HierLookup Proofs.HierGO Proofs.HierSpec Proofs.HierDrop Proofs.HierAll.

(* The deque walk of IndexLevel.__iter__ (what list(ih) runs) yields exactly the depth-first sequence of
   label tuples, for every tree of uniform depth: any depth, any ragged fan-out. *)
Theorem C05_iter_is_flatten : forall (A : Type) (t : level A) (h : nat),
  uniform h t = true -> M_iter t = Ok (flatten t).
Proof. exact iter_is_flatten. Qed.
Print Assumptions C05_iter_is_flatten.

(* Tree views = table views: iteration, length, depth, every per-depth array (computed through label widths,
   i.e. through the stored offsets of the next sibling), the _blocks cache content, membership (keys of
   any length) and label -> position lookup (offsets accumulated along the path) all describe flatten t. *)
Theorem C05_views_agree : forall (A : Type) (eqb : A -> A -> bool),
  (forall x y, eqb x y = true <-> x = y) ->
  forall (t : level A) (h : nat), wf A eqb h t = true ->
    M_iter t = Ok (flatten t) /\
    lv_len t = Z.of_nat (length (flatten t)) /\
    lv_depth t = S h /\
    Forall (fun r => length r = S h) (flatten t) /\
    (forall d, M_values_at_depth t d = Ok (S_column (flatten t) d)) /\
    (forall d, M_labels_at_depth t d = Ok (S_column (flatten t) d)) /\
    M_blocks t = Ok (map (S_column (flatten t)) (seq 0 (S h))) /\
    (forall key, M_contains A eqb key t = S_contains A eqb (flatten t) key) /\
    (forall key, M_leaf_loc A eqb key t 0 = S_lookup A eqb (flatten t) key).
Proof. exact views_agree. Qed.
Print Assumptions C05_views_agree.

(* hloc_exact: the breadth-first HLoc resolution (deque of (level, depth, offset), LocMap lookups with
   partial_selection, `except KeyError: pass`, flattening of the collected parts) returns exactly what the
   nested-loop specification over the flat tuples demands -- positions, their order (a list selector orders
   its level by the list) and the single-position flag -- for every well-formed tree and every key inside
   the guard (Boolean arrays and stepped label slices at the innermost depth only; masks of the index length;
   step <> 0; a slice walking down is closed; at most one selector per depth).  Half-open label slices at every depth are covered (open ends bounded by the leaf, fix cc33791). *)
Theorem C05_hloc_exact : forall (A : Type) (eqb : A -> A -> bool),
  (forall x y, eqb x y = true <-> x = y) ->
  forall (key : list (sel A)) (t : level A) (h : nat),
    wf A eqb h t = true -> key_guard A (S h) (Z.to_nat (lv_len t)) key = true ->
    (forall r, S_hloc A eqb (flatten t) key = Ok r -> M_hloc A eqb t key = Ok r) /\
    (forall b ps, M_hloc A eqb t key = Ok (b, ps) -> ps <> [] -> S_hloc A eqb (flatten t) key = Ok (b, ps)) /\
    (forall e, S_select A eqb (S h) (flatten t) 0 key O = Err e -> exists e', M_hloc A eqb t key = Err e').
Proof. exact hloc_exact. Qed.
Print Assumptions C05_hloc_exact.

(* However it was built: whatever the from_labels / _from_type_blocks builder accepts is a well-formed tree
   that denotes exactly the given tuples (so C05_views_agree and C05_hloc_exact apply to it). *)
Theorem C05_from_labels_exact : forall (A : Type) (eqb : A -> A -> bool),
  (forall x y, eqb x y = true <-> x = y) ->
  forall (rows : list (list A)) (t : level A), M_from_labels A eqb rows = Ok t ->
    exists h, wf A eqb h t = true /\ flatten t = rows /\ rows_depth rows = S h /\ (1 <= h)%nat.
Proof. exact from_labels_exact. Qed.
Print Assumptions C05_from_labels_exact.

(* IndexHierarchyGO.append, for EVERY key: an admitted append adds exactly that tuple at the end and keeps
   the tree well formed (offset of the new subtree included); a rejected one (wrong length, duplicate, or a
   label that exists under an earlier branch -- the former D4 class, now RuntimeError) leaves tree and cache
   unchanged. *)
Theorem C05_append_exact : forall (A : Type) (eqb : A -> A -> bool),
  (forall x y, eqb x y = true <-> x = y) ->
  forall (t : level A) (h : nat) (key : list A),
    wf A eqb h t = true ->
    (forall t', M_append A eqb t key = Ok t' -> flatten t' = flatten t ++ [key] /\ wf A eqb h t' = true) /\
    (forall e (st : ihgo A), g_tree st = t -> M_append A eqb t key = Err e -> go_step A eqb st (OAppend key) = st).
Proof. exact append_exact. Qed.
Print Assumptions C05_append_exact.

(* IndexHierarchyGO.extend: a successful extend appends exactly the tuples of the other index. *)
Theorem C05_extend_exact : forall (A : Type) (eqb : A -> A -> bool),
  (forall x y, eqb x y = true <-> x = y) ->
  forall (t u : level A) (h : nat) (t' : level A),
    wf A eqb h t = true ->
    uniform h u = true /\ offsets_ok u = true /\ labels_ok A eqb u = true ->
    M_extend A eqb t u = Ok t' ->
    flatten t' = flatten t ++ flatten u /\ wf A eqb h t' = true.
Proof. exact extend_exact. Qed.
Print Assumptions C05_extend_exact.

(* All histories: after ANY sequence of append / extend / read (reads materialise the cached arrays at
   arbitrary points; rejected operations add nothing: hist_rows) the tree is well formed, denotes the initial
   tuples followed by the added ones, and the lazily synchronised cache is coherent.  The only hypothesis on
   the operations is that an extend operand is itself a well-formed tree. *)
Theorem C05_go_history : forall (A : Type) (eqb : A -> A -> bool),
  (forall x y, eqb x y = true <-> x = y) ->
  forall (ops : list (op A)) (st : ihgo A) (h : nat),
    wf A eqb h (g_tree st) = true -> coherent A st -> forallb (op_dom A eqb h) ops = true ->
    wf A eqb h (g_tree (fold_left (go_step A eqb) ops st)) = true /\
    flatten (g_tree (fold_left (go_step A eqb) ops st)) = flatten (g_tree st) ++ hist_rows A eqb st ops /\
    coherent A (fold_left (go_step A eqb) ops st).
Proof. exact go_history. Qed.
Print Assumptions C05_go_history.

(* ... and what values_at_depth then answers through the cache is the columns of those tuples. *)
Theorem C05_history_blocks : forall (A : Type) (eqb : A -> A -> bool),
  (forall x y, eqb x y = true <-> x = y) ->
  forall (ops : list (op A)) (st : ihgo A) (h : nat),
    wf A eqb h (g_tree st) = true -> coherent A st -> forallb (op_dom A eqb h) ops = true ->
    go_blocks (fold_left (go_step A eqb) ops st) =
    Ok (map (S_column (flatten (g_tree st) ++ hist_rows A eqb st ops)) (seq 0 (S h))).
Proof. exact history_blocks. Qed.
Print Assumptions C05_history_blocks.

(* Deriving a new index from the grown object (Series/Frame index=, IndexHierarchy(ihgo), IndexHierarchyGO(ihgo),
   rename, to_frame) at any point of any history: same tuples, coherent cache, table views = columns of those
   tuples -- the blocks are handed over only when fresh. *)
Theorem C05_derive_no_stale_table : forall (A : Type) (eqb : A -> A -> bool),
  (forall x y, eqb x y = true <-> x = y) ->
  forall (ops : list (op A)) (st : ihgo A) (h : nat),
    wf A eqb h (g_tree st) = true -> coherent A st -> forallb (op_dom A eqb h) ops = true ->
    let d := M_derive A (fold_left (go_step A eqb) ops st) in
    flatten (g_tree d) = flatten (g_tree st) ++ hist_rows A eqb st ops /\
    coherent A d /\
    go_blocks d = Ok (map (S_column (flatten (g_tree st) ++ hist_rows A eqb st ops)) (seq 0 (S h))).
Proof. exact derive_no_stale_table. Qed.
Print Assumptions C05_derive_no_stale_table.

(* What the specification selects, said without loops: for selectors `:` / label / list of labels the nested
   loop S_select returns exactly the positions whose tuple matches every level selector (row_match). *)
Theorem C05_spec_selects_matching : forall (A : Type) (eqb : A -> A -> bool),
  (forall x y, eqb x y = true <-> x = y) ->
  forall (key : list (sel A)) (t : level A) (h : nat),
    uniform h t = true -> labels_ok A eqb t = true ->
    forall base d, (forall d', (d <= d' <= d + h)%nat -> simple A (sel_at key d') = true) ->
    exists ps, S_select A eqb (S h) (flatten t) base key d = Ok ps /\
      forall p, In p ps <->
        exists i row, nth_error (flatten t) i = Some row /\ p = base + Z.of_nat i /\ row_match A eqb key d row = true.
Proof. exact S_select_char. Qed.
Print Assumptions C05_spec_selects_matching.

(* ... hence, in the words of the property: the HLoc resolution of the implementation model returns exactly the
   positions whose tuple matches every level selector. *)
Theorem C05_hloc_selects_matching : forall (A : Type) (eqb : A -> A -> bool),
  (forall x y, eqb x y = true <-> x = y) ->
  forall (key : list (sel A)) (t : level A) (h : nat),
    wf A eqb h t = true -> (length key <= S h)%nat ->
    (forall d, (d <= h)%nat -> simple A (sel_at key d) = true) ->
    forall b ps, M_hloc A eqb t key = Ok (b, ps) ->
    forall p, In p ps <->
      exists i row, nth_error (flatten t) i = Some row /\ p = Z.of_nat i /\ row_match A eqb key 0 row = true.
Proof. exact hloc_selects_matching. Qed.
Print Assumptions C05_hloc_selects_matching.

(* level_drop(-1): the tree the implementation leaves behind (the model M_drop_inner, compared node by node with the real
   tree on every run) denotes exactly the specified tuples -- every tuple without its last component, the rows of one
   former leaf collapsed into one.  What it gets wrong is only the offsets (Refuted: C05_level_drop_inner_offsets_refuted). *)
Theorem C05_level_drop_tuples : forall (A : Type) (eqb : A -> A -> bool),
  (forall x y, eqb x y = true <-> x = y) ->
  forall (t : level A) (h : nat),
    uniform (S h) t = true -> labels_ok A eqb t = true ->
    flatten (M_drop_inner A t) = S_drop_inner A eqb (flatten t).
Proof. exact drop_inner_tuples. Qed.
Print Assumptions C05_level_drop_tuples.

(* The source still has the shape the implementation model M is written against (regenerated every run). *)
Theorem C05_source_shape :
  gen_hloc_next_offset_is_sum = true /\
  gen_hloc_leaf_lookup_partial = true /\
  gen_hloc_leaf_lookup_offset = "next_offset"%string /\
  gen_hloc_node_lookup_partial = true /\
  gen_hloc_keyerror_pass_count = 2 /\
  gen_hloc_default_selector_is_null_slice = true /\
  gen_key_multiple_types = ["slice"%string; "list"%string; "ndarray"%string] /\
  gen_go_append_descends_last_edge = true /\
  gen_go_append_new_offset_is_len = true /\
  gen_go_append_rejects_non_last_label = true /\
  gen_locmap_open_slice_ends_bounded = true /\
  gen_contains_requires_key_end = true /\
  gen_ih_init_hands_over_blocks_only_if_fresh = true /\
  gen_index_loc_refreshes_cache_for_every_key = true /\
  gen_ih_values_at_depth_refreshes_iff_recache = true /\
  gen_ih_every_cache_refresh_guarded_by_recache = true /\
  gen_ih_methods_refreshing_cache =
    ["IndexHierarchy.__copy__"%string; "IndexHierarchy.__deepcopy__"%string; "IndexHierarchy.__reversed__"%string; "IndexHierarchy._drop_iloc"%string; "IndexHierarchy._extract_iloc"%string; "IndexHierarchy._sample_and_key"%string; "IndexHierarchy._to_frame"%string; "IndexHierarchy._ufunc_axis_skipna"%string; "IndexHierarchy._ufunc_binary_operator"%string; "IndexHierarchy._ufunc_set"%string; "IndexHierarchy._ufunc_unary_operator"%string; "IndexHierarchy.display"%string; "IndexHierarchy.dtypes"%string; "IndexHierarchy.fillna"%string; "IndexHierarchy.isin"%string; "IndexHierarchy.mloc"%string; "IndexHierarchy.nbytes"%string; "IndexHierarchy.rehierarch"%string; "IndexHierarchy.relabel"%string; "IndexHierarchy.roll"%string; "IndexHierarchy.sort"%string; "IndexHierarchy.to_pandas"%string; "IndexHierarchy.values"%string; "IndexHierarchy.values_at_depth"%string; "IndexHierarchy.via_dt"%string; "IndexHierarchy.via_str"%string; "IndexHierarchyAsType.__call__"%string; "IndexHierarchyGO.__copy__"%string] /\
  gen_go_append_sets_recache = true /\
  gen_go_extend_sets_recache = true.
Proof. exact source_shape_ok. Qed.
Print Assumptions C05_source_shape.
