(* C02 -- property theorems only; each closed by `exact` and followed by Print Assumptions.
   Labels are SF.Value.val in canonical form (Python equality = structural equality); a key is a
   pair (label, its Python class is an integer type).  M_* model static_frame/core/index.py. *)
Require Import SF.Prelude SF.Value SF.PySlice SF.IndexBij SF.IndexBijVal
  Proofs.IndexBijFacts Proofs.IndexBijMain Proofs.IndexBijVal.

(* Index(labels), observed through values / iteration / reversed / len / positions / iloc / loc_to_iloc
   / `in` for ANY probe keys, is exactly the specification "the index is the label list" -- including
   the rejection of non-unique labels. *)
Theorem C02_index_refines : forall (l : list val) (probes : list (key val)),
  M_index val_eqb vto_Z l probes = S_index val_eqb l probes.
Proof. exact v_index_refines. Qed.
Print Assumptions C02_index_refines.

(* construction is accepted exactly for pairwise distinct labels; otherwise ErrorInitIndex *)
Theorem C02_index_accepts_iff : forall l : list val,
  (NoDup l -> exists ix, M_index_init val_eqb l = Ok ix) /\
  (~ NoDup l -> M_index_init val_eqb l = Err "ErrorInitIndex").
Proof. exact v_index_accepts_iff. Qed.
Print Assumptions C02_index_accepts_iff.

(* every constructed index is an exact bijection label <-> position *)
Theorem C02_index_bijection : forall (l : list val) (ix : index val), M_index_init val_eqb l = Ok ix ->
  NoDup l /\ ix_labels ix = l /\
  (forall i x t, nth_error l i = Some x -> M_loc_to_iloc val_eqb vto_Z ix (x, t) = Ok (Z.of_nat i)) /\
  (forall k z, M_loc_to_iloc val_eqb vto_Z ix k = Ok z -> 0 <= z < zlen l /\ nth_error l (Z.to_nat z) = Some (fst k)) /\
  (forall k, M_contains val_eqb vto_Z ix k = true <-> In (fst k) l) /\
  (forall k, ~ In (fst k) l -> M_loc_to_iloc val_eqb vto_Z ix k = Err "KeyError").
Proof. exact v_index_bijection. Qed.
Print Assumptions C02_index_bijection.
