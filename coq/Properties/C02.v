(* C02 -- property theorems only; each closed by `exact` and followed by Print Assumptions.
   Labels are SF.Value.val in canonical form (Python equality = structural equality); a key is a
   pair (label, its Python class is an integer type).  M_* model static_frame/core/index.py. *)
Require Import SF.Prelude SF.Value SF.PySlice SF.IndexBij SF.IndexBijVal SF.IxTree SF.IxTreeVal
  Proofs.IndexBijFacts Proofs.IndexBijMain Proofs.IndexBijGO Proofs.IndexBijDerive Proofs.IndexBijVal
  Proofs.IxTreeIns Proofs.IxTreeBuild Proofs.IxTreeLookup Proofs.IxTreeOrder Proofs.IxTreeVal.

(* Index(labels), observed through values / iteration / reversed / len / positions / iloc / loc_to_iloc
   / `in` for ANY probe keys, is exactly the specification "the index is the label list" -- including
   the rejection of non-unique labels. *)
Theorem C02_index_refines : forall (l : list val) (probes : list (key val)),
  M_index val_eqb vto_Z l probes = S_index val_eqb l probes.
Proof. exact v_index_refines. Qed.
Print Assumptions C02_index_refines.

(* construction is accepted exactly for pairwise distinct labels; otherwise ErrorInitIndex *)
Theorem C02_index_accepts_iff : forall l : list val,
  (NoDup l -> exists ix, M_index_init val_eqb l = Ok ix) /\
  (~ NoDup l -> M_index_init val_eqb l = Err "ErrorInitIndex").
Proof. exact v_index_accepts_iff. Qed.
Print Assumptions C02_index_accepts_iff.

(* every constructed index is an exact bijection label <-> position *)
Theorem C02_index_bijection : forall (l : list val) (ix : index val), M_index_init val_eqb l = Ok ix ->
  NoDup l /\ ix_labels ix = l /\
  (forall i x t, nth_error l i = Some x -> M_loc_to_iloc val_eqb vto_Z ix (x, t) = Ok (Z.of_nat i)) /\
  (forall k z, M_loc_to_iloc val_eqb vto_Z ix k = Ok z -> 0 <= z < zlen l /\ nth_error l (Z.to_nat z) = Some (fst k)) /\
  (forall k, M_contains val_eqb vto_Z ix k = true <-> In (fst k) l) /\
  (forall k, ~ In (fst k) l -> M_loc_to_iloc val_eqb vto_Z ix k = Err "KeyError").
Proof. exact v_index_bijection. Qed.
Print Assumptions C02_index_bijection.

(* auto-integer index (no hash map at all: labels ARE positions): bijection for its own labels *)
Theorem C02_auto_bijection : forall n : nat,
  NoDup (ix_labels (M_index_auto VInt n)) /\
  (forall i, (i < n)%nat -> nth_error (ix_labels (M_index_auto VInt n)) i = Some (VInt (Z.of_nat i))) /\
  (forall i, (i < n)%nat -> M_loc_to_iloc val_eqb vto_Z (M_index_auto VInt n) (VInt (Z.of_nat i), KInt) = Ok (Z.of_nat i)) /\
  (forall z, M_contains val_eqb vto_Z (M_index_auto VInt n) (VInt z, KInt) = true <-> 0 <= z < Z.of_nat n).
Proof. exact v_auto_bijection. Qed.
Print Assumptions C02_auto_bijection.

(* ... and it is observationally the specification index over [0..n-1] for every probe key except a
   non-integer-typed key equal to a held position (1.0 on [0,1,2]: Refuted/C02_float_key.v, the only
   case auto_key_ok excludes; negative ints, out-of-range bools and None are refused since fix 041ca90) *)
Theorem C02_auto_refines : forall (n : nat) (probes : list (key val)),
  forallb (auto_key_ok val vto_Z n) probes = true ->
  M_auto val_eqb VInt vto_Z n probes = S_auto val_eqb VInt n probes.
Proof. exact v_auto_refines. Qed.
Print Assumptions C02_auto_refines.

(* grow-only index, started from IndexGO(labels) or from an auto-integer IndexGO: after ANY history of
   append / extend (all-or-nothing since fix c675c22) / reader calls the state is a bijection (go_wf:
   labels distinct, count = length, map = positions or labels = 0..n-1) and holds exactly the labels of
   the specification list, every single outcome (accepted / rejected) agreeing.  The guard go_dom only
   restricts the VALUES OF AN EXTEND on a still map-less index: none of them may be a non-integer-typed
   key equal to a held position (1.0 on [0,1]) -- such a key is not "contained" (finding
   C02-auto-float-key, Refuted/C02_float_key.v) and slips through the validation of extend.  Appends
   are unguarded (fix feb832d). *)
Theorem C02_go_history : forall (g : go val) (ops : list (op val)),
  (exists l, M_go_init val_eqb l = Ok g) \/ (exists n, g = M_go_auto VInt n) ->
  go_dom val_eqb vto_Z g ops = true ->
  vgo_wf (fst (M_go_run val_eqb vto_Z g ops)) /\
  (g_mut (fst (M_go_run val_eqb vto_Z g ops)), map is_ok (snd (M_go_run val_eqb vto_Z g ops)))
    = S_go_run val_eqb (g_mut g) ops.
Proof. exact v_go_history. Qed.
Print Assumptions C02_go_history.

(* the specification history: labels stay distinct and the initial labels stay a prefix, in order *)
Theorem C02_go_labels_laws : forall (ops : list (op val)) (l : list val), NoDup l ->
  NoDup (fst (S_go_run val_eqb l ops)) /\ exists added, fst (S_go_run val_eqb l ops) = l ++ added.
Proof. exact v_go_labels_laws. Qed.
Print Assumptions C02_go_labels_laws.

(* a grown index in a bijection state is observationally the specification index over its labels, stale
   caches or not (fix 41fcfc5); on a still map-less state for the probes of auto_key_ok *)
Theorem C02_go_observe : forall (g : go val) (probes : list (key val)),
  vgo_wf g -> forallb (go_probe_ok val vto_Z g) probes = true ->
  M_go_observe val_eqb vto_Z g probes = S_observe val_eqb (g_mut g) probes.
Proof. exact v_go_observe. Qed.
Print Assumptions C02_go_observe.

(* IndexHierarchy.from_labels (dict-tree walk with the shared observed_last list, levels with relative
   offsets, leaf_loc_to_iloc adding offsets, __contains__): observed through every reader it is exactly
   the specification "the index is the label table", accepted iff the labels have one depth >= 2, are
   pairwise distinct and tree-ordered -- for every label table and ALL probe keys (short, over-long and
   absent ones included; unguarded since fix 248eb88 of IndexLevel.__contains__) *)
Theorem C02_hier_refines : forall (labs probes : list (list val)),
  M_from_labels_obs val_eqb labs probes = S_from_labels val_eqb labs probes.
Proof. exact v_from_labels_refines. Qed.
Print Assumptions C02_hier_refines.

(* every accepted hierarchical index lists the labels in the given order and is an exact bijection *)
Theorem C02_hier_bijection : forall (labs : list (list val)) (lv : level val),
  M_from_labels val_eqb labs = Ok lv ->
  flatten lv = labs /\ NoDup labs /\ lv_len lv = zlen labs /\
  (forall i key, nth_error labs i = Some key -> M_leaf_loc_to_iloc val_eqb lv key = Ok (Z.of_nat i)) /\
  (forall key z, M_leaf_loc_to_iloc val_eqb lv key = Ok z -> 0 <= z /\ nth_error labs (Z.to_nat z) = Some key) /\
  (forall key, ~ In key labs -> M_leaf_loc_to_iloc val_eqb lv key = Err "KeyError").
Proof. exact v_from_labels_bijection. Qed.
Print Assumptions C02_hier_bijection.

(* derivations build their result through the constructor on computed labels; the label computations
   keep an index an index: selection by positions is accepted exactly when no position repeats *)
Theorem C02_derive_select : forall (l : list val) (ps : list Z) (l' : list val),
  NoDup l -> S_select l ps = Some l' ->
  ((exists ix, M_index_init val_eqb l' = Ok ix) <-> NoDup ps).
Proof. exact v_derive_select. Qed.
Print Assumptions C02_derive_select.

(* dropping positions: always accepted, holds exactly the labels at the other positions *)
Theorem C02_derive_drop : forall (l : list val) (ps : list Z), NoDup l ->
  (exists ix, M_index_init val_eqb (S_drop l ps) = Ok ix) /\
  forall x, In x (S_drop l ps) <-> exists j, nth_error l j = Some x /\ ~ In (Z.of_nat j) ps.
Proof. exact v_derive_drop. Qed.
Print Assumptions C02_derive_drop.

(* roll: always accepted, a permutation of the same labels *)
Theorem C02_derive_roll : forall (l : list val) (shift : Z), NoDup l ->
  (exists ix, M_index_init val_eqb (S_roll l shift) = Ok ix) /\
  Permutation l (S_roll l shift) /\ length (S_roll l shift) = length l.
Proof. exact v_derive_roll. Qed.
Print Assumptions C02_derive_roll.

(* the acceptance test of the hierarchical specification, read declaratively: the table is "a tree in
   the given order" iff labels sharing a proper prefix are contiguous (between two rows that agree on
   their first p components every row agrees with them on those components) *)
Theorem C02_tree_order_is_contiguity : forall (d : nat) (labs : list (list val)),
  Forall (fun x => length x = d) labs ->
  (tree_ordered val_eqb d labs = true <-> contiguous val d labs).
Proof. exact v_tree_ordered_contiguous. Qed.
Print Assumptions C02_tree_order_is_contiguity.

(* Index(labels, dtype=d): the map is built from the labels as given, the values from the converted
   labels; when the conversion changes no label (under Python equality) the index is the specification
   index (otherwise: Refuted/C02_dtype_map.v, finding C02-init-dtype-map-mismatch) *)
Theorem C02_index_dtype_refines : forall (l : list val) (probes : list (key val)),
  M_index_dtype val_eqb vto_Z l l probes = S_index val_eqb l probes.
Proof. exact v_index_dtype_refines. Qed.
Print Assumptions C02_index_dtype_refines.

(* IndexHierarchy.level_drop(1) (labels of the second depth concatenated into a new root, grand-children
   kept as they are) on an index with ONE outermost group: the result is well formed and its lookups are
   exactly the positions in the table of the labels without their first component.  (Two or more
   groups: the kept offsets are wrong, Refuted/C02_level_drop_offsets.v.) *)
Theorem C02_level_drop_single_group : forall (d : nat) (o : Z) (k : val) (t : level val),
  lwf val d t -> match t with LNode _ _ [] => False | _ => True end ->
  exists t', M_level_drop1 val_eqb (LNode o [k] [t]) = Ok t' /\ lwf val d t' /\ flatten t' = flatten t /\
             (forall key pos, leaf_loc val_eqb key t' pos =
                match lindex_of val_eqb key (flatten t) with Some i => Ok (pos + i) | None => Err "KeyError" end).
Proof. exact v_level_drop1_single_group. Qed.
Print Assumptions C02_level_drop_single_group.
