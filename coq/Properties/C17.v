(* C17 -- property theorems only; each closed by `exact` and followed by Print Assumptions.
   S = SF/BusSpec.v (eager association list + abstract LRU cache), M = SF/Bus.v (bus.py statement by statement),
   Gen/Gen_c17.v = Store._mtime_coherent/_mtime_update and the coherence decorators regenerated from store*.py. *)
Require Import SF.Prelude SF.PySlice SF.BusSpec SF.Bus Gen.Gen_c17.
Require Import Proofs.BusSpecFacts Proofs.BusSpecInv Proofs.BusRel Proofs.BusUpdate Proofs.BusRefine Proofs.BusInit Proofs.BusLRU Proofs.BusStale Proofs.BusReader.

(* The statements of bus.py the property hinges on have the REPAIRED shape now (constants regenerated from the source on
   every run): config[label] on the max_persist == 1 path (71280f9), LRU position updated only after the read succeeded
   (dee625c), get through _extract_loc (5b16856), iter_element / iter_element_items through values / items() (949c364),
   sort_values deriving from the Bus's own Series (615b06f).  Reverting any of them flips a constant in Gen/Gen_c17.v; this
   theorem and C17_bus_refines_spec (whose proof rests on it) then stop compiling. *)
Theorem C17_repairs_in_place :
  reader_cfg_by_label = true /\ lru_update_after_read = true /\ get_loads = true /\
  iter_element_loads = true /\ iter_element_items_loads = true /\ sort_values_from_own_series = true.
Proof. exact repairs_in_place. Qed.
Print Assumptions C17_repairs_in_place.

(* REFINEMENT, EVERY history, no domain restriction.  A Bus opened on any store (duplicate-free labels, any contents, any
   per-label configuration, a recorded mtime) with max_persist None or >= 1, driven through ANY history -- selections by
   label / list / slice / Boolean / position through loc, iloc or [], items(), values, keys, status, get, iter_element,
   iter_element_items, drop, reindex, sort_index, sort_values (any max_persist), continuing on the derived Bus or not, the
   file touched / rewritten / removed / put back at any point -- makes the implementation model (which follows the code
   through the regenerated constants above) answer EXACTLY what the specification answers: the same Frames (those an eager
   load returns), the same labels in the same order, the same loaded flags after every step, the same exceptions. *)
Theorem C17_bus_refines_spec :
  forall (L F : Type) (leqb lleb : L -> L -> bool) (fkey : F -> Z),
  (forall x y : L, leqb x y = true <-> x = y) ->
  forall (st : store L F) (mp : option Z) (ops : list (op L)) (r : Z),
  NoDup (map fst (st_content L F st)) ->
  st_recorded L F st = Some r ->
  (forall k : Z, mp = Some k -> 1 <= k) ->
  exists m0 : mbus L F,
    m_open L F st mp = Ok m0 /\
    m_run L F leqb lleb fkey st m0 ops = s_run L F leqb lleb fkey st (s_open L F st mp) ops.
Proof. exact bus_refines_spec. Qed.
Print Assumptions C17_bus_refines_spec.

(* Bus.__init__ itself (the public constructor Bus(series, store=, max_persist=) and every Bus._derive): for ANY Series of
   Frames / FrameDeferred whose Frames are the ones the store holds, the constructor refuses exactly when more Frames are
   held than max_persist allows (ErrorInitBus), and otherwise the Bus answers EVERY history like the specification started
   with the held labels as its cache, in index order (they are evicted in that order). *)
Theorem C17_init_refines_spec :
  forall (L F : Type) (leqb lleb : L -> L -> bool) (fkey : F -> Z),
  (forall x y : L, leqb x y = true <-> x = y) ->
  forall (st : store L F) (labels : list L) (slots : list (option F)) (mp : option Z) (r : Z),
  NoDup labels -> length slots = length labels ->
  (forall (l : L) (f : F), slot_of L F leqb labels slots l = Some f -> eager L F leqb st l = Some f) ->
  (forall l : L, In l labels -> exists f fd : F, assoc L leqb l (st_content L F st) = Some (f, fd)) ->
  st_recorded L F st = Some r ->
  (forall k : Z, mp = Some k -> 1 <= k) ->
  let held := loaded_labels L F labels slots in
  if match mp with Some k => k <? Z.of_nat (length held) | None => false end
  then m_init L F labels slots mp = Err "ErrorInitBus"
  else exists m0 : mbus L F,
         m_init L F labels slots mp = Ok m0 /\
         forall ops : list (op L),
           m_run L F leqb lleb fkey st m0 ops = s_run L F leqb lleb fkey st (mk_sbus L labels held mp) ops.
Proof. exact init_refines. Qed.
Print Assumptions C17_init_refines_spec.

(* BOUNDED, every history (no domain restriction): never more than max_persist loaded flags *)
Theorem C17_spec_bounded :
  forall (L F : Type) (leqb lleb : L -> L -> bool) (fkey : F -> Z),
  (forall x y : L, leqb x y = true <-> x = y) ->
  forall (st : store L F) (k : Z) (ops : list (op L)),
  NoDup (map fst (st_content L F st)) -> 1 <= k ->
  count_true (s_flags L leqb (snd (s_exec L F leqb lleb fkey st (s_open L F st (Some k)) ops))) <= k.
Proof. exact (fun L F leqb lleb fkey H => s_bound L leqb H F lleb fkey). Qed.
Print Assumptions C17_spec_bounded.

(* LEAST RECENTLY USED: after any sequence w of uses the cache of S is the suffix of length min(k, #distinct) of the
   distinct labels of w ordered by last use -- exactly the k most recently used, oldest first *)
Theorem C17_spec_is_lru :
  forall (L : Type) (leqb : L -> L -> bool),
  (forall x y : L, leqb x y = true <-> x = y) ->
  forall (k : nat) (w : list L), (1 <= k)%nat ->
  exists pre : list L,
    dedup_last L leqb w = pre ++ fold_left (fun c l => s_touch L leqb (Some (Z.of_nat k)) l c) w [] /\
    length (fold_left (fun c l => s_touch L leqb (Some (Z.of_nat k)) l c) w []) = Nat.min k (length (dedup_last L leqb w)).
Proof. exact lru_characterisation. Qed.
Print Assumptions C17_spec_is_lru.

Theorem C17_spec_no_limit_keeps_all :
  forall (L : Type) (leqb : L -> L -> bool),
  (forall x y : L, leqb x y = true <-> x = y) ->
  forall w : list L, fold_left (fun c l => s_touch L leqb None l c) w [] = dedup_last L leqb w.
Proof. exact no_limit_keeps_all. Qed.
Print Assumptions C17_spec_no_limit_keeps_all.

(* STALE FILE: the file no longer has the recorded mtime (touched, rewritten, removed) => a selection needing a Frame
   that is not in memory raises StoreFileMutation, returns no data and loads nothing; one served from memory answers *)
Theorem C17_stale_read_raises :
  forall (L F : Type) (leqb : L -> L -> bool),
  (forall x y : L, leqb x y = true <-> x = y) ->
  forall (st : store L F) (b : sbus L) (k : key L) (into single : bool) (ps : list nat) (r : Z) (f : option Z),
  st_recorded L F st = Some r -> st_file L F st = f -> f <> Some r ->
  cache_ok L (sb_mp L b) (sb_cache L b) ->
  resolve L leqb (sb_labels L b) k = Ok (single, ps) ->
  let ls := labels_at L (sb_labels L b) ps in
  ((exists l : L, In l ls /\ ~ In l (sb_cache L b)) ->
     fst (s_select L F leqb st b k into) = ObErr L F "StoreFileMutation" /\
     s_flags L leqb (snd (s_select L F leqb st b k into)) = s_flags L leqb b) /\
  ((forall l : L, In l ls -> In l (sb_cache L b)) ->
     fst (s_select L F leqb st b k into) <> ObErr L F "StoreFileMutation").
Proof. exact s_stale_select. Qed.
Print Assumptions C17_stale_read_raises.

(* the coherence decision AS THE CODE HAS IT NOW (regenerated): passes iff the file exists with the recorded mtime;
   every read entry point is decorated; __init__ records the mtime *)
Theorem C17_mtime_decision :
  forall (file : option Z) (r : Z),
  (mtime_coherent (is_some file) file (Some r) = true <-> file = Some r) /\
  reads_checked = true /\ init_records = true /\ mtime_update true (Some r) = Some r.
Proof. exact mtime_decision. Qed.
Print Assumptions C17_mtime_decision.

(* Bus._store_reader: every deferred label goes to the store exactly once, in order, in non-empty batches of at most max_persist *)
Theorem C17_reader_batches :
  forall (L : Type) (mp : option Z) (ls : list L),
  concat (reader_batches L mp ls) = ls /\
  (forall k : Z, mp = Some k -> 1 <= k ->
     Forall (fun b : list L => (1 <= length b)%nat /\ Z.of_nat (length b) <= k) (reader_batches L mp ls)).
Proof. exact reader_batches_spec. Qed.
Print Assumptions C17_reader_batches.

(* LAZY: an update reads from the store only labels its key addresses whose Frame was not loaded *)
Theorem C17_reads_are_lazy :
  forall (L F : Type) (leqb : L -> L -> bool),
  (forall x y : L, leqb x y = true <-> x = y) ->
  forall (st : store L F) (b : mbus L F) (single : bool) (ps : list nat) (e : option string) (b' : mbus L F)
         (log : list (list L)),
  NoDup (mb_labels L F b) -> mb_loaded L F b = map is_some (mb_slots L F b) ->
  (single = true -> exists p : nat, ps = [p]) ->
  m_update L F leqb st b single ps = (e, b', log) ->
  forall l : L, In l (concat log) ->
    In l (labels_at L (mb_labels L F b) ps) /\ slot_of L F leqb (mb_labels L F b) (mb_slots L F b) l = None.
Proof. exact update_reads_lazy. Qed.
Print Assumptions C17_reads_are_lazy.
