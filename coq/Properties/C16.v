(* C16 -- property theorems only; each closed by `exact` and followed by Print Assumptions. *)
Require Import SF.Prelude SF.Value Gen.Gen_c16 SF.Codec.
Require Import SF.CodecStruct.
Require Import Proofs.CodecCsv Proofs.CodecText Proofs.CodecType Proofs.CodecRoundtrip Proofs.CodecStructFacts.
Require Import Proofs.CodecConstants Proofs.CodecInt.

(* csv.reader's state machine inverts csv.writer(QUOTE_MINIMAL) on every record: any number of fields, any
   characters except line breaks (delimiter, quote, spaces, nothing at all), any delimiter that is not the
   quote character or a line break. *)
Theorem C16_csv_read_write : forall d fs,
  delim_ok d = true -> forallb no_nl fs = true ->
  csv_read_line d (csv_write_row d fs) = Some fs.
Proof. exact csv_read_write. Qed.
Print Assumptions C16_csv_read_write.

(* static-frame's text pipeline for one record -- csv.writer on export; on import csv.reader + TAB.join, or the
   raw line when the delimiter is TAB (as coded, read from the source on every run), then genfromtxt's
   strip-and-split -- gives the fields back for every record outside the refuted classes (record_ok). *)
Theorem C16_import_export_text : forall d fs,
  delim_ok d = true -> record_ok d fs = true ->
  res_map gen_split (sf_import_line d (sf_export_line d fs)) = Ok fs.
Proof. exact import_export_text. Qed.
Print Assumptions C16_import_export_text.

(* genfromtxt's column inference (bool, int64, float, str in that order, blank = missing) followed by the
   StoreFilter gives back every column, of any kind and length, whose cell texts are unambiguous for their type. *)
Theorem C16_decode_render_column : forall flt k vs, col_ok flt (k, vs) = true ->
  res_map (filter_col flt) (infer_col (map (render_val flt) vs)) = Ok (k, vs).
Proof. exact decode_render_column. Qed.
Print Assumptions C16_decode_render_column.

(* The refinement theorem: for every delimiter, every depth of index and of columns, with or without the index /
   the column labels, under either store filter, the modelled pipeline (Frame._to_str_records, csv.writer,
   from_delimited's reader-or-bypass, header rows, genfromtxt, StoreFilter, index columns, Index construction)
   returns the same labels, values and dtype kinds for every Frame of the domain. *)
Theorem C16_delimited_roundtrip : forall c f, dom c f = true -> M_roundtrip c f = S_roundtrip c f.
Proof. exact delimited_roundtrip. Qed.
Print Assumptions C16_delimited_roundtrip.

(* Integers: f'{z}' read by genfromtxt's int64 converter is z, for every int64 (negative, large), and the text is
   never a Boolean -- so every non-empty int column is unambiguous (col_ok) under any store filter; Boolean
   columns likewise. *)
Theorem C16_int_text_roundtrip : forall z, in_int64 z = true ->
  conv_int (render_Z z) = Some (Ok (VInt z)) /\ conv_bool (render_Z z) = None.
Proof. exact int_text_roundtrip. Qed.
Print Assumptions C16_int_text_roundtrip.

Theorem C16_int_column_ok : forall flt vs, vs <> [] ->
  forallb (fun v => match v with VInt z => in_int64 z | _ => false end) vs = true ->
  col_ok flt (KInt, vs) = true.
Proof. exact int_column_ok. Qed.
Print Assumptions C16_int_column_ok.

Theorem C16_bool_column_ok : forall flt vs, vs <> [] ->
  forallb (fun v => match v with VBool _ => true | _ => false end) vs = true ->
  col_ok flt (KBool, vs) = true.
Proof. exact bool_column_ok. Qed.
Print Assumptions C16_bool_column_ok.

(* The missing-value markers of the StoreFilter defaults as they are in the source now: what the encoder writes
   for NaN / None / +inf / -inf is decoded to the same marker. *)
Theorem C16_store_filter_markers :
  forallb (fun v => val_eqb (decode_str filter_default (st (render_val filter_default v))) v)
          [VNaN; VNone; VInf false; VInf true] = true.
Proof. exact store_filter_markers. Qed.
Print Assumptions C16_store_filter_markers.

(* to_pairs(0) and from_items are inverse on every rectangular Frame whose column kinds are the ones the values
   determine (any number of rows >= 1 and columns >= 1, any labels). *)
Theorem C16_pairs0_roundtrip : forall f, struct_dom f = true -> M_from_pairs0 (M_to_pairs0 f) = f.
Proof. exact pairs0_roundtrip. Qed.
Print Assumptions C16_pairs0_roundtrip.

(* to_pairs(1) and from_records_items are inverse (rows are transposed back into the same columns) whenever the
   rows are not coerced (a Frame of int and float columns only exports its rows as float64: same values, the
   int columns come back float -- still an equal Frame, checked by the correspondence). *)
Theorem C16_pairs1_roundtrip : forall f, struct_dom f = true -> numeric_mix f = false ->
  M_from_pairs1 (M_to_pairs1 f) = f.
Proof. exact pairs1_roundtrip. Qed.
Print Assumptions C16_pairs1_roundtrip.

(* the rows of a Frame given to from_records with its own index and columns rebuild the Frame. *)
Theorem C16_records_roundtrip : forall f, struct_dom f = true -> numeric_mix f = false ->
  M_from_records (tf_index f) (tf_columns f) (M_rows f) = f.
Proof. exact records_roundtrip. Qed.
Print Assumptions C16_records_roundtrip.

(* pickle: with __setstate__ as coded the content and names are unchanged and every block, label array and
   positions array is read-only again. *)
Theorem C16_pickle_roundtrip : forall f,
  pframe_content (M_unpickle f) = pframe_content f /\ all_readonly (M_unpickle f) = true.
Proof. exact pickle_roundtrip. Qed.
Print Assumptions C16_pickle_roundtrip.

(* For ANY well-formed StoreFilter (each marker written is in its own decoding set and in none tested before it) the
   markers NaN / None / +inf / -inf decode from their own text and are good cells of an object column; and the
   defaults regenerated from store_filter.py are well formed. *)
Theorem C16_markers_decode : forall flt v, filter_wf flt = true -> is_marker v = true ->
  decode_str flt (st (render_val flt v)) = v /\ cell_ok flt KObj v = true /\ is_sentinel flt (st (render_val flt v)) = true.
Proof. exact markers_decode. Qed.
Print Assumptions C16_markers_decode.

Theorem C16_default_filter_wf : filter_wf filter_default = true.
Proof. exact default_filter_wf. Qed.
Print Assumptions C16_default_filter_wf.
