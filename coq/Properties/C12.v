(* C12 -- property theorems only; each closed by `exact` and followed by Print Assumptions. *)
Require Import SF.Prelude SF.Dtype SF.Value SF.PyDyn SF.SortCore SF.SortModel.
Require Import Proofs.SortStable Proofs.SortLex Proofs.SortRefine Proofs.SortCache Proofs.SortGen Gen.Gen_util Gen.Gen_c12.

(* The effective default sort kind of every public sort method, and both constants of util.py,
   REGENERATED from the source, are stable kinds (a change to 'quicksort' breaks this). *)
Theorem C12_default_kind_stable :
  forallb (fun p => kind_is_stable (snd p)) sort_kind_defaults = true /\
  length sort_kind_defaults = 7%nat /\
  kind_is_stable DEFAULT_SORT_KIND = true /\ kind_is_stable DEFAULT_STABLE_SORT_KIND = true.
Proof. exact default_kinds_stable. Qed.
Print Assumptions C12_default_kind_stable.

(* For any element type and any total preorder: a sorted arrangement that keeps every class of
   equal keys in the same relative order as another sorted arrangement IS that arrangement.
   Hence "sorted + stable" determines the exact row order. *)
Theorem C12_stable_arrangement_unique : forall (A : Type) (leb : A -> A -> bool),
  (forall x y, leb x y = true \/ leb y x = true) ->
  forall l1 l2, StronglySorted (fun x y => leb x y = true) l1 -> StronglySorted (fun x y => leb x y = true) l2 ->
  (forall x, filter (eqv leb x) l1 = filter (eqv leb x) l2) -> l1 = l2.
Proof. exact (@stable_sorted_unique). Qed.
Print Assumptions C12_stable_arrangement_unique.

(* merge sort (the model of np.argsort(kind='mergesort')) is the specification sort *)
Theorem C12_mergesort_is_stable_sort : forall (A : Type) (leb : A -> A -> bool),
  (forall x y, leb x y = true \/ leb y x = true) ->
  (forall x y z, leb x y = true -> leb y z = true -> leb x z = true) ->
  forall l, M_msort leb l = S_sort leb l.
Proof. exact (@M_msort_is_S_sort). Qed.
Print Assumptions C12_mergesort_is_stable_sort.

(* LSD theorem: stable passes over the keys, first key of the list first (np.lexsort), are ONE stable
   sort under the lexicographic order whose primary key is the LAST of the list *)
Theorem C12_lexsort_is_lex_stable : forall (A : Type) (les : list (A -> A -> bool)),
  Forall preorderb les ->
  forall l, fold_left (fun perm le => S_sort le perm) les l = S_sort (lexs (rev les)) l.
Proof. exact (@fold_sorts_is_lex). Qed.
Print Assumptions C12_lexsort_is_lex_stable.

(* the order on observed values (numbers by value, NaN last, strings by code point) is a total preorder *)
Theorem C12_value_order_total_preorder : preorderb val_leb.
Proof. exact val_leb_preorder. Qed.
Print Assumptions C12_value_order_total_preorder.

(* the specified order, for any key vectors, any length, either direction: a permutation of the positions *)
Theorem C12_order_permutation : forall keys n asc, Permutation (S_order keys n asc) (seq 0 n).
Proof. exact S_order_perm. Qed.
Print Assumptions C12_order_permutation.

(* ascending: keys non-decreasing in the lexicographic order of the key vectors (first = primary) *)
Theorem C12_order_keys_nondecreasing : forall keys n,
  StronglySorted (fun i j => keys_le keys i j = true) (S_order keys n true).
Proof. exact S_order_sorted. Qed.
Print Assumptions C12_order_keys_nondecreasing.

(* descending: keys non-increasing *)
Theorem C12_order_desc_keys_nonincreasing : forall keys n,
  StronglySorted (fun i j => keys_le keys j i = true) (S_order keys n false).
Proof. exact S_order_desc_sorted. Qed.
Print Assumptions C12_order_desc_keys_nonincreasing.

(* stability: of two rows with equal keys the one that came first in the input comes first *)
Theorem C12_order_ties_keep_input_order : forall keys n l1 i l2 j l3,
  S_order keys n true = l1 ++ i :: l2 ++ j :: l3 -> eqv (keys_le keys) i j = true -> (i < j)%nat.
Proof. exact S_order_ties. Qed.
Print Assumptions C12_order_ties_keep_input_order.

(* the exact arrangement is determined by "sorted" + "stable" *)
Theorem C12_order_unique : forall keys n o,
  StronglySorted (fun i j => keys_le keys i j = true) o ->
  (forall x, filter (eqv (keys_le keys) x) o = filter (eqv (keys_le keys) x) (seq 0 n)) ->
  o = S_order keys n true.
Proof. exact S_order_unique. Qed.
Print Assumptions C12_order_unique.

(* the sorted Frame holds the same (label, row) associations; columns, dtypes, name unchanged *)
Theorem C12_rows_travel_whole : forall f keys asc,
  let r := S_frame_sort 1 f keys asc in
  Permutation (frame_rows r) (frame_rows f) /\
  frame_rows r = map (frame_row f) (S_order keys (length (of_index f)) asc) /\
  of_columns r = of_columns f /\ map fst (of_cols r) = map fst (of_cols f) /\ of_name r = of_name f.
Proof. exact S_frame_sort_rows_spec. Qed.
Print Assumptions C12_rows_travel_whole.

(* sorting the columns (sort_columns, sort_values axis 0): whole (label, dtype, column) triples travel *)
Theorem C12_cols_travel_whole : forall f keys asc,
  let r := S_frame_sort 0 f keys asc in
  Permutation (frame_cols r) (frame_cols f) /\
  frame_cols r = map (frame_col f) (S_order keys (length (of_columns f)) asc) /\
  of_index r = of_index f /\ of_name r = of_name f.
Proof. exact S_frame_sort_cols_spec. Qed.
Print Assumptions C12_cols_travel_whole.

Theorem C12_series_items_travel_whole : forall s keys asc,
  let r := S_series_sort s keys asc in
  Permutation (series_items r) (series_items s) /\
  series_items r = map (series_item s) (S_order keys (length (os_index s)) asc) /\
  os_dtype r = os_dtype s /\ os_name r = os_name s.
Proof. exact S_series_sort_spec. Qed.
Print Assumptions C12_series_items_travel_whole.

(* ---- refinement: the implementation model, with the loop directions / threshold / order[::-1]
   that the source states today (Gen.Gen_c12.code_params), computes the specification ---- *)

(* sort_index_for_order without a key function: every flat or hierarchical index, any depth *)
Theorem C12_sifo_refines : forall depth labels asc,
  M_sifo_top code_params depth labels None asc = Ok (S_order (index_keys depth labels) (length labels) asc).
Proof. exact code_sifo_index_refines. Qed.
Print Assumptions C12_sifo_refines.

(* ... with a key function returning a 1-D array / Index / >=2-column array / IndexHierarchy of the right length *)
Theorem C12_sifo_key_refines : forall depth labels c asc, sifo_dom (length labels) c = true ->
  M_sifo_top code_params depth labels (Some c) asc = Ok (S_order (cfs_keys c) (length labels) asc).
Proof. exact code_sifo_key_refines. Qed.
Print Assumptions C12_sifo_key_refines.

(* Frame.sort_values, both axes, with or without key function, any number of key vectors *)
Theorem C12_frame_sort_values_refines : forall axis f sel single keyres asc,
  (axis = 1 \/ axis = 0) ->
  let c := fsv_cfs axis (sf_obs f) sel single keyres in
  let n := fsv_n axis (sf_obs f) in
  fsv_dom n c = true ->
  fsv_zero_ok axis (sf_obs f) keyres = true ->
  fsv_hier_ok axis f (S_order (cfs_keys c) n asc) = true ->
  M_frame_sort_values code_params axis f sel single keyres asc =
  Ok (S_frame_sort axis (sf_obs f) (cfs_keys c) asc).
Proof. exact code_frame_sort_values_refines. Qed.
Print Assumptions C12_frame_sort_values_refines.

Theorem C12_frame_sort_index_refines : forall f asc,
  let keys := index_keys (sf_idepth f) (of_index (sf_obs f)) in
  hier_ok (sf_idepth f) (of_index (sf_obs f)) (S_order keys (length (of_index (sf_obs f))) asc) = true ->
  M_frame_sort_index code_params f None asc = Ok (S_frame_sort 1 (sf_obs f) keys asc).
Proof. exact code_frame_sort_index_refines. Qed.
Print Assumptions C12_frame_sort_index_refines.

Theorem C12_frame_sort_columns_refines : forall f asc,
  let keys := index_keys (sf_cdepth f) (of_columns (sf_obs f)) in
  hier_ok (sf_cdepth f) (of_columns (sf_obs f)) (S_order keys (length (of_columns (sf_obs f))) asc) = true ->
  M_frame_sort_columns code_params f None asc = Ok (S_frame_sort 0 (sf_obs f) keys asc).
Proof. exact code_frame_sort_columns_refines. Qed.
Print Assumptions C12_frame_sort_columns_refines.

Theorem C12_series_sort_index_refines : forall s asc,
  let keys := index_keys (ss_idepth s) (os_index (ss_obs s)) in
  hier_ok (ss_idepth s) (os_index (ss_obs s)) (S_order keys (length (os_index (ss_obs s))) asc) = true ->
  M_series_sort_index code_params s None asc = Ok (S_series_sort (ss_obs s) keys asc).
Proof. exact code_series_sort_index_refines. Qed.
Print Assumptions C12_series_sort_index_refines.

(* Series.sort_values, for EVERY key function result: sorted by it when it has the Series' length,
   RuntimeError otherwise (no guard on the key result; the first hypothesis says the Series is well formed) *)
Theorem C12_series_sort_values_refines : forall s keyres asc,
  length (os_values (ss_obs s)) = length (os_index (ss_obs s)) ->
  let v := match keyres with Some c => hd [] (cfs_keys c) | None => os_values (ss_obs s) end in
  hier_ok (ss_idepth s) (os_index (ss_obs s)) (S_order [v] (length (os_index (ss_obs s))) asc) = true ->
  M_series_sort_values code_params s keyres asc =
  if (length v =? length (os_index (ss_obs s)))%nat then Ok (S_series_sort (ss_obs s) [v] asc)
  else Err "RuntimeError".
Proof. exact code_series_sort_values_refines. Qed.
Print Assumptions C12_series_sort_values_refines.

Theorem C12_index_sort_refines : forall depth labels asc,
  let keys := index_keys depth labels in
  hier_ok depth labels (S_order keys (length labels) asc) = true ->
  M_index_sort code_params depth labels None asc = Ok (S_index_sort labels keys asc).
Proof. exact code_index_sort_refines. Qed.
Print Assumptions C12_index_sort_refines.

(* Grow-only hierarchical index (FrameGO columns, IndexHierarchyGO), ANY history of append / extend / reads
   from a coherent state (freshly built or materialised): with the refresh condition of
   IndexHierarchy.values_at_depth and the flag updates of append/extend that the source states today, the
   lexsort key vectors sort_index_for_order obtains are those of the CURRENT labels -- no appended label is
   missing from the sort. *)
Theorem C12_go_key_vectors_current : forall ops st depth, ih_coherent st -> (2 <= depth)%nat ->
  ih_key_vectors code_cache_params (ih_run code_cache_params ops st) depth =
  index_keys depth (ih_labels st ++ flat_map ih_op_labels ops).
Proof. exact code_ih_key_vectors_current. Qed.
Print Assumptions C12_go_key_vectors_current.

(* Malformed key results are ALWAYS rejected (with the length checks the source states today): whatever class or
   content the key function returns, if its extent along the sorted axis differs from the axis length the call
   raises RuntimeError -- no container that lost or invented rows is ever returned. (Series.sort_values: see
   C12_series_sort_values_refines, which has the same alternative built in.) *)
Theorem C12_frame_sort_values_rejects_wrong_length : forall axis f sel single c asc, (axis = 1 \/ axis = 0) ->
  cfs_len c <> fsv_n axis (sf_obs f) ->
  M_frame_sort_values code_params axis f sel single (Some c) asc = Err "RuntimeError".
Proof. exact code_frame_sort_values_rejects_wrong_length. Qed.
Print Assumptions C12_frame_sort_values_rejects_wrong_length.

Theorem C12_sort_index_family_rejects_wrong_length : forall c asc,
  (forall f, cfs_len c <> length (of_index (sf_obs f)) -> M_frame_sort_index code_params f (Some c) asc = Err "RuntimeError") /\
  (forall f, cfs_len c <> length (of_columns (sf_obs f)) -> M_frame_sort_columns code_params f (Some c) asc = Err "RuntimeError") /\
  (forall s, cfs_len c <> length (os_index (ss_obs s)) -> M_series_sort_index code_params s (Some c) asc = Err "RuntimeError") /\
  (forall depth labels, cfs_len c <> length labels -> M_index_sort code_params depth labels (Some c) asc = Err "RuntimeError").
Proof. exact code_sort_index_family_rejects_wrong_length. Qed.
Print Assumptions C12_sort_index_family_rejects_wrong_length.
