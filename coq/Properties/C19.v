(* C19 -- property theorems only; each closed by `exact` and followed by Print Assumptions. *)
Require Import SF.Prelude SF.PySlice SF.Value SF.Quilt SF.BatchView Proofs.QuiltSeg Proofs.QuiltRefine Proofs.QuiltViews Proofs.QuiltBlock Proofs.BatchRefine Gen.Gen_c19 Proofs.BatchForward.

(* Quilt._extract (Boolean mask over the axis map, one mask-selected part per addressed member, parts
   concatenated) returns, for EVERY Bus layout (any number of non-empty members of any sizes), both label modes, any opposite-axis key and every order-preserving non-empty key
   (dom_extract: int, ascending slice, Boolean mask, ascending list) -- or any key NumPy rejects --
   exactly what Frame selection on the single concatenated Frame returns (the name of a Frame result
   apart, which the property does not determine). *)
Theorem C19_quilt_extract_faithful : forall (A : Type) (q : quilt A) (sel opp : key),
  NoDup (map fst (q_bus A q)) -> dom_extract q sel = true ->
  res_map strip_name (M_extract_full q sel opp) = S_extract q sel opp.
Proof. exact quilt_extract_faithful. Qed.
Print Assumptions C19_quilt_extract_faithful.

(* The same with the widest guard (dom_extract_block): the key may visit the members in any order, each at
   most once, as long as the positions inside every member ascend -- e.g. [3;4;0;1] over members of 2+3 lines.
   Outside this guard the unchanged code is wrong (Refuted/C19.v). *)
Theorem C19_quilt_extract_block_faithful : forall (A : Type) (q : quilt A) (sel opp : key),
  NoDup (map fst (q_bus A q)) -> dom_extract_block q sel = true ->
  res_map strip_name (M_extract_full q sel opp) = S_extract q sel opp.
Proof. exact quilt_extract_block_faithful. Qed.
Print Assumptions C19_quilt_extract_block_faithful.

(* The 1-D heart, for any label/item types: ascending in-range positions selected member by member
   through sub-masks are the addressed items of the concatenation, in key order, and the selection
   is never empty-handed. *)
Theorem C19_seg_take_faithful : forall (B X : Type) (beqb : B -> B -> bool),
  (forall x y, beqb x y = true <-> x = y) ->
  forall (q : sbus B X) (ps : list nat),
  NoDup (map fst q) -> asc_nat ps = true -> in_range (length (axis_map q)) ps = true ->
  exists parts, M_parts beqb q ps = Ok parts /\
                flatten_parts parts = take_nat (axis_map q) ps /\
                S_take q ps = Ok (take_nat (axis_map q) ps) /\
                (ps <> [] -> parts <> []).
Proof. exact seg_take_faithful. Qed.
Print Assumptions C19_seg_take_faithful.

(* Laziness: for ANY key (order-preserving or not) the member Frames a selection asks the Bus for
   each own an addressed position; a member no position falls into is never loaded. *)
Theorem C19_quilt_no_full_build : forall (A : Type) (q : quilt A) (ps : list nat) (b : val),
  In b (M_touched val_eqb (seg_of q) ps) ->
  exists p, In p ps /\ nth_error (owners (seg_of q)) p = Some b.
Proof. exact quilt_no_full_build. Qed.
Print Assumptions C19_quilt_no_full_build.

(* Selection by label (loc on both axes, __getitem__): translate the labels on the Quilt's own index,
   then select by position -- equal to label selection on the concatenated Frame whenever the addressed
   positions are order-preserving and non-empty. *)
Theorem C19_quilt_loc_faithful : forall (A : Type) (q : quilt A) (lsel lopp : lkey),
  NoDup (map fst (q_bus A q)) -> dom_extract_loc q lsel = true ->
  res_map strip_name (M_extract_loc q lsel lopp) = S_extract_loc q lsel lopp.
Proof. exact quilt_loc_faithful. Qed.
Print Assumptions C19_quilt_loc_faithful.

(* The array twin Quilt._extract_array (used by iter_window_array) returns the values of the same selection. *)
Theorem C19_quilt_extract_array_faithful : forall (A : Type) (q : quilt A) (sel opp : key),
  NoDup (map fst (q_bus A q)) -> dom_extract q sel = true ->
  M_extract_array q sel opp = S_extract_array q sel opp.
Proof. exact quilt_extract_array_faithful. Qed.
Print Assumptions C19_quilt_extract_array_faithful.

(* Labels and shape: the Quilt's axis labels are those of the concatenated Frame; with retained labels the
   (bus label, inner label) pairs are unique whatever the members' own labels, and there is one per line. *)
Theorem C19_quilt_shape_labels : forall (A : Type) (q : quilt A),
  wf_quilt q = true -> axis_map_ok q = true ->
  NoDup (map fst (q_bus A q)) -> (forall bf, In bf (q_bus A q) -> NoDup (mf_labels A (snd bf))) ->
  M_labels q = S_labels q /\
  (q_retain A q = true -> exists labs, M_labels q = Ok labs /\ NoDup labs /\
     length labs = length (flat_map (fun bf => mf_lines A (snd bf)) (q_bus A q))).
Proof. exact quilt_shape_labels. Qed.
Print Assumptions C19_quilt_shape_labels.

(* Iteration along the Quilt axis (iter_array/iter_series/iter_tuple[_items], items): a walk over the Bus with
   the Quilt's labels zipped on yields exactly the concatenated Frame's (label, line) pairs. *)
Theorem C19_quilt_iter_faithful : forall (A : Type) (q : quilt A),
  wf_quilt q = true -> axis_map_ok q = true ->
  NoDup (map fst (q_bus A q)) -> (forall bf, In bf (q_bus A q) -> NoDup (mf_labels A (snd bf))) ->
  M_iter_items q = S_iter_items q.
Proof. exact quilt_iter_faithful. Qed.
Print Assumptions C19_quilt_iter_faithful.

(* Windows (iter_window[_items], iter_window_array[_items]; any size, step, shifts, increments, along either
   axis): the Quilt's windows are the concatenated Frame's windows whenever no window key is empty. *)
Theorem C19_quilt_window_faithful : forall (A : Type) (q : quilt A) (along : bool) (p : wparams),
  NoDup (map fst (q_bus A q)) -> dom_windows q along p = true ->
  M_windows q along p = S_windows q along p /\ M_windows_array q along p = S_windows_array q along p.
Proof. exact quilt_window_faithful. Qed.
Print Assumptions C19_quilt_window_faithful.

(* Batch: a chain of lazily wrapped generators (any depth, plain or exception-silencing operations, any
   operations at all) yields, and ends with, exactly what applying the whole chain to each label's Frame in
   turn yields -- labels, order, dropped labels and the exception included. *)
Theorem C19_batch_pointwise : forall (L : Type) (stages : list (stage L)) (items : list (L * cont)),
  M_batch stages items = S_batch stages items.
Proof. exact batch_pointwise. Qed.
Print Assumptions C19_batch_pointwise.

(* The thread/process-pool path (max_workers set) consumes each upstream generator whole: same label-wise
   results; it raises exactly when some label's chain raises. *)
Theorem C19_batch_pool_pointwise : forall (L : Type) (stages : list (stage L)) (items : list (L * cont)),
  ok_part (collect (M_batch_pool stages items)) = ok_part (collect (S_batch stages items)).
Proof. exact batch_pool_pointwise. Qed.
Print Assumptions C19_batch_pool_pointwise.

(* ... in particular, when no operation raises, the Batch holds for every label the composition of the
   operations applied to that label's Frame (normalize_container after each step). *)
Theorem C19_batch_pointwise_total : forall (L : Type) (fs : list (L -> cont -> res raw)) (items : list (L * cont)) (outs : list cont),
  Forall2 (fun lc c' => compose L fs (fst lc) (snd lc) = Some c') items outs ->
  collect (M_batch (map (@SApply L) fs) items) = Ok (combine (map fst items) outs).
Proof. exact batch_pointwise_total. Qed.
Print Assumptions C19_batch_pointwise_total.

(* Export: Batch.to_frame concatenates exactly the label-wise results. *)
Theorem C19_batch_export : forall (axis : Z) (name : val) (stages : list (stage val)) (items : list (val * cont)),
  dom_export axis stages items = true ->
  M_to_frame axis name stages items = S_to_frame axis name stages items.
Proof. exact batch_export. Qed.
Print Assumptions C19_batch_export.

(* Dispatch facts re-read from the source on every run (Gen/Gen_c19.v): every forwarding Batch method calls the member
   attribute of its own name and hands each keyword argument on unchanged (so "the operation on the Batch" is "that
   operation on each Frame", the `composable` decision of reductions included) ... *)
Theorem C19_batch_forwarding_identity : forallb forwards_identically batch_forward = true.
Proof. exact batch_forwarding_identity. Qed.
Print Assumptions C19_batch_forwarding_identity.

Theorem C19_batch_reductions_forward_composable :
  existsb (fun e => String.eqb (fst (fst e)) "_ufunc_axis_skipna" && existsb (fun kv => String.eqb (fst kv) "composable") (snd e)) batch_forward = true.
Proof. exact batch_reductions_forward_composable. Qed.
Print Assumptions C19_batch_reductions_forward_composable.

(* ... and Quilt._extract_array joins its parts only with the dtype-resolving concat_resolved. *)
Theorem C19_quilt_array_joins_resolved :
  forallb (fun f => String.eqb f "concat_resolved" || String.eqb f "extractor") quilt_array_returns = true /\
  existsb (String.eqb "concat_resolved") quilt_array_returns = true.
Proof. exact quilt_array_joins_resolved. Qed.
Print Assumptions C19_quilt_array_joins_resolved.
