(* C14 -- property theorems only; each closed by `exact` and followed by Print Assumptions. *)
Require Import SF.Prelude SF.Value SF.Dtype SF.Missing SF.MissingCheck
  Proofs.MissingSpec Proofs.MissingKernel Proofs.MissingAxis1 Proofs.MissingRows SF.MissingFill Gen.Gen_c14 Proofs.MissingFill Proofs.MissingNa Proofs.MissingDrop Proofs.MissingGen.

(* THE central theorem.  For EVERY partition of a row into 1-D / 2-D blocks of any widths (rows of a well-formed block list
   of any number of rows), the block-wise forward fill of TypeBlocks._fillna_directional_axis_1 -- bridging_values,
   bridging_count, bridging_isna carried from block to block, whole-block fast path, limit accounting -- equals the
   two-line specification S_ffill applied to the whole row, for every limit >= 0 (0 = unlimited). *)
Theorem C14_ffill_axis1_any_layout : forall (A : Type) (cf : bool) (limit : Z) (nrows : nat) (blocks : list (block A)),
  0 <= limit -> frame_wf nrows blocks = true ->
  M_dir_axis1 cf true limit nrows blocks = map (S_ffill limit) (frame_rows nrows blocks).
Proof. exact @dir_axis1_forward. Qed.
Print Assumptions C14_ffill_axis1_any_layout.

(* one row, any list of block views (the statement the induction over the block list proves) *)
Theorem C14_ffill_row_any_partition : forall (A : Type) (cf : bool) (limit : Z) (bs : list (rblock A)),
  0 <= limit -> row_ok bs = true -> M_dir_row cf true limit bs = S_ffill limit (row_cells bs).
Proof. exact @dir_row_forward. Qed.
Print Assumptions C14_ffill_row_any_partition.

(* Backward: the same, with NO guard, stated over the decision `bwd_count_from_first` that is extracted from the source of
   TypeBlocks._fillna_directional_axis_1 on every run (Gen/Gen_c14.v; `true` since /repo 690a4f3: walking backward the bridging
   count leaving a 2-D block comes from the first yielded slice).  If that repair is reverted the extractor emits `false`
   and this obligation is no longer discharged (the statement is then false: row [NaN | NaN NaN 1 NaN 2], limit 2). *)
Theorem C14_bfill_axis1_any_layout : forall (A : Type) (limit : Z) (nrows : nat) (blocks : list (block A)),
  0 <= limit -> frame_wf nrows blocks = true ->
  M_dir_axis1 bwd_count_from_first false limit nrows blocks = map (S_bfill limit) (frame_rows nrows blocks).
Proof. exact @dir_axis1_backward_code. Qed.
Print Assumptions C14_bfill_axis1_any_layout.

Theorem C14_bfill_row_any_partition : forall (A : Type) (limit : Z) (bs : list (rblock A)),
  0 <= limit -> row_ok bs = true -> M_dir_row bwd_count_from_first false limit bs = S_bfill limit (row_cells bs).
Proof. exact @dir_row_backward_code. Qed.
Print Assumptions C14_bfill_row_any_partition.

(* for either decision cf: the refinement under the boolean guard frame_bwd_dom cf (`true` outright when cf = true) *)
Theorem C14_bfill_axis1_any_decision_guarded : forall (A : Type) (cf : bool) (limit : Z) (nrows : nat) (blocks : list (block A)),
  0 <= limit -> frame_wf nrows blocks = true -> frame_bwd_dom cf limit nrows blocks = true ->
  M_dir_axis1 cf false limit nrows blocks = map (S_bfill limit) (frame_rows nrows blocks).
Proof. exact @dir_axis1_backward. Qed.
Print Assumptions C14_bfill_axis1_any_decision_guarded.

(* the repaired decision needs no guard at all: backward = specification for every layout and every limit *)
Theorem C14_bfill_row_repaired_any_partition : forall (A : Type) (limit : Z) (bs : list (rblock A)),
  0 <= limit -> row_ok bs = true -> M_dir_row true false limit bs = S_bfill limit (row_cells bs).
Proof. exact @dir_row_backward_repaired. Qed.
Print Assumptions C14_bfill_row_repaired_any_partition.

(* the guard is vacuous without a limit: unlimited backward fill is right for every layout *)
Theorem C14_bfill_row_nolimit_any_partition : forall (A : Type) (cf : bool) (bs : list (rblock A)),
  row_ok bs = true -> M_dir_row cf false 0 bs = S_bfill 0 (row_cells bs).
Proof. exact @dir_row_backward_nolimit. Qed.
Print Assumptions C14_bfill_row_nolimit_any_partition.

(* Series / axis 0: binary_transition + slices_from_targets + slice assignment = the specification, both directions *)
Theorem C14_dir1d_forward : forall (A : Type) (limit : Z) (l : list (option A)),
  0 <= limit -> M_dir1d true limit l = S_ffill limit l.
Proof. exact @M_dir1d_forward. Qed.
Print Assumptions C14_dir1d_forward.

Theorem C14_dir1d_backward : forall (A : Type) (limit : Z) (l : list (option A)),
  0 <= limit -> M_dir1d false limit l = S_bfill limit l.
Proof. exact @M_dir1d_backward. Qed.
Print Assumptions C14_dir1d_backward.

(* leading / trailing fills across blocks (isna_exit_previous carried from block to block; reversed walk for trailing) *)
Theorem C14_sided_axis1_any_layout : forall (A : Type) (leading : bool) (v : A) (nrows : nat) (blocks : list (block A)),
  frame_wf nrows blocks = true ->
  M_sided_axis1 leading v nrows blocks
  = map (fun r => if leading then S_leading v r else S_trailing v r) (frame_rows nrows blocks).
Proof. exact @sided_axis1_any_layout. Qed.
Print Assumptions C14_sided_axis1_any_layout.

Theorem C14_sided1d : forall (A : Type) (leading : bool) (v : A) (cs : list (option A)),
  M_sided1d leading v cs = (if leading then S_leading v cs else S_trailing v cs).
Proof. exact @M_sided1d_spec. Qed.
Print Assumptions C14_sided1d.

(* What the specification says, explicitly: every list of cells is k0 missing cells followed by groups (a present value x,
   then k missing cells); forward fill with `limit` (0 = unlimited) leaves the k0 leading cells missing and in every group
   copies x -- the nearest preceding present value -- into exactly the first min(k, limit) missing cells. *)
Theorem C14_ffill_exact : forall (A : Type) (limit : Z) (k0 : nat) (gs : list (A * nat)), 0 <= limit ->
  S_ffill limit (nones k0 ++ flat gs) = nones k0 ++ S_groups limit gs.
Proof. exact @S_ffill_explicit. Qed.
Print Assumptions C14_ffill_exact.

Theorem C14_bfill_exact : forall (A : Type) (limit : Z) (gs : list (A * nat)) (kend : nat), 0 <= limit ->
  S_bfill limit (flatb gs ++ nones kend) = S_groupsb limit gs ++ nones kend.
Proof. exact @S_bfill_explicit. Qed.
Print Assumptions C14_bfill_exact.

Theorem C14_decomposition : forall (A : Type) (l : list (option A)),
  (exists k0 gs, l = nones k0 ++ flat gs) /\ (exists gs kend, l = flatb gs ++ nones kend).
Proof. exact @decompositions. Qed.
Print Assumptions C14_decomposition.

(* leading fill touches exactly the leading missing run *)
Theorem C14_leading_exact : forall (A : Type) (v : A) (k0 : nat) (gs : list (A * nat)),
  S_leading v (nones k0 ++ flat gs) = repeat (Some v) k0 ++ flat gs.
Proof. exact @S_leading_explicit. Qed.
Print Assumptions C14_leading_exact.

(* No fill operation ever alters a present cell (pointwise, whole list, lengths equal). *)
Theorem C14_fill_never_changes_present : forall (A : Type) (limit : Z) (v : A) (l : list (option A)),
  keeps l (S_ffill limit l) /\ keeps l (S_bfill limit l) /\
  keeps l (S_leading v l) /\ keeps l (S_trailing v l) /\ keeps l (S_fillna v l).
Proof. exact @fills_keep_present. Qed.
Print Assumptions C14_fill_never_changes_present.

(* fillna by element replaces exactly the missing cells *)
Theorem C14_fillna_exact : forall (A : Type) (v : A) (l : list (option A)) (i : nat),
  nth_error (S_fillna v l) i = match nth_error l i with Some None => Some (Some v) | other => other end.
Proof. exact @S_fillna_exact. Qed.
Print Assumptions C14_fillna_exact.

(* isna: util.isna_array per element, over the kind constants regenerated from util.py, marks exactly NaN / None / NaT *)
Theorem C14_isna_exact : forall (kind : string) (v : val),
  kind_holds kind v = true -> scalar v = true -> M_isna_elem kind v = isna v.
Proof. exact isna_elem_exact. Qed.
Print Assumptions C14_isna_exact.

Theorem C14_count_spec : forall (A : Type) (l : list (option A)),
  S_count l + Z.of_nat (length (filter is_missing l)) = Z.of_nat (length l) /\
  S_count l = Z.of_nat (length (S_dropna (seq 0 (length l)) l)).
Proof. exact @S_count_spec. Qed.
Print Assumptions C14_count_spec.

Theorem C14_dropna_exact : forall (A L : Type) (use_any : bool) (labels : list L) (lines : list (list (option A))) lab line,
  In (lab, line) (S_dropna_lines use_any labels lines) <->
  In (lab, line) (combine labels lines) /\
  (if use_any then forall c, In c line -> is_missing c = false
   else exists c, In c line /\ is_missing c = false).
Proof. exact @S_dropna_lines_exact. Qed.
Print Assumptions C14_dropna_exact.

(* the keep mask TypeBlocks.dropna_to_keep_locations computes = the lines the specification keeps, for EVERY frame, stated
   over the decision `dropna_1d_reshaped` extracted from the source on every run (`true` since /repo 35bd018) *)
Theorem C14_dropna_keep_refines : forall (A : Type) (axis1 use_any : bool) (nrows : nat) (single1d : bool) (cols : list (list (option A))),
  M_dropna_keep dropna_1d_reshaped axis1 use_any nrows single1d (map (map is_missing) cols) = S_keep axis1 use_any nrows cols.
Proof. exact @dropna_keep_code. Qed.
Print Assumptions C14_dropna_keep_refines.

Theorem C14_dropna_keep_any_decision_guarded : forall (A : Type) (reshaped axis1 use_any : bool) (nrows : nat) (single1d : bool) (cols : list (list (option A))),
  (single1d = true -> reshaped = true \/ (axis1 = false /\ exists col, cols = [col] /\ length col = nrows)) ->
  M_dropna_keep reshaped axis1 use_any nrows single1d (map (map is_missing) cols) = S_keep axis1 use_any nrows cols.
Proof. exact @dropna_keep_refines. Qed.
Print Assumptions C14_dropna_keep_any_decision_guarded.

(* Series.fillna(Series): for ANY label type with a reflexive Boolean equality under which the receiver's labels are pairwise
   different (C02), the code's label-restricted fill -- intersect the labels of the missing cells with the container's labels,
   re-select by isin, reindex the container with util.dtype_to_fill_value as filler, assign -- equals the specification:
   covered missing cells take the container's cell, every other cell is untouched, and the filler `fillv` never reaches a cell. *)
Theorem C14_fillna_series_refines : forall (L A : Type) (eqb : L -> L -> bool), (forall a, eqb a a = true) ->
  forall (fillv : option A) (labels : list L) (l : list (option A)) (other : list (L * option A)),
  uniq eqb labels -> length labels = length l ->
  M_fillna_series eqb fillv labels l other = S_fillna_labels_g eqb labels l other.
Proof. exact @fillna_series_refines. Qed.
Print Assumptions C14_fillna_series_refines.

Theorem C14_fillna_labels_spec_is_generic : forall (A : Type) (labels : list val) (l : list (option A)) (other : list (val * option A)),
  S_fillna_labels labels l other = S_fillna_labels_g py_val_eq labels l other.
Proof. exact @S_fillna_labels_is_generic. Qed.
Print Assumptions C14_fillna_labels_spec_is_generic.
