(* C11 -- property theorems only; each closed by `exact` and followed by Print Assumptions.
   Instantiated at the observed value type `val` for labels and cells, with util.resolve_dtype and
   util.dtype_kind_to_na as REGENERATED from /repo on every run (Gen/Gen_util.v). *)
Require Import SF.Prelude SF.Dtype SF.Value SF.Blocks SF.PyDyn SF.Concat SF.ConcatVal Gen.Gen_util Gen.Gen_c11.
Require Import Proofs.ConcatVstack Proofs.ConcatKernel Proofs.ConcatAlign Proofs.ConcatReindex
  Proofs.ConcatFrame Proofs.ConcatCells Proofs.ConcatSegments Proofs.ConcatOverlay Proofs.ConcatExamples.

(* 1. Vertical stacking through the blocks (TypeBlocks.vstack_blocks_to_blocks with the flags
   Frame.from_concat computes) yields, for EVERY block layout of every input and whichever of the
   three strategies the flags select, exactly the table "column j = the inputs' columns j stacked
   in input order, stored in their resolved dtype". *)
Theorem C11_vstack_strategies_agree : forall (ts : list (tb val)),
  ts <> [] -> Forall (@wf_widths val) ts ->
  flatten (M_vstack cast_val resolve_val ts) =
  S_vstack cast_val resolve_val (total_width (hd [] ts)) (map (@flatten val) ts).
Proof. exact (vstack_refines cast_val resolve_val resolve_val_obj). Qed.
Print Assumptions C11_vstack_strategies_agree.

(* 2. The aligned axis: index_many_set / ufunc_set_iter, with every order-preserving shortcut, returns a
   duplicate-free arrangement of exactly the union (intersection) of the inputs' labels. *)
Theorem C11_aligned_axis_is_union_or_intersection : forall (union : bool) (ls : list (list val)),
  Forall (@NoDup val) ls ->
  NoDup (M_index_many_set val_eqb lleb_val union ls) /\
  forall x, In x (M_index_many_set val_eqb lleb_val union ls) <-> In x (S_aligned val_eqb union ls).
Proof. exact (index_many_set_spec val_eqb lleb_val c11_val_eqb_spec). Qed.
Print Assumptions C11_aligned_axis_is_union_or_intersection.

(* 3. Column alignment through the blocks (resize_blocks: the no-common block, the unified-subset
   slice, the per-column walk) is alignment by label, for every layout. *)
Theorem C11_reindex_columns_by_label : forall filldt fill (f : vframe) (cols : list val),
  wf_frame f -> NoDup cols ->
  f_cols (M_reindex_columns val_eqb filldt fill f cols) = S_reindex_columns val_eqb filldt fill f cols /\
  wf_widths (f_blocks (M_reindex_columns val_eqb filldt fill f cols)).
Proof. exact (reindex_columns_refines val_eqb cast_val resolve_val c11_val_eqb_spec). Qed.
Print Assumptions C11_reindex_columns_by_label.

(* 4. Row alignment block by block is row alignment column by column, for every layout. *)
Theorem C11_reindex_rows_by_label : forall filldt fill (f : vframe) (idx : list val),
  f_cols (M_reindex_rows val_eqb cast_val resolve_val filldt fill f idx) =
  map (S_reindex_rows_col val_eqb cast_val resolve_val filldt fill (f_index f) idx) (f_cols f).
Proof. exact (reindex_rows_refines val_eqb cast_val resolve_val). Qed.
Print Assumptions C11_reindex_rows_by_label.

(* 5. Frame.from_concat, axis 0, the whole pipeline: whenever the implementation model succeeds, its
   columns are the specification's (every input's column of that LABEL, or its fill column, stacked in
   input order), the column labels are a duplicate-free arrangement of the union/intersection (or the
   given ones), the row labels are the inputs' in input order, duplicate-free (or the replacement). *)
Theorem C11_concat_axis0_refines : forall union ixa cola filldt fill (fs : list vframe) r,
  fs <> [] -> Forall wf_frame fs -> arg_wf cola ->
  M_concat0 val_eqb lleb_val cast_val resolve_val VInt union ixa cola filldt fill fs = Ok r ->
  f_cols r = S_concat0_cols val_eqb cast_val resolve_val filldt fill fs (f_columns r) /\
  aligned_ok val_eqb cola union (map (@f_columns val val) fs) (f_columns r) /\
  along_ok VInt ixa (map (@f_index val val) fs) (sum_rows fs) (f_index r).
Proof. exact (concat0_refines val_eqb lleb_val cast_val resolve_val VInt c11_val_eqb_spec resolve_val_obj). Qed.
Print Assumptions C11_concat_axis0_refines.

(* 6. ... and axis 1. *)
Theorem C11_concat_axis1_refines : forall union ixa cola filldt fill (fs : list vframe) r,
  fs <> [] -> Forall (fun f => NoDup (f_index f)) fs -> arg_wf ixa ->
  M_concat1 val_eqb lleb_val cast_val resolve_val VInt union ixa cola filldt fill fs = Ok r ->
  f_cols r = S_concat1_cols val_eqb cast_val resolve_val filldt fill fs (f_index r) /\
  aligned_ok val_eqb ixa union (map (@f_index val val) fs) (f_index r) /\
  along_ok VInt cola (map (@f_columns val val) fs) (length (f_cols r)) (f_columns r).
Proof. exact (concat1_refines val_eqb lleb_val cast_val resolve_val VInt c11_val_eqb_spec). Qed.
Print Assumptions C11_concat_axis1_refines.

(* 7. Non-unique labels along the axis and no replacement: construction fails, on both axes. *)
Theorem C11_concat_duplicates_fail : forall union arg filldt fill (fs : list vframe),
  fs <> [] ->
  (~ NoDup (concat (map (@f_index val val) fs)) ->
     exists e, M_concat0 val_eqb lleb_val cast_val resolve_val VInt union IxNone arg filldt fill fs = Err e) /\
  (~ NoDup (concat (map (@f_columns val val) fs)) ->
     exists e, M_concat1 val_eqb lleb_val cast_val resolve_val VInt union arg IxNone filldt fill fs = Err e).
Proof. exact (concat_duplicates_fail val_eqb lleb_val cast_val resolve_val VInt c11_val_eqb_spec). Qed.
Print Assumptions C11_concat_duplicates_fail.

(* 8. Every cell of the specified result, BY LABEL: at (r, c) it is the cell at (r, c) of the input that
   holds row label r (in the result column's dtype), or the fill value when that input lacks column c.
   With duplicate-free labels (5.) a label pair names one position: no cell lost, duplicated or moved. *)
Theorem C11_concat_cells_by_label : forall filldt fill (fs : list vframe) (cols : list val) k f i r c,
  Forall (@wf_cells val val) fs -> NoDup (concat (map (@f_index val val) fs)) ->
  nth_error fs k = Some f -> nth_error (f_index f) i = Some r -> In c cols ->
  t_cell val_eqb (mk_table (concat (map (@f_index val val) fs)) cols
                           (S_concat0_cols val_eqb cast_val resolve_val filldt fill fs cols)) r c =
  Some (cast_val (result_dtype val_eqb cast_val resolve_val filldt fill fs c)
                 (match t_cell val_eqb (f_table f) r c with Some v => v | None => fill end)).
Proof. exact (concat0_cell val_eqb cast_val resolve_val c11_val_eqb_spec). Qed.
Print Assumptions C11_concat_cells_by_label.

(* 8b. No cell lost, duplicated or moved, about the WHOLE column: column c of the specified result is the
   inputs' aligned columns c laid end to end -- the segment of input k (rows off k .. off k + rows k) is input
   k's column c (its fill column when it lacks c), stored in the result dtype ... *)
Theorem C11_cells_segments : forall filldt fill (fs : list vframe) c k f,
  Forall (@wf_cells val val) fs -> nth_error fs k = Some f ->
  let col := result_column val_eqb cast_val resolve_val filldt fill fs c in
  firstn (f_rows f) (skipn (off (map (@f_index val val) fs) k) (snd col)) =
  map (cast_val (fst col)) (snd (S_aligned_col val_eqb filldt fill f c)).
Proof. exact (concat0_segments val_eqb cast_val resolve_val). Qed.
Print Assumptions C11_cells_segments.

(* 8c. ... and the column has exactly one cell per input row: the segments partition it, so
   (input k, row i) |-> result row off k + i is a bijection onto the result's rows. *)
Theorem C11_cells_count : forall filldt fill (fs : list vframe) c,
  Forall (@wf_cells val val) fs ->
  length (snd (result_column val_eqb cast_val resolve_val filldt fill fs c)) = sum_rows fs.
Proof. exact (concat0_column_length val_eqb cast_val resolve_val). Qed.
Print Assumptions C11_cells_count.

(* 9. The items forms: when IndexHierarchy.from_index_items accepts, the labels are exactly
   [(key, inner label)] in input order, and they are duplicate-free. *)
Theorem C11_concat_items_labels : forall (kls : list (val * list val)) ls,
  Forall (fun kl => NoDup (snd kl)) kls ->
  M_index_items val_eqb pair_val kls = Ok ls ->
  ls = S_item_labels pair_val kls /\ NoDup ls.
Proof. exact (index_items_labels val_eqb c11_val_eqb_spec pair_val pair_val_inj). Qed.
Print Assumptions C11_concat_items_labels.

(* 10. Overlay through the blocks: fillna_by_values (pass a block without missing cells through,
   otherwise split it into columns) is the per-column function, for every layout. *)
Theorem C11_overlay_fillna_blocks_refines : forall (t : tb val) (vals : list (dtype * list val)),
  length vals = total_width t ->
  flatten (M_fillna_blocks cast_val resolve_val isna t vals) =
  map (fun cv => S_fillna_col cast_val resolve_val isna (fst cv) (snd cv)) (combine (flatten t) vals).
Proof. exact (fillna_blocks_refines cast_val resolve_val isna). Qed.
Print Assumptions C11_overlay_fillna_blocks_refines.

(* 11. ... whose cell i is the step "keep the value unless it is missing" (possibly stored in the resolved dtype) *)
Theorem C11_overlay_cell_step : forall (c v : dtype * list val) i x y,
  nth_error (snd c) i = Some x -> nth_error (snd v) i = Some y ->
  exists z, nth_error (snd (S_fillna_col cast_val resolve_val isna c v)) i = Some z /\
            (z = overlay_step isna x y \/ z = cast_val (resolve_val (fst v) (fst c)) (overlay_step isna x y)).
Proof. exact (fillna_col_cell cast_val resolve_val isna). Qed.
Print Assumptions C11_overlay_cell_step.

(* 12. ... and the left fold of that step over the inputs is the FIRST NON-MISSING value in input
   order (the last one when all are missing). *)
Theorem C11_overlay_first_nonmissing : forall (vs : list val) (x : val),
  fold_left (overlay_step isna) vs x =
  match find (fun v => negb (isna v)) (x :: vs) with
  | Some y => y
  | None => last (x :: vs) x
  end.
Proof. exact (overlay_first_nonmissing isna). Qed.
Print Assumptions C11_overlay_first_nonmissing.

(* 13. Identical operands keep their order: when every input carries the same labels in the same order, the
   aligned axis is exactly that list (no sorting) -- what assume_unique=True in index_many_set is for. *)
Theorem C11_identical_labels_keep_order : forall (union : bool) (l : list val) (n : nat),
  M_index_many_set val_eqb lleb_val union (l :: repeat l n) = l.
Proof. exact (identical_labels_keep_order val_eqb lleb_val c11_val_eqb_spec). Qed.
Print Assumptions C11_identical_labels_keep_order.

(* 14. The decision constants the model builds in, as REGENERATED from the source on this run: index_many_set
   passes assume_unique=True (the shortcuts of M_set_1d apply) and `union` through; the keyword defaults the
   harness relies on when it omits an argument (union=True, axis=0, fill_value=np.nan). *)
Theorem C11_source_constants :
  index_many_set_assume_unique = true /\ from_concat_union_default = true /\ from_concat_items_union_default = true /\
  from_concat_axis_default = 0 /\ from_concat_fill_default_is_nan = true /\
  frame_overlay_union_default = true /\ series_overlay_union_default = true.
Proof. exact (conj eq_refl (conj eq_refl (conj eq_refl (conj eq_refl (conj eq_refl (conj eq_refl eq_refl)))))). Qed.
Print Assumptions C11_source_constants.
