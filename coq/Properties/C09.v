(* C09 -- property theorems only. *)
Require Import SF.Prelude SF.Dtype SF.GrowOnly Proofs.GrowOnlyIndex.

Theorem C09_index_append_only : forall (L : Type) (leq : L -> L -> bool) ops l,
  fst (S_irun L leq l ops) = l ++ S_igiven L leq l ops.
Proof. exact S_irun_append_only. Qed.
Print Assumptions C09_index_append_only.
