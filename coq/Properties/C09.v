(* C09 -- grow-only containers: append-only, all-or-nothing, never shared.
   Property theorems only; each closed by `exact` and followed by Print Assumptions.
   Labels L with Python equality leq (reflexive, symmetric) and the int view as_pos used by the
   loc_is_iloc fast path; cells V.  S_* = specification, M_* = implementation model (SF/GrowOnly*.v). *)
Require Import SF.Prelude SF.Dtype SF.GrowOnly SF.GrowOnlyHier SF.GrowOnlyShare Gen.Gen_c09 SF.GrowOnlyWorld
  Proofs.GrowOnlyIndex Proofs.GrowOnlyBlocks Proofs.GrowOnlyFrame Proofs.GrowOnlyWorld Proofs.GrowOnlyHier Proofs.GrowOnlyExamples.

(* ---------------------------------------------------------------- IndexGO *)
(* specification, every history: the labels afterwards are the labels before followed by exactly the
   labels of the accepted calls in the order given (append-only, order given) ... *)
Theorem C09_index_spec_append_only : forall (L : Type) (leq : L -> L -> bool) ops l,
  fst (S_irun L leq l ops) = l ++ S_igiven L leq l ops.
Proof. exact S_irun_append_only. Qed.
Print Assumptions C09_index_spec_append_only.

(* ... duplicate free (duplicates are rejected, within one call too) ... *)
Theorem C09_index_spec_no_duplicates : forall (L : Type) (leq : L -> L -> bool),
  (forall a b, leq a b = leq b a) ->
  forall ops l, nodupb L leq l = true -> nodupb L leq (fst (S_irun L leq l ops)) = true.
Proof. exact S_irun_nodup. Qed.
Print Assumptions C09_index_spec_no_duplicates.

(* ... and a rejected call leaves the labels as they were *)
Theorem C09_index_spec_all_or_nothing : forall (L : Type) (leq : L -> L -> bool) l op l1 e,
  S_istep L leq l op = (l1, Err e) -> l1 = l.
Proof. exact S_istep_all_or_nothing. Qed.
Print Assumptions C09_index_spec_all_or_nothing.

(* REFINEMENT: for every history of append / extend / reads the implementation model (labels list, AutoMap
   or loc_is_iloc, count, array cache with its recache flag; extend validating all values first, fix
   c675c22) holds exactly the specification's labels, accepts exactly the same calls, and stays well
   formed.  The guard dom_irun is `true` for an index with a map (next theorem); on a loc_is_iloc index it
   only excludes extend with a non-int label equal to a held position (Refuted/C09.v) *)
Theorem C09_index_refines : forall (L : Type) (leq : L -> L -> bool) (as_pos : L -> option Z),
  (forall a, leq a a = true) -> (forall a b, leq a b = leq b a) ->
  (forall a b x y, as_pos a = Some x -> as_pos b = Some y -> leq a b = (x =? y)) ->
  forall ops s, igo_wf L leq as_pos s -> dom_irun L leq as_pos s ops = true ->
  igo_wf L leq as_pos (fst (M_irun L leq as_pos s ops)) /\
  g_lm (fst (M_irun L leq as_pos s ops)) = fst (S_irun L leq (g_lm s) ops) /\
  map is_ok (snd (M_irun L leq as_pos s ops)) = map is_ok (snd (S_irun L leq (g_lm s) ops)).
Proof. exact igo_refines. Qed.
Print Assumptions C09_index_refines.

(* ... and WITHOUT ANY GUARD for an index that has a map (every index built from explicit labels):
   every history, valid or not; in particular every rejected append / extend is all-or-nothing *)
Theorem C09_index_refines_with_map : forall (L : Type) (leq : L -> L -> bool) (as_pos : L -> option Z),
  (forall a, leq a a = true) -> (forall a b, leq a b = leq b a) ->
  (forall a b x y, as_pos a = Some x -> as_pos b = Some y -> leq a b = (x =? y)) ->
  forall ops s, igo_wf L leq as_pos s -> g_map s <> None ->
  igo_wf L leq as_pos (fst (M_irun L leq as_pos s ops)) /\
  g_lm (fst (M_irun L leq as_pos s ops)) = fst (S_irun L leq (g_lm s) ops) /\
  map is_ok (snd (M_irun L leq as_pos s ops)) = map is_ok (snd (S_irun L leq (g_lm s) ops)).
Proof. exact igo_refines_with_map. Qed.
Print Assumptions C09_index_refines_with_map.

Theorem C09_index_extend_atomic : forall (L : Type) (leq : L -> L -> bool) (as_pos : L -> option Z),
  (forall a, leq a a = true) -> (forall a b, leq a b = leq b a) ->
  (forall a b x y, as_pos a = Some x -> as_pos b = Some y -> leq a b = (x =? y)) ->
  forall s vs, igo_wf L leq as_pos s -> g_map s <> None ->
  is_ok (snd (M_extend L leq as_pos s vs)) = false -> g_lm (fst (M_extend L leq as_pos s vs)) = g_lm s.
Proof. exact M_extend_atomic_with_map. Qed.
Print Assumptions C09_index_extend_atomic.

(* what a reader sees of a well-formed index (after the cache is materialised): the labels, as many
   positions as labels, every label found at its own position *)
Theorem C09_index_reader : forall (L : Type) (leq : L -> L -> bool) (as_pos : L -> option Z),
  (forall a, leq a a = true) -> (forall a b, leq a b = leq b a) ->
  (forall a b x y, as_pos a = Some x -> as_pos b = Some y -> leq a b = (x =? y)) ->
  forall s, igo_wf L leq as_pos s -> M_iobserve L leq as_pos s = S_iobserve L (g_lm s).
Proof. exact igo_observe. Qed.
Print Assumptions C09_index_reader.

(* without any guard: no history ever removes or reorders a label of the implementation model *)
Theorem C09_index_labels_never_lost : forall (L : Type) (leq : L -> L -> bool) (as_pos : L -> option Z) ops s,
  exists t, g_lm (fst (M_irun L leq as_pos s ops)) = g_lm s ++ t.
Proof. exact M_irun_prefix. Qed.
Print Assumptions C09_index_labels_never_lost.

(* without any guard: a rejected append leaves the labels list, the map and the count exactly as they
   were -- with a map and (after fix feb832d) on a loc_is_iloc index too *)
Theorem C09_index_append_atomic : forall (L : Type) (leq : L -> L -> bool) (as_pos : L -> option Z) s v e,
  snd (M_append L leq as_pos s v) = Err e ->
  let s' := fst (M_append L leq as_pos s v) in
  g_lm s' = g_lm s /\ g_map s' = g_map s /\ g_cnt s' = g_cnt s.
Proof. exact M_append_atomic. Qed.
Print Assumptions C09_index_append_atomic.

(* a single append meets the specification for EVERY label (no guard): the guard of C09_index_refines
   only restricts extend (a duplicate may only be the first label given) *)
Theorem C09_index_append_refines : forall (L : Type) (leq : L -> L -> bool) (as_pos : L -> option Z),
  (forall a, leq a a = true) -> (forall a b, leq a b = leq b a) ->
  (forall a b x y, as_pos a = Some x -> as_pos b = Some y -> leq a b = (x =? y)) ->
  forall s v, igo_wf L leq as_pos s ->
  step_refines L leq as_pos (M_append L leq as_pos s v) (S_append L leq (g_lm s) v).
Proof. exact M_append_refines. Qed.
Print Assumptions C09_index_append_refines.

(* ---------------------------------------------------------------- TypeBlocks *)
(* append: accepted exactly when the heights agree; _blocks/_index/_dtypes/_shape stay coherent and the
   columns seen so far keep their position, values and dtype *)
Theorem C09_blocks_append : forall (V : Type) (t : tb V) (b : blk V) (t' : tb V),
  tb_wf V t -> blk_ok V b -> M_tb_append V t b = Ok t' ->
  tb_wf V t' /\ tb_flat t' = tb_flat t ++ blk_flat b /\ t_rows t' = t_rows t /\ b_rows b = t_rows t.
Proof. exact tb_append_ok. Qed.
Print Assumptions C09_blocks_append.

(* labels and data in step: reading column j through the directory gives the j-th column *)
Theorem C09_blocks_column_read : forall (V : Type) (t : tb V) (j : Z),
  tb_wf V t -> M_tb_column V t j = znth (tb_flat t) j.
Proof. exact tb_column_correct. Qed.
Print Assumptions C09_blocks_column_read.

(* ---------------------------------------------------------------- FrameGO *)
(* specification, every history of setitem / extend_items / extend(Series) / extend(Frame): rows kept,
   the labels and the columns before are a prefix of those after *)
Theorem C09_frame_spec_append_only : forall (L V : Type) (leq : L -> L -> bool)
  (cast : dtype -> V -> V) (resolve : dtype -> dtype -> dtype) ops a,
  extends L V a (fst (S_run L V leq cast resolve a ops)).
Proof. exact S_run_extends. Qed.
Print Assumptions C09_frame_spec_append_only.

Theorem C09_frame_spec_all_or_nothing : forall (L V : Type) (leq : L -> L -> bool)
  (cast : dtype -> V -> V) (resolve : dtype -> dtype -> dtype) a op,
  is_ok (snd (S_step L V leq cast resolve a op)) = false -> fst (S_step L V leq cast resolve a op) = a.
Proof. exact S_step_all_or_nothing. Qed.
Print Assumptions C09_frame_spec_all_or_nothing.

(* REFINEMENT: for every history inside the guard dom_run, every initial block layout and every layout of
   the frames given to extend, the implementation model (IndexGO machine + TypeBlocks members, mutated
   in the order the code mutates them) is the specification's frame *)
Theorem C09_frame_refines : forall (L V : Type) (leq : L -> L -> bool) (as_pos : L -> option Z)
  (cast : dtype -> V -> V) (resolve : dtype -> dtype -> dtype),
  (forall a, leq a a = true) -> (forall a b, leq a b = leq b a) ->
  (forall a b x y, as_pos a = Some x -> as_pos b = Some y -> leq a b = (x =? y)) ->
  forall ops f, fgo_wf L V leq as_pos f -> dom_run L V leq as_pos cast resolve f ops = true ->
  fgo_wf L V leq as_pos (fst (M_run L V leq as_pos cast resolve f ops)) /\
  abs_fgo L V (fst (M_run L V leq as_pos cast resolve f ops)) = fst (S_run L V leq cast resolve (abs_fgo L V f) ops) /\
  map is_ok (snd (M_run L V leq as_pos cast resolve f ops)) = map is_ok (snd (S_run L V leq cast resolve (abs_fgo L V f) ops)).
Proof. exact fgo_refines. Qed.
Print Assumptions C09_frame_refines.

(* FrameGO.extend(Frame), no guard when the columns have a map: it meets the specification, and a
   rejected call leaves labels and data exactly as they were *)
Theorem C09_frame_extend_frame_atomic : forall (L V : Type) (leq : L -> L -> bool) (as_pos : L -> option Z)
  (cast : dtype -> V -> V) (resolve : dtype -> dtype -> dtype),
  (forall a, leq a a = true) -> (forall a b, leq a b = leq b a) ->
  (forall a b x y, as_pos a = Some x -> as_pos b = Some y -> leq a b = (x =? y)) ->
  forall f fidx fcols blocks fill fdt,
  fgo_wf L V leq as_pos f -> g_map (f_cols f) <> None -> extframe_wfb L V fidx fcols blocks = true ->
  let r := M_step L V leq as_pos cast resolve f (OExtFrame fidx fcols blocks fill fdt) in
  fstep_refines L V leq as_pos r (S_step L V leq cast resolve (abs_fgo L V f) (OExtFrame fidx fcols blocks fill fdt)) /\
  (is_ok (snd r) = false -> abs_fgo L V (fst r) = abs_fgo L V f).
Proof. exact fgo_extend_frame_atomic. Qed.
Print Assumptions C09_frame_extend_frame_atomic.

(* lock-step after every such history: as many labels as data columns, rows untouched *)
Theorem C09_frame_lockstep : forall (L V : Type) (leq : L -> L -> bool) (as_pos : L -> option Z)
  (cast : dtype -> V -> V) (resolve : dtype -> dtype -> dtype),
  (forall a, leq a a = true) -> (forall a b, leq a b = leq b a) ->
  (forall a b x y, as_pos a = Some x -> as_pos b = Some y -> leq a b = (x =? y)) ->
  forall ops f, fgo_wf L V leq as_pos f -> dom_run L V leq as_pos cast resolve f ops = true ->
  let f' := fst (M_run L V leq as_pos cast resolve f ops) in
  zlen (g_lm (f_cols f')) = zlen (tb_flat (f_tb f')) /\ t_ncols (f_tb f') = zlen (g_lm (f_cols f')) /\
  f_rows f' = f_rows f.
Proof. exact fgo_lockstep. Qed.
Print Assumptions C09_frame_lockstep.

(* the reader of a well-formed FrameGO sees the specification's frame, and every label leads to a column *)
Theorem C09_frame_reader : forall (L V : Type) (leq : L -> L -> bool) (as_pos : L -> option Z),
  (forall a, leq a a = true) -> (forall a b, leq a b = leq b a) ->
  (forall a b x y, as_pos a = Some x -> as_pos b = Some y -> leq a b = (x =? y)) ->
  forall f, fgo_wf L V leq as_pos f -> M_fobserve L V leq as_pos f = S_fobserve L V (abs_fgo L V f).
Proof. exact fgo_observe. Qed.
Print Assumptions C09_frame_reader.

(* the hypotheses and guards above are satisfiable, with accepted and rejected calls of every kind *)
Theorem C09_guards_satisfiable :
  igo_wf Z Z.eqb zpos ex_igo /\ fgo_wf Z Z Z.eqb zpos ex_fgo /\
  dom_irun Z Z.eqb zpos ex_igo ex_iops = true /\
  dom_run Z Z Z.eqb zpos zcast zresolve ex_fgo ex_gops = true /\
  map is_ok (snd (M_run Z Z Z.eqb zpos zcast zresolve ex_fgo ex_gops))
    = [true; false; false; true; true; false; true; true; true].
Proof.
  exact (conj ex_igo_wf (conj ex_fgo_wf (conj (proj1 ex_index_guard)
         (conj (proj1 ex_frame_guard) (proj1 (proj2 ex_frame_guard)))))).
Qed.
Print Assumptions C09_guards_satisfiable.

(* ---------------------------------------------------------------- IndexHierarchyGO *)
(* IndexLevelGO.append on the tree (after fix 5320f59), every depth and shape, no guard: an accepted call
   adds exactly the given label at the end; labels whose == is identity (str, int) *)
Theorem C09_hier_append : forall (L : Type) (leq : L -> L -> bool),
  (forall a b, leq a b = true -> a = b) ->
  forall t key t', lvl_wf L t -> M_lappend L leq t key = Ok t' ->
  flatten L t' = flatten L t ++ [key] /\ lvl_wf L t'.
Proof. exact hier_append_correct. Qed.
Print Assumptions C09_hier_append.

Theorem C09_hier_append_rejected : forall (L : Type) (leq : L -> L -> bool) (h : hgo L) key e,
  snd (M_happend L leq h key) = Err e -> fst (M_happend L leq h key) = h.
Proof. exact hier_append_rejected. Qed.
Print Assumptions C09_hier_append_rejected.

(* IndexLevelGO.extend (after fixes 4b2944d / c675c22), no guard, also on a zero-length hierarchy *)
Theorem C09_hier_extend_rejected : forall (L : Type) (leq : L -> L -> bool) (h o : hgo L) e,
  snd (M_hextend L leq h o) = Err e -> fst (M_hextend L leq h o) = h.
Proof. exact hier_extend_rejected. Qed.
Print Assumptions C09_hier_extend_rejected.

Theorem C09_hier_extend : forall (L : Type) (leq : L -> L -> bool),
  (forall a b, leq a b = true -> a = b) -> forall (h o h' : hgo L),
  lvl_wf L (h_tree h) -> lvl_wf L (h_tree o) -> M_hextend L leq h o = (h', Ok tt) ->
  flatten L (h_tree h') = flatten L (h_tree h) ++ flatten L (h_tree o) /\ lvl_wf L (h_tree h') /\
  h_depth h' = h_depth h.
Proof. exact hier_extend_correct. Qed.
Print Assumptions C09_hier_extend.

Theorem C09_hier_nonvacuous :
  lvl_wf Z ex_tree /\
  M_lappend Z Z.eqb ex_tree [20; 2] = Ok (Node [10; 20] [Leaf [1]; Leaf [1; 2]]) /\
  M_lappend Z Z.eqb ex_tree [30; 1] = Ok (Node [10; 20; 30] [Leaf [1]; Leaf [1]; Leaf [1]]) /\
  is_ok (M_lappend Z Z.eqb ex_tree [10; 2]) = false /\ is_ok (M_lappend Z Z.eqb ex_tree [20; 1]) = false.
Proof. exact ex_tree_guard. Qed.
Print Assumptions C09_hier_nonvacuous.

(* ---------------------------------------------------------------- never shared *)
(* the decision tables REGENERATED from the source: a grow-only index is never handed on as the same
   object by index_from_optional_constructor / mutable_immutable_index_filter, and the result has the
   staticness the target needs *)
Theorem C09_index_filters_copy_across_the_boundary : forall target_static value_static,
  (value_static = false -> gen_ifoc target_static value_static <> ASame) /\
  action_static (gen_ifoc target_static value_static) value_static = target_static /\
  (value_static = false -> gen_miif target_static value_static <> ASame) /\
  action_static (gen_miif target_static value_static) value_static = target_static.
Proof. exact gen_index_filters_safe. Qed.
Print Assumptions C09_index_filters_copy_across_the_boundary.

(* for EVERY interleaving of growth calls with to_frame / to_frame_go / to_frame_he / Frame(f) /
   FrameGO(f) / FrameHE(f) as the regenerated tables perform them: a grow-only frame shares neither its
   columns object nor its TypeBlocks object with any other frame ... *)
Theorem C09_never_shared : forall (L V : Type) (leq : L -> L -> bool) (as_pos : L -> option Z)
  (cast : dtype -> V -> V) (resolve : dtype -> dtype -> dtype) ops (w : world L V),
  sep L V w -> sep L V (wrun L V leq as_pos cast resolve w ops).
Proof. exact world_sep_invariant. Qed.
Print Assumptions C09_never_shared.

(* ... so a growth call changes what is seen of no other frame, and a conversion changes nothing that
   existed and yields a frame with the labels and columns of its source *)
Theorem C09_growth_isolated : forall (L V : Type) (leq : L -> L -> bool) (as_pos : L -> option Z)
  (cast : dtype -> V -> V) (resolve : dtype -> dtype -> dtype) ops (w : world L V),
  sep L V w -> all_isolated L V leq as_pos cast resolve w ops.
Proof. exact world_isolated. Qed.
Print Assumptions C09_growth_isolated.

Theorem C09_world_nonempty : sep Z Z ex_world.
Proof. exact ex_world_sep. Qed.
Print Assumptions C09_world_nonempty.
