(* C13 -- property theorems only; each closed by `exact` and followed by Print Assumptions.
   R = rows along the grouping axis ((label, cells)), K = keys, key : R -> K reads the group key;
   keqb is == on keys, kleb the order NumPy sorts the key dtype by.  All statements are for every
   list of rows (any length, any number of distinct keys) and every key function. *)
Require Import SF.Prelude SF.PySlice SF.Group SF.GroupCode SF.WindowSpec SF.Window Gen.Gen_c13
  Proofs.GroupFacts Proofs.GroupPaths Proofs.GroupFallback Proofs.GroupInst Proofs.WindowFacts.

(* --- the specification is a partition --- *)
(* every row is in exactly one group: the groups, concatenated, are the rows as a multiset *)
Theorem C13_group_partition : forall (R K : Type) (key : R -> K) (keqb : K -> K -> bool),
  (forall a b, keqb a b = true <-> a = b) ->
  forall rows, Permutation (concat (map snd (S_group key keqb rows))) rows.
Proof. exact (@S_group_partition). Qed.
Print Assumptions C13_group_partition.

(* distinct groups have distinct keys *)
Theorem C13_group_keys_distinct : forall (R K : Type) (key : R -> K) (keqb : K -> K -> bool),
  (forall a b, keqb a b = true <-> a = b) ->
  forall rows, NoDup (map fst (S_group key keqb rows)).
Proof. exact (@S_group_keys_distinct). Qed.
Print Assumptions C13_group_keys_distinct.

(* a group is non-empty, all its members have the key that labels it, and it is the rows with
   that key IN THEIR ORIGINAL ORDER (a filter of the input) *)
Theorem C13_group_sound : forall (R K : Type) (key : R -> K) (keqb : K -> K -> bool),
  (forall a b, keqb a b = true <-> a = b) ->
  forall rows k g, In (k, g) (S_group key keqb rows) ->
    g <> [] /\ Forall (fun r => key r = k) g /\ g = filter (fun r => keqb (key r) k) rows.
Proof. exact (@S_group_sound). Qed.
Print Assumptions C13_group_sound.

(* --- the two implementations --- *)
(* sort-and-slice path (Frame._axis_group_sort_items): stable sort, transitions =
   flatnonzero(v != roll(v,1))[1:], slices between transitions = one group per distinct key in
   sorted key order, members in original order *)
Theorem C13_pathA_refines : forall (R K : Type) (key : R -> K) (keqb kleb : K -> K -> bool),
  (forall a b, keqb a b = true <-> a = b) ->
  (forall a b, kleb a b = true \/ kleb b a = true) ->
  (forall a b c, kleb a b = true -> kleb b c = true -> kleb a c = true) ->
  (forall a b, kleb a b = true -> kleb b a = true -> a = b) ->
  forall rows, M_A key keqb kleb rows = groups_by key keqb (sorted_keys key keqb kleb rows) rows.
Proof. exact (@pathA_spec). Qed.
Print Assumptions C13_pathA_refines.

(* unique/mask path (TypeBlocks.group, Series._axis_group_items, *_axis_group_labels_items over
   array_to_groups_and_locations): the same groups, whatever the order used for sorting *)
Theorem C13_pathB_refines : forall (R K : Type) (key : R -> K) (keqb : K -> K -> bool),
  (forall a b, keqb a b = true <-> a = b) ->
  forall kleb rows,
    M_B key keqb kleb rows = groups_by key keqb (distinct keqb (sort_keys kleb (map key rows))) rows.
Proof. exact (@pathB_spec). Qed.
Print Assumptions C13_pathB_refines.

(* the two paths return the same groups in the same order *)
Theorem C13_paths_agree : forall (R K : Type) (key : R -> K) (keqb kleb : K -> K -> bool),
  (forall a b, keqb a b = true <-> a = b) ->
  (forall a b, kleb a b = true \/ kleb b a = true) ->
  (forall a b c, kleb a b = true -> kleb b c = true -> kleb a c = true) ->
  (forall a b, kleb a b = true -> kleb b a = true -> a = b) ->
  forall rows, M_A key keqb kleb rows = M_B key keqb kleb rows.
Proof. exact (@paths_agree). Qed.
Print Assumptions C13_paths_agree.

(* the partition statement about the algorithm itself *)
Theorem C13_pathA_partition : forall (R K : Type) (key : R -> K) (keqb kleb : K -> K -> bool),
  (forall a b, keqb a b = true <-> a = b) ->
  (forall a b, kleb a b = true \/ kleb b a = true) ->
  (forall a b c, kleb a b = true -> kleb b c = true -> kleb a c = true) ->
  (forall a b, kleb a b = true -> kleb b a = true -> a = b) ->
  forall rows,
    Permutation (concat (map snd (M_A key keqb kleb rows))) rows /\
    NoDup (map fst (M_A key keqb kleb rows)) /\
    (forall k g, In (k, g) (M_A key keqb kleb rows) ->
       g <> [] /\ Forall (fun r => key r = k) g /\ g = filter (fun r => keqb (key r) k) rows).
Proof. exact (@pathA_partition). Qed.
Print Assumptions C13_pathA_partition.

(* the implementation's groups are the specification's groups up to the order of the groups *)
Theorem C13_pathA_is_S_up_to_group_order : forall (R K : Type) (key : R -> K) (keqb kleb : K -> K -> bool),
  (forall a b, keqb a b = true <-> a = b) ->
  (forall a b, kleb a b = true \/ kleb b a = true) ->
  (forall a b c, kleb a b = true -> kleb b c = true -> kleb a c = true) ->
  (forall a b, kleb a b = true -> kleb b a = true -> a = b) ->
  forall rows, Permutation (M_A key keqb kleb rows) (S_group key keqb rows).
Proof. exact (@pathA_perm_S). Qed.
Print Assumptions C13_pathA_is_S_up_to_group_order.

(* the hypotheses on the order are satisfiable: integer keys *)
Theorem C13_paths_agree_int : forall (R : Type) (key : R -> Z) rows,
  M_A key Z.eqb Z.leb rows = M_B key Z.eqb Z.leb rows /\
  Permutation (M_A key Z.eqb Z.leb rows) (S_group key Z.eqb rows).
Proof. exact (@paths_agree_int). Qed.
Print Assumptions C13_paths_agree_int.

(* the string-representation branch (TypeError in np.unique) is always a partition ... *)
Theorem C13_fallback_partition : forall (R K K' : Type) (key : R -> K) (repr : K -> K') (eqb' leb' : K' -> K' -> bool),
  (forall a b, eqb' a b = true <-> a = b) ->
  forall rows, Permutation (concat (map snd (M_B_fallback key repr eqb' leb' rows))) rows.
Proof. exact (@fallback_partition). Qed.
Print Assumptions C13_fallback_partition.

(* ... and gives exactly the groups of the specification when the representation separates the
   keys present (guard repr_inj_on; Refuted/C13.v shows the guard is needed: 1 and '1') *)
Theorem C13_fallback_exact_when_repr_separates :
  forall (R K K' : Type) (key : R -> K) (keqb : K -> K -> bool) (repr : K -> K') (eqb' leb' : K' -> K' -> bool),
  (forall a b, keqb a b = true <-> a = b) ->
  (forall a b, eqb' a b = true <-> a = b) ->
  forall rows, repr_inj_on key keqb repr eqb' rows = true ->
    Forall (fun lg => exists k, fst lg = Some k /\ snd lg <> [] /\
                                snd lg = filter (fun r => keqb (key r) k) rows)
           (M_B_fallback key repr eqb' leb' rows)
    /\ NoDup (map fst (M_B_fallback key repr eqb' leb' rows)).
Proof. exact (@fallback_exact). Qed.
Print Assumptions C13_fallback_exact_when_repr_separates.

(* apply: one result per group, labelled by its key, labels pairwise distinct (so the result
   index can be built), the value is func of exactly the group's members *)
Theorem C13_apply_one_per_group : forall (R K : Type) (key : R -> K) (keqb kleb : K -> K -> bool),
  (forall a b, keqb a b = true <-> a = b) ->
  (forall a b, kleb a b = true \/ kleb b a = true) ->
  (forall a b c, kleb a b = true -> kleb b c = true -> kleb a c = true) ->
  (forall a b, kleb a b = true -> kleb b a = true -> a = b) ->
  forall (V : Type) (f : list R -> V) rows,
    M_apply f (M_A key keqb kleb rows) = S_apply key keqb f rows (sorted_keys key keqb kleb rows) /\
    NoDup (fst (M_apply f (M_A key keqb kleb rows))) /\
    length (snd (M_apply f (M_A key keqb kleb rows))) = length (sorted_keys key keqb kleb rows).
Proof. exact (@apply_one_per_group). Qed.
Print Assumptions C13_apply_one_per_group.

(* the code constants REGENERATED from the source agree with the model: the sort is a stable
   kind, the roll is by 1 and one leading transition is dropped; the generated path-choice
   expression is the model's decision table *)
Theorem C13_code_shape :
  code_shape_ok = true /\
  forall c i m o, gen_sort_path c i m o = path_is_sort (choose_path c i m o).
Proof. exact code_shape. Qed.
Print Assumptions C13_code_shape.

(* the values-only iterators (iter_window, iter_window_array) pass EVERY keyword parameter on to the items
   generator, and that one to axis_window_items (lists REGENERATED from frame.py / series.py): dropping one
   (e.g. label_shift, which also decides which anchors are valid) breaks this *)
Theorem C13_window_keywords_forwarded : window_forwarding_ok = true.
Proof. exact window_forwarding. Qed.
Print Assumptions C13_window_keywords_forwarded.

(* TypeBlocks.group (decision REGENERATED from type_blocks.py): np.unique is called with axis= exactly when the key
   array is 2-D, along the grouping axis, independent of how many rows/columns the key selects (a one-row list key
   on axis 1 used to fall outside this) *)
Theorem C13_group_unique_axis : forall axis two_d many_rows many_cols, axis = 0 \/ axis = 1 ->
  tb_group_unique_axis axis two_d many_rows many_cols = model_unique_axis axis two_d.
Proof. exact group_unique_axis. Qed.
Print Assumptions C13_group_unique_axis.

(* --- windows --- *)
(* the loop of axis_window_items, with its index arithmetic REGENERATED from the source, equals the
   anchor enumeration for every parameter tuple (accepted or rejected), and so never needs more
   than count_window_max + 2 iterations *)
Theorem C13_windows_exact : forall (L A : Type) (rows : list (L * A)) (p : wparams),
  M_windows rows p = S_windows rows p.
Proof. exact (@windows_exact). Qed.
Print Assumptions C13_windows_exact.

Theorem C13_windows_terminate : forall (L A : Type) (rows : list (L * A)) (p : wparams),
  M_windows rows p <> Err "OutOfFuel"%string.
Proof. exact (@windows_never_out_of_fuel). Qed.
Print Assumptions C13_windows_terminate.

(* every yielded (label, window): some anchor i; the label is the row at right_i + label_shift;
   the window is the contiguous run of existing rows max(0,left_i) .. right_i; with window_sized
   it has exactly size_i rows *)
Theorem C13_windows_sound : forall (L A : Type) (rows : list (L * A)) (p : wparams) out lab w,
  M_windows rows p = Ok out -> In (lab, w) out ->
  exists i payload,
    0 <= i <= a_count_max (zlen rows) p /\
    0 <= a_label p i /\ nth_z rows (a_label p i) = Some (lab, payload) /\
    w = a_window rows p i /\
    (wp_sized p = true -> zlen w = a_size p i).
Proof. exact (@M_windows_sound). Qed.
Print Assumptions C13_windows_sound.

(* a window of the stated positive size lies inside the container: it is rows[left_i .. right_i] *)
Theorem C13_window_inside : forall (L A : Type) (rows : list (L * A)) (p : wparams) i,
  0 < a_size p i -> zlen (a_window rows p i) = a_size p i ->
  0 <= a_left p i /\ a_right p i < zlen rows /\
  a_window rows p i = window_of rows (a_left p i) (a_right p i + 1).
Proof. exact (@window_inside). Qed.
Print Assumptions C13_window_inside.

(* completeness: every anchor i >= 0 whose window lies inside the container and whose label
   position exists IS yielded, with exactly rows[left_i .. right_i] *)
Theorem C13_windows_complete : forall (L A : Type) (rows : list (L * A)) (p : wparams) i,
  0 < wp_size p -> 0 < wp_step p -> 0 <= i ->
  0 <= a_left p i -> a_right p i < zlen rows -> 0 < a_size p i ->
  0 <= a_label p i < zlen rows ->
  exists out lab payload,
    M_windows rows p = Ok out /\
    nth_z rows (a_label p i) = Some (lab, payload) /\
    In (lab, window_of rows (a_left p i) (a_right p i + 1)) out.
Proof. exact (@M_windows_complete). Qed.
Print Assumptions C13_windows_complete.
