(* C18 -- property theorems only; each closed by `exact` and followed by Print Assumptions.
   Models: SF/Pool.v (exec_map = executable machine for the Executor.map contract with the completion
   schedule `pi` as an input; M_* = static-frame's pool forms; S_* = its sequential forms). *)
Require Import SF.Prelude SF.Pool SF.PoolStore Gen.Gen_c18 Proofs.PoolExec Proofs.PoolApply Proofs.PoolStore.

(* Oracle level: for EVERY completion schedule pi, worker count k >= 1, chunk size c >= 1 and pool kind the
   executor machine returns the sequential list comprehension (same values, same order, first exception). *)
Theorem C18_exec_map_eq_seq : forall (A B : Type) (f : A -> res B) kind k c pi (xs : list A),
  1 <= k -> (kind = Procs -> 1 <= c) ->
  exec_map f kind k c pi xs = seq_map f xs.
Proof. exact @exec_map_eq_seq. Qed.
Print Assumptions C18_exec_map_eq_seq.

(* apply_pool (keys recorded by side effect + zip with map results) = apply, for all pi, c, k, kinds,
   VALUES and ITEMS argument shapes (mk_arg), all functions f (failing or not), all item lists. *)
Theorem C18_pool_eq_sequential : forall (K V A B : Type) (mk_arg : K -> V -> A) (f : A -> res B)
    kind k c pi (items : list (K * V)),
  1 <= k -> (kind = Procs -> 1 <= c) ->
  M_apply_pool mk_arg f kind k c pi items = S_apply mk_arg f items.
Proof. exact @apply_pool_eq_sequential. Qed.
Print Assumptions C18_pool_eq_sequential.

(* A successful pool run has exactly the input's labels in the input's order, and position i holds
   f applied to the i-th input, next to the i-th label. *)
Theorem C18_keys_aligned : forall (K V A B : Type) (mk_arg : K -> V -> A) (f : A -> res B)
    kind k c pi (items : list (K * V)) out,
  1 <= k -> (kind = Procs -> 1 <= c) ->
  M_apply_pool mk_arg f kind k c pi items = Ok out ->
  map fst out = map fst items /\
  length out = length items /\
  forall i kv, nth_error items i = Some kv ->
    exists y, f (mk_arg (fst kv) (snd kv)) = Ok y /\ nth_error out i = Some (fst kv, y).
Proof. exact @apply_pool_keys_aligned. Qed.
Print Assumptions C18_keys_aligned.

(* One failing task anywhere makes the whole call an error -- the error of the first failing input in
   input order -- never a shorter or shifted result. *)
Theorem C18_failure_surfaces : forall (K V A B : Type) (mk_arg : K -> V -> A) (f : A -> res B)
    kind k c pi (items : list (K * V)),
  1 <= k -> (kind = Procs -> 1 <= c) ->
  (exists kv e, In kv items /\ f (mk_arg (fst kv) (snd kv)) = Err e) ->
  exists pre kv post e, items = pre ++ kv :: post /\ f (mk_arg (fst kv) (snd kv)) = Err e /\
    (forall p, In p pre -> exists y, f (mk_arg (fst p) (snd p)) = Ok y) /\
    M_apply_pool mk_arg f kind k c pi items = Err e.
Proof. exact @apply_pool_failure_surfaces. Qed.
Print Assumptions C18_failure_surfaces.

(* The eager-consumption clause of the Executor.map contract is necessary: with a lazy map() the same
   static-frame code returns the empty container for every input. *)
Theorem C18_lazy_map_would_lose_everything : forall (K V A B : Type) (mk_arg : K -> V -> A) (f : A -> res B)
    kind k c pi (items : list (K * V)),
  1 <= k -> M_apply_pool_gen mk_arg f false kind k c pi items = Ok [].
Proof. exact @apply_pool_lazy_map_loses_everything. Qed.
Print Assumptions C18_lazy_map_would_lose_everything.

(* Batch with max_workers: apply / apply_items / attribute forms = the sequential Batch. *)
Theorem C18_batch_pool_eq_sequential : forall (L F R : Type) (f : L * F -> res R) kind k c pi (items : list (L * F)),
  1 <= k -> (kind = Procs -> 1 <= c) ->
  M_batch_pool f kind k c pi items = S_batch_apply f items.
Proof. exact @batch_pool_eq_sequential. Qed.
Print Assumptions C18_batch_pool_eq_sequential.

(* Batch.apply_except / apply_items_except through a pool = the sequential try/except loop
   (at the one chunksize the code accepts, read from the source on every run). *)
Theorem C18_batch_except_eq_sequential : forall (L F R : Type) (f : L * F -> res R) (listed : string -> bool)
    k pi (items : list (L * F)),
  1 <= k ->
  M_batch_pool_except f listed c18_except_chunksize k c18_except_chunksize pi items = S_batch_apply_except f listed items.
Proof. exact @batch_except_eq_sequential_src. Qed.
Print Assumptions C18_batch_except_eq_sequential.

(* ... and it skips exactly the failing items: the survivors keep their own labels and order. *)
Theorem C18_except_skips_exactly_failing : forall (L F R : Type) (f : L * F -> res R) (listed : string -> bool)
    k pi (items : list (L * F)),
  1 <= k ->
  (forall p e, In p items -> f p = Err e -> listed e = true) ->
  M_batch_pool_except f listed c18_except_chunksize k c18_except_chunksize pi items = Ok (successes f items).
Proof. exact @batch_except_skips_exactly_failing_src. Qed.
Print Assumptions C18_except_skips_exactly_failing.

(* ... and never swallows an exception outside the listed class. *)
Theorem C18_except_unlisted_surfaces : forall (L F R : Type) (f : L * F -> res R) (listed : string -> bool)
    k pi (items : list (L * F)) p e,
  1 <= k -> In p items -> f p = Err e -> listed e = false ->
  exists e', M_batch_pool_except f listed c18_except_chunksize k c18_except_chunksize pi items = Err e' /\ listed e' = false.
Proof. exact @batch_except_unlisted_surfaces_src. Qed.
Print Assumptions C18_except_unlisted_surfaces.

(* Zipped stores, write: whatever write_max_workers / write_chunksize / schedule, the archive (member
   labels, order, bytes) is the serially written one, and a failing export is an error.  The
   `multiprocess` decision inside M_zip_write is the expression regenerated from store_zip.py. *)
Theorem C18_store_write_parallel_eq_serial : forall (L F Y : Type) (to_bytes : L * F -> res Y)
    workers c pi (items : list (L * F)),
  1 <= c -> M_zip_write to_bytes workers c pi items = S_zip_write to_bytes items.
Proof. exact @zip_write_parallel_eq_serial. Qed.
Print Assumptions C18_store_write_parallel_eq_serial.

(* read_many with workers: the frames of the requested labels, in request order (any order, repeats),
   exactly as the serial loop -- when every requested member exists ... *)
Theorem C18_store_read_parallel_eq_serial : forall (L F Y : Type) (label_eqb : L -> L -> bool) (of_bytes : L * Y -> res F)
    workers c pi (z : list (L * Y)) (labels : list L),
  (forall k, workers = Some k -> 1 <= k) -> 1 <= c ->
  (forall l, In l labels -> exists y, zf_read label_eqb l z = Ok y) ->
  M_zip_read_many label_eqb of_bytes workers c pi z labels = S_zip_read_many label_eqb of_bytes z labels.
Proof. exact @zip_read_parallel_eq_serial. Qed.
Print Assumptions C18_store_read_parallel_eq_serial.

(* ... and in general (missing or corrupt members): equal frames or an error on both sides. *)
Theorem C18_store_read_parallel_agrees : forall (L F Y : Type) (label_eqb : L -> L -> bool) (of_bytes : L * Y -> res F)
    workers c pi (z : list (L * Y)) (labels : list L),
  (forall k, workers = Some k -> 1 <= k) -> 1 <= c ->
  match M_zip_read_many label_eqb of_bytes workers c pi z labels, S_zip_read_many label_eqb of_bytes z labels with
  | Ok a, Ok b => a = b
  | Err _, Err _ => True
  | _, _ => False
  end.
Proof. exact @zip_read_parallel_agrees. Qed.
Print Assumptions C18_store_read_parallel_agrees.

(* Written with any pool configuration and read back with any other, in any selection order: every
   label gets the frame it was written with (given a faithful per-frame codec and unique labels). *)
Theorem C18_store_roundtrip_parallel : forall (L F Y : Type) (label_eqb : L -> L -> bool)
    (to_bytes : L * F -> res Y) (of_bytes : L * Y -> res F),
  (forall a b, label_eqb a b = true <-> a = b) ->
  (forall l fr y, to_bytes (l, fr) = Ok y -> of_bytes (l, y) = Ok fr) ->
  forall ww wc wpi rw rc rpi (items sel : list (L * F)) z,
  1 <= wc -> 1 <= rc -> (forall k, rw = Some k -> 1 <= k) ->
  NoDup (map fst items) -> incl sel items ->
  M_zip_write to_bytes ww wc wpi items = Ok z ->
  M_zip_read_many label_eqb of_bytes rw rc rpi z (map fst sel) = Ok (map snd sel).
Proof. exact @zip_roundtrip_parallel. Qed.
Print Assumptions C18_store_roundtrip_parallel.

(* StoreConfigMap: an accepted map answers every label with the default's worker settings (so the one
   decision taken on config_map.default is the decision each per-label config asks for); a map with a
   per-label config that differs in a pool setting is rejected.  Both are proved against the attribute
   tuple and the pool-argument names regenerated from store.py / store_zip.py. *)
Theorem C18_config_map_worker_settings_uniform : forall (L : Type) (eqb : L -> L -> bool) default (m : list (L * wcfg)) cm l,
  config_map_init default m = Ok cm ->
  w_read_max_workers (cm_get eqb cm l) = w_read_max_workers (cm_default cm) /\
  w_read_chunksize (cm_get eqb cm l) = w_read_chunksize (cm_default cm) /\
  w_write_max_workers (cm_get eqb cm l) = w_write_max_workers (cm_default cm) /\
  w_write_chunksize (cm_get eqb cm l) = w_write_chunksize (cm_default cm).
Proof. exact @config_map_worker_settings_uniform. Qed.
Print Assumptions C18_config_map_worker_settings_uniform.

Theorem C18_config_map_rejects_misaligned : forall (L : Type) default (m : list (L * wcfg)) l c,
  In (l, c) m -> pool_attr_differs (c18_read_pool_attrs ++ c18_write_pool_attrs) c default = true ->
  config_map_init default m = Err "ErrorInitStoreConfig".
Proof. exact @config_map_rejects_misaligned. Qed.
Print Assumptions C18_config_map_rejects_misaligned.
