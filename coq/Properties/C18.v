(* C18 (part 1 of 2; part 2 = Properties/C18Store.v: theorems stated over constants regenerated from the source)
   -- property theorems only; each closed by `exact` and followed by Print Assumptions.
   Models: SF/Pool.v (exec_map = executable machine for the Executor.map contract with the completion
   schedule `pi` as an input; M_* = static-frame's pool forms; S_* = its sequential forms). *)
Require Import SF.Prelude SF.Pool Proofs.PoolExec Proofs.PoolApply.

(* Oracle level: for EVERY completion schedule pi, worker count k >= 1, chunk size c >= 1 and pool kind the
   executor machine returns the sequential list comprehension (same values, same order, first exception). *)
Theorem C18_exec_map_eq_seq : forall (A B : Type) (f : A -> res B) kind k c pi (xs : list A),
  1 <= k -> (kind = Procs -> 1 <= c) ->
  exec_map f kind k c pi xs = seq_map f xs.
Proof. exact @exec_map_eq_seq. Qed.
Print Assumptions C18_exec_map_eq_seq.

(* apply_pool (keys recorded by side effect + zip with map results) = apply, for all pi, c, k, kinds,
   VALUES and ITEMS argument shapes (mk_arg), all functions f (failing or not), all item lists. *)
Theorem C18_pool_eq_sequential : forall (K V A B : Type) (mk_arg : K -> V -> A) (f : A -> res B)
    kind k c pi (items : list (K * V)),
  1 <= k -> (kind = Procs -> 1 <= c) ->
  M_apply_pool mk_arg f kind k c pi items = S_apply mk_arg f items.
Proof. exact @apply_pool_eq_sequential. Qed.
Print Assumptions C18_pool_eq_sequential.

(* A successful pool run has exactly the input's labels in the input's order, and position i holds
   f applied to the i-th input, next to the i-th label. *)
Theorem C18_keys_aligned : forall (K V A B : Type) (mk_arg : K -> V -> A) (f : A -> res B)
    kind k c pi (items : list (K * V)) out,
  1 <= k -> (kind = Procs -> 1 <= c) ->
  M_apply_pool mk_arg f kind k c pi items = Ok out ->
  map fst out = map fst items /\
  length out = length items /\
  forall i kv, nth_error items i = Some kv ->
    exists y, f (mk_arg (fst kv) (snd kv)) = Ok y /\ nth_error out i = Some (fst kv, y).
Proof. exact @apply_pool_keys_aligned. Qed.
Print Assumptions C18_keys_aligned.

(* One failing task anywhere makes the whole call an error -- the error of the first failing input in
   input order -- never a shorter or shifted result. *)
Theorem C18_failure_surfaces : forall (K V A B : Type) (mk_arg : K -> V -> A) (f : A -> res B)
    kind k c pi (items : list (K * V)),
  1 <= k -> (kind = Procs -> 1 <= c) ->
  (exists kv e, In kv items /\ f (mk_arg (fst kv) (snd kv)) = Err e) ->
  exists pre kv post e, items = pre ++ kv :: post /\ f (mk_arg (fst kv) (snd kv)) = Err e /\
    (forall p, In p pre -> exists y, f (mk_arg (fst p) (snd p)) = Ok y) /\
    M_apply_pool mk_arg f kind k c pi items = Err e.
Proof. exact @apply_pool_failure_surfaces. Qed.
Print Assumptions C18_failure_surfaces.

(* The eager-consumption clause of the Executor.map contract is necessary: with a lazy map() the same
   static-frame code returns the empty container for every input. *)
Theorem C18_lazy_map_would_lose_everything : forall (K V A B : Type) (mk_arg : K -> V -> A) (f : A -> res B)
    kind k c pi (items : list (K * V)),
  1 <= k -> M_apply_pool_gen mk_arg f false kind k c pi items = Ok [].
Proof. exact @apply_pool_lazy_map_loses_everything. Qed.
Print Assumptions C18_lazy_map_would_lose_everything.

(* Batch with max_workers: apply / apply_items / attribute forms = the sequential Batch. *)
Theorem C18_batch_pool_eq_sequential : forall (L F R : Type) (f : L * F -> res R) kind k c pi (items : list (L * F)),
  1 <= k -> (kind = Procs -> 1 <= c) ->
  M_batch_pool f kind k c pi items = S_batch_apply f items.
Proof. exact @batch_pool_eq_sequential. Qed.
Print Assumptions C18_batch_pool_eq_sequential.


(* Frame element iterators: the apply constructor (Frame.from_element_items with axis) fills rows by RUN SEGMENTATION
   on the outer key and by position inside a run.  For a stream delivered in container order (which C18_keys_aligned
   guarantees for the pool form) over unique outer labels it rebuilds exactly that labelling: positional filling is
   key pairing. *)
Theorem C18_elements_ctor_container_order : forall (K B : Type) (keqb : K -> K -> bool),
  (forall a b, keqb a b = true <-> a = b) ->
  forall (outer_of : K * K -> K) (mk_key : K -> K -> K * K),
  (forall o i, outer_of (mk_key o i) = o) ->
  forall (outer inner : list K) (recs : list (list B)),
  outer <> [] -> inner <> [] -> NoDup outer -> length recs = length outer ->
  Forall (fun r => length r = length inner) recs ->
  ctor_elements keqb outer_of mk_key outer inner (relabel mk_key outer inner recs)
  = Ok (relabel mk_key outer inner recs).
Proof. exact @ctor_elements_container_order. Qed.
Print Assumptions C18_elements_ctor_container_order.
