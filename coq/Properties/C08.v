(* C08 -- property theorems only; each closed by `exact` and followed by Print Assumptions. *)
Require Import SF.Prelude SF.PySlice SF.Dtype SF.PyDyn SF.Blocks SF.UpdateSpec SF.BlocksUpdate.
Require Import Gen.Gen_util Proofs.SliceFacts Proofs.AscSlice.
Require Import Proofs.UpdateLists Proofs.BlocksUpdateKey Proofs.BlocksDrop Proofs.BlocksMask.
Require Import Proofs.BlocksAstype Proofs.BlocksAssign Proofs.BlocksInsert Proofs.BlocksBloc.
(* non-trivial instances of the implications below (hypotheses satisfiable): Proofs/C08Examples.v *)
Require Proofs.C08Examples.

(* The regenerated util.slice_to_ascending_slice (used by drop/mask/assign to walk blocks in
   ascending order) denotes exactly the key's positions, ascending -- for EVERY key
   (any start/stop/step, negative or out of range) and every axis length. *)
Theorem C08_asc_slice_correct : forall k n ps, 0 <= n ->
  positions k n = Some ps ->
  exists k', slice_to_ascending_slice (of_slice k) (PInt n) = of_slice k' /\
             positions k' n = Some (if step_negative k then rev ps else ps) /\
             increasing (if step_negative k then rev ps else ps).
Proof. exact asc_slice_correct. Qed.
Print Assumptions C08_asc_slice_correct.

(* the slice conversion INSIDE the implementation models below is that regenerated kernel *)
Theorem C08_model_uses_regenerated_kernel : forall k n, s_step k <> Some 0 -> 0 <= n ->
  slice_to_ascending_slice (of_slice k) (PInt n) = of_slice (asc_slice_t k n).
Proof. exact asc_slice_t_kernel. Qed.
Print Assumptions C08_model_uses_regenerated_kernel.

(* DROP, every block layout: the block walk of TypeBlocks._drop_blocks (targets consumed block by block,
   part_start_last, drop_block, parts) returns exactly the columns the key does not address, in order,
   each with its dtype, rows treated by the same row function -- whatever the partition into 1-D / 2-D blocks. *)
Theorem C08_drop_any_layout : forall (A : Type) (t : tb A) (ck : option ckey) (rowf : list A -> list A),
  wf_tb t -> t <> [] ->
  (match ck with Some k => walk_dom k (Z.of_nat (length (flatten t))) = true | None => True end) ->
  res_map flatten (M_drop_blocks t ck rowf) =
  res_map (map (fun c => (fst c, rowf (snd c)))) (S_drop_columns (flatten t) ck).
Proof. exact @drop_blocks_refines. Qed.
Print Assumptions C08_drop_any_layout.

(* MASK, every block layout: Boolean columns, `on` exactly at the addressed positions. *)
Theorem C08_mask_any_layout : forall (A : Type) (on off : list A) (t : tb A) (k : ckey),
  wf_tb t -> t <> [] -> walk_dom k (Z.of_nat (length (flatten t))) = true ->
  res_map flatten (M_mask_blocks t k on off) = S_mask_columns (flatten t) k on off.
Proof. exact @mask_blocks_refines. Qed.
Print Assumptions C08_mask_any_layout.

(* what the drop specification says, position by position: a survivor moves left by the number of addressed
   positions before it, and nothing else is in the result *)
Theorem C08_drop_exact : forall (X : Type) (l : list X) (ps : list Z) (k : nat) (x : X),
  (nth_error l k = Some x -> memz (Z.of_nat k) ps = false ->
   nth_error (S_drop_at l ps) (k - dropped_before ps k) = Some x) /\
  length (S_drop_at l ps) = (length l - dropped_before ps (length l))%nat.
Proof. exact @S_drop_at_exact. Qed.
Print Assumptions C08_drop_exact.

(* what a point update (mask / astype / assign column part) says: same length, exactly the addressed positions change *)
Theorem C08_set_exact : forall (X : Type) (g : Z -> X -> X) (l : list X) (ps : list Z) (k : nat),
  nth_error (S_set_at g l ps) k =
  match nth_error l k with
  | Some x => Some (if memz (Z.of_nat k) ps then g (Z.of_nat k) x else x)
  | None => None
  end.
Proof. exact @S_set_at_nth. Qed.
Print Assumptions C08_set_exact.

(* ASTYPE on a column selection, every block layout: exactly the addressed columns are converted; every other
   column keeps dtype and cells (conv_same: converting to the dtype a column already has is the identity). *)
Theorem C08_astype_any_layout : forall (A : Type) (dt : dtype) (conv : dtype -> list A -> list A) (int_key : bool),
  (forall c, conv dt c = c) ->
  forall (t : tb A) (k : ckey), wf_tb t -> t <> [] -> walk_dom k (Z.of_nat (length (flatten t))) = true ->
  forall ps, key_positions k (Z.of_nat (length (flatten t))) = Ok ps ->
  res_map flatten (M_astype_blocks dt conv int_key t k) = S_astype_columns (flatten t) k dt conv.
Proof. exact @astype_blocks_refines. Qed.
Print Assumptions C08_astype_any_layout.

(* ASSIGN (by unit: element / tuple / array / aligned Series values), column part, every block layout: walking
   the columns in position order, exactly the addressed columns are replaced and they receive the value columns
   in order; every other column comes out identical, dtype included.  The key reaches the walk through
   key_to_ascending_key (ascending_key: list or ndarray, Boolean arrays unchanged, negative positions normalised --
   decisions regenerated from the source); is_slice = false only for an integer column key. *)
Theorem C08_assign_unit_any_layout : forall (A : Type) (is_slice sliceable : bool) (newdt : dtype -> dtype)
    (cells : Z -> list A -> list A) (t : tb A) (k : ckey) (as_array : bool) (ps : list Z),
  wf_tb t -> t <> [] -> walk_dom k (Z.of_nat (length (flatten t))) = true ->
  (is_slice = true \/ exists i, k = CInt i) ->
  key_positions k (Z.of_nat (length (flatten t))) = Ok ps ->
  res_map flatten (M_assign_unit_blocks is_slice sliceable newdt cells t
                     (ascending_key k (Z.of_nat (length (flatten t))) as_array)) =
  Ok (S_assign_from ps (if is_slice && sliceable then 1 else 0)
                    (fun v c => (newdt (fst c), cells v (snd c))) 0 0 (flatten t)).
Proof. exact @assign_unit_blocks_refines. Qed.
Print Assumptions C08_assign_unit_any_layout.

(* what the assign specification says, position by position: the column at an addressed position k is rebuilt from
   value column number (addressed positions before k); every other column is untouched; same length *)
Theorem C08_assign_exact : forall (A : Type) (step : Z) (new : Z -> dtype * list A -> dtype * list A)
    (ps : list Z) (cols : list (dtype * list A)) (v i : Z) (k : nat),
  nth_error (S_assign_from ps step new v i cols) k =
  match nth_error cols k with
  | Some c => Some (if memz (i + Z.of_nat k) ps then new (v + step * Z.of_nat (count_in ps i k)) c else c)
  | None => None
  end.
Proof. exact @S_assign_from_nth. Qed.
Print Assumptions C08_assign_exact.

(* INSERT_BEFORE / INSERT_AFTER, every block layout of the receiver and of the inserted container. *)
Theorem C08_insert_any_layout : forall (A : Type) (t ins : tb A) (key : Z), wf_tb t ->
  0 <= key <= Z.of_nat (length (flatten t)) ->
  res_map flatten (M_insert_blocks t key ins) = Ok (S_insert_at (flatten t) key (flatten ins)).
Proof. exact @insert_blocks_refines. Qed.
Print Assumptions C08_insert_any_layout.

(* the key conversions of the models follow the REGENERATED decisions of the source: both the walk's sorted() and
   key_to_ascending_key normalise negative positions before sorting and pass Boolean arrays through unchanged
   (reverting fix c80a0ec or dc30af2 flips a constant of Gen/Gen_c08.v and breaks this theorem and the five above) *)
Theorem C08_keys_made_ascending_by_position : forall (k : ckey) (n : Z) (as_array : bool),
  asc_key k n = asc_key_with true k n /\ ascending_key k n as_array = asc_key_with true k n.
Proof. exact (fun k n a => conj (asc_key_normalises k n) (ascending_key_normalises k n a)). Qed.
Print Assumptions C08_keys_made_ascending_by_position.

(* ASSIGN.BLOC with an element / array value (_assign_from_bloc_by_unit), every block layout: the CELLS of the result
   are exactly the specification's -- column j has value column j written at the rows its mask marks, nothing else moves
   (cells_none: writing at no row is the identity). *)
Theorem C08_bloc_unit_cells_any_layout : forall (A : Type) (newdt : dtype -> dtype)
    (cells : Z -> list bool -> list A -> list A),
  (forall j m c, existsb (fun b : bool => b) m = false -> cells j m c = c) ->
  forall (t : tb A) (j : Z) (masks : list (list bool)), length masks = length (flatten t) ->
  map snd (flatten (bloc_walk newdt cells j t masks)) = cells_zip cells j masks (map snd (flatten t)).
Proof. exact @bloc_unit_cells. Qed.
Print Assumptions C08_bloc_unit_cells_any_layout.

(* ... and the DTYPES are the specification's (a column changes dtype only if one of its own cells is addressed) when every
   block holds one column; with wider blocks the whole block is cast (Refuted/C08.v: C08_bloc_whole_block_cast_refuted). *)
Theorem C08_bloc_unit_dtypes_single_column_blocks : forall (A : Type) (newdt : dtype -> dtype)
    (cells : Z -> list bool -> list A -> list A),
  (forall j m c, existsb (fun b : bool => b) m = false -> cells j m c = c) ->
  forall (t : tb A) (j : Z) (masks : list (list bool)),
  length masks = length (flatten t) -> Forall (fun b => length (b_cols b) = 1%nat) t ->
  map fst (flatten (bloc_walk newdt cells j t masks)) = S_bloc_dtypes newdt masks (map fst (flatten t)).
Proof. exact @bloc_unit_dtypes_single_columns. Qed.
Print Assumptions C08_bloc_unit_dtypes_single_column_blocks.
