(* C08 -- property theorems only; each closed by `exact` and followed by Print Assumptions. *)
Require Import SF.Prelude SF.PySlice SF.Dtype SF.PyDyn Gen.Gen_util Proofs.SliceFacts Proofs.AscSlice.

(* The regenerated util.slice_to_ascending_slice (used by drop/mask/assign to walk blocks in
   ascending order) denotes exactly the key's positions, ascending -- for EVERY key
   (any start/stop/step, negative or out of range) and every axis length. *)
Theorem C08_asc_slice_correct : forall k n ps, 0 <= n ->
  positions k n = Some ps ->
  exists k', slice_to_ascending_slice (of_slice k) (PInt n) = of_slice k' /\
             positions k' n = Some (if step_negative k then rev ps else ps) /\
             increasing (if step_negative k then rev ps else ps).
Proof. exact asc_slice_correct. Qed.
Print Assumptions C08_asc_slice_correct.
