(* C09 -- witnesses that the faithful implementation models do NOT meet the full statement outside the
   guards of the refinement theorems (each is a known finding of the unchanged code). *)
Require Import SF.Prelude SF.Dtype SF.GrowOnly SF.GrowOnlyHier
  Proofs.GrowOnlyIndex Proofs.GrowOnlyBlocks Proofs.GrowOnlyFrame Proofs.GrowOnlyExamples.

(* IndexGO.extend with a duplicate after the first label: rejected, yet the labels before it stay *)
Theorem C09_index_extend_not_atomic_refuted :
  exists (s : igo Z) (vs : list Z),
    igo_wf Z Z.eqb zpos s /\
    is_ok (snd (M_extend Z Z.eqb zpos s vs)) = false /\
    g_lm (fst (M_extend Z Z.eqb zpos s vs)) <> g_lm s.
Proof. exists ex_igo, [9; 5; 11]. split; [exact ex_igo_wf|]. split; [reflexivity|]. vm_compute. discriminate. Qed.
Print Assumptions C09_index_extend_not_atomic_refuted.

(* FrameGO.extend(frame) with a duplicate column label after the first: rejected, but the labels before
   it were appended and no data: more labels than columns *)
Theorem C09_frame_extend_breaks_lockstep_refuted :
  exists (f : fgo Z Z) (op : gop Z Z),
    fgo_wf Z Z Z.eqb zpos f /\
    is_ok (snd (M_step Z Z Z.eqb zpos zcast zresolve f op)) = false /\
    let f' := fst (M_step Z Z Z.eqb zpos zcast zresolve f op) in
    zlen (g_lm (f_cols f')) = 2 /\ t_ncols (f_tb f') = 1 /\
    fo_readable (M_fobserve Z Z Z.eqb zpos f') = [true; false].
Proof.
  exists ex_fgo, (OExtFrame [1; 2] [8; 5] [mk_blk (DFlt 8) true 2 [[1; 2]; [3; 4]]] 0 (DFlt 8)).
  split; [exact ex_fgo_wf|]. split; [reflexivity|]. cbv zeta. repeat split; reflexivity.
Qed.
Print Assumptions C09_frame_extend_breaks_lockstep_refuted.

(* FrameGO.extend_items with a rejected pair after an accepted one: the accepted one stays *)
Theorem C09_extend_items_not_atomic_refuted :
  exists (f : fgo Z Z) (op : gop Z Z),
    fgo_wf Z Z Z.eqb zpos f /\
    is_ok (snd (M_step Z Z Z.eqb zpos zcast zresolve f op)) = false /\
    abs_fgo Z Z (fst (M_step Z Z Z.eqb zpos zcast zresolve f op)) <> abs_fgo Z Z f /\
    fst (S_step Z Z Z.eqb zcast zresolve (abs_fgo Z Z f) op) = abs_fgo Z Z f.
Proof.
  exists ex_fgo, (OItems [(6, GArr DBool [0; 1]); (5, GArr DBool [0; 1])] 0 (DFlt 8)).
  split; [exact ex_fgo_wf|]. split; [reflexivity|]. split; [vm_compute; discriminate | reflexivity].
Qed.
Print Assumptions C09_extend_items_not_atomic_refuted.

(* IndexHierarchyGO.extend with an existing outer label after a new one: rejected, yet the root index
   keeps the new outer label without a subtree *)
Theorem C09_hier_extend_not_atomic_refuted :
  exists (h o : hgo Z),
    is_ok (snd (M_hextend Z Z.eqb h o)) = false /\
    lvl_labels Z (h_tree (fst (M_hextend Z Z.eqb h o))) <> lvl_labels Z (h_tree h).
Proof.
  exists (mk_hgo (Node [10; 20] [Leaf [1]; Leaf [1]]) 2), (mk_hgo (Node [30; 20] [Leaf [1]; Leaf [2]]) 2).
  split; [reflexivity|]. vm_compute. discriminate.
Qed.
Print Assumptions C09_hier_extend_not_atomic_refuted.
