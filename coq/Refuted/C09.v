(* C09 -- witnesses that the faithful implementation models do NOT meet the full statement outside the
   guards of the refinement theorems (each is a known finding of the unchanged code). *)
Require Import SF.Prelude SF.Dtype SF.GrowOnly SF.GrowOnlyHier
  Proofs.GrowOnlyIndex Proofs.GrowOnlyBlocks Proofs.GrowOnlyFrame Proofs.GrowOnlyExamples.

(* the one residue of extend's validation: on a loc_is_iloc index __contains__ answers False for a label
   that is not an int, so extend((5, 1.0)) on 0,1,2 passes validation, appends 5, and only then is 1.0
   found to be a duplicate: rejected, yet 5 stays (outside ext_safe) *)
Theorem C09_auto_index_extend_nonint_refuted :
  exists (s : igo (Z * bool)) (vs : list (Z * bool)),
    igo_wf (Z * bool) fl_eq fl_pos s /\
    ext_safe (Z * bool) fl_eq fl_pos s vs = false /\
    is_ok (snd (M_extend (Z * bool) fl_eq fl_pos s vs)) = false /\
    g_lm (fst (M_extend (Z * bool) fl_eq fl_pos s vs)) <> g_lm s.
Proof.
  exists (M_inew_auto (Z * bool) [(0, true); (1, true); (2, true)]), [(5, true); (1, false)].
  split; [repeat split|]. split; [reflexivity|]. split; [reflexivity|]. vm_compute. discriminate.
Qed.
Print Assumptions C09_auto_index_extend_nonint_refuted.

(* FrameGO.extend_items with a rejected pair after an accepted one: the accepted one stays *)
Theorem C09_extend_items_not_atomic_refuted :
  exists (f : fgo Z Z) (op : gop Z Z),
    fgo_wf Z Z Z.eqb zpos f /\
    is_ok (snd (M_step Z Z Z.eqb zpos zcast zresolve f op)) = false /\
    abs_fgo Z Z (fst (M_step Z Z Z.eqb zpos zcast zresolve f op)) <> abs_fgo Z Z f /\
    fst (S_step Z Z Z.eqb zcast zresolve (abs_fgo Z Z f) op) = abs_fgo Z Z f.
Proof.
  exists ex_fgo, (OItems [(6, GArr DBool [0; 1]); (5, GArr DBool [0; 1])] 0 (DFlt 8)).
  split; [exact ex_fgo_wf|]. split; [reflexivity|]. split; [vm_compute; discriminate | reflexivity].
Qed.
Print Assumptions C09_extend_items_not_atomic_refuted.

