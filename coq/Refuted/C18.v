(* C18 -- witnesses where the faithful model does NOT meet the full statement (known findings). *)
Require Import SF.Prelude SF.Pool SF.PoolStore Gen.Gen_c18.

(* C18-except-chunksize: Batch(max_workers=k, chunksize=c).apply_except / apply_items_except with c <> 1
   refuses to run (NotImplementedError, batch.py:429-430) although the sequential Batch returns a result
   and the property quantifies over every chunksize.  The refusal is explicit, not a silent wrong answer. *)
Theorem C18_except_chunksize_refuted :
  exists (items : list (Z * Z)) (k c : Z) (pi : list nat),
    1 <= k /\ 1 <= c /\
    M_batch_pool_except (fun p => Ok (snd p)) (fun _ => true) c18_except_chunksize k c pi items
      <> S_batch_apply_except (fun p => Ok (snd p)) (fun _ => true) items.
Proof.
  exists [(0, 7)], 2, 2, []. split; [lia|]. split; [lia|]. vm_compute. discriminate.
Qed.
Print Assumptions C18_except_chunksize_refuted.

(* C18-namedtuple-pickle: on a process pool the arguments of Frame.iter_tuple (default namedtuple
   constructor) cannot be pickled; every task fails where the sequential form succeeds. *)
Require Import SF.Value SF.PoolVal.
Theorem C18_namedtuple_pickle_refuted :
  exists (items : list (val * Z)) (k c : Z) (pi : list nat),
    1 <= k /\ 1 <= c /\
    M_apply_pool (mk_arg_d false) (pool_f_nt Procs []) Procs k c pi items
      <> S_apply (mk_arg_d false) (pool_f []) items.
Proof.
  exists [(VStr "a", 4242)], 2, 1, []. split; [lia|]. split; [lia|]. vm_compute. discriminate.
Qed.
Print Assumptions C18_namedtuple_pickle_refuted.

(* C18-batch-reflected-pickle: the bundle of a reflected operator (3 - batch) holds a local lambda; on a process
   pool it cannot be pickled, every task fails where the sequential Batch succeeds. *)
Theorem C18_batch_reflected_pickle_refuted :
  exists (items : list (val * Z)) (k c : Z) (pi : list nat),
    1 <= k /\ 1 <= c /\
    M_batch_pool (fun b => pool_f_nt Procs [] (snd b)) Procs k c pi items
      <> S_batch_apply (fun b => pool_f [] (snd b)) items.
Proof.
  exists [(VStr "a", 4242)], 2, 1, []. split; [lia|]. split; [lia|]. vm_compute. discriminate.
Qed.
Print Assumptions C18_batch_reflected_pickle_refuted.
