(* C02 -- behaviour of the faithful model M (= the unchanged code) that does NOT meet the property: a concrete
   witness decided by computation, for the known finding C02-auto-float-key (known/C02.jsonl).  One file per finding, so that
   repairing one defect breaks exactly its own witness. *)
Require Import SF.Prelude SF.Value SF.PySlice SF.IndexBij SF.IndexBijVal.

(* C02-auto-float-key: 1.0 in sf.Series((10,20,30)).index is False although 1.0 == 1 is a held label
   (True for sf.Index((0,1,2))) *)
Theorem C02_auto_float_key_refuted : exists (n : nat) (k : key val),
  M_contains val_eqb vto_Z (M_index_auto VInt n) k = false /\
  M_loc_to_iloc val_eqb vto_Z (M_index_auto VInt n) k = Err "KeyError" /\
  S_contains val_eqb (map VInt (iota n)) k = true /\ S_lookup val_eqb (map VInt (iota n)) k = Ok 1.
Proof. exists 3%nat, (vkey (VFlt 1 1)). vm_compute. auto. Qed.
Print Assumptions C02_auto_float_key_refuted.
