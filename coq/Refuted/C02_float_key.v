(* C02 -- behaviour of the faithful model M (= the unchanged code) that does NOT meet the property: a concrete
   witness decided by computation, for the known finding C02-auto-float-key (known/C02.jsonl).  One file per finding, so that
   repairing one defect breaks exactly its own witness. *)
Require Import SF.Prelude SF.Value SF.PySlice SF.IndexBij SF.IndexBijVal.

(* C02-auto-float-key: 1.0 in sf.Series((10,20,30)).index is False although 1.0 == 1 is a held label
   (True for sf.Index((0,1,2))) *)
Theorem C02_auto_float_key_refuted : exists (n : nat) (k : key val),
  M_contains val_eqb vto_Z (M_index_auto VInt n) k = false /\
  M_loc_to_iloc val_eqb vto_Z (M_index_auto VInt n) k = Err "KeyError" /\
  S_contains val_eqb (map VInt (iota n)) k = true /\ S_lookup val_eqb (map VInt (iota n)) k = Ok 1.
Proof. exists 3%nat, (vkey (VFlt 1 1)). vm_compute. auto. Qed.
Print Assumptions C02_auto_float_key_refuted.

(* a consequence: on an auto-integer IndexGO [0,1], extend([5, 1.0]) passes the validation of extend
   (1.0 is not "contained"), appends 5, and only then refuses 1.0: the rejected extend has changed the index *)
Theorem C02_auto_float_key_extend_refuted : exists ops : list (op val),
  let r := M_go_run val_eqb vto_Z (M_go_auto VInt 2) ops in
  go_dom val_eqb vto_Z (M_go_auto VInt 2) ops = false /\
  snd r = [Err "KeyError"] /\ g_mut (fst r) = [VInt 0; VInt 1; VInt 5] /\
  S_go_run val_eqb (map VInt (iota 2)) ops = ([VInt 0; VInt 1], [false]).
Proof. exists [OpExtend [vkey (VInt 5); vkey (VFlt 1 1)]]. vm_compute. auto. Qed.
Print Assumptions C02_auto_float_key_extend_refuted.
