(* C14 -- witnesses where the faithful implementation model (with the decisions of the PINNED code: count taken from the
   last yielded slice, 1-D isna array not reshaped -- both `false`, as Gen/Gen_c14.v records them) does NOT meet the full statement (known finding
   C14-bfill-axis1-bridge-count): TypeBlocks._fillna_directional_axis_1 walking backward takes the bridging count that
   leaves a 2-D block from the LAST yielded slice (the right-most run) although the block is left through its first column. *)
Require Import SF.Prelude SF.Value SF.Missing.

(* row [NaN | NaN NaN 1 NaN 2], limit 2: three cells are filled from `1` although the limit is 2 *)
Theorem C14_bfill_axis1_unguarded_refuted :
  exists (limit : Z) (bs : list (rblock Z)), 0 <= limit /\
    M_dir_row false false limit bs <> S_bfill limit (concat (map rb_cells bs)).
Proof.
  exists 2, [RB1 true None; RB2 true [None; None; Some 1; None; Some 2]].
  split; [lia | vm_compute; discriminate].
Qed.
Print Assumptions C14_bfill_axis1_unguarded_refuted.

(* row [NaN | NaN 1 NaN NaN 2], limit 2: the first cell is NOT filled although only one missing cell lies between it and `1` *)
Theorem C14_bfill_axis1_underfill_refuted :
  exists (limit : Z) (bs : list (rblock Z)), 0 <= limit /\
    M_dir_row false false limit bs <> S_bfill limit (concat (map rb_cells bs)).
Proof.
  exists 2, [RB1 true None; RB2 true [None; Some 1; None; None; Some 2]].
  split; [lia | vm_compute; discriminate].
Qed.
Print Assumptions C14_bfill_axis1_underfill_refuted.

(* finding C14-dropna-axis1-single-1d-block: a one-column frame held as a single 1-D block, dropna(axis=1): the keep mask for
   COLUMNS is the per-row vector [true; false] (length 2 for 1 column), where the specification keeps/drops the one column *)
Require Import SF.MissingCheck.
Theorem C14_dropna_axis1_single_1d_refuted :
  exists (use_any : bool) (nrows : nat) (cols : list (list (option Z))),
    M_dropna_keep false true use_any nrows true (map (map is_missing) cols) <> S_keep true use_any nrows cols.
Proof. exists true, 2%nat, [[Some 1; None]]. vm_compute. discriminate. Qed.
Print Assumptions C14_dropna_axis1_single_1d_refuted.
