(* C02 -- behaviour of the faithful model M (= the unchanged code) that does NOT meet the property:
   concrete witnesses, decided by computation.  Each is a known finding (known/C02.jsonl). *)
Require Import SF.Prelude SF.Value SF.PySlice SF.IndexBij SF.IndexBijVal SF.IxTree SF.IxTreeVal.

(* C02-auto-negative-key: sf.Series((10,20,30)).index.loc_to_iloc(-1) == -1 although -1 is not a label *)
Theorem C02_auto_negative_key_refuted : exists (n : nat) (k : key val),
  M_loc_to_iloc val_eqb vto_Z (M_index_auto VInt n) k = Ok (-1) /\
  M_contains val_eqb vto_Z (M_index_auto VInt n) k = false /\
  S_lookup val_eqb (map VInt (iota n)) k = Err "KeyError".
Proof. exists 3%nat, (VInt (-1), KInt). vm_compute. auto. Qed.
Print Assumptions C02_auto_negative_key_refuted.

(* C02-auto-float-key: 1.0 in sf.Series((10,20,30)).index is False although 1.0 == 1 is a held label
   (True for sf.Index((0,1,2))) *)
Theorem C02_auto_float_key_refuted : exists (n : nat) (k : key val),
  M_contains val_eqb vto_Z (M_index_auto VInt n) k = false /\
  M_loc_to_iloc val_eqb vto_Z (M_index_auto VInt n) k = Err "KeyError" /\
  S_contains val_eqb (map VInt (iota n)) k = true /\ S_lookup val_eqb (map VInt (iota n)) k = Ok 1.
Proof. exists 3%nat, (vkey (VFlt 1 1)). vm_compute. auto. Qed.
Print Assumptions C02_auto_float_key_refuted.

(* C02-autogo-float-append: auto-integer IndexGO [0,1]: append(1.0) raises but leaves 1.0 in
   _labels_mutable; the next append(2) then yields an index holding [0,1,1,2]: duplicate labels, and
   4 labels for 3 positions *)
Theorem C02_autogo_float_append_refuted : exists ops : list (op val),
  let r := M_go_run val_eqb vto_Z (M_go_auto VInt 2) ops in
  nodupb val_eqb (g_mut (fst r)) = false /\
  zlen (g_mut (fst r)) = 4 /\ g_count (fst r) = 3 /\
  snd r = [Err "ValueError"; Ok tt].
Proof. exists [OpAppend (vkey (VFlt 1 1)); OpAppend (vkey (VInt 2))]. vm_compute. auto. Qed.
Print Assumptions C02_autogo_float_append_refuted.

(* C02-autogo-stale-positions: auto-integer IndexGO [0,1]: after append(2), loc_to_iloc(2) raises
   KeyError until some reader refreshes the cached positions array *)
Theorem C02_autogo_stale_positions_refuted : exists (ops : list (op val)) (k : key val),
  go_dom val_eqb vto_Z (M_go_auto VInt 2) ops = true /\
  let g := fst (M_go_run val_eqb vto_Z (M_go_auto VInt 2) ops) in
  M_go_lookup val_eqb vto_Z g k = Err "KeyError" /\
  M_go_contains val_eqb vto_Z g k = true /\
  S_lookup val_eqb (g_mut g) k = Ok 2.
Proof. exists [OpAppend (vkey (VInt 2))], (vkey (VInt 2)). vm_compute. auto. Qed.
Print Assumptions C02_autogo_stale_positions_refuted.

(* C02-hier-contains-overlong: ('d', 2, 'zz') in IndexHierarchy.from_labels([('d', 2), ('d', 'x')]) is True *)
Theorem C02_hier_contains_overlong_refuted : exists (labs : list (list val)) (lv : level val) (key : list val),
  M_from_labels val_eqb labs = Ok lv /\
  M_h_contains val_eqb lv key = true /\ S_h_contains val_eqb labs key = false /\
  M_leaf_loc_to_iloc val_eqb lv key = Err "KeyError".
Proof.
  exists [[VStr "d"; VInt 2]; [VStr "d"; VStr "x"]]. eexists. exists [VStr "d"; VInt 2; VStr "zz"].
  split; [vm_compute; reflexivity|]. vm_compute. auto.
Qed.
Print Assumptions C02_hier_contains_overlong_refuted.

(* C02-init-dtype-map-mismatch: sf.Index([1, 2], dtype=str) holds ['1', '2'] but maps 1, 2: the held label
   '1' is not found; sf.Index([1.5, 1.2], dtype=int) is accepted and holds [1, 1] *)
Theorem C02_init_dtype_map_mismatch_refuted :
  (exists ix, M_index_init_dtype val_eqb [VInt 1; VInt 2] [VStr "1"; VStr "2"] = Ok ix /\
              M_loc_to_iloc val_eqb vto_Z ix (vkey (VStr "1")) = Err "KeyError" /\
              M_contains val_eqb vto_Z ix (vkey (VStr "1")) = false /\
              S_lookup val_eqb (ix_labels ix) (vkey (VStr "1")) = Ok 0) /\
  (exists ix, M_index_init_dtype val_eqb [VFlt 3 2; VFlt 5404319552844595 4503599627370496] [VInt 1; VInt 1] = Ok ix /\
              nodupb val_eqb (ix_labels ix) = false).
Proof. split; eexists; vm_compute; auto. Qed.
Print Assumptions C02_init_dtype_map_mismatch_refuted.
