(* C10 -- witnesses (by computation) where the faithful implementation model does NOT meet the
   property: one per known finding; each shows a guard of the refinement theorems is necessary.
   (the witnesses of the three findings with a proposed one-line fix are in Refuted/C10_mask.v, C10_zero.v, C10_hash.v:
   each stops compiling when its fix is applied to the source and is then to be deleted with its known-findings entry) *)
Require Import SF.Prelude SF.Dtype SF.Value SF.Equal Gen.Gen_c10.

(* C10-nat-values-path: NaT at the same position, skipna=False; equal or not depending on the layout of OTHER columns *)
Theorem C10_nat_values_path_refuted : exists o a b b',
  M_tb_equals c10_cfg_tb o a b = Ok true /\ S_tb_equals o a b = false /\
  tb_cols b' = tb_cols b /\ M_tb_equals c10_cfg_tb o a b' = Ok false.
Proof.
  exists (mk_eopts false false false false),
         (mk_etb 1 1 [(DDt UD, [[VNaT]]); (DInt true 8, [[VInt 1]]); (DFlt 8, [[VFlt 3 2]])]),
         (mk_etb 2 1 [(DDt UD, [[VNaT]]); (DFlt 8, [[VFlt 1 1]; [VFlt 3 2]])]),
         (mk_etb 3 1 [(DDt UD, [[VNaT]]); (DFlt 8, [[VFlt 1 1]]); (DFlt 8, [[VFlt 3 2]])]).
  vm_compute. repeat split; reflexivity.
Qed.
Print Assumptions C10_nat_values_path_refuted.
