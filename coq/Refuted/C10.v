(* C10 -- witnesses (by computation) where the faithful implementation model does NOT meet the
   property: one per known finding; each shows a guard of the refinement theorems is necessary.
   (the findings C10-tb-mask-self, C10-zero-columns, C10-he-hash-hierarchy were repaired in /repo: f01dccf, c228306, a6983c4) *)
Require Import SF.Prelude SF.Dtype SF.Value SF.Equal Gen.Gen_c10.

(* C10-nat-values-path: NaT at the same position, skipna=False; equal or not depending on the layout of OTHER columns *)
Theorem C10_nat_values_path_refuted : exists o a b b',
  M_tb_equals c10_cfg_tb o a b = Ok true /\ S_tb_equals o a b = false /\
  tb_cols b' = tb_cols b /\ M_tb_equals c10_cfg_tb o a b' = Ok false.
Proof.
  exists (mk_eopts false false false false),
         (mk_etb 1 1 [(DDt UD, [[VNaT]]); (DInt true 8, [[VInt 1]]); (DFlt 8, [[VFlt 3 2]])]),
         (mk_etb 2 1 [(DDt UD, [[VNaT]]); (DFlt 8, [[VFlt 1 1]; [VFlt 3 2]])]),
         (mk_etb 3 1 [(DDt UD, [[VNaT]]); (DFlt 8, [[VFlt 1 1]]); (DFlt 8, [[VFlt 3 2]])]).
  vm_compute. repeat split; reflexivity.
Qed.
Print Assumptions C10_nat_values_path_refuted.
