(* C08 -- witnesses (by evaluation of the faithful implementation models) that the guards of the refinement
   theorems are necessary / that the unchanged code violates the property on these inputs (known findings). *)
Require Import SF.Prelude SF.PySlice SF.Dtype SF.Value SF.Blocks SF.UpdateSpec SF.BlocksUpdate SF.UpdateFrame.

Definition c08_frame : mframe :=
  mk_mframe [VStr "x"; VStr "y"] [VStr "a"; VStr "b"]
    [mk_block (DInt true 8) false [[VInt 1; VInt 2]; [VInt 3; VInt 4]]] (VStr "nm").

(* finding C08-drop-all-columns-with-rows: f.drop.iloc[0, :] raises ErrorInitFrame, the specification gives the (1, 0) frame *)
Theorem C08_drop_all_columns_with_rows_refuted :
  exists (f : mframe) (rk ck : option ckey),
    M_frame_drop f rk ck = Err "ErrorInitFrame" /\
    exists out, S_frame_drop (mf_oframe f) rk ck = Ok out /\ of_index out = [VStr "y"] /\ of_cols out = [].
Proof.
  exists c08_frame, (Some (CInt 0)), (Some CAll). split; [vm_compute; reflexivity|].
  eexists. split; [vm_compute; reflexivity|]. split; reflexivity.
Qed.
Print Assumptions C08_drop_all_columns_with_rows_refuted.

(* finding C08-zero-columns: mask on a Frame with rows and no columns raises ErrorInitTypeBlocks *)
Theorem C08_mask_zero_columns_refuted :
  exists (f : mframe) (rk : option ckey),
    M_frame_mask f rk None = Err "ErrorInitTypeBlocks" /\
    exists out, S_frame_mask (mf_oframe f) rk None = Ok out /\ of_index out = mf_index f.
Proof.
  exists (mk_mframe [VStr "x"; VStr "y"] [] [] VNone), (Some (CInt 0)). split; [vm_compute; reflexivity|].
  eexists. split; [vm_compute; reflexivity|]. reflexivity.
Qed.
Print Assumptions C08_mask_zero_columns_refuted.

(* finding C08-bloc-assign-coerces-whole-block: a 2-column int64 block, the key addresses column b only, the value is a
   bool: the model (as the code) casts the WHOLE block, so column a -- no cell addressed -- becomes object too *)
Theorem C08_bloc_whole_block_cast_refuted :
  exists (t : tb val) (masks : list (list bool)) (newdt : dtype -> dtype) (cells : Z -> list bool -> list val -> list val),
    wf_tb t /\ length masks = length (flatten t) /\
    map fst (flatten (bloc_walk newdt cells 0 t masks)) <> S_bloc_dtypes newdt masks (map fst (flatten t)).
Proof.
  exists [mk_block (DInt true 8) false [[VInt 1; VInt 2]; [VInt 3; VInt 4]]], [[false; false]; [true; true]],
         (fun _ => DObj), (fun _ m c => write_mask m [VBool true; VBool true] c).
  split; [repeat constructor; cbn; try lia; intros; discriminate|]. split; [reflexivity|]. vm_compute. discriminate.
Qed.
Print Assumptions C08_bloc_whole_block_cast_refuted.
