(* C08 -- witnesses (by evaluation of the faithful implementation models) that the guards of the refinement
   theorems are necessary / that the unchanged code violates the property on these inputs (known findings). *)
Require Import SF.Prelude SF.PySlice SF.Dtype SF.Value SF.Blocks SF.UpdateSpec SF.BlocksUpdate SF.UpdateFrame.

Definition c08_three : tb val :=
  [mk_block (DInt true 8) true [[VInt 1; VInt 2]]; mk_block (DInt true 8) true [[VInt 3; VInt 4]];
   mk_block (DInt true 8) true [[VInt 5; VInt 6]]].

(* finding C08-negative-positions-in-list-key: f.mask.iloc[:, [-1, 0]] on three 1-D blocks marks only the last column
   (sorted([-1, 0]) = [-1, 0] is not positional order, so the target for block 0 is never consumed) *)
Theorem C08_mask_negative_list_refuted :
  exists (t : tb val) (k : ckey) (on off : list val),
    wf_tb t /\ t <> [] /\ walk_dom k = false /\
    res_map flatten (M_mask_blocks t k on off) <> S_mask_columns (flatten t) k on off.
Proof.
  exists c08_three, (CList [-1; 0]), [VBool true; VBool true], [VBool false; VBool false].
  split; [repeat constructor; cbn; try lia; intros; reflexivity|].
  split; [discriminate|]. split; [reflexivity|]. vm_compute. discriminate.
Qed.
Print Assumptions C08_mask_negative_list_refuted.

(* same key for drop: the walk yields 2 columns where 1 must remain (the Frame constructor then raises ErrorInitFrame) *)
Theorem C08_drop_negative_list_refuted :
  exists (t : tb val) (k : ckey),
    wf_tb t /\ t <> [] /\ walk_dom k = false /\
    res_map flatten (M_drop_blocks t (Some k) (fun c => c)) <>
    res_map (map (fun c => (fst c, snd c))) (S_drop_columns (flatten t) (Some k)).
Proof.
  exists c08_three, (CList [-1; 0]).
  split; [repeat constructor; cbn; try lia; intros; reflexivity|].
  split; [discriminate|]. split; [reflexivity|]. vm_compute. discriminate.
Qed.
Print Assumptions C08_drop_negative_list_refuted.

Definition c08_frame : mframe :=
  mk_mframe [VStr "x"; VStr "y"] [VStr "a"; VStr "b"]
    [mk_block (DInt true 8) false [[VInt 1; VInt 2]; [VInt 3; VInt 4]]] (VStr "nm").

(* finding C08-drop-all-columns-with-rows: f.drop.iloc[0, :] raises ErrorInitFrame, the specification gives the (1, 0) frame *)
Theorem C08_drop_all_columns_with_rows_refuted :
  exists (f : mframe) (rk ck : option ckey),
    M_frame_drop f rk ck = Err "ErrorInitFrame" /\
    exists out, S_frame_drop (mf_oframe f) rk ck = Ok out /\ of_index out = [VStr "y"] /\ of_cols out = [].
Proof.
  exists c08_frame, (Some (CInt 0)), (Some CAll). split; [vm_compute; reflexivity|].
  eexists. split; [vm_compute; reflexivity|]. split; reflexivity.
Qed.
Print Assumptions C08_drop_all_columns_with_rows_refuted.

(* finding C08-zero-columns: mask on a Frame with rows and no columns raises ErrorInitTypeBlocks *)
Theorem C08_mask_zero_columns_refuted :
  exists (f : mframe) (rk : option ckey),
    M_frame_mask f rk None = Err "ErrorInitTypeBlocks" /\
    exists out, S_frame_mask (mf_oframe f) rk None = Ok out /\ of_index out = mf_index f.
Proof.
  exists (mk_mframe [VStr "x"; VStr "y"] [] [] VNone), (Some (CInt 0)). split; [vm_compute; reflexivity|].
  eexists. split; [vm_compute; reflexivity|]. reflexivity.
Qed.
Print Assumptions C08_mask_zero_columns_refuted.

(* finding C08-assign-iloc-boolean-array-column-key: f.assign.iloc[:, np.array([True, False])](0) -- key_to_ascending_key
   np.sort()s the Boolean array, so the LAST column is assigned; the specification addresses the first *)
Theorem C08_assign_boolean_array_refuted :
  exists (f : mframe) (ck : ckey) (out : oframe * layout),
    M_frame_assign_unit f None (Some ck) true true false (AElem (VInt 0)) (DInt true 8) (fun a _ => a) = Ok out /\
    S_frame_assign_ok (mf_oframe f) None (Some ck) (AElem (VInt 0)) VNaN (fst out) = false /\
    of_cols (fst out) = [(DInt true 8, [VInt 1; VInt 2]); (DInt true 8, [VInt 0; VInt 0])].
Proof.
  exists c08_frame, (CMask [true; false]). eexists. split; [vm_compute; reflexivity|]. split; vm_compute; reflexivity.
Qed.
Print Assumptions C08_assign_boolean_array_refuted.
