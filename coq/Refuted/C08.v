(* C08 -- witnesses that the guards of the C08 theorems are necessary on the faithful model. *)
Require Import SF.Prelude SF.PySlice SF.Dtype SF.PyDyn Gen.Gen_util.

(* D1: negative start/stop. key = slice(-1,-4,-2) on 4 columns selects [3;1]; the "ascending"
   slice computed by the code selects nothing. *)
Theorem C08_asc_slice_negative_refuted :
  exists k n ps k', positions k n = Some ps /\
    slice_to_ascending_slice (of_slice k) (PInt n) = of_slice k' /\
    positions k' n <> Some (rev ps).
Proof.
  exists (mk_slice (Some (-1)) (Some (-4)) (Some (-2))), 4, [3; 1],
         (mk_slice (Some (-3)) (Some 0) (Some 2)).
  vm_compute. repeat split; discriminate.
Qed.
Print Assumptions C08_asc_slice_negative_refuted.
