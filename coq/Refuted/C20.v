(* C20 -- witnesses: inputs on which the faithful implementation models do NOT meet the relational
   specification (the known findings).  Each is a concrete replay evaluated by vm_compute. *)
Require Import SF.Prelude SF.Dtype SF.Value SF.RelJoin SF.RelJoinVal SF.RelStack SF.RelStackVal SF.RelPivot SF.RelPivotVal.
Local Open Scope string_scope.

(* left.join_left(right, left_columns='k', right_columns='k', composite_index=False) with auto indices:
   keys a,b | a,z.  The unmatched left row b (label 1) receives the cells of the RIGHT ROW LABELLED 1. *)
Definition w_left : list vrow :=
  [mk_trow (VInt 0) [VStr "a"] [VStr "a"; VInt 1]; mk_trow (VInt 1) [VStr "b"] [VStr "b"; VInt 2]].
Definition w_right : list vrow :=
  [mk_trow (VInt 0) [VStr "a"] [VStr "a"; VInt 10]; mk_trow (VInt 1) [VStr "z"] [VStr "z"; VInt 20]].

Theorem join_noncomposite_label_clash_refuted :
  exists fr,
    S_is_many vkey_eqb w_left w_right = false /\
    M_join_v JLeft false VNone VNone ("L", "") ("R", "") ["k"; "x"] ["k"; "y"] w_left w_right = Ok fr /\
    jf_cols fr = [[VStr "a"; VStr "b"]; [VInt 1; VInt 2]; [VStr "a"; VStr "z"]; [VInt 10; VInt 20]] /\
    vframe_cells_eqb (S_frame_v JLeft VNone VNone ("L", "") ("R", "") ["k"; "x"] ["k"; "y"] w_left w_right) fr = false.
Proof. eexists. repeat split; vm_compute; reflexivity. Qed.
Print Assumptions join_noncomposite_label_clash_refuted.

(* the same data, composite_index=True: the specification is met (the guard of the finding is the path) *)
Example join_composite_same_data_ok :
  join_s_ok JLeft true VNone VNone ("L", "") ("R", "") ["k"; "x"] ["k"; "y"] w_left w_right
    (M_join_v JLeft true VNone VNone ("L", "") ("R", "") ["k"; "x"] ["k"; "y"] w_left w_right) = true.
Proof. vm_compute. reflexivity. Qed.
Print Assumptions join_composite_same_data_ok.

(* f.pivot('i', 'c', 'v', func=len) on rows (a,x,4) (b,x,1) (b,x,3): the cell (a,x) is backed by one row;
   the code shows the row's value 4, the relational definition demands len([4]) = 1. *)
Definition w_pivot : list vprow :=
  [mk_prow [VStr "a"] [VStr "x"] [VInt 4]; mk_prow [VStr "b"] [VStr "x"] [VInt 1]; mk_prow [VStr "b"] [VStr "x"] [VInt 3]].

Theorem pivot_singleton_func_skipped_refuted :
  sf_cells (M_pivot tup_eqb tup_eqb sort_tups sort_tups apply_nfunc true true (VInt 0) 1 [(VStr "", ALen)] w_pivot) = [[VInt 4]; [VInt 2]] /\
  sf_cells (S_pivot_v (VInt 0) false false [VStr "v"] [(VStr "", ALen)] w_pivot) = [[VInt 1]; [VInt 2]] /\
  ~ singleton_idem apply_nfunc (VStr "", ALen).
Proof.
  repeat split; try (vm_compute; reflexivity).
  intros H. specialize (H (VInt 4)). vm_compute in H. discriminate.
Qed.
Print Assumptions pivot_singleton_func_skipped_refuted.
