(* C10 -- witness of the known finding C10-zero-columns; stated over the constants extracted from the CURRENT source:
   it stops compiling when the proposed fix is applied and is then to be deleted with the known-findings entry. *)
Require Import SF.Prelude SF.Dtype SF.Value SF.Equal Gen.Gen_c10.

(* C10-zero-columns: two tables without columns: the comparison raises instead of answering True *)
Theorem C10_zero_columns_refuted : exists o a b,
  M_tb_equals c10_cfg_tb o a b = Err "ErrorInitTypeBlocks" /\ S_tb_equals o a b = true.
Proof.
  exists (mk_eopts false false false true), (mk_etb 1 2 []), (mk_etb 2 2 []).
  vm_compute. split; reflexivity.
Qed.
Print Assumptions C10_zero_columns_refuted.
