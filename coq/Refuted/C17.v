(* C17 -- where the faithful implementation model M does NOT meet the specification S: concrete witnesses (vm_compute).
   Each history lies outside the domain s_dom / mode_ok of the refinement theorem C17_bus_refines_spec, which shows that
   the guards of that theorem are necessary.  Labels 0..3, frames 10..13 (default-configuration decodings 110..113). *)
Require Import SF.Prelude SF.PySlice SF.Value SF.BusSpec SF.Bus SF.BusInst.

Definition c4 : list (Z * (Z * Z)) := [(0, (10, 10)); (1, (11, 11)); (2, (12, 12)); (3, (13, 13))].
Definition c4_mapped : list (Z * (Z * Z)) := [(0, (10, 110)); (1, (11, 111)); (2, (12, 112)); (3, (13, 113))].
Definition keys4 : list (Z * Z) := [(10, 4); (11, 3); (12, 2); (13, 1)].
Definition dom4 content mp ops :=
  s_dom Z Z Z.eqb Z.leb (zkey_tbl keys4) (z_store content 1000) (s_open Z Z (z_store content 1000) mp) ops.

(* bus.get(label) on a label that was never loaded: the placeholder (ObSlot None) instead of the Frame *)
Theorem get_returns_placeholder_refuted :
  exists ops, dom4 c4 None ops = false /\
    z_m_run c4 1000 None keys4 ops = [(bSlot None, [false; false; false; false])] /\
    z_s_run c4 1000 None keys4 ops = [(bSlot (Some 11), [false; true; false; false])].
Proof. exists [oGet 1]. vm_compute. auto. Qed.
Print Assumptions get_returns_placeholder_refuted.

(* tuple(bus.iter_element()) on a partly loaded Bus: placeholders *)
Theorem iter_element_placeholder_refuted :
  exists ops, dom4 c4 None ops = false /\
    z_trace_eqb (z_m_run c4 1000 None keys4 ops) (z_s_run c4 1000 None keys4 ops) = false /\
    nth 1 (map fst (z_m_run c4 1000 None keys4 ops)) bUnit = bSlots [Some 10; None; None; None].
Proof. exists [oSel (kl 0) false; oIterElem]. vm_compute. auto. Qed.
Print Assumptions iter_element_placeholder_refuted.

(* bus.sort_values(key=...) with max_persist smaller than the Bus: ErrorInitBus instead of the sorted Bus *)
Theorem sort_values_max_persist_refuted :
  exists ops, dom4 c4 (Some 2) ops = false /\
    map fst (z_m_run c4 1000 (Some 2) keys4 ops) = [bErr "ErrorInitBus"] /\
    map fst (z_s_run c4 1000 (Some 2) keys4 ops) = [bBus [3; 2; 1; 0] [true; true; false; false]].
Proof. exists [oSortValues true false]. vm_compute. auto. Qed.
Print Assumptions sort_values_max_persist_refuted.

(* max_persist = 1, per-label configuration map, a selection of two labels: decoded with the DEFAULT configuration
   (frame 111 instead of 11); the domain side condition mode_ok fails: reader_mode (Some 1) = CfgDefault and the
   store is not uniform *)
Theorem config_lookup_max_persist_1_refuted :
  exists ops, reader_mode (Some 1) = CfgDefault /\
    nth 1 (map fst (z_m_run c4_mapped 1000 (Some 1) keys4 ops)) bUnit = bSlots [None; Some 111] /\
    nth 1 (map fst (z_s_run c4_mapped 1000 (Some 1) keys4 ops)) bUnit = bSlots [Some 10; Some 11].
Proof. exists [oSel (kls [0; 1]) true; oIterElem]. vm_compute. auto. Qed.
Print Assumptions config_lookup_max_persist_1_refuted.

(* a read fails while the file is stale (label 1 stays in _last_accessed), the file comes back, three more accesses:
   3 Frames loaded with max_persist = 2 *)
Theorem failed_read_then_restore_exceeds_max_persist_refuted :
  exists ops, dom4 c4 (Some 2) ops = false /\
    last (map snd (z_m_run c4 1000 (Some 2) keys4 ops)) [] = [true; false; true; true] /\
    last (map snd (z_s_run c4 1000 (Some 2) keys4 ops)) [] = [false; false; true; true].
Proof.
  exists [oSel (kl 0) false; oSel (kl 2) false; oFile (Some 2000); oSel (kl 1) false; oFile (Some 1000);
          oSel (kl 0) false; oSel (kl 2) false; oSel (kl 3) false].
  vm_compute. auto.
Qed.
Print Assumptions failed_read_then_restore_exceeds_max_persist_refuted.
