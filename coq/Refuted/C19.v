(* C19 -- witnesses (by computation) that the faithful model of the unchanged code does NOT meet the full
   statement outside the guards of the refinement theorems: one per known finding. *)
Require Import SF.Prelude SF.PySlice SF.Value SF.Quilt SF.BatchView.

Local Open Scope string_scope.

(* members  x,y | z,w | v  over one opposite label *)
Definition q3 (retain : bool) : quilt Z :=
  mk_quilt [ (VStr "f1", mk_mframe [VStr "x"; VStr "y"] [[1]; [2]] (VStr "f1"));
             (VStr "f2", mk_mframe [VStr "z"; VStr "w"] [[3]; [4]] (VStr "f2"));
             (VStr "f3", mk_mframe [VStr "v"] [[5]] (VStr "f3")) ] [VStr "a"] retain.

(* C19-key-order-within: quilt.iloc[::-1] -- members follow the key, lines inside a member do not *)
Theorem C19_quilt_key_order_refuted :
  exists (q : quilt Z) (sel : key),
    M_extract_full q sel KAll = Ok (QFrame [VStr "v"; VStr "z"; VStr "w"; VStr "x"; VStr "y"] [VStr "a"] [[5]; [3]; [4]; [1]; [2]] VNone) /\
    S_extract q sel KAll      = Ok (QFrame [VStr "v"; VStr "w"; VStr "z"; VStr "y"; VStr "x"] [VStr "a"] [[5]; [4]; [3]; [2]; [1]] VNone).
Proof. exists (q3 false), (KSlice (mk_slice None None (Some (-1)%Z))). split; vm_compute; reflexivity. Qed.
Print Assumptions C19_quilt_key_order_refuted.

(* C19-key-order-revisit: quilt.iloc[[0,3,1]] raises, the concatenated Frame answers in key order *)
Theorem C19_quilt_key_revisit_refuted :
  exists (q : quilt Z) (sel : key),
    M_extract_full q sel KAll = Err "ErrorInitIndex" /\
    S_extract q sel KAll = Ok (QFrame [VStr "x"; VStr "w"; VStr "y"] [VStr "a"] [[1]; [4]; [2]] VNone).
Proof. exists (q3 false), (KList [0; 3; 1]%Z). split; vm_compute; reflexivity. Qed.
Print Assumptions C19_quilt_key_revisit_refuted.

(* C19-empty-selection: quilt.iloc[0:0] raises UnboundLocalError, the concatenated Frame gives an empty Frame *)
Theorem C19_quilt_empty_selection_refuted :
  exists (q : quilt Z) (sel : key),
    M_extract_full q sel KAll = Err "UnboundLocalError" /\
    S_extract q sel KAll = Ok (QFrame [] [VStr "a"] [] VNone).
Proof. exists (q3 true), (KSlice (mk_slice (Some 0%Z) (Some 0%Z) None)). split; vm_compute; reflexivity. Qed.
Print Assumptions C19_quilt_empty_selection_refuted.

(* C19-empty-member: a member Frame without lines makes every use of the Quilt raise *)
Theorem C19_quilt_empty_member_refuted :
  exists (q : quilt Z),
    M_extract_full q KAll KAll = Err "ErrorInitIndex" /\ M_labels q = Err "ErrorInitIndex" /\
    S_extract q KAll KAll = Ok (QFrame [VStr "x"] [VStr "a"] [[1]] VNone) /\ S_labels q = Ok [VStr "x"].
Proof.
  exists (mk_quilt [ (VStr "f1", mk_mframe [VStr "x"] [[1%Z]] (VStr "f1")); (VStr "f2", mk_mframe [] [] (VStr "f2")) ] [VStr "a"] false).
  repeat split; vm_compute; reflexivity.
Qed.
Print Assumptions C19_quilt_empty_member_refuted.

(* C19-iter-cross-axis: iteration across the Quilt axis is refused *)
Theorem C19_quilt_iter_cross_refuted :
  exists (q : quilt Z),
    M_iter_cross q = Err "NotImplementedError" /\ S_iter_cross q = Ok [(VStr "a", [1; 2; 3; 4; 5]%Z)].
Proof. exists (q3 false). split; vm_compute; reflexivity. Qed.
Print Assumptions C19_quilt_iter_cross_refuted.

(* C19-export-empty-result: Batch.to_frame with a result that has no row *)
Theorem C19_batch_export_empty_refuted :
  exists (items : list (val * cont)),
    M_to_frame 0 VNone [] items = Err "ErrorInitIndex" /\
    S_to_frame 0 VNone [] items = Ok (CFrame [VTup [VStr "a"; VStr "x"]] [VStr "c"] [[VInt 1]] VNone).
Proof.
  exists [ (VStr "a", CFrame [VStr "x"] [VStr "c"] [[VInt 1]] (VStr "a")); (VStr "b", CFrame [] [VStr "c"] [] (VStr "b")) ].
  split; vm_compute; reflexivity.
Qed.
Print Assumptions C19_batch_export_empty_refuted.
