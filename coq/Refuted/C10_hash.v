(* C10 -- witness of the known finding C10-he-hash-hierarchy; stated over the constants extracted from the CURRENT source:
   it stops compiling when the proposed fix is applied and is then to be deleted with the known-findings entry. *)
Require Import SF.Prelude SF.Dtype SF.Value SF.Equal Gen.Gen_c10.

(* C10-he-hash-hierarchy: the hash of a SeriesHE over an IndexHierarchy raises, while == answers *)
Theorem C10_he_hash_hierarchy_refuted : exists a,
  M_series_hash_key c10_hash_values_series a = Err "TypeError" /\ M_series_equals c10_cfgs c10_he_series a a = Ok true.
Proof.
  exists (mk_eseries 1 11 VNone (DInt true 8) [VInt 1; VInt 2]
            (AHier (mk_ehier 2 30 VNone
               (Lvl (mk_eindex 3 20 VNone (DStr 1) [VStr "a"]) [Lvl (mk_eindex 4 20 VNone (DInt true 8) [VInt 1; VInt 2]) []])))).
  vm_compute. split; reflexivity.
Qed.
Print Assumptions C10_he_hash_hierarchy_refuted.
