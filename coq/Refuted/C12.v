(* C12 -- behaviour of the faithful implementation model OUTSIDE the guards of the refinement
   theorems: concrete witnesses (one per known finding class), decided by vm_compute. *)
Require Import SF.Prelude SF.Dtype SF.Value SF.PyDyn SF.SortCore SF.SortModel Gen.Gen_util Gen.Gen_c12.
Local Open Scope string_scope.

(* a key function returning a 2-D array with ONE column: sort_index_for_order argsorts the 2-D array *)
Theorem C12_key_2d_one_column_refuted :
  exists s c, vecs_len_ok (length (os_index (ss_obs s))) c = true /\
              M_series_sort_index code_params s (Some c) true = Err "TypeError".
Proof.
  exists (mk_sseries (mk_oseries [VStr "a"; VStr "b"; VStr "c"] [VInt 3; VInt 1; VInt 2] (DInt true 8) VNone) 1).
  exists (CArr2 3 [[VInt 2; VInt 1; VInt 2]]).
  split; vm_compute; reflexivity.
Qed.
Print Assumptions C12_key_2d_one_column_refuted.

(* sorting a hierarchically indexed Frame by a column: the sorted label sequence is not in tree form *)
Theorem C12_hier_untree_refuted :
  exists f sel, tree_ok 2 (of_index (sf_obs f)) = true /\ fsv_dom (length (of_index (sf_obs f))) (fsv_cfs 1 (sf_obs f) sel true None) = true /\
                M_frame_sort_values code_params 1 f sel true None true = Err "ErrorInitIndex".
Proof.
  exists (mk_sframe (mk_oframe [VTup [VStr "b"; VInt 2]; VTup [VStr "b"; VInt 1]; VTup [VStr "a"; VInt 5]]
                               [VStr "p"] [(DInt true 8, [VInt 0; VInt 2; VInt 1])] VNone) 2 1).
  exists [0%nat].
  repeat split; vm_compute; reflexivity.
Qed.
Print Assumptions C12_hier_untree_refuted.

(* sort_values(axis=0) without key function on a Frame that has no columns: StopIteration instead of the (empty) Frame *)
Theorem C12_zero_columns_axis0_refuted :
  exists f sel, fsv_dom 0 (fsv_cfs 0 (sf_obs f) sel true None) = true /\
                M_frame_sort_values code_params 0 f sel true None true = Err "StopIteration".
Proof.
  exists (mk_sframe (mk_oframe [VStr "b"; VStr "a"] [] [] VNone) 1 1). exists [1%nat].
  split; vm_compute; reflexivity.
Qed.
Print Assumptions C12_zero_columns_axis0_refuted.
