(* C04 -- witnesses that the guards of the refinement theorems are necessary: behaviour where the faithful
   implementation model does NOT meet the specification (one per known finding class, by vm_compute). *)
Require Import SF.Prelude SF.PySlice SF.Dtype SF.Blocks SF.Select.

Definition i8 := DInt true 8.

(* kernel only (key_nodup): the zig-zag bundle [1,2,1] inside one 2-D block becomes slice(1, 0, -1): ONE column.
   TypeBlocks.from_blocks([np.arange(12).reshape(3,4)])._extract_array(column_key=[1,2,1]).
   Through the public Frame interface a repeated column position raises ErrorInitIndex (unique labels). *)
Theorem C04_select_columns_repeated_key_refuted :
  exists (t : tb Z) (k : ckey),
    res_map flatten (M_select_columns t k) = Ok [(i8, [1; 5; 9])] /\
    S_select_columns (flatten t) k = Ok [(i8, [1; 5; 9]); (i8, [2; 6; 10]); (i8, [1; 5; 9])].
Proof.
  exists [mk_block i8 false [[0; 4; 8]; [1; 5; 9]; [2; 6; 10]; [3; 7; 11]]], (CList [1; 2; 1]).
  vm_compute. split; reflexivity.
Qed.
Print Assumptions C04_select_columns_repeated_key_refuted.

(* finding C04-empty-columns-row-subset (extract_dom): f.iloc[0:2, 0:0] on a 4-row Frame *)
Theorem C04_empty_columns_row_subset_refuted :
  exists (f : mframe Z Z) (rk ck : ckey),
    extract_dom (mf_rows f) (Z.of_nat (length (flatten (mf_blocks f)))) rk ck = false /\
    M_extract Z.eqb (fun _ => DObj) f rk ck = Err "ErrorInitFrame" /\
    S_extract Z.eqb (fun _ => DObj) (abs_frame f) rk ck = Ok (XFrame [100; 101] [] [] 7).
Proof.
  exists (mk_mframe [100; 101; 102; 103] [200; 201]
            [mk_block i8 false [[1; 3; 5; 7]; [2; 4; 6; 8]]] 4 7),
         (CSlice (mk_slice (Some 0) (Some 2) None)), (CSlice (mk_slice (Some 0) (Some 0) None)).
  vm_compute. repeat split; reflexivity.
Qed.
Print Assumptions C04_empty_columns_row_subset_refuted.

(* finding C04-autoindex-unvalidated-int (auto_dom): sf.Series((10,20,30)).loc[-1] == 30, .loc[1:5] does not raise *)
Theorem C04_autoindex_unvalidated_refuted :
  let labels := [0; 1; 2] in
  (ck <- M_loc_auto Z.eqb Some labels (LLabel (-1));; ckey_sel ck 3) = Ok (SOne 2) /\
  S_loc Z.eqb labels (LLabel (-1)) = Err "KeyError" /\
  (ck <- M_loc_auto Z.eqb Some labels (LSlice (Some 1) (Some 5) None);; ckey_sel ck 3) = Ok (SMany [1; 2]) /\
  S_loc Z.eqb labels (LSlice (Some 1) (Some 5) None) = Err "KeyError".
Proof. vm_compute. repeat split; reflexivity. Qed.
Print Assumptions C04_autoindex_unvalidated_refuted.

(* finding C04-label-slice-negative-step (lkey_dom): s.loc['d':'b':-1] on labels a..e returns only 'd' *)
Theorem C04_label_slice_negative_step_refuted :
  let labels := [10; 20; 30; 40; 50] in
  (ck <- M_loc_map Z.eqb labels (LSlice (Some 40) (Some 20) (Some (-1)));; ckey_sel ck 5) = Ok (SMany [3]) /\
  S_loc Z.eqb labels (LSlice (Some 40) (Some 20) (Some (-1))) = Ok (SMany [3; 2; 1]).
Proof. vm_compute. split; reflexivity. Qed.
Print Assumptions C04_label_slice_negative_step_refuted.
