(* C02 -- behaviour of the faithful model M (= the unchanged code) that does NOT meet the property: a concrete
   witness decided by computation, for the known finding C02-autogo-stale-positions (known/C02.jsonl).  One file per finding, so that
   repairing one defect breaks exactly its own witness. *)
Require Import SF.Prelude SF.Value SF.PySlice SF.IndexBij SF.IndexBijVal.

(* C02-autogo-stale-positions: auto-integer IndexGO [0,1]: after append(2), loc_to_iloc(2) raises
   KeyError until some reader refreshes the cached positions array *)
Theorem C02_autogo_stale_positions_refuted : exists (ops : list (op val)) (k : key val),
  go_dom val_eqb vto_Z (M_go_auto VInt 2) ops = true /\
  let g := fst (M_go_run val_eqb vto_Z (M_go_auto VInt 2) ops) in
  M_go_lookup val_eqb vto_Z g k = Err "KeyError" /\
  M_go_contains val_eqb vto_Z g k = true /\
  S_lookup val_eqb (g_mut g) k = Ok 2.
Proof. exists [OpAppend (vkey (VInt 2))], (vkey (VInt 2)). vm_compute. auto. Qed.
Print Assumptions C02_autogo_stale_positions_refuted.
