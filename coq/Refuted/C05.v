(* C05 -- witnesses (by evaluation) that the faithful implementation model does NOT meet the full statement
   outside the guard of C05_hloc_exact: the open findings. *)
Require Import SF.Prelude SF.PySlice SF.Hier.

Definition t_ex : level Z :=
  Node 0 [1; 2] [Node 0 [1] [Leaf 0 [7; 8]]; Node 2 [1; 3] [Leaf 0 [9]; Leaf 1 [7; 8]]].

(* HLoc[2, 1, ::-1] -- a label slice walking down with open ends at the innermost depth: LocMap.loc_to_iloc bounds
   open ends by the leaf extent only for step None or > 0 (index.py:233-238), so the slice runs over the whole
   hierarchy instead of the one-row leaf at position 2. *)
Theorem C05_hloc_open_neg_step_refuted :
  exists (t : level Z) (key : list (sel Z)),
    wf Z Z.eqb 2 t = true /\
    M_hloc Z Z.eqb t key = Ok (false, [4; 3; 2; 1; 0]) /\
    S_hloc Z Z.eqb (flatten t) key = Ok (false, [2]).
Proof.
  exists t_ex, [SOne 2; SOne 1; SStep None None (-1)]. vm_compute. repeat split; reflexivity.
Qed.
Print Assumptions C05_hloc_open_neg_step_refuted.
