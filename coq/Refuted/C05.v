(* C05 -- witnesses (by evaluation) that the faithful implementation model does NOT meet the full
   statement outside the guards of the refinement theorems: the known findings. *)
Require Import SF.Prelude SF.PySlice SF.Hier.

Definition t_ex : level Z :=
  Node 0 [1; 2] [Node 0 [1] [Leaf 0 [7; 8]]; Node 2 [1; 3] [Leaf 0 [9]; Leaf 1 [7; 8]]].

(* HLoc[2, 3, :7] -- half-open label slice at the innermost depth: the leaf offset is lost, rows of
   other subtrees are selected (index.py:219 map_slice_args yields None for the open end). *)
Theorem C05_hloc_open_leaf_slice_refuted :
  exists (t : level Z) (key : list (sel Z)),
    wf Z Z.eqb 2 t = true /\
    M_hloc Z Z.eqb t key = Ok (false, [0; 1; 2; 3]) /\
    S_hloc Z Z.eqb (flatten t) key = Ok (false, [3]).
Proof.
  exists t_ex, [SOne 2; SOne 3; SSlice None (Some 7)]. vm_compute. repeat split; reflexivity.
Qed.
Print Assumptions C05_hloc_open_leaf_slice_refuted.

(* IndexHierarchyGO.append(('a', 2)) on [('a',1), ('b',1)] stores ('b', 2): IndexLevelGO.append descends the
   last edge although the outer label names an earlier sibling (index_level.py:895-901). *)
Theorem C05_append_last_edge_refuted :
  exists (t t' : level Z) (key : list Z),
    wf Z Z.eqb 1 t = true /\
    M_append Z Z.eqb t key = Ok t' /\
    flatten t' = flatten t ++ [[2; 2]] /\ key = [1; 2].
Proof.
  exists (Node 0 [1; 2] [Leaf 0 [1]; Leaf 1 [1]]),
         (Node 0 [1; 2] [Leaf 0 [1]; Leaf 1 [1; 2]]), [1; 2].
  vm_compute. repeat split; reflexivity.
Qed.
Print Assumptions C05_append_last_edge_refuted.

(* ('a', 1, 'x', 'extra') in ih is True: __contains__ returns at the leaf without checking that the key is
   exhausted (index_level.py:441-442), while the tuple is no row and leaf_loc_to_iloc rejects it. *)
Theorem C05_contains_overlong_refuted :
  exists (t : level Z) (key : list Z),
    wf Z Z.eqb 1 t = true /\
    M_contains Z Z.eqb key t = true /\
    S_contains Z Z.eqb (flatten t) key = false /\
    M_leaf_loc Z Z.eqb key t 0 = Err "KeyError".
Proof.
  exists (Node 0 [1] [Leaf 0 [5]]), [1; 5; 5]. vm_compute. repeat split; reflexivity.
Qed.
Print Assumptions C05_contains_overlong_refuted.
