(* C05 -- witnesses (by evaluation) that the faithful implementation model does NOT meet the full statement
   outside the guard of C05_hloc_exact: the open findings. *)
Require Import SF.Prelude SF.PySlice SF.Hier.

Definition t_ex : level Z :=
  Node 0 [1; 2] [Node 0 [1] [Leaf 0 [7; 8]]; Node 2 [1; 3] [Leaf 0 [9]; Leaf 1 [7; 8]]].

(* HLoc[2, 1, ::-1] -- a label slice walking down with open ends at the innermost depth: LocMap.loc_to_iloc bounds
   open ends by the leaf extent only for step None or > 0 (index.py:233-238), so the slice runs over the whole
   hierarchy instead of the one-row leaf at position 2. *)
Theorem C05_hloc_open_neg_step_refuted :
  exists (t : level Z) (key : list (sel Z)),
    wf Z Z.eqb 2 t = true /\
    M_hloc Z Z.eqb t key = Ok (false, [4; 3; 2; 1; 0]) /\
    S_hloc Z Z.eqb (flatten t) key = Ok (false, [2]).
Proof.
  exists t_ex, [SOne 2; SOne 1; SStep None None (-1)]. vm_compute. repeat split; reflexivity.
Qed.
Print Assumptions C05_hloc_open_neg_step_refuted.

(* level_drop(-1) on a:(1:(7,8)) b:(1:(9), 3:(7,8)) leaves the subtree of b at offset 2 although a now holds one row:
   the tree is no longer well formed and the leaf lookup of (2, 3) answers 3 where the tuple sits at position 2. *)
Theorem C05_level_drop_inner_offsets_refuted :
  exists (t : level Z),
    wf Z Z.eqb 2 t = true /\
    flatten (M_drop_inner Z t) = [[1; 1]; [2; 1]; [2; 3]] /\
    offsets_ok (M_drop_inner Z t) = false /\
    M_leaf_loc Z Z.eqb [2; 3] (M_drop_inner Z t) 0 = Ok 3 /\
    S_lookup Z Z.eqb (flatten (M_drop_inner Z t)) [2; 3] = Ok 2.
Proof. exists t_ex. vm_compute. repeat split; reflexivity. Qed.
Print Assumptions C05_level_drop_inner_offsets_refuted.
