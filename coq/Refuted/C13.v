(* C13 -- witnesses (by vm_compute) where the faithful model does NOT meet the full statement. *)
Require Import SF.Prelude SF.PySlice SF.Value SF.Group SF.GroupVal SF.WindowSpec SF.Window.
Local Open Scope string_scope.

(* finding C13-str-fallback: an object key column holding 1 and '1' (unorderable -> np.unique raises
   TypeError -> groups are formed on str(x)): ONE group labelled 1 that also contains the row whose
   key is '1'.  The guard repr_inj_on of C13_fallback_exact_when_repr_separates is necessary. *)
Theorem C13_str_fallback_refuted :
  exists rows, gres_same (M_frame_group_api 0 (Some (KCell 0)) false true true true false rows)
                         (S_frame_group_api 0 (Some (KCell 0)) rows) = false.
Proof. exists [(VInt 0, [VInt 1]); (VInt 1, [VStr "1"]); (VInt 2, [VInt 1])]. vm_compute. reflexivity. Qed.
Print Assumptions C13_str_fallback_refuted.

(* the [1:] trick of the sort path is correct only on sorted keys (dependence on the stable sort):
   on [1;2;1] the slicing puts a row with key 2 into a group labelled 1 *)
Theorem C13_transitions_need_sorted_refuted :
  exists (v : list Z) k g, In (k, g) (M_A_sorted (fun x => x) Z.eqb v) /\ ~ Forall (fun r => r = k) g.
Proof.
  exists [1; 2; 1], 1, [1; 2]. split; [vm_compute; left; reflexivity|].
  intro H. inversion H as [|? ? _ H2]. inversion H2 as [|? ? H3 _]. discriminate H3.
Qed.
Print Assumptions C13_transitions_need_sorted_refuted.

(* finding C13-framego-axis1-sort-path: FrameGO.iter_group_items(element key, axis=1) on the sort path
   (flat axes, non-object row dtype) raises ErrorInitFrame; the property demands the column groups *)
Theorem C13_framego_axis1_sort_path_refuted :
  exists rows g, M_frame_group_api 1 (Some (KCell 0)) false true true false true rows = Err "ErrorInitFrame" /\
                 S_frame_group_api 1 (Some (KCell 0)) rows = Ok g.
Proof. exists [(VStr "a", [VInt 1]); (VStr "b", [VInt 1]); (VStr "c", [VInt 2])]. eexists. split; vm_compute; reflexivity. Qed.
Print Assumptions C13_framego_axis1_sort_path_refuted.

(* finding C13-window-array-axis1-empty: Frame.iter_window_array_items(size=1, start_shift=-1, axis=1) on two columns:
   the third anchor (left edge 2) selects no column, the array extraction raises, the two valid windows are lost *)
Theorem C13_window_array_axis1_empty_refuted :
  exists (rows : list (val * list val)) p out,
    M_windows_frame_array_axis1 rows p = Err "RuntimeError" /\ S_windows rows p = Ok out /\ length out = 2%nat.
Proof.
  exists [(VStr "a", [VInt 1; VInt 2]); (VStr "b", [VInt 3; VInt 4])], (mk_wparams 1 1 true 0 (-1) 0). eexists.
  split; [vm_compute; reflexivity | split; vm_compute; reflexivity].
Qed.
Print Assumptions C13_window_array_axis1_empty_refuted.
