(* C13 -- witnesses (by vm_compute) where the faithful model does NOT meet the full statement. *)
Require Import SF.Prelude SF.Value SF.Group SF.GroupVal.
Local Open Scope string_scope.

(* finding C13-str-fallback: an object key column holding 1 and '1' (unorderable -> np.unique raises
   TypeError -> groups are formed on str(x)): ONE group labelled 1 that also contains the row whose
   key is '1'.  The guard repr_inj_on of C13_fallback_exact_when_repr_separates is necessary. *)
Theorem C13_str_fallback_refuted :
  exists rows, gres_same (M_frame_group_api 0 (Some (KCell 0)) false true true true rows)
                         (S_frame_group_api 0 (Some (KCell 0)) rows) = false.
Proof. exists [(VInt 0, [VInt 1]); (VInt 1, [VStr "1"]); (VInt 2, [VInt 1])]. vm_compute. reflexivity. Qed.
Print Assumptions C13_str_fallback_refuted.

(* the [1:] trick of the sort path is correct only on sorted keys (dependence on the stable sort):
   on [1;2;1] the slicing puts a row with key 2 into a group labelled 1 *)
Theorem C13_transitions_need_sorted_refuted :
  exists (v : list Z) k g, In (k, g) (M_A_sorted (fun x => x) Z.eqb v) /\ ~ Forall (fun r => r = k) g.
Proof.
  exists [1; 2; 1], 1, [1; 2]. split; [vm_compute; left; reflexivity|].
  intro H. inversion H as [|? ? _ H2]. inversion H2 as [|? ? H3 _]. discriminate H3.
Qed.
Print Assumptions C13_transitions_need_sorted_refuted.
