(* C13 -- witnesses (by vm_compute) where the faithful model does NOT meet the full statement. *)
Require Import SF.Prelude SF.Value SF.Group SF.GroupVal.
Local Open Scope string_scope.

(* finding C13-str-fallback: an object key column holding 1 and '1' (unorderable -> np.unique raises
   TypeError -> groups are formed on str(x)): ONE group labelled 1 that also contains the row whose
   key is '1'.  The guard repr_inj_on of C13_fallback_exact_when_repr_separates is necessary. *)
Theorem C13_str_fallback_refuted :
  exists rows, gres_same (M_frame_group_api 0 (Some (KCell 0)) false true true true 1 rows)
                         (S_frame_group_api 0 (Some (KCell 0)) rows) = false.
Proof. exists [(VInt 0, [VInt 1]); (VInt 1, [VStr "1"]); (VInt 2, [VInt 1])]. vm_compute. reflexivity. Qed.
Print Assumptions C13_str_fallback_refuted.

(* finding C13-axis1-one-row-list-key: f.iter_group_items([row_label], axis=1) raises ValueError
   under NumPy 2, the property demands the groups *)
Theorem C13_axis1_one_row_list_key_refuted :
  exists rows g, M_frame_group_api 1 (Some (KCells [0%nat])) true true true false 1 rows = Err "ValueError" /\
                 S_frame_group_api 1 (Some (KCells [0%nat])) rows = Ok g.
Proof. exists [(VStr "a", [VInt 1]); (VStr "b", [VInt 1])]. eexists. split; vm_compute; reflexivity. Qed.
Print Assumptions C13_axis1_one_row_list_key_refuted.

(* finding C13-frame-labels-multi-depth-apply: Frame.iter_group_labels([d0, d1]).apply(func) raises
   TypeError (ndarray group keys are unhashable), the property demands one labelled result per group *)
Theorem C13_frame_labels_multi_depth_apply_refuted :
  exists rows r, M_apply_api true rows (M_unique_api false (KDepths [0%nat; 1%nat]) rows) = Err "TypeError" /\
                 S_apply_api rows (S_group_api (KDepths [0%nat; 1%nat]) rows) = Ok r.
Proof. exists [(VTup [VStr "a"; VInt 1], [VInt 5])]. eexists. split; vm_compute; reflexivity. Qed.
Print Assumptions C13_frame_labels_multi_depth_apply_refuted.

(* the [1:] trick of the sort path is correct only on sorted keys (dependence on the stable sort):
   on [1;2;1] the slicing puts a row with key 2 into a group labelled 1 *)
Theorem C13_transitions_need_sorted_refuted :
  exists (v : list Z) k g, In (k, g) (M_A_sorted (fun x => x) Z.eqb v) /\ ~ Forall (fun r => r = k) g.
Proof.
  exists [1; 2; 1], 1, [1; 2]. split; [vm_compute; left; reflexivity|].
  intro H. inversion H as [|? ? _ H2]. inversion H2 as [|? ? H3 _]. discriminate H3.
Qed.
Print Assumptions C13_transitions_need_sorted_refuted.


(* finding C13-axis1-multi-key-object: two or more key rows on axis 1 whose common dtype is object
   (here a bool and an int column): the string branch indexes the wrong axis when it restores the
   group labels; the labels are exchanged between the two groups *)
Theorem C13_axis1_multi_key_object_refuted :
  exists rows, gres_same (M_frame_group_api 1 (Some (KCells [1%nat; 2%nat])) true true true true 2 rows)
                         (S_frame_group_api 1 (Some (KCells [1%nat; 2%nat])) rows) = false.
Proof. exists [(VStr "c0", [VBool true; VBool false; VBool true]); (VStr "c1", [VInt 9; VInt 9; VInt 9])]. vm_compute. reflexivity. Qed.
Print Assumptions C13_axis1_multi_key_object_refuted.
