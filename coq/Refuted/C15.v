(* C15 -- witnesses (by vm_compute) that the faithful model M does NOT meet the specification outside the guards:
   one per known finding class that M reproduces. *)
Require Import SF.Prelude SF.Value SF.Dtype SF.Reduce Gen.Gen_c15_table.
From Coq Require Import QArith.
Local Open Scope Z_scope.

(* one row, two blocks, skipna=False: the size_one_unity shortcut raises ValueError; the specification has a value *)
Theorem C15_one_row_unity_refuted :
  exists bs, wf_frame 1 bs = true /\
    M_frame c15_table Fsum 0 false 0 1 bs = Err "ValueError" /\
    reduce_match (S_frame Fsum 0 false 0 1 (frame_cells bs)) [] (Ok ([], [VInt 1; VFlt 5 2])) = true.
Proof.
  exists [(DInt true 8, B1 [VInt 1]); (DFlt 8, B1 [VFlt 5 2])].
  vm_compute. repeat split; reflexivity.
Qed.
Print Assumptions C15_one_row_unity_refuted.

(* no column: self._blocks[0] raises IndexError; per row the sum of nothing is 0 *)
Theorem C15_zero_columns_refuted :
  M_frame c15_table Fsum 1 true 0 2 [] = Err "IndexError" /\
  reduce_match (S_frame Fsum 1 true 0 2 (frame_cells [])) [] (Ok ([], [VInt 0; VInt 0])) = true.
Proof. vm_compute. split; reflexivity. Qed.
Print Assumptions C15_zero_columns_refuted.

(* a column that is entirely NaN: np.nanargmin raises for the whole frame; per column: position 0 and NaN *)
Theorem C15_argminmax_all_nan_refuted :
  exists bs, wf_frame 2 bs = true /\
    M_argframe true 0 true 2 bs = Err "ValueError" /\
    S_argframe true 0 true 2 (frame_cells bs) = Ok [ONum (0 # 1); ONaN].
Proof.
  exists [(DFlt 8, B2 [[VFlt 1 1; VFlt 2 1]; [VNaN; VNaN]])].
  vm_compute. repeat split; reflexivity.
Qed.
Print Assumptions C15_argminmax_all_nan_refuted.
