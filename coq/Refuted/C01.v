(* C01 -- witnesses (by vm_compute) that each hypothesis packed into `guarded` is NECESSARY: without it the faithful
   implementation model M lets a container change, exactly as static-frame 0.8.8 does.
   (The former witnesses about pickling -- Index._positions and ArrayGO._array left writeable by __setstate__ -- were deleted when
   /repo commits 72854e7 and f0b8a42 repaired them; the regenerated table now says every array slot is re-frozen, see
   Properties/C01.v C01_setstate_refreezes_every_array_slot, and the histories are kept as regression cases in the check module.) *)
Require Import SF.Prelude SF.Heap SF.HeapGrow Proofs.HeapGrowFacts.
Local Open Scope nat_scope.

(* FINDING C01-readonly-alias.  a = np.array([1,2,3]); v = a[:]; v.flags.writeable = False; s = sf.Series(v); a[0] = 99
   util.immutable_filter keeps a read-only argument "as is"; the base it views is still writeable. *)
Theorem C01_readonly_alias_refuted : exists h1 h2 c,
  guarded w0 (h1 ++ h2) = false /\
  c < length (w_conts (M_run w0 h1)) /\
  cont_obs (M_run w0 (h1 ++ h2)) c <> cont_obs (M_run w0 h1) c.
Proof.
  exists [SNew [1; 2; 3]%Z; SView 0 [0; 1; 2]; SFreeze 1; SConstruct [FromCaller RFilter 1]], [SWrite 0 0 99%Z], 0.
  split; [vm_compute; reflexivity|]. split; [vm_compute; repeat constructor|]. vm_compute. discriminate.
Qed.
Print Assumptions C01_readonly_alias_refuted.

(* STATED EXCLUSION (ownership transfer).  a = np.array([1,2,3]); v = a[:]; f = sf.Frame(a, own_data=True); v[0] = 99
   own_data=True sets a.flags.writeable = False in place and keeps a; a view taken earlier stays writeable. *)
Theorem C01_own_data_view_refuted : exists h1 h2 c,
  guarded w0 (h1 ++ h2) = false /\
  c < length (w_conts (M_run w0 h1)) /\
  cont_obs (M_run w0 (h1 ++ h2)) c <> cont_obs (M_run w0 h1) c.
Proof.
  exists [SNew [1; 2; 3]%Z; SView 0 [0; 1; 2]; SConstruct [FromCaller ROwn 0]], [SWrite 1 0 99%Z], 0.
  split; [vm_compute; reflexivity|]. split; [vm_compute; repeat constructor|]. vm_compute. discriminate.
Qed.
Print Assumptions C01_own_data_view_refuted.

(* STATED HYPOTHESIS of the growable-member theorems: a static container that keeps the member lists of a GROW-ONLY source
   (what `Frame(frame_go)` would do if the constructor skipped TypeBlocks.copy()) changes when the source grows. *)
Theorem C01_share_with_growable_refuted : exists h1 h2 c,
  gguarded gw0 (h1 ++ h2) = false /\
  gobs_at (grun gM_step gw0 (h1 ++ h2)) c <> gobs_at (grun gM_step gw0 h1) c.
Proof. exact share_with_growable_refuted. Qed.
Print Assumptions C01_share_with_growable_refuted.
