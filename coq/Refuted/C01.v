(* C01 -- witnesses (by vm_compute) that each hypothesis packed into `guarded` is NECESSARY: without it the faithful
   implementation model M lets a container change, exactly as static-frame 0.8.8 does. *)
Require Import SF.Prelude SF.Heap Gen.Gen_c01.
Local Open Scope nat_scope.

(* FINDING C01-readonly-alias.  a = np.array([1,2,3]); v = a[:]; v.flags.writeable = False; s = sf.Series(v); a[0] = 99
   util.immutable_filter keeps a read-only argument "as is"; the base it views is still writeable. *)
Theorem C01_readonly_alias_refuted : exists h1 h2 c,
  guarded w0 (h1 ++ h2) = false /\
  c < length (w_conts (M_run w0 h1)) /\
  cont_obs (M_run w0 (h1 ++ h2)) c <> cont_obs (M_run w0 h1) c.
Proof.
  exists [SNew [1; 2; 3]%Z; SView 0 [0; 1; 2]; SFreeze 1; SConstruct [FromCaller RFilter 1]], [SWrite 0 0 99%Z], 0.
  split; [vm_compute; reflexivity|]. split; [vm_compute; repeat constructor|]. vm_compute. discriminate.
Qed.
Print Assumptions C01_readonly_alias_refuted.

(* STATED EXCLUSION (ownership transfer).  a = np.array([1,2,3]); v = a[:]; f = sf.Frame(a, own_data=True); v[0] = 99
   own_data=True sets a.flags.writeable = False in place and keeps a; a view taken earlier stays writeable. *)
Theorem C01_own_data_view_refuted : exists h1 h2 c,
  guarded w0 (h1 ++ h2) = false /\
  c < length (w_conts (M_run w0 h1)) /\
  cont_obs (M_run w0 (h1 ++ h2)) c <> cont_obs (M_run w0 h1) c.
Proof.
  exists [SNew [1; 2; 3]%Z; SView 0 [0; 1; 2]; SConstruct [FromCaller ROwn 0]], [SWrite 1 0 99%Z], 0.
  split; [vm_compute; reflexivity|]. split; [vm_compute; repeat constructor|]. vm_compute. discriminate.
Qed.
Print Assumptions C01_own_data_view_refuted.

(* FINDING C01-pickle-positions, with the re-freeze flags READ FROM THE CURRENT SOURCE (Gen_c01.pickle_flags_index).
   i = pickle.loads(pickle.dumps(sf.Index((10,20,30)))); p = i.positions; p[0] = 99
   Index.__setstate__ re-freezes _labels only: the unpickled _positions array is writeable and is handed out.
   (Once __setstate__ freezes _positions too this witness no longer compiles and must be deleted.) *)
Theorem C01_pickle_positions_refuted : exists h1 h2 c,
  guarded w0 (h1 ++ h2) = false /\
  c < length (w_conts (M_run w0 h1)) /\
  cont_obs (M_run w0 (h1 ++ h2)) c <> cont_obs (M_run w0 h1) c.
Proof.
  exists [SConstruct [FromVals [10; 20; 30]%Z; FromVals [0; 1; 2]%Z]; SDerive 0 (pickle_dsrcs_from 0 pickle_flags_index); SExpose 1 1],
         [SWrite 0 0 99%Z], 1.
  split; [vm_compute; reflexivity|]. split; [vm_compute; repeat constructor|]. vm_compute. discriminate.
Qed.
Print Assumptions C01_pickle_positions_refuted.

(* ... and the array handed out after the round trip is writeable (the "read-only status" part of the property) *)
Theorem C01_pickle_positions_writeable_refuted : exists hist,
  callers_obs (M_run w0 hist) = [([0; 1; 2]%Z, true)].
Proof.
  exists [SConstruct [FromVals [10; 20; 30]%Z; FromVals [0; 1; 2]%Z]; SDerive 0 (pickle_dsrcs_from 0 pickle_flags_index); SExpose 1 1].
  vm_compute. reflexivity.
Qed.
Print Assumptions C01_pickle_positions_writeable_refuted.

(* ArrayGO has no __setstate__ at all (FINDING C01-pickle-arraygo) *)
Theorem C01_pickle_arraygo_refuted : pickle_flag_arraygo = false.
Proof. reflexivity. Qed.
Print Assumptions C01_pickle_arraygo_refuted.
