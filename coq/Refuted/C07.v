(* C07 -- witnesses: behaviour of the faithful model that does NOT meet the full statement (known findings);
   each shows that a guard of a Properties/C07.v theorem is necessary. *)
Require Import SF.Prelude SF.PySlice SF.Dtype SF.PyDyn Gen.Gen_util SF.Coerce.
Local Open Scope string_scope.
Local Open Scope Z_scope.

(* C07-int64-float (D7): int64 meets float64 -> float64, which does not hold 2**60+1 *)
Theorem C07_int64_float64_refuted : exists d1 d2 v r,
  resolve_dtype (PDtype d1) (PDtype d2) = PDtype r /\ holds d1 v = true /\ holds r v = false.
Proof. exists (DInt true 8), (DFlt 8), (XInt (2 ^ 60 + 1)), (DFlt 8). vm_compute. auto. Qed.
Print Assumptions C07_int64_float64_refuted.

(* C07-int64-float: uint64 meets int8 -> float64 *)
Theorem C07_uint64_int_refuted : exists d1 d2 v r,
  resolve_dtype (PDtype d1) (PDtype d2) = PDtype r /\ holds d1 v = true /\ holds r v = false.
Proof. exists (DInt false 8), (DInt true 1), (XInt (2 ^ 64 - 1)), (DFlt 8). vm_compute. auto. Qed.
Print Assumptions C07_uint64_int_refuted.

(* C07-datetime-week: datetime64[M] meets datetime64[W] -> [W]; 2020-03 (month 602) is not a week boundary *)
Theorem C07_datetime_week_refuted : exists d1 d2 v r,
  resolve_dtype (PDtype d1) (PDtype d2) = PDtype r /\ holds d1 v = true /\ holds r v = false.
Proof. exists (DDt UM), (DDt UW), (XDt UM 602), (DDt UW). vm_compute. auto. Qed.
Print Assumptions C07_datetime_week_refuted.

(* C07-time-to-object: a datetime64 column meets a str: object, and NaT / a [ns] cell does not survive astype(object) *)
Theorem C07_time_to_object_refuted : exists d e v1 v2,
  holds d v1 = true /\ holds d v2 = true /\
  survives (resolve d (elem_dtype e)) (FromArr d v1) = false /\ survives (resolve d (elem_dtype e)) (FromArr d v2) = false.
Proof. exists (DDt Uns), (EPy (XStr "a")), (XNaT false), (XDt Uns 1). vm_compute. auto. Qed.
Print Assumptions C07_time_to_object_refuted.

(* C07-iter-bool / -bytes / -bigint: the flag loop does not choose object and NumPy's discovery casts *)
Theorem C07_iter_refuted : exists es1 es2 es3 d1 d2 d3 e1 e2 e3,
  iter_object_spec es1 = false /\ plan_dtype (PIter es1) = Ok d1 /\ In e1 es1 /\ survives d1 (FromElem e1) = false /\
  iter_object_spec es2 = false /\ plan_dtype (PIter es2) = Ok d2 /\ In e2 es2 /\ survives d2 (FromElem e2) = false /\
  iter_object_spec es3 = false /\ plan_dtype (PIter es3) = Ok d3 /\ In e3 es3 /\ survives d3 (FromElem e3) = false.
Proof.
  exists [EPy (XBool true); EPy (XInt 2)], [EPy (XBytes "a"); EPy (XInt 1)], [EPy (XInt (2 ^ 53 + 1)); ENp (DFlt 8) (XFlt (FFin 3 (-1)))],
         (DInt true 8), (DBytes 21), (DFlt 8), (EPy (XBool true)), (EPy (XInt 1)), (EPy (XInt (2 ^ 53 + 1))).
  vm_compute. intuition.
Qed.
Print Assumptions C07_iter_refuted.

(* C07-block-retype: one 2-column int64 block, only the first column targeted, a str value: the second column
   becomes object although no cell of it is addressed (the guard bloc_uniform is necessary) *)
Theorem C07_bloc_retype_refuted : exists blocks hits vd,
  length hits = total_width blocks /\ M_bloc blocks hits vd <> S_bloc (expand_blocks blocks) hits vd.
Proof. exists [(DInt true 8, 2%nat)], [true; false], (DStr 1). split; [reflexivity|]. vm_compute. discriminate. Qed.
Print Assumptions C07_bloc_retype_refuted.

(* C07-overlay-timedelta: util.dtype_kind_to_na (regenerated) answers the DATETIME NaT for kind 'm'; a timedelta64
   column reindexed with it resolves to object *)
Require Import SF.CoerceDyn.
Theorem C07_kind_to_na_timedelta_refuted : exists u e,
  decode_elem (dtype_kind_to_na (PStr "m")) = Some e /\ resolve (DTd u) (elem_dtype e) = DObj.
Proof. exists Uns, (ENp (DDt UGen) (XNaT false)). vm_compute. auto. Qed.
Print Assumptions C07_kind_to_na_timedelta_refuted.
