(* C07 -- witnesses: behaviour of the faithful model that does NOT meet the full statement (known findings). *)
Require Import SF.Prelude SF.PySlice SF.Dtype SF.PyDyn Gen.Gen_util SF.Coerce.
Local Open Scope string_scope.
Local Open Scope Z_scope.

(* D7: int64 meets float64 -> float64, which does not hold 2**60+1 (the guard lossy_pair is necessary) *)
Theorem C07_int64_float64_refuted : exists d1 d2 v r,
  resolve_dtype (PDtype d1) (PDtype d2) = PDtype r /\ holds d1 v = true /\ holds r v = false.
Proof. exists (DInt true 8), (DFlt 8), (XInt (2 ^ 60 + 1)), (DFlt 8). vm_compute. auto. Qed.
Print Assumptions C07_int64_float64_refuted.
