(* C16 -- witnesses: inputs of the property's quantifier where the faithful model of the pipeline does NOT give
   the Frame / the record back (one per known finding class that the model covers). *)
Require Import SF.Prelude SF.Value Gen.Gen_c16 SF.Codec.

Definition tabc : ascii := "009"%char.
Definition base_cfg (d : ascii) : cfg := mk_cfg d true true filter_default 1 1 [tx "__index0__"].

(* TSV: the writer quotes a cell holding the quote character, the importer does not unquote *)
Theorem C16_tsv_quote_refuted : exists fs,
  record_ok ","%char fs = true /\
  res_map gen_split (sf_import_line tabc (sf_export_line tabc fs)) = Ok [tx "x"; tx """a""""b"""; tx "c"] /\
  fs = [tx "x"; tx "a""b"; tx "c"].
Proof. exists [tx "x"; tx "a""b"; tx "c"]. vm_compute. repeat split; reflexivity. Qed.
Print Assumptions C16_tsv_quote_refuted.

(* CSV: a cell holding a TAB comes back as two fields *)
Theorem C16_csv_tab_cell_refuted : exists fs,
  length fs = 3%nat /\
  res_map gen_split (sf_import_line ","%char (sf_export_line ","%char fs)) = Ok [tx "x"; tx "a"; tx "b"; tx "c"].
Proof. exists [tx "x"; String.list_ascii_of_string (String "a" (String tabc (String "b" EmptyString))); tx "c"]. vm_compute. split; reflexivity. Qed.
Print Assumptions C16_csv_tab_cell_refuted.

(* any delimiter: a space at the start of the first field / at the end of the last field is lost *)
Theorem C16_edge_space_refuted : exists fs,
  fs = [tx " x"; tx "a"; tx "b "] /\
  res_map gen_split (sf_import_line ","%char (sf_export_line ","%char fs)) = Ok [tx "x"; tx "a"; tx "b"].
Proof. exists [tx " x"; tx "a"; tx "b "]. vm_compute. split; reflexivity. Qed.
Print Assumptions C16_edge_space_refuted.

(* default StoreFilter: an empty string comes back as NaN in an object column *)
Theorem C16_empty_string_refuted : exists f g,
  M_roundtrip (base_cfg ","%char) f = Ok g /\ tframe_eqb f g = false /\
  tf_cols f = [(KStr, [VStr "a"; VStr "b"]); (KStr, [VStr ""; VStr "c"])] /\
  tf_cols g = [(KStr, [VStr "a"; VStr "b"]); (KObj, [VNaN; VStr "c"])].
Proof.
  exists (mk_tframe [[VStr "x"]; [VStr "y"]] [[VStr "p"]; [VStr "q"]] [(KStr, [VStr "a"; VStr "b"]); (KStr, [VStr ""; VStr "c"])]).
  eexists. vm_compute. repeat split; reflexivity.
Qed.
Print Assumptions C16_empty_string_refuted.

(* NumPy 2: a text column whose first cell reads as an int makes genfromtxt raise TypeError *)
Theorem C16_numpy2_int_first_refuted : exists f,
  M_roundtrip (base_cfg ","%char) f = Err "TypeError"%string /\
  tf_cols f = [(KStr, [VStr "11"; VStr "1a"]); (KStr, [VStr "a"; VStr "b"])].
Proof.
  exists (mk_tframe [[VStr "x"]; [VStr "y"]] [[VStr "p"]; [VStr "q"]] [(KStr, [VStr "11"; VStr "1a"]); (KStr, [VStr "a"; VStr "b"])]).
  vm_compute. split; reflexivity.
Qed.
Print Assumptions C16_numpy2_int_first_refuted.
