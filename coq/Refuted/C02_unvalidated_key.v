(* C02 -- behaviour of the faithful model M (= the unchanged code) that does NOT meet the property: a concrete
   witness decided by computation, for the known finding C02-auto-unvalidated-key (known/C02.jsonl).  One file per finding, so that
   repairing one defect breaks exactly its own witness. *)
Require Import SF.Prelude SF.Value SF.PySlice SF.IndexBij SF.IndexBijVal.

(* C02-auto-negative-key: sf.Series((10,20,30)).index.loc_to_iloc(-1) == -1 although -1 is not a label *)
Theorem C02_auto_negative_key_refuted : exists (n : nat) (k : key val),
  M_loc_to_iloc val_eqb vto_Z (M_index_auto VInt n) k = Ok (-1) /\
  M_contains val_eqb vto_Z (M_index_auto VInt n) k = false /\
  S_lookup val_eqb (map VInt (iota n)) k = Err "KeyError".
Proof. exists 3%nat, (VInt (-1), KInt). vm_compute. auto. Qed.
Print Assumptions C02_auto_negative_key_refuted.
