(* C02 -- behaviour of the faithful model M (= the unchanged code) that does NOT meet the property: a concrete
   witness decided by computation, for the known finding C02-autogo-float-append (known/C02.jsonl).  One file per finding, so that
   repairing one defect breaks exactly its own witness. *)
Require Import SF.Prelude SF.Value SF.PySlice SF.IndexBij SF.IndexBijVal.

(* C02-autogo-float-append: auto-integer IndexGO [0,1]: append(1.0) raises but leaves 1.0 in
   _labels_mutable; the next append(2) then yields an index holding [0,1,1,2]: duplicate labels, and
   4 labels for 3 positions *)
Theorem C02_autogo_float_append_refuted : exists ops : list (op val),
  let r := M_go_run val_eqb vto_Z (M_go_auto VInt 2) ops in
  nodupb val_eqb (g_mut (fst r)) = false /\
  zlen (g_mut (fst r)) = 4 /\ g_count (fst r) = 3 /\
  snd r = [Err "ValueError"; Ok tt].
Proof. exists [OpAppend (vkey (VFlt 1 1)); OpAppend (vkey (VInt 2))]. vm_compute. auto. Qed.
Print Assumptions C02_autogo_float_append_refuted.
