(* C11 -- known findings: inputs on which the faithful implementation model does NOT meet the
   specification (each is reproduced on the real code in every run: the `witness` stratum). *)
Require Import SF.Prelude SF.Dtype SF.Value SF.Blocks SF.PyDyn SF.Concat SF.ConcatVal Gen.Gen_util.
Local Open Scope string_scope.

Definition fa : vframe := mkf [VStr "x"] [VStr "p"] [mkb (DFlt 8) true [[VFlt 1 1]]].
Definition fb : vframe := mkf [VStr "y"] [VStr "q"] [mkb (DFlt 8) true [[VFlt 2 1]]].
Definition fb_p : vframe := mkf [VStr "y"] [VStr "p"] [mkb (DFlt 8) true [[VFlt 2 1]]].
Definition fz : vframe := mkf [] [VStr "p"] [mkb (DFlt 8) false [[]]].
Definition fe : vframe := mkf [VStr "x"] [] [].

(* C11-zero-column-result: the column intersection of fa and fb is empty; the model (as the code)
   fails in from_blocks, the specification demands the 2 x 0 frame *)
Theorem C11_zero_column_result_refuted :
  exists fs, MV_concat false false ixn ixn (DFlt 8) VNaN fs = Err "ErrorInitTypeBlocks" /\
             SV_concat_ok false false ixn ixn (DFlt 8) VNaN fs (MV_concat false false ixn ixn (DFlt 8) VNaN fs) = false /\
             SV_concat_ok false false ixn ixn (DFlt 8) VNaN fs (Ok (mkf [VStr "x"; VStr "y"] [] [])) = true.
Proof. exists [fa; fb]. vm_compute. repeat split. Qed.
Print Assumptions C11_zero_column_result_refuted.

(* C11-items-empty-member: a member without rows makes from_index_items fail *)
Theorem C11_items_empty_member_refuted :
  exists kfs, M_concat_items val_eqb lleb_val cast_val resolve_val VInt pair_val false true (DFlt 8) VNaN kfs = Err "ErrorInitIndex" /\
              SV_concat_items_ok false true (DFlt 8) VNaN kfs
                (Ok (mkf [VTup [VStr "A"; VStr "x"]] [VStr "p"] [mkb (DFlt 8) false [[VFlt 1 1]]])) = true.
Proof. exists [(VStr "A", fa); (VStr "B", fz)]. vm_compute. split; reflexivity. Qed.
Print Assumptions C11_items_empty_member_refuted.

(* C11-overlay-first-no-columns / -zero-columns / -zero-rows *)
Theorem C11_overlay_first_no_columns_refuted :
  exists fs, M_overlay val_eqb lleb_val cast_val resolve_val isna na_of_val true None None fs = Err "AttributeError" /\
             SV_overlay_ok true None None fs (Ok (mkf [VStr "x"] [VStr "p"] [mkb (DFlt 8) true [[VFlt 1 1]]])) = true.
Proof. exists [fe; fa]. vm_compute. split; reflexivity. Qed.
Print Assumptions C11_overlay_first_no_columns_refuted.

Theorem C11_overlay_zero_columns_refuted :
  exists fs, M_overlay val_eqb lleb_val cast_val resolve_val isna na_of_val false None None fs = Err "ErrorInitTypeBlocks" /\
             SV_overlay_ok false None None fs (Ok (mkf [] [] [])) = true.
Proof. exists [fa; fb]. vm_compute. split; reflexivity. Qed.
Print Assumptions C11_overlay_zero_columns_refuted.

Theorem C11_overlay_zero_rows_refuted :
  exists fs, M_overlay val_eqb lleb_val cast_val resolve_val isna na_of_val false None (Some [VStr "w"]) fs = Err "AttributeError" /\
             SV_overlay_ok false None (Some [VStr "w"]) fs (Ok (mkf [] [VStr "w"] [mkb (DFlt 8) true [[]]])) = true.
Proof. exists [fa; fb_p]. vm_compute. split; reflexivity. Qed.
Print Assumptions C11_overlay_zero_rows_refuted.
