(* C10 -- witness of the known finding C10-tb-mask-self (TypeBlocks.equals builds the both-missing mask as
   isna_self & isna_self).  c10_cfg_tb is the mask configuration extracted from the CURRENT source: after the
   one-token fix of type_blocks.py:3136 this file stops compiling and is to be deleted together with the
   known-findings entry (C10_tb_refines_fixed_mask then applies to the code as it is). *)
Require Import SF.Prelude SF.Dtype SF.Value SF.Equal Gen.Gen_c10.

(* C10-tb-mask-self: a holds NaN where b holds 3.0 *)
Theorem C10_tb_mask_asym_refuted : exists o a b,
  M_tb_equals c10_cfg_tb o a b = Ok true /\ M_tb_equals c10_cfg_tb o b a = Ok false /\
  S_tb_equals o a b = false /\ tb_dom mcfg_correct o a b = true.
Proof.
  exists (mk_eopts false false false true), (mk_etb 1 1 [(DFlt 8, [[VNaN]])]), (mk_etb 2 1 [(DFlt 8, [[VFlt 3 1]])]).
  vm_compute. repeat split; reflexivity.
Qed.
Print Assumptions C10_tb_mask_asym_refuted.
