(* C02 -- behaviour of the faithful model M (= the unchanged code) that does NOT meet the property: a concrete
   witness decided by computation, for the known finding C02-init-dtype-map-mismatch (known/C02.jsonl).  One file per finding, so that
   repairing one defect breaks exactly its own witness. *)
Require Import SF.Prelude SF.Value SF.PySlice SF.IndexBij SF.IndexBijVal.

(* C02-init-dtype-map-mismatch: sf.Index([1, 2], dtype=str) holds ['1', '2'] but maps 1, 2: the held label
   '1' is not found; sf.Index([1.5, 1.2], dtype=int) is accepted and holds [1, 1] *)
Theorem C02_init_dtype_map_mismatch_refuted :
  (exists ix, M_index_init_dtype val_eqb [VInt 1; VInt 2] [VStr "1"; VStr "2"] = Ok ix /\
              M_loc_to_iloc val_eqb vto_Z ix (vkey (VStr "1")) = Err "KeyError" /\
              M_contains val_eqb vto_Z ix (vkey (VStr "1")) = false /\
              S_lookup val_eqb (ix_labels ix) (vkey (VStr "1")) = Ok 0) /\
  (exists ix, M_index_init_dtype val_eqb [VFlt 3 2; VFlt 5404319552844595 4503599627370496] [VInt 1; VInt 1] = Ok ix /\
              nodupb val_eqb (ix_labels ix) = false).
Proof. split; eexists; vm_compute; auto. Qed.
Print Assumptions C02_init_dtype_map_mismatch_refuted.
