(* C06 -- witnesses (by computation) of behaviour where the faithful implementation model does NOT meet
   the property as stated; one per known finding. *)
Require Import SF.Prelude SF.Dtype SF.Value SF.SetAlg SF.SetAlgVal SF.LabelAlign SF.LabelAlignVal
  SF.FrameAlign SF.FrameAlignVal.

Local Open Scope string_scope.

Definition ser (o : binop) (ia va ib vb : list val) :=
  M_series_binop val val val_eqb val_leb val_sortable (option val) (np_op_sw o false)
    true false VNaN (cast_nan (DInt true 8)) (cast_nan (DInt true 8)) ia va ib vb.

(* D12: a comparison between partly overlapping Series holds False -- not the missing marker -- at a label
   only one operand has: the comparison operators do not propagate NaN, so the hypothesis of
   C06_binop_missing_elsewhere fails for them and so does its conclusion. *)
Theorem C06_cmp_not_missing_refuted :
  exists ia va ib vb idx rs l,
    ser BEq ia va ib vb = Some (idx, rs) /\ In l idx /\ ~ (In l ia /\ In l ib) /\
    get val (option val) val_eqb idx rs l = Some (Some (VBool false)) /\
    np_op BEq VNaN (VInt 1) <> Some VNaN.
Proof.
  exists [VStr "a"; VStr "b"], [VInt 1; VInt 2], [VStr "b"; VStr "c"], [VInt 1; VInt 2],
         [VStr "a"; VStr "b"; VStr "c"], [Some (VBool false); Some (VBool false); Some (VBool false)], (VStr "a").
  split; [vm_compute; reflexivity|].
  split; [left; reflexivity|].
  split; [intros [_ [H|[H|[]]]]; discriminate|].
  split; [vm_compute; reflexivity | vm_compute; discriminate].
Qed.
Print Assumptions C06_cmp_not_missing_refuted.

(* D12, logical operators: the NaN fill turns the int operands into float64 and the whole operation
   raises TypeError, although both operands hold label "b". *)
Theorem C06_logical_unmatched_raises_refuted :
  exists ia va ib vb idx rs,
    ser BAnd ia va ib vb = Some (idx, rs) /\ collect rs = Err "TypeError" /\
    (exists l, In l ia /\ In l ib).
Proof.
  exists [VStr "a"; VStr "b"], [VInt 1; VInt 2], [VStr "b"; VStr "c"], [VInt 1; VInt 2],
         [VStr "a"; VStr "b"; VStr "c"], [None; None; None].
  split; [vm_compute; reflexivity|]. split; [reflexivity|].
  exists (VStr "b"). split; [right; left; reflexivity | left; reflexivity].
Qed.
Print Assumptions C06_logical_unmatched_raises_refuted.

(* a result without columns cannot be rebuilt by from_blocks() without a shape reference *)
Theorem C06_zero_column_result_raises_refuted :
  M_tb_binop_tb (np_op BAdd) [] [] = Err "ErrorInitTypeBlocks".
Proof. reflexivity. Qed.
Print Assumptions C06_zero_column_result_raises_refuted.
