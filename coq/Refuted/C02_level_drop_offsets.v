(* C02 -- behaviour of the faithful model M (= the unchanged code) that does NOT meet the property: a concrete
   witness decided by computation, for the known finding C02-level-drop-outer-offsets (known/C02.jsonl). *)
Require Import SF.Prelude SF.Value SF.PySlice SF.IndexBij SF.IndexBijVal SF.IxTree SF.IxTreeVal.

(* IndexHierarchy.from_labels([('c',3,'y'),('a',2,'x'),('a',2,'y')]).level_drop(1) lists (3,'y'), (2,'x'), (2,'y')
   but looks (2,'x') up to position 0 and (2,'y') to 1: the promoted levels keep the offsets of their old parents *)
Theorem C02_level_drop_outer_offsets_refuted : exists (labs : list (list val)) (lv lv' : level val) (key : list val),
  M_from_labels val_eqb labs = Ok lv /\ M_level_drop1 val_eqb lv = Ok lv' /\
  flatten lv' = [[VInt 3; VStr "y"]; [VInt 2; VStr "x"]; [VInt 2; VStr "y"]] /\
  S_h_accepts val_eqb (flatten lv') = true /\
  M_leaf_loc_to_iloc val_eqb lv' key = Ok 0 /\ S_h_lookup val_eqb (flatten lv') key = Ok 1.
Proof.
  exists [[VStr "c"; VInt 3; VStr "y"]; [VStr "a"; VInt 2; VStr "x"]; [VStr "a"; VInt 2; VStr "y"]].
  eexists. eexists. exists [VInt 2; VStr "x"].
  split; [vm_compute; reflexivity|]. split; [vm_compute; reflexivity|]. vm_compute. auto.
Qed.
Print Assumptions C02_level_drop_outer_offsets_refuted.
