(* C03 -- behaviour of the faithful implementation models that does NOT meet the property: concrete witnesses
   (each evaluated by vm_compute).  One theorem per known-finding class of known/C03.jsonl that is modelled. *)
Require Import SF.Prelude SF.PySlice SF.Dtype SF.Value SF.Blocks SF.BlocksOps SF.BlocksOpsVal.

Local Open Scope string_scope.

(* C03-zero-columns: a frame with rows but no columns has no block; every generator-based operation hands
   from_blocks an empty generator without shape reference -- isna() raises instead of returning the empty frame *)
Theorem C03_map_blocks_zero_columns_refuted :
  exists t : tb val, wf_tb t /\ res_map (@flatten val) (M_map_blocks cf_isna t) <> S_map_columns cf_isna (flatten t).
Proof. exists []. split; [constructor|]. vm_compute. discriminate. Qed.
Print Assumptions C03_map_blocks_zero_columns_refuted.

(* C03-zero-size-roll (D15): roll on a frame without rows or without columns divides by zero *)
Theorem C03_roll_zero_size_refuted :
  exists (t : tb val) (nrows ncols : Z), wf_tb t /\ ncols = Z.of_nat (length (flatten t)) /\
    res_map (@flatten val) (M_roll t nrows ncols 0 1 (roll_list 0)) <> Ok (S_roll (flatten t) nrows ncols 0 1 (roll_list 0)).
Proof. exists [], 2, 0. split; [constructor|]. split; [reflexivity|]. vm_compute. discriminate. Qed.
Print Assumptions C03_roll_zero_size_refuted.

(* C03-zero-columns: transposing a frame without columns raises *)
Theorem C03_transpose_zero_columns_refuted :
  exists (t : tb val) (n : nat), wf_tb t /\ res_map (@flatten val) (M_transpose_v t n) <> S_transpose_v (flatten t) n.
Proof. exists [], 2%nat. split; [constructor|]. vm_compute. discriminate. Qed.
Print Assumptions C03_transpose_zero_columns_refuted.

(* C03-fill-block-dtype: two layouts of the same two float columns (only the second holds NaN); fillna('q'):
   the NaN-free column stays float64 when it is a block of its own and becomes object when it shares a block *)
Definition fill_q := M_fillna (A := val) resolve_dtype_t v_cast isna (VStr "q") (DStr 1).
Theorem C03_fillna_layout_refuted :
  exists t1 t2 : tb val, wf_tb t1 /\ wf_tb t2 /\ flatten t1 = flatten t2 /\ flatten (fill_q t1) <> flatten (fill_q t2).
Proof.
  exists [mk_block (DFlt 8) false [[VFlt 3 1; VFlt 7 2]; [VNaN; VFlt 9 2]]],
         [mk_block (DFlt 8) true [[VFlt 3 1; VFlt 7 2]]; mk_block (DFlt 8) true [[VNaN; VFlt 9 2]]].
  split; [repeat constructor; cbn; lia || discriminate|].
  split; [repeat constructor; cbn; lia || reflexivity|].
  split; [reflexivity|]. vm_compute. discriminate.
Qed.
Print Assumptions C03_fillna_layout_refuted.

(* C03-bloc-order: extract_bloc enumerates a 2-D block row-major, separate columns column by column *)
Theorem C03_bloc_order_refuted :
  exists (t1 t2 : tb val) (mask : list (list bool)), wf_tb t1 /\ wf_tb t2 /\ flatten t1 = flatten t2 /\
    M_bloc t1 mask 0 2 <> M_bloc t2 mask 0 2.
Proof.
  exists [mk_block (DInt true 8) false [[VInt 10; VInt 11]; [VInt 20; VInt 21]]],
         [mk_block (DInt true 8) true [[VInt 10; VInt 11]]; mk_block (DInt true 8) true [[VInt 20; VInt 21]]],
         [[true; true]; [true; true]].
  split; [repeat constructor; cbn; lia || discriminate|].
  split; [repeat constructor; cbn; lia || reflexivity|].
  split; [reflexivity|]. vm_compute. discriminate.
Qed.
Print Assumptions C03_bloc_order_refuted.
