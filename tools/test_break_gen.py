#!/usr/bin/env python3
'''Self-test: when a property's generate() hook fails closed, the check must still be able to evaluate the
specification S on generated inputs (failing-input search), i.e. its spec side must not depend on Gen files.
Runs each check in a scratch copy of /verif with VERIF_TEST_BREAK_GEN=<id>; expects exit 1, a VIOLATION line ending in
no-failing-input-found (unchanged tree: nothing fails S) and NO 'search-failed' entry in the replay.'''
import json, os, re, shutil, subprocess, sys, tempfile
VERIF = os.path.dirname(os.path.dirname(os.path.abspath(__file__)))
ids = sys.argv[1:]
scratch = tempfile.mkdtemp(prefix='breakgen_')
try:
    subprocess.run(f'rsync -a --exclude .git --exclude seeded --exclude evidence/replays {VERIF}/ {scratch}/v/', shell=True, check=True)
    for pid in ids:
        env = dict(os.environ, VERIF_TEST_BREAK_GEN=pid, VERIF_SEARCH_SCALE='1')
        p = subprocess.run(f'cd {scratch}/v && ./check {pid} --tier quick', shell=True, env=env, stdout=subprocess.PIPE, stderr=subprocess.STDOUT, text=True)
        vio = [l for l in p.stdout.splitlines() if l.startswith('VIOLATION')]
        status = 'no VIOLATION line'
        if vio:
            m = re.search(r'replay=(\S+)', vio[0])
            rp = json.load(open(m.group(1)))
            kinds = [b.get('kind') for b in rp.get('broken_obligations', [])]
            status = ('search-failed' if 'search-failed' in kinds else 'S evaluated') + (' ; with input?!' if 'no-failing-input-found' not in vio[0] else '') + ' ' + ','.join(sorted(set(kinds)))
        print(pid, 'exit', p.returncode, status, flush=True)
finally:
    shutil.rmtree(scratch, ignore_errors=True)
