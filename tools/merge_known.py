#!/usr/bin/env python3
'''Rebuild KNOWN_FINDINGS.jsonl = header + active entries of known/Cxx.jsonl (one JSON object per line) + every `fixed:` line
(from KNOWN_FINDINGS.jsonl and known/Cxx.jsonl, de-duplicated by (property, commit)).  known/*.jsonl stay the working
copies of the builders; the merged file is the committed known-findings file the checks read.'''
import glob, json, os, re
VERIF = os.path.dirname(os.path.dirname(os.path.abspath(__file__)))
KF = os.path.join(VERIF, 'KNOWN_FINDINGS.jsonl')
header = []
fixed, seen_fixed = [], set()
active, seen_active = [], set()
def take(path, from_known_dir):
    for ln in open(path):
        s = ln.strip()
        if not s:
            continue
        if s.startswith('#'):
            if not from_known_dir and not header:
                header.append(s)
            continue
        if s.startswith('fixed:'):
            m = re.match(r'fixed:\s*property=(C\d+)\s+(\S+)', s)
            key = (m.group(1), m.group(2)) if m else s
            if key not in seen_fixed:
                seen_fixed.add(key); fixed.append(s)
            continue
        try:
            e = json.loads(s)
        except Exception:
            continue
        if from_known_dir and e.get('id') not in seen_active:
            seen_active.add(e['id']); active.append(e)
take(KF, False)
for p in sorted(glob.glob(os.path.join(VERIF, 'known', 'C*.jsonl'))):
    take(p, True)
with open(KF, 'w') as f:
    f.write((header[0] if header else '# Known findings for static-frame') + '\n')
    f.write('# --- unrepaired genuine defects: one JSON object per line; `match` is a subset of the tags of a case (tags are set from the construction of the input) ---\n')
    for e in sorted(active, key=lambda e: (e['property'], e['id'])):
        f.write(json.dumps(e, sort_keys=True) + '\n')
    f.write('# --- repaired defects (fix: commits in /repo); these lines suppress nothing ---\n')
    for s in sorted(fixed, key=lambda s: re.findall(r'property=(C\d+)', s)):
        f.write(s + '\n')
print(f'{len(active)} active, {len(fixed)} fixed')
