#!/usr/bin/env python3
'''Run every check registered in MANIFEST.json (quick or thorough), N at a time; print a summary table.
usage: tools/run_all.py [--tier quick|thorough] [--jobs 4] [--seed 0] [ids...]'''
import argparse
import json
import os
import subprocess
import sys
import time
from concurrent.futures import ThreadPoolExecutor

VERIF = os.path.dirname(os.path.dirname(os.path.abspath(__file__)))


def main():
    ap = argparse.ArgumentParser()
    ap.add_argument('--tier', default='quick')
    ap.add_argument('--jobs', type=int, default=4)
    ap.add_argument('--seed', type=int, default=0)
    ap.add_argument('ids', nargs='*')
    a = ap.parse_args()
    man = json.load(open(os.path.join(VERIF, 'MANIFEST.json')))
    checks = [c for c in man['checks'] if not a.ids or c['property_id'] in a.ids]
    os.makedirs(os.path.join(VERIF, 'evidence', 'logs'), exist_ok=True)

    def run(c):
        cmd = c['quick_cmd'] if a.tier == 'quick' else c.get('thorough_cmd', c['quick_cmd'])
        t0 = time.time()
        env = dict(os.environ, VERIF_SEED=str(a.seed), VERIF_TIER=a.tier)
        p = subprocess.run(cmd, shell=True, cwd=VERIF, env=env, stdout=subprocess.PIPE, stderr=subprocess.STDOUT, text=True)
        with open(os.path.join(VERIF, 'evidence', 'logs', f'{c["property_id"]}_{a.tier}.log'), 'w') as f:
            f.write(p.stdout)
        lines = [l for l in p.stdout.splitlines() if l.startswith(('VIOLATION', 'KNOWN-FINDING', 'MACHINERY'))]
        return c['property_id'], p.returncode, time.time() - t0, lines

    bad = 0
    with ThreadPoolExecutor(max_workers=a.jobs) as ex:
        for pid, rc, dt, lines in ex.map(run, checks):
            print(f'{pid} exit={rc} {dt:6.1f}s ' + ' | '.join(l[:150] for l in lines[:4]))
            bad += rc != 0
    print(f'{len(checks)} checks, {bad} non-zero')
    return 1 if bad else 0


if __name__ == '__main__':
    sys.exit(main())
