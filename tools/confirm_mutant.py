#!/usr/bin/env python3
'''Confirm a seeded change and run our check against it.

usage: tools/confirm_mutant.py <src_dir with patch.diff demo.py notes.md> <property id> <name> [--skip-suite] [--tier quick]

Steps (all in scratch dirs outside /repo and /verif, removed afterwards):
  1. worktree of /repo HEAD; demo.py must PASS on it
  2. apply patch.diff; demo.py must FAIL
  3. the pinned test suite must still pass (tools/baseline.sh on the worktree) unless --skip-suite
  4. copy of /verif (working tree incl. build output) -> run ./check <id> with SF_REPO=<worktree>; record exit code and lines
Writes /verif/seeded/<name>/{patch.diff,demo.py,notes.md,meta.json}.'''
import argparse
import json
import os
import shutil
import subprocess
import sys
import tempfile
import time

VERIF = os.path.dirname(os.path.dirname(os.path.abspath(__file__)))


def sh(cmd, **kw):
    return subprocess.run(cmd, shell=True, stdout=subprocess.PIPE, stderr=subprocess.STDOUT, text=True, **kw)


def main():
    ap = argparse.ArgumentParser()
    ap.add_argument('src')
    ap.add_argument('pid')
    ap.add_argument('name')
    ap.add_argument('--skip-suite', action='store_true')
    ap.add_argument('--reuse-suite', action='store_true', help='take the suite result from an existing meta.json (re-run of the check only)')
    ap.add_argument('--tier', default='quick')
    ap.add_argument('--also', default='', help='comma separated further property ids to run against the change')
    a = ap.parse_args()
    scratch = tempfile.mkdtemp(prefix='mutconf_')
    wt = os.path.join(scratch, 'wt')
    vcopy = os.path.join(scratch, 'verif')
    meta = {'property': a.pid, 'name': a.name, 'confirmed_at': time.strftime('%Y-%m-%d %H:%M:%S'), 'ran': []}
    try:
        r = sh(f'git -C /repo worktree add -q {wt} HEAD')
        assert r.returncode == 0, r.stdout
        meta['repo_head'] = sh('git -C /repo rev-parse --short HEAD').stdout.strip()
        env = dict(os.environ, PYTHONPATH=wt, PYTHONHASHSEED='0')
        demo = os.path.join(a.src, 'demo.py')
        r0 = sh(f'cd {wt} && timeout 600 /venv/bin/python {demo}', env=env)
        meta['demo_on_clean_exit'] = r0.returncode
        meta['ran'].append(f'PYTHONPATH=<clean worktree> python demo.py -> exit {r0.returncode}')
        r = sh(f'git -C {wt} apply {os.path.join(a.src, "patch.diff")}')
        meta['patch_applies'] = r.returncode == 0
        if r.returncode != 0:
            meta['patch_error'] = r.stdout[-500:]
        r1 = sh(f'cd {wt} && timeout 600 /venv/bin/python {demo}', env=env)
        meta['demo_on_changed_exit'] = r1.returncode
        meta['demo_on_changed_output'] = r1.stdout[-600:]
        meta['ran'].append(f'PYTHONPATH=<changed worktree> python demo.py -> exit {r1.returncode}')
        old_meta_path = os.path.join(VERIF, 'seeded', a.name, 'meta.json')
        if a.reuse_suite and os.path.exists(old_meta_path):
            old = json.load(open(old_meta_path))
            for k in ('suite', 'suite_regressions', 'suite_regressions_failing_alone', 'suite_known_random_failures'):
                if k in old:
                    meta[k] = old[k]
            flaky = ('test_union2d', 'test_setdiff2d', 'test_intersect1d', 'test_intersect2d')
            if meta.get('suite_regressions_failing_alone'):
                meta['suite_known_random_failures'] = meta.get('suite_known_random_failures', []) + [t for t in meta['suite_regressions_failing_alone'] if t.endswith(flaky)]
                meta['suite_regressions_failing_alone'] = [t for t in meta['suite_regressions_failing_alone'] if not t.endswith(flaky)]
            meta['ran'] += [x for x in old.get('ran', []) if 'baseline.sh' in x or 're-run alone' in x]
            meta['earlier_check_results'] = old.get('earlier_check_results', []) + [{'at': old.get('confirmed_at'), 'checks': old.get('checks')}]
            a.skip_suite = True
            suite_reused = True
        else:
            suite_reused = False
        if not a.skip_suite:
            r = sh(f'bash {VERIF}/tools/baseline.sh {wt}')
            line = [l for l in r.stdout.splitlines() if 'regressions=' in l]
            meta['suite'] = line[-1] if line else r.stdout[-300:]
            meta['suite_regressions'] = [l.strip() for l in r.stdout.splitlines() if 'REGRESSION' in l][:20]
            meta['ran'].append('tools/baseline.sh <changed worktree> -> ' + meta['suite'])
            # regressions under machine load are usually hypothesis property tests hitting resource limits: re-run each alone
            still = []
            for reg in meta['suite_regressions']:
                tid = reg.replace('REGRESSION', '').strip()
                mod, _, rest = tid.partition('.TestUnit::')
                node = mod.replace('.', '/') + '.py::TestUnit::' + rest
                ok_alone = False
                for attempt in range(3):   # hypothesis tests over arbitrary unicode fail at random (lone surrogates): allow three attempts
                    rr = sh(f'cd {wt} && HYPOTHESIS_STORAGE_DIRECTORY={scratch}/hyp{attempt} timeout 900 /venv/bin/python -m pytest -q -p no:cacheprovider "{node}"')
                    if rr.returncode == 0:
                        ok_alone = True
                        break
                if not ok_alone:
                    still.append(tid)
            # these four hypothesis tests of util's raw set functions fail at random on the UNMODIFIED tree too (NaT/NaN examples)
            flaky = ('test_union2d', 'test_setdiff2d', 'test_intersect1d', 'test_intersect2d')
            meta['suite_known_random_failures'] = [t for t in still if t.endswith(flaky)]
            still = [t for t in still if not t.endswith(flaky)]
            meta['suite_regressions_failing_alone'] = still
            if meta['suite_regressions']:
                meta['ran'].append(f'each regressed test re-run alone: {len(still)} still failing')
        # our check against the change
        sh(f'rsync -a --exclude .git --exclude evidence/replays --exclude seeded {VERIF}/ {vcopy}/')
        meta['checks'] = {}
        for pid in [a.pid] + [p for p in a.also.split(',') if p]:
            t0 = time.time()
            r = sh(f'cd {vcopy} && SF_REPO={wt} ./check {pid} --tier {a.tier}', env=dict(os.environ))
            lines = [l for l in r.stdout.splitlines() if l.startswith(('VIOLATION', 'KNOWN-FINDING', 'MACHINERY', '[' + pid))]
            meta['checks'][pid] = {'exit': r.returncode, 'wall_s': round(time.time() - t0, 1), 'lines': [l[:300] for l in lines[:8]],
                                  'caught': r.returncode == 1 and any(l.startswith('VIOLATION') for l in lines),
                                  'with_input': any(l.startswith('VIOLATION') and 'no-failing-input-found' not in l for l in lines)}
            meta['ran'].append(f'SF_REPO=<changed worktree> ./check {pid} --tier {a.tier} (in a scratch copy of /verif) -> exit {r.returncode}')
        notes = os.path.join(a.src, 'notes.md')
        meta['needs_to_manifest'] = open(notes).read()[:1500] if os.path.exists(notes) else ''
    finally:
        sh(f'git -C /repo worktree remove --force {wt}')
        shutil.rmtree(scratch, ignore_errors=True)
        sh('git -C /repo worktree prune')
    ok = (meta.get('demo_on_clean_exit') == 0 and meta.get('patch_applies') and meta.get('demo_on_changed_exit') not in (0, None)
          and ((a.skip_suite and not suite_reused) or 'regressions=0' in meta.get('suite', '')
               or (meta.get('suite_regressions') and not meta.get('suite_regressions_failing_alone', ['x']))))
    meta['confirmed'] = bool(ok)
    dst = os.path.join(VERIF, 'seeded', a.name)
    os.makedirs(dst, exist_ok=True)
    for f in ('patch.diff', 'demo.py', 'notes.md'):
        if os.path.exists(os.path.join(a.src, f)):
            shutil.copy(os.path.join(a.src, f), os.path.join(dst, f))
    with open(os.path.join(dst, 'meta.json'), 'w') as f:
        json.dump(meta, f, indent=1)
    print(json.dumps({k: meta[k] for k in ('name', 'confirmed', 'demo_on_clean_exit', 'demo_on_changed_exit', 'suite', 'checks') if k in meta}, indent=1))
    return 0


if __name__ == '__main__':
    sys.exit(main())
