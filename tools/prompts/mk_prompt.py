import json,sys
pid=sys.argv[1]; hints=sys.argv[2] if len(sys.argv)>2 else ''
prop=[json.loads(l) for l in open('/verif/properties.jsonl') if json.loads(l)['id']==pid][0]
print(f'''You are building the verification check for ONE property ({pid}) of the Python library static-frame (source in /repo, pinned; run it with /venv/bin/python, PYTHONPATH=/repo), inside an existing framework in /verif. The technique is fixed: machine-checked proof in Coq 8.16.1 about an executable Gallina model, with the model tied to the code by differential "correspondence" runs (model evaluated inside Coq by vm_compute on the same inputs the real implementation was run on) and/or by regenerating small kernels/constants from the source on every run. No network; nothing can be installed.

START by reading, in this order: /verif/tools/BUILDERS.md (the contract you must follow — file layout, Coq rules, the check-module API, shared files you must NOT edit, how to kill-test), then /verif/DESIGN.md sections 1-4 and the subsection "### {pid}" of section 5, then the working example: /verif/tools/sfv/props/c08.py, /verif/coq/Properties/C08.v, /verif/coq/Proofs/AscSlice.v, /verif/tools/sfv/core.py (run_check), /verif/tools/sfv/lit.py, /verif/tools/sfv/zoo.py, /verif/coq/SF/Value.v. Then read the code the property is anchored in.

THE PROPERTY (given, fixed — do not restate it weaker):
id: {pid}
title: {prop['title']}
statement: {prop['statement']}
quantifier: {prop['quantifier']['text']}
why tests cannot settle it: {prop['why_tests_cant']}
anchors: {json.dumps(prop['anchors'])}

HINTS from the design round (verify against the real code before relying on them): {hints}

WHAT TO DELIVER (files only for {pid}; others are building other properties concurrently in the same tree — never edit shared files, never git commit, never edit /repo):
  coq/SF/<Topic>.v (models, no proofs), coq/Proofs/<Topic>*.v, coq/Properties/{pid}.v (only Theorem/exact/Print Assumptions), optional coq/Refuted/{pid}.v, tools/sfv/props/{pid.lower()}.py, optional known/{pid}.jsonl.
Order of work: (1) within the first part of your effort get a MINIMAL GREEN check end to end: one genuinely unbounded theorem about the specification/model + one API-level correspondence stratum through the public interface, `cd /verif && ./check {pid} --tier quick` exiting 0; (2) then deepen: the implementation model M of the real algorithm and the refinement theorem M = S for all layouts/partitions/histories (this is what makes a code mutation break the correspondence AND what the tests cannot reach), more strata (exhaustive small spaces first), malformed-input stream, translated constants/decision tables via a `generate(repo)` hook where the property hinges on one; (3) kill-test with 2-3 realistic mutations in a scratch copy as BUILDERS.md describes, and strengthen the check where it misses.
Quality bar: every theorem closed under the global context (Print Assumptions), no Admitted/Axiom; theorems about the whole object, not restated definitions; the spec S compares only what the property determines (no false alarms: run seeds 0..5 on the unchanged tree); a real violation by the unchanged code is a FINDING: show the 3-line Python replay, keep S as the property says, tag + list it in known/{pid}.jsonl narrowly, add the refuted witness, and propose the minimal fix diff in your report (do not apply it). Budget: quick tier <= 3 min wall, thorough <= 25 min. Always run coqc/make under `ulimit -v 8000000; timeout ...`. Remove every scratch dir/worktree you create under /tmp.

Your final message must be the short report described at the end of BUILDERS.md (files, theorems with one-line meaning, what M models with file:line anchors, strata+counts+wall time, findings with replay and proposed fix, mutations tried/caught, what is not covered, and anything you needed in a shared file).''')
