#!/bin/bash
# Run the repository's pinned test suite (guard OFF) and compare with /root/.vp/BASELINE.json stable_pass.
# usage: tools/baseline.sh [repo_dir]
repo="${1:-/repo}"
shift 2>/dev/null
sel=("$@")   # optional: test files (relative to the repo) to restrict the run and the comparison to
out="$(mktemp -d)"
trap 'rm -rf "$out"' EXIT
unset STATIC_FRAME_VERIF
# BASELINE_N=0 runs sequentially (exactly the pinned command; xdist workers die when hypothesis prints a lone surrogate)
if [ "${BASELINE_N:-12}" = "0" ]; then nflag=""; else nflag="-n ${BASELINE_N:-12}"; fi
# keep hypothesis from recording new failing examples into /repo/.hypothesis (it would make random finds permanent)
cp -r "$repo/.hypothesis" "$out/hyp" 2>/dev/null || cp -r /repo/.hypothesis "$out/hyp" 2>/dev/null; export HYPOTHESIS_STORAGE_DIRECTORY="$out/hyp"
cd "$repo" && /venv/bin/python -m pytest -q -p no:cacheprovider --timeout=900 --continue-on-collection-errors $nflag --junitxml="$out/r.xml" "${sel[@]}" >"$out/log" 2>&1
/venv/bin/python - "$out/r.xml" "${sel[@]}" <<'PY'
import json, sys, xml.etree.ElementTree as ET
base = json.load(open('/root/.vp/BASELINE.json'))
passed = set()
for tc in ET.parse(sys.argv[1]).getroot().iter('testcase'):
    if not any(ch.tag in ('failure', 'error', 'skipped') for ch in tc):
        passed.add(f"{tc.get('classname')}::{tc.get('name')}")
sel = [(a[:-3] if a.endswith('.py') else a.rstrip('/')).replace('/', '.') for a in sys.argv[2:]]
stable = [t for t in base['stable_pass'] if not sel or any(t.startswith(m + '.') for m in sel)]
missing = [t for t in stable if t not in passed]
print(f'stable_pass={len(stable)} passed_now={len(passed)} regressions={len(missing)}')
for t in missing[:40]:
    print('  REGRESSION', t)
sys.exit(1 if missing else 0)
PY
