#!/usr/bin/env python3
'''Regenerate /verif/MANIFEST.json from the per-property table in tools/sfv/props/*.py (MANIFEST dict of each module).'''
import importlib
import json
import os
import sys

here = os.path.dirname(os.path.abspath(__file__))
sys.path.insert(0, here)
VERIF = os.path.dirname(here)

ALL = [f'C{i:02d}' for i in range(1, 21)]
PENDING_REASON = 'no check registered yet: the Coq model and correspondence for this property are still being built (see DESIGN.md section 5); not a claim that the technique cannot apply'


def main():
    checks, na = [], []
    reg_path = os.path.join(here, 'registered.txt')
    registered = set(open(reg_path).read().split()) if os.path.exists(reg_path) else set()
    for pid in ALL:
        path = os.path.join(here, 'sfv', 'props', pid.lower() + '.py')
        meta = None
        if os.path.exists(path):
            ns = {}
            src = open(path).read()
            # the MANIFEST dict is a literal at module level: evaluate only it (no imports of the harness needed)
            import ast
            tree = ast.parse(src)
            for node in tree.body:
                if isinstance(node, ast.Assign) and any(getattr(t, 'id', None) == 'MANIFEST' for t in node.targets):
                    meta = ast.literal_eval(node.value)
        if not meta or pid not in registered:
            na.append({'property_id': pid, 'reason': (meta or {}).get('reason', PENDING_REASON)})
            continue
        checks.append({
            'property_id': pid,
            'quick_cmd': f'./check {pid} --tier quick',
            'thorough_cmd': f'./check {pid} --tier thorough',
            'evidence_file': f'/verif/evidence/{pid}.json',
            'replay_cmd_template': f'./check {pid} --replay {{path}}',
            'engine': 'coq+correspondence',
            'level_claimed': {'category': 'proof', 'text': meta['text'], 'design_ref': meta.get('design_ref', f'DESIGN.md section 5 ({pid})')},
            'level_note': meta['note'],
            'technique': meta.get('technique', 'Coq theorems about an executable Gallina model; model tied to /repo by regenerated kernels (py2v) and vm_compute correspondence runs against the implementation'),
        })
    man = {
        'version': 1,
        'setup_cmd': './setup.sh',
        'hooks': {
            'guard': 'STATIC_FRAME_VERIF',
            'enable': 'no hooks are needed: every observation uses the public API or read-only access to private attributes from the harness process; the guard name is reserved',
            'baseline_off_cmd': 'cd /repo && /venv/bin/python -m pytest -ra -q -p no:cacheprovider --timeout=900 --continue-on-collection-errors',
            'source_commits': [],
            'add_only': True,
        },
        'engines': [{'name': 'coq+correspondence', 'path': '/verif/tools/sfv',
                     'serves_properties': [c['property_id'] for c in checks],
                     'kind_free_text': 'Coq 8.16.1 development under /verif/coq (models SF/, regenerated kernels Gen/, proofs Proofs/, property theorems Properties/) + Python harness that regenerates Gen/ from /repo, builds the proofs, and evaluates model and specification inside Coq (vm_compute) on the inputs the implementation was run on'}],
        'checks': checks,
        'not_applicable': na,
        'notes': 'fix: commits in /repo are listed in KNOWN_FINDINGS.jsonl as fixed: lines. See DESIGN.md.',
    }
    with open(os.path.join(VERIF, 'MANIFEST.json'), 'w') as f:
        json.dump(man, f, indent=1)
    print(f'MANIFEST.json: {len(checks)} checks, {len(na)} not claimed')


if __name__ == '__main__':
    main()
