#!/usr/bin/env python3
'''Run our check against a HARMLESS (behaviour-preserving) rewrite of /repo and classify the outcome.
usage: tools/confirm_refactor.py <src_dir with patch.diff notes.md> <property id> <name> [--also Cxx,Cyy]
Outcomes: quiet (exit 0) | no-failing-input-found (exit 1, allowed by the brief for a broken proof/translation)
          | FALSE-ALARM (exit 1 with a concrete failing input: the machinery must be corrected) | machinery-error (exit 2).
Writes /verif/seeded/harmless/<name>/{patch.diff,notes.md,meta.json}.'''
import argparse, json, os, shutil, subprocess, sys, tempfile, time
VERIF = os.path.dirname(os.path.dirname(os.path.abspath(__file__)))


def sh(cmd, **kw):
    return subprocess.run(cmd, shell=True, stdout=subprocess.PIPE, stderr=subprocess.STDOUT, text=True, **kw)


def main():
    ap = argparse.ArgumentParser()
    ap.add_argument('src'); ap.add_argument('pid'); ap.add_argument('name'); ap.add_argument('--also', default='')
    a = ap.parse_args()
    scratch = tempfile.mkdtemp(prefix='refconf_')
    wt, vcopy = os.path.join(scratch, 'wt'), os.path.join(scratch, 'verif')
    meta = {'property': a.pid, 'name': a.name, 'kind': 'harmless rewrite', 'at': time.strftime('%Y-%m-%d %H:%M:%S'), 'checks': {}}
    try:
        assert sh(f'git -C /repo worktree add -q {wt} HEAD').returncode == 0
        r = sh(f'git -C {wt} apply {os.path.join(a.src, "patch.diff")}')
        meta['patch_applies'] = r.returncode == 0
        sh(f'rsync -a --exclude .git --exclude evidence/replays --exclude seeded {VERIF}/ {vcopy}/')
        for pid in [a.pid] + [p for p in a.also.split(',') if p]:
            t0 = time.time()
            r = sh(f'cd {vcopy} && SF_REPO={wt} ./check {pid} --tier quick')
            vio = [l for l in r.stdout.splitlines() if l.startswith('VIOLATION')]
            if r.returncode == 0:
                outcome = 'quiet'
            elif r.returncode == 1 and vio and all('no-failing-input-found' in l for l in vio):
                outcome = 'no-failing-input-found'
            elif r.returncode == 1:
                outcome = 'FALSE-ALARM'
            else:
                outcome = 'machinery-error'
            detail = []
            if outcome != 'quiet':
                import re
                m = re.search(r'replay=(\S+)', vio[0]) if vio else None
                if m and os.path.exists(m.group(1)):
                    rp = json.load(open(m.group(1)))
                    detail = [json.dumps(b, default=str)[:400] for b in rp.get('broken_obligations', [])][:4]
                    if outcome == 'FALSE-ALARM':
                        detail.append(json.dumps({k: rp.get(k) for k in ('stratum', 'tags', 'case', 'python_side_reason')}, default=str)[:1200])
            meta['checks'][pid] = {'exit': r.returncode, 'outcome': outcome, 'wall_s': round(time.time() - t0, 1),
                                  'lines': [l[:240] for l in r.stdout.splitlines() if l.startswith(('VIOLATION', 'MACHINERY', '[' + pid))][:6], 'detail': detail}
    finally:
        sh(f'git -C /repo worktree remove --force {wt}'); shutil.rmtree(scratch, ignore_errors=True); sh('git -C /repo worktree prune')
    dst = os.path.join(VERIF, 'seeded', 'harmless', a.name)
    os.makedirs(dst, exist_ok=True)
    for f in ('patch.diff', 'notes.md'):
        if os.path.exists(os.path.join(a.src, f)):
            shutil.copy(os.path.join(a.src, f), os.path.join(dst, f))
    json.dump(meta, open(os.path.join(dst, 'meta.json'), 'w'), indent=1)
    print(a.name, {k: v['outcome'] for k, v in meta['checks'].items()})


if __name__ == '__main__':
    sys.exit(main())
