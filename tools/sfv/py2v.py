'''py2v: fail-closed translator from a restricted Python subset ("PyZ") to Gallina over the
dynamic value universe of coq/SF/PyDyn.v.

Anything outside the subset raises TranslateError; the caller records the obligation
"translation of <module>.<function>" as broken.  The mapping is 1:1 syntactic:

  x + y          -> py_add x y            x // y   -> py_floordiv x y     x % y -> py_mod x y
  x is None      -> py_is_none x          a or b   -> let t := a in pif t then t else b
  if c: A else B -> pif c then A else B   (statements after an `if` are duplicated into both arms)
  k.start        -> py_attr "start" k     slice(a,b,c) -> py_slice a b c
  x in CONST     -> py_in x CONST         (module-level constants are resolved from the module's AST)
  np.result_type -> py_result_type (oracle model SF.Dtype.np_result_type)
  try: return E except T: return H -> py_try E "T" H
  raise T(...)   -> PErr "T"
'''
import ast
import os
import re


class TranslateError(Exception):
    pass


def coq_str(s):
    if not all(32 <= ord(c) < 127 for c in s):
        raise TranslateError(f'non-ascii string constant {s!r}')
    return '"' + s.replace('"', '""') + '"'


def coq_z(z):
    return f'({z})' if z < 0 else str(z)


_BINOPS = {ast.Add: 'py_add', ast.Sub: 'py_sub', ast.Mult: 'py_mul',
           ast.FloorDiv: 'py_floordiv', ast.Mod: 'py_mod'}
_CMPOPS = {ast.Eq: 'py_eq', ast.NotEq: 'py_ne', ast.Lt: 'py_lt', ast.LtE: 'py_le',
           ast.Gt: 'py_gt', ast.GtE: 'py_ge'}

# np.dtype(<arg>) forms that may appear in module constants
_DTYPE_ARGS = {
    'object': 'DObj', 'bool': 'DBool', 'float': 'DFlt 8', 'int': 'DInt true 8', 'str': 'DStr 0',
    'complex': 'DCplx 16',
    'np.float64': 'DFlt 8', 'np.int64': 'DInt true 8', 'np.bool_': 'DBool', 'np.object_': 'DObj',
    'np.uint8': 'DInt false 1', 'np.float16': 'DFlt 2', 'np.float32': 'DFlt 4',
}


class Module:
    '''A parsed source module: functions and (lazily evaluated) module-level constants.'''

    def __init__(self, path):
        self.path = path
        with open(path) as f:
            self.src = f.read()
        self.tree = ast.parse(self.src)
        self.assigns = {}
        self.funcs = {}
        for node in self.tree.body:
            if isinstance(node, ast.Assign) and len(node.targets) == 1 and isinstance(node.targets[0], ast.Name):
                self.assigns[node.targets[0].id] = node.value
            elif isinstance(node, ast.AnnAssign) and isinstance(node.target, ast.Name) and node.value is not None:
                self.assigns[node.target.id] = node.value
            elif isinstance(node, ast.FunctionDef):
                self.funcs[node.name] = node
            elif isinstance(node, ast.ClassDef):
                for sub in node.body:
                    if isinstance(sub, ast.FunctionDef):
                        self.funcs[f'{node.name}.{sub.name}'] = sub
                    elif isinstance(sub, ast.Assign) and len(sub.targets) == 1 and isinstance(sub.targets[0], ast.Name):
                        self.assigns[f'{node.name}.{sub.targets[0].id}'] = sub.value

    def const(self, name, depth=0):
        '''Gallina text of a module-level constant, or TranslateError.'''
        if depth > 8:
            raise TranslateError(f'constant {name}: resolution too deep')
        if name not in self.assigns:
            raise TranslateError(f'unknown name {name}')
        return self.const_expr(self.assigns[name], depth + 1)

    def const_expr(self, node, depth=0):
        if isinstance(node, ast.Constant):
            return const_literal(node.value)
        if isinstance(node, ast.Tuple) or isinstance(node, ast.List):
            return '(PSeq [' + '; '.join(self.const_expr(e, depth) for e in node.elts) + '])'
        if isinstance(node, ast.Name):
            return self.const(node.id, depth)
        if isinstance(node, ast.UnaryOp) and isinstance(node.op, ast.USub) and isinstance(node.operand, ast.Constant) \
                and isinstance(node.operand.value, int):
            return f'(PInt {coq_z(-node.operand.value)})'
        text = ast.unparse(node)
        if isinstance(node, ast.Call) and ast.unparse(node.func) == 'np.dtype' and len(node.args) == 1 and not node.keywords:
            arg = ast.unparse(node.args[0])
            if arg in _DTYPE_ARGS:
                return f'(PDtype ({_DTYPE_ARGS[arg]}))'
        if text in ('np.nan', 'np.NaN'):
            return '(PConst "nan")'
        if re.fullmatch(r"np\.datetime64\('nat'\)", text, flags=re.I):
            return '(PConst "NaT")'
        if re.fullmatch(r"np\.timedelta64\(0\)", text):
            return '(PConst "td0")'
        raise TranslateError(f'unsupported constant expression: {text}')


def const_literal(v):
    if v is None:
        return 'PNone'
    if v is True:
        return '(PBool true)'
    if v is False:
        return '(PBool false)'
    if isinstance(v, int):
        return f'(PInt {coq_z(v)})'
    if isinstance(v, str):
        return f'(PStr {coq_str(v)})'
    raise TranslateError(f'unsupported literal {v!r}')


class FuncTranslator:
    def __init__(self, module, fn, coq_name, helpers=None):
        self.m = module
        self.fn = fn
        self.coq_name = coq_name
        self.helpers = helpers or {}   # python callee text -> coq function name
        self.params = [a.arg for a in fn.args.args if a.arg not in ('self', 'cls')]
        if fn.args.vararg or fn.args.kwarg:
            raise TranslateError('varargs unsupported')
        if fn.args.kwonlyargs:
            self.params += [a.arg for a in fn.args.kwonlyargs]
        self.locals = set(self.params)

    def ident(self, name):
        # avoid Gallina keywords / clashes
        return f'v_{name}'

    # ---------------------------------------------------------------- expressions
    def expr(self, n):
        if isinstance(n, ast.Constant):
            return const_literal(n.value)
        if isinstance(n, ast.Name):
            if n.id in self.locals:
                return self.ident(n.id)
            return self.m.const(n.id)
        if isinstance(n, ast.BinOp):
            op = _BINOPS.get(type(n.op))
            if op is None:
                raise TranslateError(f'operator {type(n.op).__name__}')
            return f'({op} {self.expr(n.left)} {self.expr(n.right)})'
        if isinstance(n, ast.UnaryOp):
            if isinstance(n.op, ast.Not):
                return f'(py_not {self.expr(n.operand)})'
            if isinstance(n.op, ast.USub):
                if isinstance(n.operand, ast.Constant) and isinstance(n.operand.value, int):
                    return f'(PInt {coq_z(-n.operand.value)})'
                return f'(py_neg {self.expr(n.operand)})'
            raise TranslateError(f'unary {type(n.op).__name__}')
        if isinstance(n, ast.BoolOp):
            vals = [self.expr(v) for v in n.values]
            acc = vals[-1]
            for v in reversed(vals[:-1]):
                if isinstance(n.op, ast.Or):
                    acc = f'(let t := {v} in pif t then t else {acc})'
                else:
                    acc = f'(let t := {v} in pif t then {acc} else t)'
            return acc
        if isinstance(n, ast.Compare):
            if len(n.ops) != 1:
                raise TranslateError('chained comparison')
            op, left, right = n.ops[0], n.left, n.comparators[0]
            rtext = ast.unparse(right)
            if isinstance(op, (ast.Is, ast.IsNot)):
                if isinstance(right, ast.Constant) and right.value is None:
                    f = 'py_is_none' if isinstance(op, ast.Is) else 'py_is_not_none'
                    return f'({f} {self.expr(left)})'
                if rtext == 'np.bool_' and isinstance(left, ast.Attribute) and left.attr == 'type':
                    e = f'(py_dtype_is_bool {self.expr(left.value)})'
                    return e if isinstance(op, ast.Is) else f'(py_not {e})'
                raise TranslateError(f'`is` against {rtext}')
            if isinstance(op, (ast.In, ast.NotIn)):
                e = f'(py_in {self.expr(left)} {self.expr(right)})'
                return e if isinstance(op, ast.In) else f'(py_not {e})'
            f = _CMPOPS.get(type(op))
            if f is None:
                raise TranslateError(f'comparison {type(op).__name__}')
            return f'({f} {self.expr(left)} {self.expr(right)})'
        if isinstance(n, ast.IfExp):
            return f'(pif {self.expr(n.test)} then {self.expr(n.body)} else {self.expr(n.orelse)})'
        if isinstance(n, ast.Attribute):
            text = ast.unparse(n)
            if text in ('np.nan', 'np.NaN'):
                return '(PConst "nan")'
            if n.attr in ('start', 'stop', 'step', 'kind'):
                return f'(py_attr {coq_str(n.attr)} {self.expr(n.value)})'
            raise TranslateError(f'attribute {text}')
        if isinstance(n, ast.Subscript):
            return f'(py_index {self.expr(n.value)} {self.expr(n.slice)})'
        if isinstance(n, ast.Tuple):
            return '(PSeq [' + '; '.join(self.expr(e) for e in n.elts) + '])'
        if isinstance(n, ast.Call):
            if n.keywords:
                raise TranslateError('keyword arguments in call')
            f = ast.unparse(n.func)
            if f == 'isinstance' and len(n.args) == 2 and ast.unparse(n.args[1]) == 'np.dtype':
                return f'(py_isinstance_dtype {self.expr(n.args[0])})'
            args = [self.expr(a) for a in n.args]
            if f in ('abs', 'len') and len(args) == 1:
                return f'(py_{f} {args[0]})'
            if f in ('min', 'max') and len(args) == 2:
                return f'(py_{f} {args[0]} {args[1]})'
            if f == 'slice' and 1 <= len(args) <= 3:
                if len(args) == 1:
                    args = ['PNone', args[0], 'PNone']
                elif len(args) == 2:
                    args = args + ['PNone']
                return f'(py_slice {args[0]} {args[1]} {args[2]})'
            if f == 'np.result_type' and len(args) == 2:
                return f'(py_result_type {args[0]} {args[1]})'
            if f == 'isinstance' and len(n.args) == 2 and ast.unparse(n.args[1]) == 'np.dtype':
                return f'(py_isinstance_dtype {args[0]})'
            if f == 'np.dtype' and len(args) == 1:
                return f'(py_np_dtype {args[0]})'
            if f in self.helpers:
                return f'({self.helpers[f]} ' + ' '.join(args) + ')'
            raise TranslateError(f'call to {f}')
        raise TranslateError(f'expression {type(n).__name__}: {ast.unparse(n)}')

    # ---------------------------------------------------------------- statements
    def raise_expr(self, node):
        exc = node.exc
        if isinstance(exc, ast.Call):
            exc = exc.func
        if not isinstance(exc, ast.Name):
            raise TranslateError('raise of non-name')
        return f'(PErr {coq_str(exc.id)})'

    def block(self, stmts):
        '''Translate a statement list that must end every path in return/raise.'''
        if not stmts:
            # falling off the end of a function returns None
            return 'PNone'
        s, rest = stmts[0], stmts[1:]
        if isinstance(s, ast.Expr) and isinstance(s.value, ast.Constant) and isinstance(s.value.value, str):
            return self.block(rest)  # docstring
        if isinstance(s, ast.Return):
            return 'PNone' if s.value is None else self.expr(s.value)
        if isinstance(s, ast.Raise):
            return self.raise_expr(s)
        if isinstance(s, (ast.Assign, ast.AnnAssign)):
            if isinstance(s, ast.Assign):
                if len(s.targets) != 1:
                    raise TranslateError('multiple assignment targets')
                target = s.targets[0]
            else:
                target = s.target
                if s.value is None:
                    return self.block(rest)
            if not isinstance(target, ast.Name):
                raise TranslateError('assignment to non-name')
            value = self.expr(s.value)
            self.locals.add(target.id)
            return f'(let {self.ident(target.id)} := {value} in\n  {self.block(rest)})'
        if isinstance(s, ast.If):
            test = self.expr(s.test)
            saved = set(self.locals)
            a = self.block(list(s.body) + rest)
            self.locals = set(saved)
            b = self.block(list(s.orelse) + rest)
            self.locals = saved | self.locals
            return f'(pif {test}\n  then {a}\n  else {b})'
        if isinstance(s, ast.Try):
            if (len(s.body) == 1 and isinstance(s.body[0], ast.Return) and len(s.handlers) == 1
                    and isinstance(s.handlers[0].type, ast.Name) and not s.orelse and not s.finalbody):
                body = self.expr(s.body[0].value)
                h = self.block(list(s.handlers[0].body) + rest)
                return f'(py_try {body} {coq_str(s.handlers[0].type.id)} {h})'
            raise TranslateError('unsupported try form')
        raise TranslateError(f'statement {type(s).__name__}: {ast.unparse(s)[:60]}')

    def definition(self):
        body = self.block(list(self.fn.body))
        params = ' '.join(self.ident(p) for p in self.params)
        sig = f'({params} : pv) ' if params else ''
        return f'Definition {self.coq_name} {sig}: pv :=\n  {body}.\n'


HEADER = '''(* GENERATED by tools/sfv/py2v.py from {src} -- do not edit; regenerated on every run. *)
Require Import SF.Prelude SF.PySlice SF.Dtype SF.PyDyn.
Local Open Scope string_scope.
Local Open Scope Z_scope.

'''


def translate_targets(repo, targets):
    '''targets: list of dicts {module, function|constant, coq}.  Returns
    (text_by_outfile: {outfile: text}, broken: [(target, reason)]).  A broken target gets no
    definition, so everything that depends on it fails to compile (fail closed).'''
    modules = {}
    out = {}
    broken = []
    for t in targets:
        path = os.path.join(repo, t['module'])
        outfile = t['out']
        out.setdefault(outfile, HEADER.format(src='/repo/' + '+'.join(sorted({x['module'] for x in targets if x['out'] == outfile}))))
        try:
            if path not in modules:
                modules[path] = Module(path)
            m = modules[path]
            if 'constant' in t:
                text = f'Definition {t["coq"]} : pv := {m.const(t["constant"])}.\n'
            else:
                if t['function'] not in m.funcs:
                    raise TranslateError(f'function {t["function"]} not found')
                ft = FuncTranslator(m, m.funcs[t['function']], t['coq'], helpers=t.get('helpers'))
                text = ft.definition()
            out[outfile] += f'(* {t["module"]}: {t.get("function") or t.get("constant")} *)\n{text}\n'
        except (TranslateError, SyntaxError, OSError) as e:
            broken.append((t, f'{type(e).__name__}: {e}'))
            out[outfile] += f'(* BROKEN translation of {t.get("function") or t.get("constant")}: {e} *)\n\n'
    return out, broken
